package lexgen

import (
	"strings"
	"unicode"
	"unicode/utf8"

	"github.com/ajitpratap0/GoSQLX/pkg/models"
)

// RefTok is a token of the reference lexer.
type RefTok struct {
	Class    string   // kw ident qident btident num str gstr tstr dstr ph op
	Exp      []Expect // acceptable readings
	Fold     bool
	Off, End int
	Feature  string // input-independent tag of a rarely exercised construct inside the token (uquote-inside, esc-u)
}

// Sig is the coarse signature name of the token.
func (t RefTok) Sig() string {
	s := t.Class
	if t.Class == "op" {
		s = "op:" + t.Exp[0].Value
	}
	if t.Feature != "" {
		s = "literal+" + t.Feature
	}
	return s
}

func isUQuote(r rune) bool {
	return r == '‘' || r == '’' || r == '«' || r == '»' || r == '“' || r == '”'
}

// RefComment is a comment found by the reference lexer.  Text excludes the line
// terminator of a line comment.
type RefComment struct {
	Text     string
	Line     bool
	Off, End int
}

// RefErr says the input is not lexically valid.
type RefErr struct {
	Kind string // unterminated:string | unterminated:quoted-ident | unterminated:backtick | unterminated:dollar-quote | unterminated:block-comment | badchar
	Off  int    // offset of the opening delimiter / the offending byte
}

// RefResult is the verdict of the reference lexer.
type RefResult struct {
	Toks     []RefTok
	Comments []RefComment
	Err      *RefErr
	Ambig    string // non-empty: more than one reading is defensible here; nothing is asserted
}

func isIdentStart(r rune) bool { return r == '_' || unicode.IsLetter(r) }

// "Unicode identifiers: letters, digits, combining marks"
func isIdentPart(r rune) bool {
	return r == '_' || unicode.IsLetter(r) || unicode.IsDigit(r) || unicode.Is(unicode.Mn, r) || unicode.Is(unicode.Mc, r) || unicode.Is(unicode.Pc, r)
}

func isDigit(b byte) bool { return b >= '0' && b <= '9' }

// quote classes ("Unicode quotes: “ ” ‘ ’ « » (normalized to ASCII)")
func singleClass(r rune) bool {
	return r == '\'' || r == '‘' || r == '’' || r == '«' || r == '»'
}
func doubleClass(r rune) bool { return r == '"' || r == '“' || r == '”' }

var opsByLen []string

func buildOps() {
	// longest first
	for n := 3; n >= 1; n-- {
		for _, op := range opOrder {
			if len(op) == n {
				opsByLen = append(opsByLen, op)
			}
		}
	}
}

// RefLex lexes an input by maximal munch over the documented lexical grammar.
func RefLex(in string) RefResult {
	var res RefResult
	i := 0
	n := len(in)
	ambig := func(why string) RefResult { res.Ambig = why; return res }
	fail := func(kind string, off int) RefResult { res.Err = &RefErr{Kind: kind, Off: off}; return res }
	for i < n {
		c := in[i]
		if c == ' ' || c == '\t' || c == '\n' || c == '\r' {
			i++
			continue
		}
		if strings.HasPrefix(in[i:], "--") {
			j := strings.IndexByte(in[i:], '\n')
			end := n
			if j >= 0 {
				end = i + j
			}
			res.Comments = append(res.Comments, RefComment{Text: in[i:end], Line: true, Off: i, End: end})
			i = end
			continue
		}
		if strings.HasPrefix(in[i:], "/*") {
			j := strings.Index(in[i+2:], "*/")
			if j < 0 {
				return fail("unterminated:block-comment", i)
			}
			end := i + 2 + j + 2
			if strings.Contains(in[i+2:end-2], "/*") {
				return ambig("nested block comment")
			}
			res.Comments = append(res.Comments, RefComment{Text: in[i:end], Off: i, End: end})
			i = end
			continue
		}
		r, sz := utf8.DecodeRuneInString(in[i:])
		if r == utf8.RuneError && sz <= 1 {
			return fail("badchar", i)
		}
		switch {
		case isIdentStart(r):
			j := i + sz
			for j < n {
				r2, s2 := utf8.DecodeRuneInString(in[j:])
				if r2 == utf8.RuneError && s2 <= 1 {
					break
				}
				if !isIdentPart(r2) {
					break
				}
				j += s2
			}
			if j < n {
				r2, _ := utf8.DecodeRuneInString(in[j:])
				if r2 == '$' {
					return ambig("identifier followed by $") // PostgreSQL identifiers may contain $
				}
				if singleClass(r2) {
					return ambig("identifier followed by a quote") // N'..' E'..' B'..' X'..' string prefixes
				}
			}
			word := in[i:j]
			up := strings.ToUpper(word)
			if _, ok := kwSpecific[up]; ok || isRefKeyword(up) {
				res.Toks = append(res.Toks, RefTok{Class: "kw", Fold: true, Off: i, End: j, Exp: []Expect{{Kinds: KeywordKinds(up), Value: word}}})
			} else {
				res.Toks = append(res.Toks, RefTok{Class: "ident", Off: i, End: j, Exp: []Expect{{Kinds: kIdent, Value: word}}})
			}
			i = j
		case c >= '0' && c <= '9':
			j := i
			for j < n && isDigit(in[j]) {
				j++
			}
			if j < n && in[j] == '.' {
				if j+1 < n && isDigit(in[j+1]) {
					j++
					for j < n && isDigit(in[j]) {
						j++
					}
				} else {
					return ambig("number followed by a dot") // "1." is a number in some grammars
				}
			}
			if j < n && (in[j] == 'e' || in[j] == 'E') {
				k := j + 1
				if k < n && (in[k] == '+' || in[k] == '-') {
					k++
				}
				if k < n && isDigit(in[k]) {
					for k < n && isDigit(in[k]) {
						k++
					}
					j = k
				} else {
					return ambig("number followed by e without exponent")
				}
			}
			if j < n {
				r2, s2 := utf8.DecodeRuneInString(in[j:])
				if !(r2 == utf8.RuneError && s2 <= 1) && (isIdentPart(r2) || r2 == '.' || r2 == '$') {
					return ambig("number followed by identifier character, dot or $")
				}
			}
			res.Toks = append(res.Toks, RefTok{Class: "num", Off: i, End: j, Exp: []Expect{{Kinds: kNum, Value: in[i:j]}}})
			i = j
		case singleClass(r):
			tok, end, err, amb := refString(in, i)
			if amb != "" {
				return ambig(amb)
			}
			if err != "" {
				return fail(err, i)
			}
			res.Toks = append(res.Toks, tok)
			i = end
		case doubleClass(r):
			if strings.HasPrefix(in[i:], `"""`) {
				return ambig("triple double quote")
			}
			var sb strings.Builder
			j := i + sz
			closed := false
			nl := false
			feat := ""
			for j < n {
				r2, s2 := utf8.DecodeRuneInString(in[j:])
				if doubleClass(r2) {
					if j+s2 < n {
						r3, s3 := utf8.DecodeRuneInString(in[j+s2:])
						if doubleClass(r3) {
							if r2 != '"' || r3 != '"' {
								return ambig("doubled Unicode quote")
							}
							sb.WriteByte('"')
							j += s2 + s3
							continue
						}
					}
					j += s2
					closed = true
					break
				}
				if r2 == '\\' {
					return ambig("backslash in quoted identifier")
				}
				if r2 == '\n' {
					nl = true
				}
				if r2 == utf8.RuneError && s2 <= 1 {
					return ambig("invalid UTF-8 in quoted identifier")
				}
				if isUQuote(r2) {
					feat = "uquote-inside"
				}
				sb.WriteString(in[j : j+s2])
				j += s2
			}
			if !closed {
				return fail("unterminated:quoted-ident", i)
			}
			if nl {
				return ambig("newline in quoted identifier")
			}
			if sb.Len() == 0 {
				return ambig("empty quoted identifier")
			}
			res.Toks = append(res.Toks, RefTok{Class: "qident", Off: i, End: j, Feature: feat, Exp: []Expect{{Kinds: kQIdent, Value: sb.String()}}})
			i = j
		case c == '`':
			var sb strings.Builder
			j := i + 1
			closed := false
			for j < n {
				if in[j] == '`' {
					if j+1 < n && in[j+1] == '`' {
						sb.WriteByte('`')
						j += 2
						continue
					}
					j++
					closed = true
					break
				}
				sb.WriteByte(in[j])
				j++
			}
			if !closed {
				return fail("unterminated:backtick", i)
			}
			v := sb.String()
			if strings.ContainsAny(v, "\n\\") || !utf8.ValidString(v) || v == "" {
				return ambig("newline, backslash, invalid UTF-8 or nothing in backtick identifier")
			}
			res.Toks = append(res.Toks, RefTok{Class: "btident", Off: i, End: j, Exp: []Expect{{Kinds: kBtIdent, Value: v}}})
			i = j
		case c == '$':
			j := i + 1
			if j < n && isDigit(in[j]) {
				for j < n && isDigit(in[j]) {
					j++
				}
				if j < n {
					r2, s2 := utf8.DecodeRuneInString(in[j:])
					if !(r2 == utf8.RuneError && s2 <= 1) && (isIdentPart(r2) || r2 == '$') {
						return ambig("positional parameter followed by identifier character or $")
					}
				}
				res.Toks = append(res.Toks, RefTok{Class: "ph", Off: i, End: j, Exp: []Expect{{Kinds: kPlace, Value: in[i:j]}}})
				i = j
				break
			}
			// $tag$ ... $tag$
			k := j
			if k < n {
				r2, s2 := utf8.DecodeRuneInString(in[k:])
				if isIdentStart(r2) {
					k += s2
					for k < n {
						r3, s3 := utf8.DecodeRuneInString(in[k:])
						if r3 == utf8.RuneError && s3 <= 1 {
							break
						}
						if !isIdentPart(r3) {
							break
						}
						k += s3
					}
				}
			}
			if k >= n || in[k] != '$' {
				return ambig("$ that starts neither a parameter nor a dollar-quote tag")
			}
			tag := in[i : k+1]
			body := k + 1
			m := strings.Index(in[body:], tag)
			if m < 0 {
				return fail("unterminated:dollar-quote", i)
			}
			end := body + m + len(tag)
			if end < n {
				r2, s2 := utf8.DecodeRuneInString(in[end:])
				if !(r2 == utf8.RuneError && s2 <= 1) && isIdentPart(r2) && len(tag) > 2 {
					// $t$x$t$a : is the closing tag "$t$" or does "$t$a" continue?  PostgreSQL says the former;
					// nothing is asserted.
					return ambig("dollar-quote closing tag followed by identifier character")
				}
			}
			res.Toks = append(res.Toks, RefTok{Class: "dstr", Off: i, End: end, Exp: []Expect{{Kinds: kDStr, Value: in[body : body+m]}}})
			i = end
		case c == '@' && i+1 < n && func() bool { r2, _ := utf8.DecodeRuneInString(in[i+1:]); return isIdentStart(r2) }():
			j := i + 1
			for j < n {
				r2, s2 := utf8.DecodeRuneInString(in[j:])
				if r2 == utf8.RuneError && s2 <= 1 {
					break
				}
				if !isIdentPart(r2) {
					break
				}
				j += s2
			}
			if j < n && (in[j] == '$' || in[j] == '\'') {
				return ambig("parameter followed by $ or quote")
			}
			res.Toks = append(res.Toks, RefTok{Class: "ph", Off: i, End: j, Exp: []Expect{{Kinds: kPlace, Value: in[i:j]}}})
			i = j
		default:
			if c == '.' && i+1 < n && isDigit(in[i+1]) {
				return ambig("dot followed by digit") // ".5" is a number in most grammars
			}
			for _, f := range foreignOps {
				if strings.HasPrefix(in[i:], f) {
					return ambig("operator spelling " + f + " not documented by the tokenizer")
				}
			}
			matched := ""
			for _, op := range opsByLen {
				if strings.HasPrefix(in[i:], op) {
					matched = op
					break
				}
			}
			if matched == "" {
				return fail("badchar", i)
			}
			res.Toks = append(res.Toks, RefTok{Class: "op", Off: i, End: i + len(matched), Exp: []Expect{{Kinds: opKinds[matched], Value: matched}}})
			i += len(matched)
		}
	}
	return res
}

// isRefKeyword: words outside kwSpecific that the catalogue treats as keywords (none today).
func isRefKeyword(up string) bool { return false }

// refString reads a single-quoted string ('…', ‘…’, «…») starting at i.
func refString(in string, i int) (tok RefTok, end int, err string, ambig string) {
	n := len(in)
	open, sz := utf8.DecodeRuneInString(in[i:])
	if strings.HasPrefix(in[i:], "'''") {
		// two documented readings: triple-quoted string, or a string that starts with a doubled quote
		tEnd := strings.Index(in[i+3:], "'''")
		std, stdEnd, serr, samb := refStringStd(in, i, open, sz)
		if samb != "" {
			return tok, 0, "", samb
		}
		if tEnd < 0 || serr != "" || i+3+tEnd+3 != stdEnd {
			return tok, 0, "", "''' : triple-quote and doubled-quote readings disagree"
		}
		body := in[i+3 : i+3+tEnd]
		if strings.ContainsAny(body, "'\\") {
			return tok, 0, "", "quote or backslash inside triple-quoted string"
		}
		return RefTok{Class: "tstr", Off: i, End: stdEnd, Exp: []Expect{{Kinds: kTStr, Value: body}, {Kinds: kStr, Value: std}}}, stdEnd, "", ""
	}
	v, e, serr, samb := refStringStd(in, i, open, sz)
	if samb != "" || serr != "" {
		return tok, 0, serr, samb
	}
	_ = n
	feat := ""
	for _, r := range v {
		if isUQuote(r) {
			feat = "uquote-inside"
		}
	}
	if escU {
		feat = "esc-u"
	}
	if open == '«' || open == '»' {
		return RefTok{Class: "gstr", Off: i, End: e, Feature: feat, Exp: []Expect{{Kinds: kGStr, Value: v}}}, e, "", ""
	}
	return RefTok{Class: "str", Off: i, End: e, Feature: feat, Exp: []Expect{{Kinds: kStr, Value: v}}}, e, "", ""
}

var escU bool // set by refStringStd: the string just read used a \\u escape

func refStringStd(in string, i int, open rune, sz int) (value string, end int, err string, ambig string) {
	escU = false
	n := len(in)
	var sb strings.Builder
	j := i + sz
	for j < n {
		r, s := utf8.DecodeRuneInString(in[j:])
		if singleClass(r) {
			if j+s < n {
				r2, s2 := utf8.DecodeRuneInString(in[j+s:])
				if singleClass(r2) {
					if r != '\'' || r2 != '\'' {
						return "", 0, "", "doubled Unicode quote"
					}
					sb.WriteByte('\'')
					j += s + s2
					continue
				}
			}
			if (open == '\'') != (r == '\'') {
				return "", 0, "", "ASCII quote closed by Unicode quote or vice versa"
			}
			return sb.String(), j + s, "", ""
		}
		if r == '\\' {
			if j+1 >= n {
				return "", 0, "unterminated:string", ""
			}
			e := in[j+1]
			switch e {
			case '\\', '\'', '"':
				sb.WriteByte(e)
				j += 2
			case 'n':
				sb.WriteByte('\n')
				j += 2
			case 'r':
				sb.WriteByte('\r')
				j += 2
			case 't':
				sb.WriteByte('\t')
				j += 2
			case 'u':
				if j+6 <= n && isHex4(in[j+2:j+6]) {
					var v rune
					for _, h := range in[j+2 : j+6] {
						v = v*16 + hexVal(h)
					}
					sb.WriteRune(v)
					escU = true
					j += 6
				} else {
					return "", 0, "", "malformed \\u escape"
				}
			default:
				// standard SQL keeps a backslash literally, the tokenizer documents a closed list of escapes
				return "", 0, "", "backslash escape outside the documented list"
			}
			continue
		}
		if r == utf8.RuneError && s <= 1 {
			return "", 0, "", "invalid UTF-8 in string"
		}
		sb.WriteString(in[j : j+s])
		j += s
	}
	return "", 0, "unterminated:string", ""
}

func isHex4(s string) bool {
	if len(s) != 4 {
		return false
	}
	for _, c := range s {
		if !(c >= '0' && c <= '9' || c >= 'a' && c <= 'f' || c >= 'A' && c <= 'F') {
			return false
		}
	}
	return true
}

func hexVal(c rune) rune {
	switch {
	case c >= '0' && c <= '9':
		return c - '0'
	case c >= 'a' && c <= 'f':
		return c - 'a' + 10
	}
	return c - 'A' + 10
}

var _ = models.TokenTypeEOF
