package lexgen

import (
	"context"
	stderrors "errors"
	"fmt"
	"strings"

	gerrors "github.com/ajitpratap0/GoSQLX/pkg/errors"
	"github.com/ajitpratap0/GoSQLX/pkg/models"
	"github.com/ajitpratap0/GoSQLX/pkg/sql/tokenizer"
)

// Run is what the real tokenizer did with one input.
type Run struct {
	Toks     []models.TokenWithSpan
	Comments []models.Comment
	Err      error
	Code     string          // structured error code, "" if the error is not a structured one
	Loc      models.Location // location carried by the error
}

// Tokenize runs the real tokenizer (a fresh instance per input, so that no case depends
// on what an earlier case left behind; reuse is property C08).
func Tokenize(text string) Run {
	tk, err := tokenizer.New()
	if err != nil {
		return Run{Err: err}
	}
	toks, err := tk.Tokenize([]byte(text))
	r := Run{Toks: toks, Err: err}
	r.Comments = append(r.Comments, tk.Comments...)
	if err != nil {
		r.Code, r.Loc, _ = ErrInfo(err)
	}
	return r
}

// ErrInfo extracts the structured code and location of a library error.
func ErrInfo(err error) (code string, loc models.Location, ok bool) {
	var ge *gerrors.Error
	if stderrors.As(err, &ge) && ge != nil {
		return string(ge.Code), ge.Location, true
	}
	return "", models.Location{}, false
}

// Obs is one lexical element observed, after expanding compound-keyword tokens
// ("GROUP BY" as one token) into their words the way the parser's converter does.
type Obs struct {
	Type   models.TokenType
	Value  string
	Tok    int // index of the token it came from
	Part   int
	Parts  int
	Phrase string // upper-case phrase of a compound token
}

// Expand drops the end markers and expands compound keyword tokens.  It returns the
// indices of the EOF tokens separately.
func Expand(toks []models.TokenWithSpan) (obs []Obs, eofs []int) {
	for i, t := range toks {
		if t.Token.Type == models.TokenTypeEOF {
			eofs = append(eofs, i)
			continue
		}
		if IsKeywordKind(t.Token.Type) && strings.Contains(t.Token.Value, " ") {
			words := strings.Split(t.Token.Value, " ")
			for p, w := range words {
				obs = append(obs, Obs{Type: t.Token.Type, Value: w, Tok: i, Part: p, Parts: len(words), Phrase: strings.ToUpper(t.Token.Value)})
			}
			continue
		}
		obs = append(obs, Obs{Type: t.Token.Type, Value: t.Token.Value, Tok: i, Parts: 1})
	}
	return
}

func hasKind(ks []models.TokenType, t models.TokenType) bool {
	for _, k := range ks {
		if k == t {
			return true
		}
	}
	return false
}

// MatchExp compares one observed element with the acceptable readings of an expectation.
func MatchExp(o Obs, exp []Expect, fold, isKw bool) (kindOK, valueOK bool) {
	if o.Parts > 1 {
		if !isKw {
			return false, false
		}
		kindOK = hasKind(CompoundKinds(o.Phrase), o.Type)
		valueOK = strings.EqualFold(o.Value, exp[0].Value)
		return
	}
	for _, e := range exp {
		if hasKind(e.Kinds, o.Type) {
			kindOK = true
			if o.Value == e.Value || (fold && strings.EqualFold(o.Value, e.Value)) {
				return true, true
			}
		}
	}
	return kindOK, false
}

// Diff is the first divergence between the observed elements and the expected ones.
type Diff struct {
	What string // kind | value | missing | extra
	Idx  int    // index of the expected lexeme (for "extra": the last one)
	Msg  string
}

// Want is an expected element (from the catalogue or from the reference lexer).
type Want struct {
	Sig   string
	Class string
	Exp   []Expect
	Fold  bool
}

// Wants returns the expectations of a generated input.
func (in *Input) Wants() []Want {
	var w []Want
	for i := range in.Lexes {
		l := in.Lexeme(i).Lex
		w = append(w, Want{Sig: l.Sig, Class: l.Class, Exp: l.Exp, Fold: l.Fold})
	}
	return w
}

// RefWants returns the expectations the reference lexer derives for an arbitrary text.
func RefWants(r RefResult) []Want {
	var w []Want
	for _, t := range r.Toks {
		w = append(w, Want{Sig: t.Sig(), Class: t.Class, Exp: t.Exp, Fold: t.Fold})
	}
	return w
}

// Compare finds the first divergence between observation and expectation.
func Compare(want []Want, obs []Obs) *Diff {
	for i, w := range want {
		if i >= len(obs) {
			return &Diff{What: "missing", Idx: i, Msg: fmt.Sprintf("element %d (%s, value %q) is missing from the token stream", i, w.Sig, w.Exp[0].Value)}
		}
		k, v := MatchExp(obs[i], w.Exp, w.Fold, w.Class == "kw")
		if !k {
			return &Diff{What: "kind", Idx: i, Msg: fmt.Sprintf("element %d (%s): kind %s (%d) value %q, want kind in %v value %q", i, w.Sig, obs[i].Type, int(obs[i].Type), obs[i].Value, kindNames(w.Exp), w.Exp[0].Value)}
		}
		if !v {
			return &Diff{What: "value", Idx: i, Msg: fmt.Sprintf("element %d (%s): value %q, want %q", i, w.Sig, obs[i].Value, w.Exp[0].Value)}
		}
	}
	if len(obs) > len(want) {
		o := obs[len(want)]
		return &Diff{What: "extra", Idx: len(want) - 1, Msg: fmt.Sprintf("extra element %d: kind %s value %q", len(want), o.Type, o.Value)}
	}
	return nil
}

func kindNames(exp []Expect) []string {
	var out []string
	for _, e := range exp {
		for _, k := range e.Kinds {
			out = append(out, k.String())
		}
	}
	return out
}

// CanonKey is the (kind, value) of an element in the normal form used to compare two
// renderings of the same lexemes: keyword kinds are mapped to the kind of the single
// word (what the parser's converter produces for generic and compound keyword tokens),
// keyword values are case-folded.
func CanonKey(o Obs) string {
	if IsKeywordKind(o.Type) {
		up := strings.ToUpper(o.Value)
		t := o.Type
		if s, ok := kwSpecific[up]; ok {
			t = s
		}
		return fmt.Sprintf("%d:%s", int(t), up)
	}
	t := o.Type
	switch t {
	case models.TokenTypeString:
		t = models.TokenTypeSingleQuotedString
	case models.TokenTypeAsterisk:
		t = models.TokenTypeMul
	case models.TokenTypeDoublePipe:
		t = models.TokenTypeStringConcat
	}
	return fmt.Sprintf("%d:%s", int(t), o.Value)
}

// CanonSeq renders a whole observation in the normal form.
func CanonSeq(obs []Obs) string {
	var sb strings.Builder
	for _, o := range obs {
		sb.WriteString(CanonKey(o))
		sb.WriteByte('\x1f')
	}
	return sb.String()
}

// Describe prints tokens for failure messages.
func Describe(toks []models.TokenWithSpan) string {
	var sb strings.Builder
	for i, t := range toks {
		if i > 0 {
			sb.WriteString(" ")
		}
		fmt.Fprintf(&sb, "%s(%q)@%d:%d-%d:%d", t.Token.Type, t.Token.Value, t.Start.Line, t.Start.Column, t.End.Line, t.End.Column)
		if i > 12 {
			sb.WriteString(" …")
			break
		}
	}
	return sb.String()
}

// LocLE reports a <= b in source order.
func LocLE(a, b models.Location) bool {
	return a.Line < b.Line || (a.Line == b.Line && a.Column <= b.Column)
}

var shared *tokenizer.Tokenizer

// TokenizeShared runs the real tokenizer on one instance that is reused for the whole
// worker process (Tokenize resets it first).  Checks use it for speed and confirm every
// failure with a fresh instance (Tokenize) before reporting it.
func TokenizeShared(text string) Run {
	if shared == nil {
		tk, err := tokenizer.New()
		if err != nil {
			return Run{Err: err}
		}
		shared = tk
	}
	toks, err := shared.Tokenize([]byte(text))
	r := Run{Toks: toks, Err: err}
	r.Comments = append(r.Comments, shared.Comments...)
	if err != nil {
		r.Code, r.Loc, _ = ErrInfo(err)
	}
	return r
}

var sharedCtx *tokenizer.Tokenizer

// TokenizeContextShared is TokenizeShared through the second documented entry point,
// Tokenizer.TokenizeContext (its loop is a copy of Tokenize's, so it is observed separately).
func TokenizeContextShared(text string) Run {
	if sharedCtx == nil {
		tk, err := tokenizer.New()
		if err != nil {
			return Run{Err: err}
		}
		sharedCtx = tk
	}
	return runCtx(sharedCtx, text)
}

// TokenizeContext runs TokenizeContext on a fresh instance.
func TokenizeContext(text string) Run {
	tk, err := tokenizer.New()
	if err != nil {
		return Run{Err: err}
	}
	return runCtx(tk, text)
}

func runCtx(tk *tokenizer.Tokenizer, text string) Run {
	toks, err := tk.TokenizeContext(context.Background(), []byte(text))
	r := Run{Toks: toks, Err: err}
	r.Comments = append(r.Comments, tk.Comments...)
	if err != nil {
		r.Code, r.Loc, _ = ErrInfo(err)
	}
	return r
}

// SameRun reports whether two runs observed the same thing (tokens with kinds, values,
// quotes and spans; comments; error code and location).
func SameRun(a, b Run) bool {
	if (a.Err == nil) != (b.Err == nil) || a.Code != b.Code || a.Loc != b.Loc || len(a.Toks) != len(b.Toks) || len(a.Comments) != len(b.Comments) {
		return false
	}
	for i := range a.Toks {
		x, y := a.Toks[i], b.Toks[i]
		if x.Start != y.Start || x.End != y.End || x.Token.Type != y.Token.Type || x.Token.Value != y.Token.Value || x.Token.Quote != y.Token.Quote {
			return false
		}
	}
	for i := range a.Comments {
		if a.Comments[i] != b.Comments[i] {
			return false
		}
	}
	return true
}

// FromRef turns an arbitrary text and the reference lexer's reading of it into an Input
// with the same bookkeeping as a generated one (items, gaps), so that the oracles written
// for generated inputs apply to it.
func FromRef(text string, r RefResult) *Input {
	b := NewBuilder()
	ti, ci, pos := 0, 0, 0
	for ti < len(r.Toks) || ci < len(r.Comments) {
		if ci < len(r.Comments) && (ti >= len(r.Toks) || r.Comments[ci].Off < r.Toks[ti].Off) {
			c := r.Comments[ci]
			ci++
			end := c.End
			if c.Line && strings.HasSuffix(c.Text, "\r") {
				end-- // keep the \r of a CRLF terminator out of the comment, as the generator does
			}
			b.Space(text[pos:c.Off])
			b.Comment(text[c.Off:end], c.Line)
			pos = end
			continue
		}
		t := r.Toks[ti]
		ti++
		if t.Off > pos {
			b.Space(text[pos:t.Off])
			b.gapNames = append(b.gapNames, "ws")
		}
		l := &Lexeme{Name: t.Sig(), Sig: t.Sig(), Class: t.Class, Text: text[t.Off:t.End], Exp: t.Exp, Fold: t.Fold}
		b.Lex(l)
		pos = t.End
	}
	b.Space(text[pos:])
	return b.Input()
}
