package lexgen

import (
	"fmt"
	"strings"
)

// Piece is one part of a separator: white space or a comment.
type Piece struct {
	Text    string // white space text, or a comment template containing %d
	Comment bool
	Line    bool // line comment (the terminating newline is a separate white-space piece)
}

// Sep is a separator class.
type Sep struct {
	Name   string
	Pieces []Piece
}

// HasComment reports whether the separator contains a comment.
func (s Sep) HasComment() bool {
	for _, p := range s.Pieces {
		if p.Comment {
			return true
		}
	}
	return false
}

var (
	SepNone  = Sep{Name: "none"}
	SepSpace = Sep{Name: "sp", Pieces: []Piece{{Text: " "}}}
	SepTab   = Sep{Name: "tab", Pieces: []Piece{{Text: "\t"}}}
	SepNL    = Sep{Name: "nl", Pieces: []Piece{{Text: "\n"}}}
	SepCRLF  = Sep{Name: "crlf", Pieces: []Piece{{Text: "\r\n"}}}
	SepLC    = Sep{Name: "lc", Pieces: []Piece{{Text: "--c%d", Comment: true, Line: true}, {Text: "\n"}}}
	SepBC    = Sep{Name: "bc", Pieces: []Piece{{Text: "/*c%d*/", Comment: true}}}
	// SepLCEOF is a line comment ended by the end of the input; only legal as the last thing of an input.
	SepLCEOF = Sep{Name: "lc-eof", Pieces: []Piece{{Text: "--c%d", Comment: true, Line: true}}}
)

// BasicSeps are the single separator classes (without "none").
func BasicSeps() []Sep { return []Sep{SepSpace, SepTab, SepNL, SepCRLF, SepLC, SepBC} }

// Join concatenates two separators into a pair class.
func Join(a, b Sep) Sep {
	return Sep{Name: a.Name + "+" + b.Name, Pieces: append(append([]Piece{}, a.Pieces...), b.Pieces...)}
}

// AllSeps returns none, the six single classes and their 36 ordered pairs.
func AllSeps() []Sep {
	out := []Sep{SepNone}
	out = append(out, BasicSeps()...)
	for _, a := range BasicSeps() {
		for _, b := range BasicSeps() {
			out = append(out, Join(a, b))
		}
	}
	return out
}

// Item is something placed in an input.
type Item struct {
	Kind     int // ILex, IComment, IRaw
	Lex      *Lexeme
	Text     string
	Line     bool // line comment
	Off, End int
}

const (
	ILex = iota
	IComment
	IRaw
)

// Gap describes what lies between a lexeme and the previous lexeme (or the start of the input).
type Gap struct {
	Name       string // separator class name(s)
	Empty      bool
	Comment    bool
	Newline    bool
	Tab        bool
	FirstCmt   int  // index into Input.Items of the first comment of the gap, -1 if none
	BlankLine  bool // two or more line breaks
	AfterMulti bool // previous lexeme spans lines
	First      bool // nothing but the gap precedes
}

// Context is a coarse, input-independent name of the gap, used in signatures.
func (g Gap) Context() string {
	switch {
	case g.Comment:
		return "after-comment"
	case g.BlankLine:
		return "after-blank-line"
	case g.AfterMulti:
		return "after-multiline-literal"
	case g.Newline:
		return "after-newline"
	case g.Tab:
		return "after-tab"
	case g.Empty && g.First:
		return "first"
	case g.Empty:
		return "adjacent"
	}
	return "after-space"
}

// Input is a generated input together with what the generator knows about it.
type Input struct {
	Text   string
	Items  []Item
	Lexes  []int // indices of the lexeme items
	Cmts   []int // indices of the comment items
	Gaps   []Gap // one per lexeme
	Trail  Gap   // what follows the last lexeme
	Raw    bool  // contains raw bytes (hostile bytes): no catalogue expectation for the whole input
	starts []int // byte offsets of line starts
}

// Builder assembles an input.
type Builder struct {
	sb       strings.Builder
	items    []Item
	nc       int
	gapNames []string
	gap      Gap
	gaps     []Gap
	raw      bool
}

// NewBuilder returns an empty builder.
func NewBuilder() *Builder {
	return &Builder{gap: Gap{FirstCmt: -1, First: true}}
}

// Sep places a separator.
func (b *Builder) Sep(s Sep) *Builder {
	if len(s.Pieces) > 0 {
		b.gapNames = append(b.gapNames, s.Name)
	}
	for _, p := range s.Pieces {
		if p.Comment {
			b.nc++
			b.Comment(fmt.Sprintf(p.Text, b.nc), p.Line)
		} else {
			b.Space(p.Text)
		}
	}
	return b
}

// Space places white space.
func (b *Builder) Space(ws string) *Builder {
	if strings.Contains(ws, "\n") {
		if b.gap.Newline || strings.Count(ws, "\n") > 1 {
			b.gap.BlankLine = true
		}
		b.gap.Newline = true
	}
	if strings.Contains(ws, "\t") {
		b.gap.Tab = true
	}
	b.sb.WriteString(ws)
	return b
}

// Comment places a comment with the given exact text.
func (b *Builder) Comment(text string, line bool) *Builder {
	off := b.sb.Len()
	b.sb.WriteString(text)
	if b.gap.FirstCmt < 0 {
		b.gap.FirstCmt = len(b.items)
	}
	b.gap.Comment = true
	if strings.Contains(text, "\n") {
		b.gap.Newline = true
	}
	b.items = append(b.items, Item{Kind: IComment, Text: text, Line: line, Off: off, End: b.sb.Len()})
	return b
}

// Lex places a lexeme.
func (b *Builder) Lex(l *Lexeme) *Builder {
	off := b.sb.Len()
	b.sb.WriteString(l.Text)
	g := b.gap
	g.Name = strings.Join(b.gapNames, "+")
	if g.Name == "" {
		g.Name = "none"
	}
	g.Empty = !g.Comment && !g.Newline && !g.Tab && len(b.gapNames) == 0
	b.gaps = append(b.gaps, g)
	b.items = append(b.items, Item{Kind: ILex, Lex: l, Text: l.Text, Off: off, End: b.sb.Len()})
	b.gap = Gap{FirstCmt: -1, AfterMulti: l.Multiline()}
	b.gapNames = nil
	return b
}

// Raw places bytes the catalogue knows nothing about.
func (b *Builder) Raw(s string) *Builder {
	off := b.sb.Len()
	b.sb.WriteString(s)
	b.items = append(b.items, Item{Kind: IRaw, Text: s, Off: off, End: b.sb.Len()})
	b.raw = true
	return b
}

// Input finishes the input.
func (b *Builder) Input() *Input {
	in := &Input{Text: b.sb.String(), Items: b.items, Gaps: b.gaps, Raw: b.raw}
	for i, it := range in.Items {
		switch it.Kind {
		case ILex:
			in.Lexes = append(in.Lexes, i)
		case IComment:
			in.Cmts = append(in.Cmts, i)
		}
	}
	tr := b.gap
	tr.Name = strings.Join(b.gapNames, "+")
	if tr.Name == "" {
		tr.Name = "none"
	}
	in.Trail = tr
	in.index()
	return in
}

// FromText wraps a plain text (no item bookkeeping) so that the position helpers can be used.
func FromText(text string) *Input {
	in := &Input{Text: text, Raw: true}
	in.index()
	return in
}

func (in *Input) index() {
	in.starts = []int{0}
	for i := 0; i < len(in.Text); i++ {
		if in.Text[i] == '\n' {
			in.starts = append(in.starts, i+1)
		}
	}
}

// Lexeme returns the i-th lexeme item.
func (in *Input) Lexeme(i int) Item { return in.Items[in.Lexes[i]] }

// NLines is the number of lines of the input (a trailing newline starts a last, empty line).
func (in *Input) NLines() int { return len(in.starts) }

// Loc converts a byte offset into 1-based line and column; the column counts bytes.
func (in *Input) Loc(off int) (line, col int) {
	lo, hi := 0, len(in.starts)-1
	for lo < hi {
		m := (lo + hi + 1) / 2
		if in.starts[m] <= off {
			lo = m
		} else {
			hi = m - 1
		}
	}
	return lo + 1, off - in.starts[lo] + 1
}

// LineText returns the text of a 1-based line without its terminating newline.
func (in *Input) LineText(line int) string {
	if line < 1 || line > len(in.starts) {
		return ""
	}
	s := in.starts[line-1]
	e := len(in.Text)
	if line < len(in.starts) {
		e = in.starts[line] - 1
	}
	return in.Text[s:e]
}

// LineExact reports whether columns on this line are unambiguous: the line is ASCII and
// tab-free, so bytes, runes, UTF-16 units and display cells all coincide.
func (in *Input) LineExact(line int) bool {
	t := in.LineText(line)
	for i := 0; i < len(t); i++ {
		if t[i] >= 0x80 || t[i] == '\t' {
			return false
		}
	}
	return true
}

// MaxCol is a generous upper bound for a column on a line whose columns are not exact
// (a tab may count up to 8 cells); +2 admits the position just past the line terminator.
func (in *Input) MaxCol(line int) int { return 8*len(in.LineText(line)) + 2 }

// Admissible reports whether the reference lexer reads the input as exactly the items
// placed (same spans, same order).  Separator class "none" is only legal where it does.
func (in *Input) Admissible() (bool, string) {
	r := RefLex(in.Text)
	if r.Ambig != "" {
		return false, "ambiguous: " + r.Ambig
	}
	if r.Err != nil {
		return false, "reference lexer: " + r.Err.Kind
	}
	if in.Raw {
		return false, "raw bytes"
	}
	if len(r.Toks) != len(in.Lexes) {
		return false, "fuses or splits"
	}
	for i, t := range r.Toks {
		it := in.Lexeme(i)
		if t.Off != it.Off || t.End != it.End {
			return false, "fuses or splits"
		}
	}
	if len(r.Comments) != len(in.Cmts) {
		return false, "comment fuses"
	}
	for i, c := range r.Comments {
		it := in.Items[in.Cmts[i]]
		end := c.End
		if c.Line && strings.HasSuffix(c.Text, "\r") {
			end-- // the reference lexer stops at \n; the generator places \r\n as white space
		}
		if c.Off != it.Off || end != it.End {
			return false, "comment fuses"
		}
	}
	return true, ""
}
