// Package lexgen is the lexical generator shared by C04 / C05: a hand-written
// lexeme catalogue (text, expected kind(s), decoded value), the separator
// classes, an independent reference lexer (maximal munch over the catalogue's
// lexical grammar, with an explicit "ambiguous" verdict wherever more than one
// reading is defensible), and a builder that knows the byte offset, line and
// column of everything it places.
//
// Expectations come from the documentation of the tokenizer (pkg/sql/tokenizer/doc.go,
// the comments of pkg/models/token_type.go) - not from running it.
package lexgen

import (
	"fmt"
	"strings"

	"github.com/ajitpratap0/GoSQLX/pkg/models"
)

// Expect is one acceptable reading of a lexeme: the token kinds that are
// defensible for it and its decoded value.
type Expect struct {
	Kinds []models.TokenType
	Value string
}

// Lexeme is one entry of the catalogue.
type Lexeme struct {
	Name    string   // unique id, used in case keys
	Sig     string   // coarse class used in failure signatures (input independent)
	Class   string   // kw ident qident btident num str gstr tstr dstr ph op
	Text    string   // bytes placed in the input
	Exp     []Expect // acceptable readings, canonical first
	Fold    bool     // value compared case-insensitively (keywords)
	Canon   *Lexeme  // canonical spelling used for the baseline rendering (nil = itself)
	Reduced bool     // member of the reduced alphabet used for triples
}

// Canonical returns the canonical spelling of the lexeme (upper case for keywords).
func (l *Lexeme) Canonical() *Lexeme {
	if l.Canon != nil {
		return l.Canon
	}
	return l
}

// Multiline reports whether the lexeme spans more than one line.
func (l *Lexeme) Multiline() bool { return strings.Contains(l.Text, "\n") }

// ---------------------------------------------------------------- kinds

var (
	kIdent  = []models.TokenType{models.TokenTypeIdentifier}
	kQIdent = []models.TokenType{models.TokenTypeDoubleQuotedString, models.TokenTypeIdentifier}
	// a backtick identifier is an identifier; the quoted-identifier kind is as defensible
	kBtIdent = []models.TokenType{models.TokenTypeIdentifier, models.TokenTypeDoubleQuotedString}
	kNum     = []models.TokenType{models.TokenTypeNumber}
	kStr     = []models.TokenType{models.TokenTypeSingleQuotedString, models.TokenTypeString}
	// «x»: the documentation says guillemets are "normalized to ASCII" without saying
	// to which quote, so string and quoted identifier are both defensible.
	kGStr  = []models.TokenType{models.TokenTypeSingleQuotedString, models.TokenTypeString, models.TokenTypeDoubleQuotedString, models.TokenTypeIdentifier}
	kTStr  = []models.TokenType{models.TokenTypeTripleSingleQuotedString}
	kDStr  = []models.TokenType{models.TokenTypeDollarQuotedString}
	kPlace = []models.TokenType{models.TokenTypePlaceholder}
)

// opKinds: every operator / punctuation mark the tokenizer documents, with the
// kind(s) pkg/models/token_type.go documents for it.
var opKinds = map[string][]models.TokenType{
	"->":  {models.TokenTypeArrow},
	"->>": {models.TokenTypeLongArrow},
	"#>":  {models.TokenTypeHashArrow},
	"#>>": {models.TokenTypeHashLongArrow},
	"@>":  {models.TokenTypeAtArrow},
	"<@":  {models.TokenTypeArrowAt},
	"?":   {models.TokenTypeQuestion},
	"?|":  {models.TokenTypeQuestionPipe},
	"?&":  {models.TokenTypeQuestionAnd},
	"#-":  {models.TokenTypeHashMinus},
	"::":  {models.TokenTypeDoubleColon},
	"||":  {models.TokenTypeStringConcat, models.TokenTypeDoublePipe},
	"&&":  {models.TokenTypeOverlap},
	"@@":  {models.TokenTypeAtAt},
	"~":   {models.TokenTypeTilde},
	"~*":  {models.TokenTypeTildeAsterisk},
	"!~":  {models.TokenTypeExclamationMarkTilde},
	"!~*": {models.TokenTypeExclamationMarkTildeAsterisk},
	"<>":  {models.TokenTypeNeq},
	"!=":  {models.TokenTypeNeq},
	"<=":  {models.TokenTypeLtEq},
	">=":  {models.TokenTypeGtEq},
	"=>":  {models.TokenTypeRArrow},
	"=":   {models.TokenTypeEq},
	"<":   {models.TokenTypeLt},
	">":   {models.TokenTypeGt},
	"+":   {models.TokenTypePlus},
	"-":   {models.TokenTypeMinus},
	"*":   {models.TokenTypeMul, models.TokenTypeAsterisk},
	"/":   {models.TokenTypeDiv},
	"%":   {models.TokenTypeMod},
	"(":   {models.TokenTypeLParen},
	")":   {models.TokenTypeRParen},
	"[":   {models.TokenTypeLBracket},
	"]":   {models.TokenTypeRBracket},
	",":   {models.TokenTypeComma},
	";":   {models.TokenTypeSemicolon},
	".":   {models.TokenTypePeriod},
	":":   {models.TokenTypeColon},
	"!":   {models.TokenTypeExclamationMark},
	"|":   {models.TokenTypePipe},
	"&":   {models.TokenTypeAmpersand},
	"@":   {models.TokenTypeAtSign},
	"#":   {models.TokenTypeSharp},
}

// opOrder fixes the enumeration order (maps have none).
var opOrder = []string{
	"=", "<", ">", "+", "-", "*", "/", "%", "(", ")", "[", "]", ",", ";", ".", ":",
	"<>", "!=", "<=", ">=", "=>", "::", "||", "&&", "@@", "~", "~*", "!~", "!~*",
	"->", "->>", "#>", "#>>", "@>", "<@", "?", "?|", "?&", "#-",
	"!", "|", "&", "@", "#",
}

// foreignOps are operator spellings for which pkg/models has a token kind but which
// the tokenizer does not document; where the text at an operator position starts with
// one of them the reference lexer gives no verdict (splitting it into shorter known
// operators and reading it as one operator are both defensible).
var foreignOps = []string{"==", "<=>", ":=", "<<", ">>", "!!", "~~", "!~~", "^@", "|/", "||/", "@?", "//", "<->", "<#>"}

// Keyword kinds.  The tokenizer documents keyword-specific kinds and a generic
// keyword kind; both are accepted.
var kwSpecific = map[string]models.TokenType{
	"SELECT": models.TokenTypeSelect, "FROM": models.TokenTypeFrom, "WHERE": models.TokenTypeWhere,
	"GROUP": models.TokenTypeGroup, "ORDER": models.TokenTypeOrder, "HAVING": models.TokenTypeHaving,
	"JOIN": models.TokenTypeJoin, "INNER": models.TokenTypeInner, "LEFT": models.TokenTypeLeft,
	"RIGHT": models.TokenTypeRight, "OUTER": models.TokenTypeOuter, "ON": models.TokenTypeOn,
	"AND": models.TokenTypeAnd, "OR": models.TokenTypeOr, "NOT": models.TokenTypeNot, "AS": models.TokenTypeAs,
	"BY": models.TokenTypeBy, "IN": models.TokenTypeIn, "LIKE": models.TokenTypeLike, "ILIKE": models.TokenTypeILike,
	"BETWEEN": models.TokenTypeBetween, "IS": models.TokenTypeIs, "NULL": models.TokenTypeNull,
	"TRUE": models.TokenTypeTrue, "FALSE": models.TokenTypeFalse, "CASE": models.TokenTypeCase,
	"WHEN": models.TokenTypeWhen, "THEN": models.TokenTypeThen, "ELSE": models.TokenTypeElse, "END": models.TokenTypeEnd,
	"CAST": models.TokenTypeCast, "ASC": models.TokenTypeAsc, "DESC": models.TokenTypeDesc,
	"LIMIT": models.TokenTypeLimit, "OFFSET": models.TokenTypeOffset,
	"FULL": models.TokenTypeFull, "CROSS": models.TokenTypeCross, "USING": models.TokenTypeUsing, "NATURAL": models.TokenTypeNatural,
	"WITH": models.TokenTypeWith, "RECURSIVE": models.TokenTypeRecursive, "UNION": models.TokenTypeUnion,
	"EXCEPT": models.TokenTypeExcept, "INTERSECT": models.TokenTypeIntersect, "ALL": models.TokenTypeAll,
	"ROLLUP": models.TokenTypeRollup, "CUBE": models.TokenTypeCube, "GROUPING": models.TokenTypeGrouping, "SETS": models.TokenTypeSets,
	"INSERT": models.TokenTypeInsert, "UPDATE": models.TokenTypeUpdate, "DELETE": models.TokenTypeDelete,
	"INTO": models.TokenTypeInto, "VALUES": models.TokenTypeValues, "SET": models.TokenTypeSet, "DEFAULT": models.TokenTypeDefault,
	"MERGE": models.TokenTypeMerge, "MATCHED": models.TokenTypeMatched,
	"CREATE": models.TokenTypeCreate, "DROP": models.TokenTypeDrop, "ALTER": models.TokenTypeAlter, "TRUNCATE": models.TokenTypeTruncate,
	"TABLE": models.TokenTypeTable, "INDEX": models.TokenTypeIndex, "COLUMN": models.TokenTypeColumn, "VIEW": models.TokenTypeView,
	"MATERIALIZED": models.TokenTypeMaterialized, "REFRESH": models.TokenTypeRefresh,
	"CASCADE": models.TokenTypeCascade, "RESTRICT": models.TokenTypeRestrict, "REPLACE": models.TokenTypeReplace,
	"IF": models.TokenTypeIf, "EXISTS": models.TokenTypeExists, "UNIQUE": models.TokenTypeUnique, "PRIMARY": models.TokenTypePrimary,
	"KEY": models.TokenTypeKey, "REFERENCES": models.TokenTypeReferences, "FOREIGN": models.TokenTypeForeign,
	"CHECK": models.TokenTypeCheck, "CONSTRAINT": models.TokenTypeConstraint,
	"OVER": models.TokenTypeOver, "PARTITION": models.TokenTypePartition, "ROWS": models.TokenTypeRows, "RANGE": models.TokenTypeRange,
	"UNBOUNDED": models.TokenTypeUnbounded, "PRECEDING": models.TokenTypePreceding, "FOLLOWING": models.TokenTypeFollowing,
	"CURRENT": models.TokenTypeCurrent, "ROW": models.TokenTypeRow, "FILTER": models.TokenTypeFilter,
	"NULLS": models.TokenTypeNulls, "FIRST": models.TokenTypeFirst, "LAST": models.TokenTypeLast,
	"FETCH": models.TokenTypeFetch, "NEXT": models.TokenTypeNext, "ONLY": models.TokenTypeOnly,
	"DISTINCT": models.TokenTypeDistinct, "COLLATE": models.TokenTypeCollate, "FOR": models.TokenTypeFor,
	"ADD": models.TokenTypeAdd, "RENAME": models.TokenTypeRename, "TO": models.TokenTypeTo,
	"INTERVAL": models.TokenTypeInterval, "ARRAY": models.TokenTypeArray, "WITHIN": models.TokenTypeWithin,
}

// kwOrder: the keywords of the catalogue in a fixed order.  The first block is used in
// three letter cases in the pair space; every word of the list is used in the keyword space.
var kwCased = []string{"SELECT", "FROM", "GROUP", "BY", "ORDER", "LEFT", "OUTER", "JOIN", "NULL", "AND"}
var kwUpperOnly = []string{"WHERE", "INNER", "RIGHT", "FULL", "CROSS", "NATURAL", "GROUPING", "SETS", "ON", "AS", "NOT",
	"IN", "IS", "LIKE", "ILIKE", "TABLE", "KEY", "INDEX", "ADD", "TO", "TRUE", "UNION", "ALL", "INSERT", "VALUES", "WITH"}

// AllKeywords returns every keyword of the reference table in a fixed order.
func AllKeywords() []string {
	seen := map[string]bool{}
	var out []string
	for _, w := range kwCased {
		seen[w] = true
		out = append(out, w)
	}
	for _, w := range kwUpperOnly {
		if !seen[w] {
			seen[w] = true
			out = append(out, w)
		}
	}
	var rest []string
	for w := range kwSpecific {
		if !seen[w] {
			rest = append(rest, w)
		}
	}
	sortStrings(rest)
	return append(out, rest...)
}

func sortStrings(s []string) {
	for i := 1; i < len(s); i++ {
		for j := i; j > 0 && s[j] < s[j-1]; j-- {
			s[j], s[j-1] = s[j-1], s[j]
		}
	}
}

// KeywordKinds returns the kinds acceptable for a single keyword.
func KeywordKinds(upper string) []models.TokenType {
	if t, ok := kwSpecific[upper]; ok {
		return []models.TokenType{t, models.TokenTypeKeyword}
	}
	return []models.TokenType{models.TokenTypeKeyword}
}

// compoundKinds: kinds acceptable for a token that carries a whole two-word keyword
// (a documented implementation choice of the tokenizer).
var compoundSpecific = map[string]models.TokenType{
	"GROUP BY": models.TokenTypeGroupBy, "ORDER BY": models.TokenTypeOrderBy,
	"LEFT JOIN": models.TokenTypeLeftJoin, "RIGHT JOIN": models.TokenTypeRightJoin,
	"INNER JOIN": models.TokenTypeInnerJoin, "OUTER JOIN": models.TokenTypeOuterJoin,
	"FULL JOIN": models.TokenTypeFullJoin, "CROSS JOIN": models.TokenTypeCrossJoin,
	"GROUPING SETS": models.TokenTypeGroupingSets,
}

// CompoundKinds returns the kinds acceptable for a compound keyword token.
func CompoundKinds(upperPhrase string) []models.TokenType {
	if t, ok := compoundSpecific[upperPhrase]; ok {
		return []models.TokenType{t, models.TokenTypeKeyword}
	}
	return []models.TokenType{models.TokenTypeKeyword}
}

// IsKeywordKind reports whether a token kind is a keyword kind.
func IsKeywordKind(t models.TokenType) bool {
	if t == models.TokenTypeIllegal || t == models.TokenTypeAsterisk || t == models.TokenTypeDoublePipe {
		return false
	}
	return t >= models.TokenRangeKeywordStart
}

// ---------------------------------------------------------------- catalogue

func mixed(s string) string {
	b := []byte(strings.ToLower(s))
	if len(b) > 0 {
		b[0] -= 32
	}
	for i := 3; i < len(b); i += 3 {
		b[i] -= 32
	}
	return string(b)
}

var catalogue []*Lexeme
var byName = map[string]*Lexeme{}

// Cat returns the catalogue.
func Cat() []*Lexeme { return catalogue }

// ByName returns a catalogue entry.
func ByName(n string) *Lexeme {
	l := byName[n]
	if l == nil {
		panic("lexgen: no lexeme " + n)
	}
	return l
}

func add(l *Lexeme) *Lexeme {
	if byName[l.Name] != nil {
		panic("lexgen: duplicate lexeme " + l.Name)
	}
	byName[l.Name] = l
	catalogue = append(catalogue, l)
	return l
}

func lx(name, class, text, value string, kinds []models.TokenType) *Lexeme {
	sig := name
	return add(&Lexeme{Name: name, Sig: sig, Class: class, Text: text, Exp: []Expect{{Kinds: kinds, Value: value}}})
}

func kw(word string) {
	up := add(&Lexeme{Name: "kw:" + word, Sig: "kw:" + word, Class: "kw", Text: word, Fold: true,
		Exp: []Expect{{Kinds: KeywordKinds(word), Value: word}}})
	_ = up
}

func kwCase(word string) {
	up := byName["kw:"+word]
	lo := strings.ToLower(word)
	add(&Lexeme{Name: "kw:" + word + "/lower", Sig: "kw:" + word, Class: "kw", Text: lo, Fold: true, Canon: up,
		Exp: []Expect{{Kinds: KeywordKinds(word), Value: lo}}})
	mx := mixed(word)
	add(&Lexeme{Name: "kw:" + word + "/mixed", Sig: "kw:" + word, Class: "kw", Text: mx, Fold: true, Canon: up,
		Exp: []Expect{{Kinds: KeywordKinds(word), Value: mx}}})
}

func init() {
	buildOps()
	// operators and punctuation
	for _, op := range opOrder {
		lx("op:"+op, "op", op, op, opKinds[op])
	}
	// numbers ("Integers: 123, 0, 999999; Decimals: 3.14, 0.5; Scientific: 1e10, 2.5e-3, 1.23E+4")
	for _, n := range []string{"1", "0", "42", "007", "1.5", "0.5", "1e5", "1e-2", "1E+2", "1.5E-3", "12345678901234567890"} {
		lx("num:"+n, "num", n, n, kNum)
	}
	// single-quoted strings: doubled quote, every documented backslash escape, multi-line, non-ASCII
	str := func(name, text, value string) { lx("str:"+name, "str", text, value, kStr) }
	str("plain", `'x'`, "x")
	str("empty", `''`, "")
	str("words", `'a b'`, "a b")
	str("doubled-mid", `'a''b'`, "a'b")
	str("doubled-end", `'a'''`, "a'")
	str("doubled-twice", `'a''''b'`, "a''b")
	str("dashes", `'a--b'`, "a--b")
	str("block", `'a/*b*/c'`, "a/*b*/c")
	str("semicolon", `'a;b'`, "a;b")
	str("dquote", `'"'`, `"`)
	str("backtick", "'`'", "`")
	str("dollar", `'$$'`, "$$")
	str("keyword", `'SELECT'`, "SELECT")
	str("esc-backslash", `'a\\b'`, `a\b`)
	str("esc-quote", `'a\'b'`, "a'b")
	str("esc-dquote", `'a\"b'`, `a"b`)
	str("esc-n", `'a\nb'`, "a\nb")
	str("esc-r", `'a\rb'`, "a\rb")
	str("esc-t", `'a\tb'`, "a\tb")
	str("esc-only-backslash", `'\\'`, `\`)
	str("esc-only-quote", `'\''`, "'")
	str("esc-u", "'\\"+"u0041'", "A") // backslash, 'u', four hex digits ("Escape sequences: \n \r \t \\ \' \" \uXXXX")
	str("multiline", "'a\nb'", "a\nb")
	str("multiline-crlf", "'a\r\nb'", "a\r\nb")
	str("multiline-blank", "'a\n\nb'", "a\n\nb")
	str("tab", "'a\tb'", "a\tb")
	str("latin", "'héllo'", "héllo")
	str("cjk", "'こんにちは'", "こんにちは")
	str("emoji", "'😀'", "😀")
	str("uquote", "‘x’", "x")
	str("uquote-inside", "'a“b'", "a“b")
	lx("gstr:guillemets", "gstr", "«x»", "x", kGStr)
	// '''abc''': the documentation lists triple quotes AND doubled quotes; both readings accepted
	add(&Lexeme{Name: "tstr:triple", Sig: "tstr:triple", Class: "tstr", Text: `'''abc'''`,
		Exp: []Expect{{Kinds: kTStr, Value: "abc"}, {Kinds: kStr, Value: "'abc'"}}})
	// the same over several lines: the line breaks are part of the value under either reading
	add(&Lexeme{Name: "tstr:triple-multiline", Sig: "tstr:triple", Class: "tstr", Text: "'''line 1\nline 2'''",
		Exp: []Expect{{Kinds: kTStr, Value: "line 1\nline 2"}, {Kinds: kStr, Value: "'line 1\nline 2'"}}})
	add(&Lexeme{Name: "tstr:triple-blank-lines", Sig: "tstr:triple", Class: "tstr", Text: "'''a\n\nb\n'''",
		Exp: []Expect{{Kinds: kTStr, Value: "a\n\nb\n"}, {Kinds: kStr, Value: "'a\n\nb\n'"}}})
	// dollar-quoted strings
	ds := func(name, text, value string) { lx("dstr:"+name, "dstr", text, value, kDStr) }
	ds("empty-tag", "$$x$$", "x")
	ds("empty", "$$$$", "")
	ds("named", "$t$ y $t$", " y ")
	ds("inner-dollar", "$tag$a$b$tag$", "a$b")
	ds("other-tag-inside", "$a$x$b$y$a$", "x$b$y")
	ds("quote-inside", "$$a'b$$", "a'b")
	ds("multiline", "$$a\nb$$", "a\nb")
	ds("underscore-tag", "$_t1$x$_t1$", "x")
	ds("param-inside", "$$ $1 $$", " $1 ")
	ds("comment-inside", "$$a--b/*c$$", "a--b/*c")
	// near-miss closing tags inside the body: other letter case, a prefix of the tag, a longer tag
	ds("other-case-tag-inside", "$Q$a$q$b$Q$", "a$q$b")
	ds("other-case-tag-inside-lower", "$q$a$Q$b$q$", "a$Q$b")
	ds("prefix-tag-inside", "$ab$x$a$y$ab$", "x$a$y")
	ds("longer-tag-inside", "$a$x$ab$y$a$", "x$ab$y")
	ds("empty-tag-inside", "$t$x$$y$t$", "x$$y")
	// double-quoted identifiers
	qi := func(name, text, value string) { lx("qident:"+name, "qident", text, value, kQIdent) }
	qi("plain", `"x"`, "x")
	qi("doubled", `"a""b"`, `a"b`)
	qi("space", `"a b"`, "a b")
	qi("keyword-lower", `"select"`, "select")
	qi("keyword-upper", `"SELECT"`, "SELECT")
	qi("dot", `"a.b"`, "a.b")
	qi("squote", `"a'b"`, "a'b")
	qi("dashes", `"a--b"`, "a--b")
	qi("cjk", `"名前"`, "名前")
	qi("uquote", "“x”", "x")
	qi("guillemet-inside", `"a«b"`, "a«b")
	// backtick identifiers
	bt := func(name, text, value string) { lx("btident:"+name, "btident", text, value, kBtIdent) }
	bt("plain", "`x`", "x")
	bt("doubled", "`a``b`", "a`b")
	bt("space", "`a b`", "a b")
	bt("keyword", "`select`", "select")
	bt("dquote", "`a\"b`", `a"b`)
	// identifiers
	for _, id := range []string{"a", "a1", "_x", "x_y", "A", "Ab", "e5", "E", "x1e5", "nul", "selects", "group_by", "byte1",
		"名前", "é", "é", "𝐀", "ñandú_2"} {
		lx("ident:"+id, "ident", id, id, kIdent)
	}
	// placeholders ("Parameters: @variable"; $n positional)
	for _, p := range []string{"$1", "$12", "@p", "@P1", "@outer"} {
		lx("ph:"+p, "ph", p, p, kPlace)
	}
	// keywords
	for _, w := range kwCased {
		kw(w)
	}
	for _, w := range kwCased {
		kwCase(w)
	}
	for _, w := range kwUpperOnly {
		kw(w)
	}

	// reduced alphabet for triples: one member of every first-character class and every
	// multi-character operator prefix, plus the words that can form compound keywords
	for _, n := range []string{
		"op:=", "op:<", "op:>", "op:+", "op:-", "op:*", "op:/", "op:%", "op:(", "op:)", "op:[", "op:,", "op:;", "op:.", "op::",
		"op:!", "op:|", "op:&", "op:@", "op:#", "op:?", "op:~", "op:->", "op:#>", "op:!~", "op:::", "op:<=",
		"num:1", "num:1.5", "num:1e5", "str:plain", "str:doubled-end", "str:esc-quote", "str:uquote", "dstr:empty-tag", "dstr:named",
		"qident:plain", "btident:plain", "ident:a", "ident:e5", "ident:é", "ph:$1", "ph:@p",
		"kw:LEFT", "kw:OUTER", "kw:JOIN", "kw:GROUP/lower", "kw:BY",
	} {
		ByName(n).Reduced = true
	}

	selfCheck()
}

// Reduced returns the reduced alphabet.
func Reduced() []*Lexeme {
	var out []*Lexeme
	for _, l := range catalogue {
		if l.Reduced {
			out = append(out, l)
		}
	}
	return out
}

// selfCheck: the hand-written catalogue and the reference lexer are two independent
// statements of the same lexical grammar; they must agree on every catalogue entry.
func selfCheck() {
	for _, l := range catalogue {
		r := RefLex(l.Text)
		if r.Err != nil || r.Ambig != "" || len(r.Toks) != 1 || len(r.Comments) != 0 {
			panic(fmt.Sprintf("lexgen self-check: %s %q: reference lexer says err=%v ambig=%q toks=%d", l.Name, l.Text, r.Err, r.Ambig, len(r.Toks)))
		}
		t := r.Toks[0]
		if t.Off != 0 || t.End != len(l.Text) || t.Exp[0].Value != l.Exp[0].Value || !sameKinds(t.Exp[0].Kinds, l.Exp[0].Kinds) || t.Fold != l.Fold {
			panic(fmt.Sprintf("lexgen self-check: %s %q: catalogue %v %q vs reference lexer %v %q", l.Name, l.Text, l.Exp[0].Kinds, l.Exp[0].Value, t.Exp[0].Kinds, t.Exp[0].Value))
		}
		if t.Feature != "" {
			l.Sig = t.Sig() // same signature whichever space meets the construct
		}
	}
}

func sameKinds(a, b []models.TokenType) bool {
	if len(a) != len(b) {
		return false
	}
	for i := range a {
		if a[i] != b[i] {
			return false
		}
	}
	return true
}
