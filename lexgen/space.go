package lexgen

import (
	"fmt"
	"strings"
)

// Case is one generated input of the shared C04/C05 space.  Build is lazy so that a
// worker only builds the cases of its own shard.
type Case struct {
	Key   string
	Space string                   // pair | triple | ends | kw | comment | layout
	Build func() (in, base *Input) // base: same lexemes in canonical spelling joined by single spaces (nil if none)
}

func baseOf(ls ...*Lexeme) *Input {
	b := NewBuilder()
	for i, l := range ls {
		if i > 0 {
			b.Sep(SepSpace)
		}
		b.Lex(l.Canonical())
	}
	return b.Input()
}

// TrailSeps: separators that may end an input (adds a line comment ended by the end of input).
func TrailSeps(all bool) []Sep {
	var out []Sep
	if all {
		out = AllSeps()
	} else {
		out = append([]Sep{SepNone}, BasicSeps()...)
	}
	out = append(out, SepLCEOF)
	for _, s := range BasicSeps() {
		out = append(out, Join(s, SepLCEOF))
	}
	return out
}

// ExtSeps are the multi-line separators of the layout space: blank lines, indentation,
// comments before tokens, multi-line comments, CRLF.
func ExtSeps() []Sep {
	ws := func(name, t string) Sep { return Sep{Name: name, Pieces: []Piece{{Text: t}}} }
	return []Sep{
		SepSpace, SepNL,
		ws("nl2", "\n\n"), ws("nl3", "\n\n\n"), ws("crlf2", "\r\n\r\n"), ws("nl-indent", "\n  "), ws("nl-tab", "\n\t"), ws("tab-sp", "\t "),
		{Name: "sp-lc-nl2", Pieces: []Piece{{Text: " "}, {Text: "-- c%d", Comment: true, Line: true}, {Text: "\n\n"}}},
		{Name: "lc-lc", Pieces: []Piece{{Text: "--c%d", Comment: true, Line: true}, {Text: "\n"}, {Text: "--d%d", Comment: true, Line: true}, {Text: "\n"}}},
		{Name: "bc-multi", Pieces: []Piece{{Text: "/*c%d\n  c*/", Comment: true}}},
		{Name: "bc-crlf", Pieces: []Piece{{Text: "/*c%d\r\nc*/", Comment: true}, {Text: "\r\n"}}},
		{Name: "nl-bc-nl", Pieces: []Piece{{Text: "\n"}, {Text: "/*c%d*/", Comment: true}, {Text: "\n"}}},
		{Name: "lc-crlf", Pieces: []Piece{{Text: "--c%d", Comment: true, Line: true}, {Text: "\r\n"}}},
	}
}

// LayoutLexemes is the alphabet of the layout space.
func LayoutLexemes() []*Lexeme {
	var out []*Lexeme
	for _, n := range []string{"ident:a", "kw:SELECT/lower", "num:1.5", "op:->>", "op:(", "str:multiline", "str:multiline-crlf",
		"dstr:multiline", "ident:名前", "str:cjk", "qident:plain", "kw:GROUP", "kw:BY"} {
		out = append(out, ByName(n))
	}
	return out
}

// KwLexeme builds a keyword lexeme outside the catalogue (keyword space).
func KwLexeme(word string, variant int) *Lexeme {
	up := &Lexeme{Name: "kw:" + word, Sig: "kw:" + word, Class: "kw", Text: word, Fold: true, Exp: []Expect{{Kinds: KeywordKinds(word), Value: word}}}
	switch variant {
	case 1:
		t := strings.ToLower(word)
		return &Lexeme{Name: "kw:" + word + "/lower", Sig: up.Sig, Class: "kw", Text: t, Fold: true, Canon: up, Exp: []Expect{{Kinds: KeywordKinds(word), Value: t}}}
	case 2:
		t := mixed(word)
		return &Lexeme{Name: "kw:" + word + "/mixed", Sig: up.Sig, Class: "kw", Text: t, Fold: true, Canon: up, Exp: []Expect{{Kinds: KeywordKinds(word), Value: t}}}
	}
	return up
}

// CommentTexts is the comment catalogue (exact texts).
func CommentTexts() (line, block []string) {
	line = []string{"--", "-- x", "--x--y", "-- 'q' \"d\" /* b", "-- é日本", "--\tx", "-- x \\", "-- */", "--- x"}
	block = []string{"/**/", "/***/", "/* x */", "/* a\nb */", "/* a\r\nb */", "/* -- x */", "/* 'q' \"d\" `b` $$ */", "/* é日本 */", "/* * / */", "/*/ */", "/* x **/", "/*\n*/"}
	return
}

// Space enumerates the shared lexical space.
func Space(thorough bool, yield func(Case)) {
	cat := Cat()
	seps := AllSeps()

	// (1) all ordered pairs of lexemes x all separator classes
	// quick tier: all pairs x (none + the six single classes); the 36 separator pairs only over the
	// reduced alphabet.  thorough tier: all pairs x all 43 separators.
	for _, a := range cat {
		for _, b := range cat {
			for si, s := range seps {
				if !thorough && si > 6 && !(a.Reduced && b.Reduced) {
					continue
				}
				a, b, s := a, b, s
				yield(Case{Key: "P|" + a.Name + "|" + b.Name + "|" + s.Name, Space: "pair", Build: func() (*Input, *Input) {
					return NewBuilder().Lex(a).Sep(s).Lex(b).Input(), baseOf(a, b)
				}})
			}
		}
	}

	// (2) all triples over the reduced alphabet
	red := Reduced()
	tseps := []Sep{SepNone, SepSpace}
	if thorough {
		tseps = []Sep{SepNone, SepSpace, SepNL, SepLC, SepBC}
	}
	for _, a := range red {
		for _, b := range red {
			for _, c := range red {
				for _, s1 := range tseps {
					for _, s2 := range tseps {
						a, b, c, s1, s2 := a, b, c, s1, s2
						yield(Case{Key: "T|" + a.Name + "|" + b.Name + "|" + c.Name + "|" + s1.Name + "|" + s2.Name, Space: "triple", Build: func() (*Input, *Input) {
							return NewBuilder().Lex(a).Sep(s1).Lex(b).Sep(s2).Lex(c).Input(), baseOf(a, b, c)
						}})
					}
				}
			}
		}
	}

	// (3) every lexeme as the first and last item of the input, under every leading / trailing separator
	leads := append([]Sep{SepNone}, BasicSeps()...)
	if thorough {
		leads = AllSeps()
	}
	trails := TrailSeps(thorough)
	for _, a := range cat {
		for _, l := range leads {
			for _, t := range trails {
				a, l, t := a, l, t
				yield(Case{Key: "E|" + l.Name + "|" + a.Name + "|" + t.Name, Space: "ends", Build: func() (*Input, *Input) {
					return NewBuilder().Sep(l).Lex(a).Sep(t).Input(), baseOf(a)
				}})
			}
		}
	}

	// (4) every keyword of the reference table in three letter cases, alone and between identifiers
	ida, idb := ByName("ident:a"), ByName("ident:x_y")
	for _, w := range AllKeywords() {
		for v := 0; v < 3; v++ {
			k := KwLexeme(w, v)
			yield(Case{Key: fmt.Sprintf("K|%s|%d|alone", w, v), Space: "kw", Build: func() (*Input, *Input) {
				return NewBuilder().Lex(k).Input(), baseOf(k)
			}})
			for _, s := range []Sep{SepSpace, SepNL, SepBC, SepLC} {
				s := s
				yield(Case{Key: fmt.Sprintf("K|%s|%d|%s", w, v, s.Name), Space: "kw", Build: func() (*Input, *Input) {
					return NewBuilder().Lex(ida).Sep(s).Lex(k).Sep(s).Lex(idb).Input(), baseOf(ida, k, idb)
				}})
			}
		}
	}

	// (5) every comment of the comment catalogue before, between and after lexemes
	lc, bc := CommentTexts()
	wsBefore := []string{"", " ", "\n", "\t"}
	for ci, txt := range append(append([]string{}, lc...), bc...) {
		isLine := ci < len(lc)
		afters := []string{"", " ", "\n"}
		if isLine {
			afters = []string{"\n", "\r\n", "\n\n"}
		}
		for place := 0; place < 3; place++ {
			for bi, wb := range wsBefore {
				for ai, wa := range afters {
					txt, place, wb, wa := txt, place, wb, wa
					yield(Case{Key: fmt.Sprintf("C|%d|%d|%d|%d", ci, place, bi, ai), Space: "comment", Build: func() (*Input, *Input) {
						b := NewBuilder()
						switch place {
						case 0:
							b.Space(wb).Comment(txt, isLine).Space(wa).Lex(ida).Sep(SepSpace).Lex(idb)
						case 1:
							b.Lex(ida).Space(wb).Comment(txt, isLine).Space(wa).Lex(idb)
						default:
							b.Lex(ida).Sep(SepSpace).Lex(idb).Space(wb).Comment(txt, isLine).Space(wa)
						}
						return b.Input(), baseOf(ida, idb)
					}})
				}
			}
			if isLine {
				// line comment ended by the end of the input
				for bi, wb := range wsBefore {
					txt, wb := txt, wb
					yield(Case{Key: fmt.Sprintf("C|%d|eof|%d", ci, bi), Space: "comment", Build: func() (*Input, *Input) {
						return NewBuilder().Lex(ida).Sep(SepSpace).Lex(idb).Space(wb).Comment(txt, true).Input(), baseOf(ida, idb)
					}})
				}
			}
		}
	}

	// (6) multi-line layouts: 3 lexemes, every gap from the extended separator set
	ll := LayoutLexemes()
	es := ExtSeps()
	lleads := []Sep{SepNone, SepNL, SepLC, SepBC}
	if !thorough {
		es = es[:0:0]
		for _, s := range ExtSeps() {
			switch s.Name {
			case "sp", "nl2", "crlf2", "nl-tab", "sp-lc-nl2", "bc-multi", "bc-crlf", "lc-lc":
				es = append(es, s)
			}
		}
		lleads = []Sep{SepNone, SepLC}
	}
	for _, l0 := range lleads {
		for _, a := range ll {
			for _, s1 := range es {
				for _, b := range ll {
					for _, s2 := range es {
						for _, c := range ll {
							l0, a, s1, b, s2, c := l0, a, s1, b, s2, c
							yield(Case{Key: "L|" + l0.Name + "|" + a.Name + "|" + s1.Name + "|" + b.Name + "|" + s2.Name + "|" + c.Name, Space: "layout", Build: func() (*Input, *Input) {
								return NewBuilder().Sep(l0).Lex(a).Sep(s1).Lex(b).Sep(s2).Lex(c).Input(), baseOf(a, b, c)
							}})
						}
					}
				}
			}
		}
	}
}

// Unterm is an input that ends inside an unterminated literal or comment.
type Unterm struct {
	Key    string
	What   string // string | quoted-ident | backtick | dollar-quote | block-comment
	Text   string
	Opener int // byte offset of the opening delimiter
}

// Unterminated enumerates unterminated strings, quoted identifiers, dollar quotes and
// block comments after every prefix layout.
func Unterminated(yield func(Unterm)) {
	type op struct{ what, name, text string }
	openers := []op{
		{"string", "sq", "'abc"}, {"string", "sq-doubled", "'abc''"}, {"string", "sq-escaped-quote", `'abc\'`}, {"string", "sq-only", "'"},
		{"string", "sq-multiline", "'abc\ndef"}, {"string", "uq", "‘abc"}, {"string", "sq-semicolon", "'abc;"},
		{"quoted-ident", "dq", `"abc`}, {"quoted-ident", "dq-doubled", `"abc""`}, {"quoted-ident", "dq-only", `"`}, {"quoted-ident", "udq", "“abc"}, {"quoted-ident", "dq-multiline", "\"abc\ndef"},
		{"backtick", "bt", "`abc"}, {"backtick", "bt-doubled", "`abc``"},
		{"dollar-quote", "dd", "$$abc"}, {"dollar-quote", "dd-half", "$$abc$"}, {"dollar-quote", "tag", "$t$abc"}, {"dollar-quote", "tag-wrong-close", "$t$abc$$"},
		{"dollar-quote", "tag-other-close", "$t$abc$u$"}, {"dollar-quote", "tag-other-case-close", "$T$abc$t$"}, {"dollar-quote", "tag-prefix-close", "$ab$abc$a$"}, {"dollar-quote", "dd-multiline", "$$abc\ndef"},
		{"block-comment", "bc", "/*abc"}, {"block-comment", "bc-star", "/*abc*"}, {"block-comment", "bc-slash", "/*abc/"}, {"block-comment", "bc-only", "/*"},
		{"block-comment", "bc-multiline", "/*abc\ndef"}, {"block-comment", "bc-star-only", "/**"}, {"block-comment", "bc-slash-only", "/*/"},
	}
	prefixes := []struct{ name, text string }{
		{"none", ""}, {"ident", "a "}, {"stmt", "SELECT a FROM t WHERE b = "}, {"nl", "a\n"}, {"nl2", "SELECT a\n\nFROM "}, {"crlf", "a\r\n  "},
		{"lc", "a -- c\n"}, {"bc", "a /* c */ "}, {"str", "'x' "}, {"adjacent-paren", "("}, {"multiline-str", "'x\ny' "},
	}
	for _, p := range prefixes {
		for _, o := range openers {
			yield(Unterm{Key: "U|" + p.name + "|" + o.name, What: o.what, Text: p.text + o.text, Opener: len(p.text)})
		}
	}
}

// HostileBytes is the hostile byte set.
func HostileBytes() []byte {
	return []byte{0x00, 0x01, 0x08, 0x0b, 0x0c, 0x1b, 0x7f, 0x80, 0xa0, 0xc3, 0xe2, 0xf0, 0xff,
		'\\', '^', '{', '}', '`', '\'', '"', '$', '#', '@', '!', '?', ':', '.', '|', '&', '~', '<', '>', '=', '-', '/', '*',
		'e', 'E', '0', '_', 'x', '\r', '\n', ' '}
}

// Fragments is the alphabet of the "all short strings" space: quote characters, escape and
// dollar characters, one letter / digit / exponent letter, every operator-forming character,
// white space, non-ASCII letters and quotes, and two bytes that start no lexical element.
func Fragments() []string {
	return []string{"'", "\"", "`", "\\", "$", "$$", "a", "E", "1", ".", "e", "+", "-", "/", "*", "\n", " ", ";", "(", ",", ":", "@", "#", "?", "[",
		"é", "“", "«", "<", ">", "=", "!", "~", "|", "&", "\xff", "\x00"}
}

// FragStrings enumerates all strings of 1..maxLen fragments (key = fragment indices).
func FragStrings(maxLen int, yield func(key, text string, n int)) {
	fr := Fragments()
	var rec func(prefix, key string, depth int)
	rec = func(prefix, key string, depth int) {
		if depth > 0 {
			yield(key, prefix, depth)
		}
		if depth == maxLen {
			return
		}
		for i, f := range fr {
			rec(prefix+f, fmt.Sprintf("%s%02d", key, i), depth+1)
		}
	}
	rec("", "", 0)
}
