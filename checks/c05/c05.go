// Package c05 checks property C05: reported source positions point at the right characters.
package c05

import (
	"context"
	"errors"
	"fmt"
	"github.com/ajitpratap0/GoSQLX/pkg/sql/tokenizer"
	"regexp"
	"strings"

	gerrors "github.com/ajitpratap0/GoSQLX/pkg/errors"
	"github.com/ajitpratap0/GoSQLX/pkg/gosqlx"
	"github.com/ajitpratap0/GoSQLX/pkg/models"
	"github.com/ajitpratap0/GoSQLX/pkg/sql/parser"

	"verif/engine/common"
	"verif/lexgen"
	"verif/sqlgen"
)

type fail struct{ sig, msg string }

type fails struct {
	l    []fail
	seen map[string]bool
}

func (f *fails) add(sig, msg string) {
	if f.seen == nil {
		f.seen = map[string]bool{}
	}
	if f.seen[sig] {
		return
	}
	f.seen[sig] = true
	f.l = append(f.l, fail{sig, msg})
}

func locStr(l models.Location) string { return fmt.Sprintf("%d:%d", l.Line, l.Column) }

// inside: the location lies inside the input.  On a line whose columns are exact the column
// may be at most one past the line terminator; elsewhere a generous bound applies.
func inside(in *lexgen.Input, l models.Location) bool {
	if l.Line < 1 || l.Line > in.NLines() || l.Column < 1 {
		return false
	}
	if in.LineExact(l.Line) {
		return l.Column <= len(in.LineText(l.Line))+2
	}
	return l.Column <= in.MaxCol(l.Line)
}

// generic: 1-based, Start <= End, End <= next.Start, non-decreasing, inside the input -
// asserted for every token and comment of every input, whatever it contains.
func generic(in *lexgen.Input, toks []models.TokenWithSpan, cmts []models.Comment, f *fails) {
	one := func(kind string, s, e models.Location, desc string) {
		if s.Line < 1 || s.Column < 1 {
			f.add("pos:not-1-based:"+kind+"-start", fmt.Sprintf("%s starts at %s", desc, locStr(s)))
		} else if !inside(in, s) {
			f.add("pos:outside-input:"+kind+"-start", fmt.Sprintf("%s starts at %s, outside the input (%d lines)", desc, locStr(s), in.NLines()))
		}
		if e.Line < 1 || e.Column < 1 {
			f.add("pos:not-1-based:"+kind+"-end", fmt.Sprintf("%s ends at %s", desc, locStr(e)))
		} else if !inside(in, e) {
			f.add("pos:outside-input:"+kind+"-end", fmt.Sprintf("%s ends at %s, outside the input (%d lines)", desc, locStr(e), in.NLines()))
		}
		if !lexgen.LocLE(s, e) {
			f.add("pos:start-after-end:"+kind, fmt.Sprintf("%s starts at %s and ends at %s", desc, locStr(s), locStr(e)))
		} else if kind != "eof" && s == e {
			// a token or comment is at least one character long, whatever the column unit
			f.add("pos:empty-span:"+kind, fmt.Sprintf("%s starts and ends at %s", desc, locStr(s)))
		}
	}
	for i, t := range toks {
		kind := "token"
		if t.Token.Type == models.TokenTypeEOF {
			kind = "eof"
		}
		desc := fmt.Sprintf("token %d %s(%q)", i, t.Token.Type, t.Token.Value)
		one(kind, t.Start, t.End, desc)
		if i > 0 {
			p := toks[i-1]
			if !lexgen.LocLE(p.End, t.Start) {
				f.add("pos:end-after-next-start:"+kind, fmt.Sprintf("token %d ends at %s, after the start %s of %s", i-1, locStr(p.End), locStr(t.Start), desc))
			}
			if !lexgen.LocLE(p.Start, t.Start) {
				f.add("pos:decreasing:"+kind, fmt.Sprintf("token %d starts at %s, %s at %s", i-1, locStr(p.Start), desc, locStr(t.Start)))
			}
		}
	}
	for i, c := range cmts {
		desc := fmt.Sprintf("comment %d %q", i, c.Text)
		one("comment", c.Start, c.End, desc)
		if i > 0 && !lexgen.LocLE(cmts[i-1].End, c.Start) {
			f.add("pos:end-after-next-start:comment", fmt.Sprintf("comment %d ends at %s, after the start %s of %s", i-1, locStr(cmts[i-1].End), locStr(c.Start), desc))
		}
	}
}

// at compares a reported location with a byte offset of the input: the line must be
// equal; the column must be equal when the line is ASCII and tab-free.
// Returns "" | "line" | "col".
func at(in *lexgen.Input, got models.Location, off int) string {
	l, c := in.Loc(off)
	if got.Line != l {
		return "line"
	}
	if in.LineExact(l) && got.Column != c {
		return "col"
	}
	return ""
}

func want(in *lexgen.Input, off int) string {
	l, c := in.Loc(off)
	if in.LineExact(l) {
		return fmt.Sprintf("%d:%d", l, c)
	}
	return fmt.Sprintf("%d:(column not asserted on this line)", l)
}

func tokClass(l *lexgen.Lexeme, compound bool) string {
	switch {
	case compound:
		return "compound-keyword"
	case l.Multiline():
		return "multiline-literal"
	}
	return l.Class
}

// evalInput evaluates the position oracle on a generated input.
func evalInput(in *lexgen.Input, tokenize func(string) lexgen.Run) ([]fail, string) {
	run := tokenize(in.Text)
	if run.Err != nil {
		return nil, "rejected" // C04's business
	}
	f := &fails{}
	generic(in, run.Toks, run.Comments, f)
	obs, eofs := lexgen.Expand(run.Toks)
	if lexgen.Compare(in.Wants(), obs) != nil {
		return f.l, "unaligned" // the stream is not the expected one (C04); only the generic clauses apply
	}
	out := "aligned"
	// tokens
	flagged := map[int]bool{} // tokens whose start is already reported
	for k := 0; k < len(obs); {
		t := obs[k].Tok
		first := k
		for k < len(obs) && obs[k].Tok == t {
			k++
		}
		last := k - 1
		tok := run.Toks[t]
		lf, ll := in.Lexeme(first), in.Lexeme(last)
		gap := in.Gaps[first]
		desc := fmt.Sprintf("%s(%q)", tok.Token.Type, tok.Token.Value)
		if w := at(in, tok.Start, lf.Off); w != "" {
			flagged[t] = true
			sig := "pos:" + w + ":start:" + gap.Context()
			if gap.Comment {
				cl, cc := in.Loc(in.Items[gap.FirstCmt].Off)
				if tok.Start.Line == cl && (tok.Start.Column == cc || !in.LineExact(cl)) {
					sig = "pos:start-after-comment"
				}
			}
			f.add(sig, fmt.Sprintf("%s begins at %s, reported start %s", desc, want(in, lf.Off), locStr(tok.Start)))
		}
		if w := at(in, tok.End, ll.End); w != "" {
			f.add("pos:"+w+":end:"+tokClass(ll.Lex, last > first), fmt.Sprintf("%s ends at %s, reported end %s", desc, want(in, ll.End), locStr(tok.End)))
		}
	}
	// end markers: between the end of the last lexeme and the end of the input
	lastEnd := 0
	if n := len(in.Lexes); n > 0 {
		lastEnd = in.Lexeme(n - 1).End
	}
	for _, ei := range eofs {
		t := run.Toks[ei]
		for _, loc := range []models.Location{t.Start, t.End} {
			l0, c0 := in.Loc(lastEnd)
			l1, c1 := in.Loc(len(in.Text))
			bad := loc.Line < l0 || loc.Line > l1
			if !bad && loc.Line == l0 && in.LineExact(l0) && loc.Column < c0 {
				bad = true
			}
			if !bad && loc.Line == l1 && in.LineExact(l1) && loc.Column > c1 {
				bad = true
			}
			if bad {
				f.add("pos:eof", fmt.Sprintf("end marker reported at %s; last element ends at %d:%d, input ends at %d:%d", locStr(loc), l0, c0, l1, c1))
			}
		}
	}
	// comments
	if len(run.Comments) == len(in.Cmts) {
		for i, ci := range in.Cmts {
			it := in.Items[ci]
			c := run.Comments[i]
			style := "block"
			if it.Line {
				style = "line"
			}
			if w := at(in, c.Start, it.Off); w != "" {
				f.add("pos:"+w+":comment-start:"+style, fmt.Sprintf("comment %q begins at %s, reported start %s", it.Text, want(in, it.Off), locStr(c.Start)))
			}
			// a line comment may or may not include its line terminator
			ends := []int{it.End}
			if it.Line {
				rest := in.Text[it.End:]
				if strings.HasPrefix(rest, "\r\n") {
					ends = append(ends, it.End+1, it.End+2)
				} else if strings.HasPrefix(rest, "\n") {
					ends = append(ends, it.End+1)
				}
			}
			w := ""
			for _, e := range ends {
				if w = at(in, c.End, e); w == "" {
					break
				}
			}
			if w != "" {
				f.add("pos:"+w+":comment-end:"+style, fmt.Sprintf("comment %q ends at %s, reported end %s", it.Text, want(in, it.End), locStr(c.End)))
			}
		}
		// order between comments and tokens: a comment ends before the next token starts, and starts
		// after the previous token ends
		ci := 0
		tokOf := map[int]int{} // lexeme index -> token index
		for k, o := range obs {
			tokOf[k] = o.Tok
		}
		li := -1
		for _, it := range in.Items {
			switch it.Kind {
			case lexgen.ILex:
				li++
			case lexgen.IComment:
				c := run.Comments[ci]
				ci++
				if li >= 0 {
					p := run.Toks[tokOf[li]]
					if li+1 < len(in.Lexes) && tokOf[li+1] == tokOf[li] {
						break // comment inside a compound keyword cannot happen (the words are then separate tokens)
					}
					if !lexgen.LocLE(p.End, c.Start) {
						f.add("pos:end-after-next-start:token-comment", fmt.Sprintf("%s(%q) ends at %s, after the start %s of the following comment %q", p.Token.Type, p.Token.Value, locStr(p.End), locStr(c.Start), c.Text))
					}
				}
				if li+1 < len(in.Lexes) {
					nt := tokOf[li+1]
					if !flagged[nt] && !lexgen.LocLE(c.End, run.Toks[nt].Start) {
						g := in.Gaps[li+1]
						if g.FirstCmt >= 0 && run.Toks[nt].Start == run.Comments[cmtIndex(in, g.FirstCmt)].Start {
							// same defect as on exact lines, seen through the order clause where columns are not asserted
							flagged[nt] = true
							f.add("pos:start-after-comment", fmt.Sprintf("token after comment %q reported to start at %s, the start of the comment", c.Text, locStr(run.Toks[nt].Start)))
							continue
						}
						f.add("pos:end-after-next-start:comment-token", fmt.Sprintf("comment %q ends at %s, after the start %s of the following token", c.Text, locStr(c.End), locStr(run.Toks[nt].Start)))
					}
				}
			}
		}
	}
	if len(f.l) > 0 {
		out = "mislocated"
	}
	return f.l, out
}

// emitted counts the failures already emitted per signature by this worker process.  A
// signature that has been reported sigCap times by a worker adds no information; further
// cases with it are only counted (never when a single case is replayed).
var emitted = map[string]int{}

const sigCap = 48

func emit(c *common.Ctx, fs []fail) {
	for _, f := range fs {
		if !c.Enum().Replaying() && emitted[f.sig] >= sigCap {
			c.Count("failures-not-listed-individually:"+f.sig, 1)
			continue
		}
		emitted[f.sig]++
		c.Fail(f.sig, f.msg)
	}
}

func allCapped(c *common.Ctx, fs []fail) bool {
	if c.Enum().Replaying() {
		return false
	}
	for _, f := range fs {
		if emitted[f.sig] < sigCap {
			return false
		}
	}
	return true
}

// cmtIndex converts an item index into the index of the comment among the comments.
func cmtIndex(in *lexgen.Input, item int) int {
	for i, ci := range in.Cmts {
		if ci == item {
			return i
		}
	}
	return 0
}

func report(c *common.Ctx, eval func(tok func(string) lexgen.Run) ([]fail, string)) {
	// every text is tokenized through both entry points; the oracle is evaluated on Tokenize's
	// result and, whenever TokenizeContext observed anything different, on that one as well
	diverged := false
	fs, out := eval(func(text string) lexgen.Run {
		r := lexgen.TokenizeShared(text)
		if !diverged && !lexgen.SameRun(r, lexgen.TokenizeContextShared(text)) {
			diverged = true
		}
		return r
	})
	if len(fs) > 0 && !allCapped(c, fs) {
		fs, out = eval(lexgen.Tokenize)
	}
	c.Outcome(out)
	emit(c, fs)
	if diverged {
		fs2, out2 := eval(lexgen.TokenizeContext)
		c.Outcome("TokenizeContext-differs:" + out2)
		for i := range fs2 {
			fs2[i].sig += "@TokenizeContext"
			fs2[i].msg = "via TokenizeContext (Tokenize reads the same text differently): " + fs2[i].msg
		}
		emit(c, fs2)
	}
}

var reQuoted = regexp.MustCompile(`'[^']*'|"[^"]*"|\([^)]*\)|[0-9]+`)

// template reduces an error message to its fixed part (error-construction site).
func template(code, msg string) string {
	m := reQuoted.ReplaceAllString(msg, "_")
	if i := strings.Index(m, ":"); i > 0 {
		m = m[:i]
	}
	m = strings.Join(strings.Fields(m), "-")
	if len(m) > 40 {
		m = m[:40]
	}
	return code + ":" + m
}

func byteClass(b byte) string {
	switch {
	case b < 0x20 || b == 0x7f:
		return "control"
	case b >= 0x80:
		return "non-utf8"
	}
	return string(b)
}

// errLocAt checks the location of a tokenizer error against the set of defensible offsets.
func errLocAt(in *lexgen.Input, run lexgen.Run, offs []int, sigBase string, what string, codes ...string) ([]fail, string) {
	if run.Err == nil {
		return nil, "accepted" // whether this must be an error is C04's business
	}
	if run.Code == "" {
		return nil, "unstructured-error" // C13
	}
	if len(codes) > 0 {
		ok := false
		for _, cd := range codes {
			ok = ok || cd == run.Code
		}
		if !ok {
			return nil, "other-error:" + run.Code // an error about something else than the element in question
		}
	}
	if run.Loc.Line == 0 && run.Loc.Column == 0 {
		return []fail{{"errloc:zero:tokenizer:" + run.Code, fmt.Sprintf("%s: tokenizer error %s carries location 0:0", what, run.Code)}}, "errloc-zero"
	}
	w := ""
	var wants []string
	for _, o := range offs {
		if w = at(in, run.Loc, o); w == "" {
			return nil, "errloc-ok"
		}
		wants = append(wants, want(in, o))
	}
	return []fail{{sigBase + ":" + run.Code + ":" + w, fmt.Sprintf("%s: error %s located at %s, expected %s", what, run.Code, locStr(run.Loc), strings.Join(wants, " or "))}}, "errloc-wrong"
}

// Check returns the C05 check.
func Check() *common.Check {
	return &common.Check{
		ID:    "C05",
		Level: "exploration",
		// every case is recorded before it runs: a fatal error or a hang of the worker is attributed to it
		CrashSafe: true,
		Rule: "the whole lexical space of C04 (all lexeme pairs x 7 (quick) / 43 (thorough) separator classes, reduced triples, every lexeme first/last, keywords, comment catalogue x placement, 3-lexeme multi-line layouts with blank lines, " +
			"indentation, CRLF, tabs, comments before tokens, multi-line and non-ASCII literals): every token, end marker and comment is checked for 1-based, Start<=End<=next.Start, non-decreasing, inside the input, exact line, " +
			"exact column on ASCII tab-free lines; all strings of <=3 (quick) / <=4 (thorough) fragments over the 37-fragment alphabet with the reference lexer's offsets as expected spans; error locations: unterminated literal/comment x prefix layouts, the same inputs behind / in front of 5 x 3 paddings through 8 text entry points (the location must be the tokenizer's for that text), every lexeme x every rejected hostile byte x 3 placements, and the first N statements of every sqlgen section " +
			"(N=400 quick / 3000 thorough: every clause option, DML and DDL case in both tiers) x 4 layouts x {control byte, backslash} inserted at every token boundary (tokenizer error) and a stray ']' inserted at every token boundary (ParseFromModelTokensWithPositions error); " +
			"distinct = distinct case key; non-trivial = multi-line, or containing a comment, tab, non-ASCII character or multi-line literal, or an error-location case",
		Assume: []string{
			"lexgen's builder knows the byte offset of everything it places; line = 1 + number of LF before the offset, column = bytes since the last LF + 1",
			"column equality is asserted only on ASCII, tab-free lines (bytes, runes, UTF-16 units and cells coincide there); elsewhere only line, order and containment",
			"a line comment may end before or after its line terminator; an end marker may lie anywhere between the end of the last element and the end of the input",
			"an unterminated literal may be reported at its opening delimiter or at the end of the input (a quoted identifier also at the first line break)",
			"no statement of the model grammar without '[' can continue with ']', so the first offending token of a statement with an inserted ']' is that ']'",
			"the token stream itself is C04's subject: inputs whose stream is not the expected one are only checked for the generic clauses",
		},
		Enumerate: enumerate,
	}
}

func nonTrivial(in *lexgen.Input) bool {
	if len(in.Cmts) > 0 || strings.ContainsAny(in.Text, "\n\t") {
		return true
	}
	for i := 0; i < len(in.Text); i++ {
		if in.Text[i] >= 0x80 {
			return true
		}
	}
	return false
}

func enumerate(e *common.Enum) {
	// (1) token / comment positions over the shared lexical space
	lexgen.Space(e.Thorough(), func(cs lexgen.Case) {
		if !e.Mine(cs.Key) {
			return
		}
		in, _ := cs.Build()
		if ok, why := in.Admissible(); !ok {
			w := why
			if i := strings.Index(w, ":"); i > 0 {
				w = w[:i]
			}
			e.Count("inadmissible:"+cs.Space+":"+w, 1)
			return
		}
		e.Do(cs.Key, func(c *common.Ctx) {
			c.Input(in.Text)
			c.Sample(in.Text)
			report(c, func(tok func(string) lexgen.Run) ([]fail, string) { return evalInput(in, tok) })
			if nonTrivial(in) {
				c.NonTrivial()
			}
		})
	})

	// (1b) all strings of up to N fragments that the reference lexer reads without ambiguity: the same
	// position oracle, with the reference lexer's offsets as the expected spans
	maxLen := 3
	if e.Thorough() {
		maxLen = 4
	}
	lexgen.FragStrings(maxLen, func(key, text string, n int) {
		key = "F|" + key
		if !e.Mine(key) {
			return
		}
		r := lexgen.RefLex(text)
		if r.Ambig != "" || r.Err != nil {
			e.Count("frag:no-verdict-or-invalid", 1)
			return
		}
		in := lexgen.FromRef(text, r)
		e.Do(key, func(c *common.Ctx) {
			c.Input(text)
			report(c, func(tok func(string) lexgen.Run) ([]fail, string) {
				fs, out := evalInput(in, tok)
				return fs, "frag:" + out
			})
			if n > 1 {
				c.NonTrivial()
			}
		})
	})

	// (2) unterminated literal / comment: error located at the opening delimiter or at the end of the input
	lexgen.Unterminated(func(u lexgen.Unterm) {
		e.Do(u.Key, func(c *common.Ctx) {
			c.Input(u.Text)
			in := lexgen.FromText(u.Text)
			offs := []int{u.Opener, len(u.Text)}
			if u.What == "quoted-ident" {
				if i := strings.IndexByte(u.Text[u.Opener:], '\n'); i >= 0 {
					offs = append(offs, u.Opener+i)
				}
			}
			report(c, func(tok func(string) lexgen.Run) ([]fail, string) {
				fs, out := errLocAt(in, tok(u.Text), offs, "errloc:unterminated-"+u.What, "unterminated "+u.What)
				return fs, "unterminated:" + out
			})
			c.NonTrivial()
		})
	})

	// (2b) the same lexical errors through every entry point that takes text, behind and in front of blank lines and
	// indentation: whatever an entry point does to the text before it tokenizes it (trimming, splitting, copying), the
	// location it reports is a location in the caller's text - the one the tokenizer itself reports for that text
	type textEntry struct {
		name string
		run  func(text string) error
	}
	textEntries := []textEntry{
		{"parser.Validate", func(t string) error { return parser.Validate(t) }},
		{"parser.ValidateBytes", func(t string) error { return parser.ValidateBytes([]byte(t)) }},
		{"parser.ValidateWithDialect", func(t string) error { return parser.ValidateWithDialect(t, "postgresql") }},
		{"parser.ParseBytes", func(t string) error { _, err := parser.ParseBytes([]byte(t)); return err }},
		{"gosqlx.Validate", func(t string) error { return gosqlx.Validate(t) }},
		{"gosqlx.Parse", func(t string) error { _, err := gosqlx.Parse(t); return err }},
		{"gosqlx.ParseWithContext", func(t string) error { _, err := gosqlx.ParseWithContext(context.Background(), t); return err }},
		{"gosqlx.ParseWithRecovery", func(t string) error {
			_, errs := gosqlx.ParseWithRecovery(t)
			if len(errs) == 0 {
				return nil
			}
			return errs[0]
		}},
	}
	lexgen.Unterminated(func(u lexgen.Unterm) {
		for pi, pre := range []string{"", "\n\n\n", "   \t", "\r\n  \r\n ", "\n-- c\n"} {
			for si, suf := range []string{"", "\n\n", "   "} {
				if pi == 0 && si == 0 {
					continue
				}
				text := pre + u.Text + suf
				e.Do(fmt.Sprintf("%s|entry|%d|%d", u.Key, pi, si), func(c *common.Ctx) {
					c.Input(text)
					ref := lexgen.Tokenize(text)
					if ref.Err == nil || ref.Code == "" || ref.Loc.Line == 0 {
						c.Outcome("entry-point:no-tokenizer-location")
						return
					}
					for _, te := range textEntries {
						err := te.run(text)
						if err == nil {
							continue // accept / reject agreement is C07's business
						}
						code, loc, ok := lexgen.ErrInfo(err)
						if !ok || code != ref.Code || (loc.Line == 0 && loc.Column == 0) {
							continue
						}
						if loc.Line != ref.Loc.Line || loc.Column != ref.Loc.Column {
							emit(c, []fail{{"errloc:entry-point:" + te.name + ":" + code, fmt.Sprintf("%s locates the %s error at %s, the tokenizer locates it at %s in the same text", te.name, code, locStr(loc), locStr(ref.Loc))}})
						}
					}
					c.Outcome("entry-point:compared")
					c.NonTrivial()
				})
			}
		}
	})

	// (3) every lexeme next to every hostile byte that starts no lexical element: error located at that byte
	for _, l := range lexgen.Cat() {
		for _, b := range lexgen.HostileBytes() {
			for place := 0; place < 3; place++ {
				l, b, place := l, b, place
				e.Do(fmt.Sprintf("H|%s|%02x|%d", l.Name, b, place), func(c *common.Ctx) {
					var text string
					switch place {
					case 0:
						text = l.Text + string([]byte{b})
					case 1:
						text = "x\n  " + l.Text + string([]byte{b}) + " y"
					default:
						text = "\n" + string([]byte{b}) + " " + l.Text
					}
					c.Input(text)
					r := lexgen.RefLex(text)
					if r.Ambig != "" || r.Err == nil || r.Err.Kind != "badchar" {
						c.Outcome("hostile:not-a-bad-byte")
						return
					}
					if pre := lexgen.Tokenize(text[:r.Err.Off]); pre.Err != nil {
						// the library already rejects what precedes the byte (e.g. the documented \uXXXX escape,
						// a C04 finding): its error is legitimately about that, not about the hostile byte
						c.Outcome("hostile:library-rejects-the-prefix")
						return
					}
					in := lexgen.FromText(text)
					report(c, func(tok func(string) lexgen.Run) ([]fail, string) {
						fs, out := errLocAt(in, tok(text), []int{r.Err.Off}, "errloc:bad-byte", "byte "+byteClass(b)+" that starts no lexical element", string(gerrors.ErrCodeUnexpectedChar))
						return fs, "hostile:" + out
					})
					c.NonTrivial()
				})
			}
		}
	}

	// (4)/(5) statements of the model grammar with a rejected byte / a stray ']' at every token boundary
	perSection := 400 // every clause option, DML and DDL case; a spread of the larger sections
	if e.Thorough() {
		perSection = 3000
	}
	taken := map[string]int{}
	seen := map[string]bool{}
	baseOK := map[string]bool{} // rendered, uncorrupted statement -> accepted by the position-tracking entry point
	sqlgen.All(false, func(name string, s sqlgen.S) {
		sec := name
		if i := strings.Index(name, "/"); i > 0 {
			sec = name[:i]
		}
		if taken[sec] >= perSection {
			return
		}
		nat := s.SQL()
		if seen[nat] {
			return
		}
		seen[nat] = true
		taken[sec]++
		hasBracket := false
		for _, t := range s.Toks {
			if strings.Contains(t.S, "[") {
				hasBracket = true
			}
		}
		// positions do not depend on what the tokenizer instance converted before: the statement behind each of nine
		// leading-blank prefixes, on an instance primed with each of four earlier inputs (ending on line 1, 2, 3 and
		// with an error on line 2), against a new instance
		for layout := 0; layout < sqlgen.NLayouts; layout++ {
			body := sqlgen.Render(s.Toks, layout)
			for pi, prefix := range []string{"", "\n", "\n        ", "\n" + strings.Repeat(" ", 20), "\n\n        ", "\n\n" + strings.Repeat(" ", 30), "\n\n\n     ", "\n\t\t", "    \n  "} {
				text := prefix + body
				key := fmt.Sprintf("R|L%d|%d|%s", layout, pi, nat)
				e.Do(key, func(c *common.Ctx) {
					c.Input(text)
					fresh := lexgen.Tokenize(text)
					for qi, primer := range []string{"SELECT a FROM t", "SELECT a\nFROM t", "SELECT a,\n  b\n\nFROM t -- c", "SELECT a\n  FROM 'open"} {
						tk, err := tokenizer.New()
						if err != nil {
							return
						}
						_, _ = tk.Tokenize([]byte(primer))
						toks, err := tk.Tokenize([]byte(text))
						if (err != nil) != (fresh.Err != nil) || len(toks) != len(fresh.Toks) {
							c.Fail("pos:reused-instance:outcome", fmt.Sprintf("after primer %d the same text gives %d tokens / error %v, a new tokenizer %d tokens / error %v", qi, len(toks), err, len(fresh.Toks), fresh.Err))
							return
						}
						for i := range toks {
							if toks[i].Start != fresh.Toks[i].Start || toks[i].End != fresh.Toks[i].End {
								c.Fail("pos:reused-instance", fmt.Sprintf("token %d (%q) is at %s-%s on a tokenizer that converted %q before, at %s-%s on a new one", i, toks[i].Token.Value,
									locStr(toks[i].Start), locStr(toks[i].End), primer, locStr(fresh.Toks[i].Start), locStr(fresh.Toks[i].End)))
								return
							}
						}
					}
					c.Outcome("reused-instance-positions")
					c.NonTrivial()
				})
			}
		}
		for layout := 0; layout < sqlgen.NLayouts; layout++ {
			for k := 0; k <= len(s.Toks); k++ {
				for _, ins := range []string{"\x01", "\\", "]"} {
					if ins == "]" && hasBracket {
						continue
					}
					layout, k, ins := layout, k, ins
					key := fmt.Sprintf("S|%q|L%d|%d|%s", ins, layout, k, nat)
					if !e.Mine(key) {
						continue
					}
					toks := make([]sqlgen.Tok, 0, len(s.Toks)+1)
					toks = append(toks, s.Toks[:k]...)
					toks = append(toks, sqlgen.Tok{S: ins})
					toks = append(toks, s.Toks[k:]...)
					text := sqlgen.Render(toks, layout)
					off := len(sqlgen.Render(toks[:k+1], layout)) - len(ins)
					if off < 0 || off+len(ins) > len(text) || text[off:off+len(ins)] != ins {
						e.Count("harness:offset-not-found", 1)
						continue
					}
					e.Do(key, func(c *common.Ctx) {
						c.Input(text)
						in := lexgen.FromText(text)
						if ins != "]" {
							report(c, func(tok func(string) lexgen.Run) ([]fail, string) {
								fs, out := errLocAt(in, tok(text), []int{off}, "errloc:bad-byte", "byte "+byteClass(ins[0])+" inserted at a token boundary", string(gerrors.ErrCodeUnexpectedChar))
								return fs, "stmt-bad-byte:" + out
							})
						} else {
							// the uncorrupted statement must be accepted, otherwise the first offending token is not the ']'
							plain := sqlgen.Render(s.Toks, layout)
							ok, known := baseOK[plain]
							if !known {
								ok = parsesWithPositions(plain)
								baseOK[plain] = ok
							}
							if !ok {
								c.Outcome("stray-bracket:statement-itself-rejected")
								return
							}
							parserErrLoc(c, in, text, off)
						}
						c.NonTrivial()
					})
				}
			}
		}
	})
}

// parserErrLoc: a stray ']' inserted at a token boundary of a valid statement; the
// position-tracking entry point must locate the syntax error at that token.
func parserErrLoc(c *common.Ctx, in *lexgen.Input, text string, off int) {
	run := lexgen.Tokenize(text)
	if run.Err != nil {
		c.Outcome("stray-bracket:tokenizer-rejected")
		return
	}
	// the ']' token as the tokenizer reports it
	var br *models.TokenWithSpan
	brIdx := -1
	for i := range run.Toks {
		t := &run.Toks[i]
		if t.Token.Type == models.TokenTypeRBracket {
			br = t
			brIdx = i
			break
		}
	}
	p := parser.NewParser()
	defer p.Release()
	_, err := p.ParseFromModelTokensWithPositions(run.Toks)
	if err == nil {
		c.Outcome("stray-bracket:accepted") // acceptance of the corrupted statement is not a position question
		return
	}
	code, loc, ok := lexgen.ErrInfo(err)
	if !ok {
		c.Outcome("stray-bracket:unstructured-error")
		return
	}
	var ge *gerrors.Error
	msg := err.Error()
	if e2, ok2 := err.(*gerrors.Error); ok2 {
		ge = e2
		msg = ge.Message
	}
	if loc.Line == 0 && loc.Column == 0 {
		c.Outcome("stray-bracket:errloc-zero")
		emit(c, []fail{{"errloc:zero:" + template(code, msg), fmt.Sprintf("syntax error %s (%s) carries location 0:0; the offending ']' is at %s", code, msg, want(in, off))}})
		return
	}
	w := at(in, loc, off)
	if w == "" {
		c.Outcome("stray-bracket:errloc-ok")
		// the same error through the recovery entry point: its ParseError carries a location of its own
		p2 := parser.NewParser()
		defer p2.Release()
		_, errs := p2.ParseWithRecoveryFromModelTokens(run.Toks)
		if len(errs) > 0 {
			var pe *parser.ParseError
			if errors.As(errs[0], &pe) && pe.Line > 0 {
				rl := models.Location{Line: pe.Line, Column: pe.Column}
				if rw := at(in, rl, off); rw != "" {
					c.Outcome("stray-bracket:recovery-errloc-wrong")
					emit(c, []fail{{"errloc:recovery:" + rw + ":" + code, fmt.Sprintf("recovery parsing reports the first error (%s) at %s; the strict position-tracking parse locates it correctly at %s", code, locStr(rl), locStr(loc))}})
				}
			}
		}
		return
	}
	// inherited from the tokenizer: the ']' token itself is mislocated (reported separately as a token position failure)
	if br != nil && loc == br.Start && at(in, br.Start, off) != "" {
		c.Outcome("stray-bracket:token-mislocated")
		sig := "pos:" + w + ":start:stray-bracket"
		if hasCommentBefore(text, off) {
			sig = "pos:start-after-comment"
		}
		emit(c, []fail{{sig, fmt.Sprintf("']' begins at %s, the tokenizer reports its start as %s and the syntax error inherits it", want(in, off), locStr(br.Start))}})
		return
	}
	rel := "elsewhere"
	if br != nil {
		for i := range run.Toks {
			if run.Toks[i].Start == loc && i != brIdx {
				switch {
				case i == brIdx+1:
					rel = "next-token"
				case i == brIdx-1:
					rel = "previous-token"
				case i > brIdx:
					rel = "later-token"
				default:
					rel = "earlier-token"
				}
				break
			}
		}
	}
	c.Outcome("stray-bracket:errloc-wrong")
	emit(c, []fail{{"errloc:wrong-token:" + rel + ":" + code, fmt.Sprintf("syntax error %s (%s) located at %s; the offending ']' is at %s", code, msg, locStr(loc), want(in, off))}})
}

func parsesWithPositions(sql string) bool {
	run := lexgen.Tokenize(sql)
	if run.Err != nil {
		return false
	}
	p := parser.NewParser()
	defer p.Release()
	_, err := p.ParseFromModelTokensWithPositions(run.Toks)
	return err == nil
}

func hasCommentBefore(text string, off int) bool {
	// only white space and comments between the previous token and off, at least one comment
	r := lexgen.RefLex(text[:off])
	if len(r.Comments) == 0 {
		return false
	}
	lastCmt := r.Comments[len(r.Comments)-1]
	if len(r.Toks) > 0 && r.Toks[len(r.Toks)-1].Off > lastCmt.Off {
		return false
	}
	return true
}
