package c02

import (
	"context"
	"errors"
	"runtime"
	"strings"

	goerrors "github.com/ajitpratap0/GoSQLX/pkg/errors"
	"github.com/ajitpratap0/GoSQLX/pkg/gosqlx"
)

// probe is a context that is never cancelled and measures, every time the
// parser polls it (at the entry of parseExpression and parseStatement), how
// many frames are on the goroutine's stack.  It needs no change in /repo: the
// library calls ctx.Err() itself.
type probe struct {
	context.Context
	buf []uintptr
	max int
	top []uintptr // the deepest stack seen
	sat bool      // stopped measuring: deeper than satFrames
	n   int       // polls
}

// satFrames: beyond this many frames the probe stops walking the stack (a walk
// costs O(frames); a recursion this deep is already far beyond any bounded use).
const satFrames = 1 << 15

func newProbe() *probe {
	return &probe{Context: context.Background(), buf: make([]uintptr, satFrames+64)}
}

func (p *probe) Err() error {
	p.n++
	if p.sat {
		return nil
	}
	n := runtime.Callers(1, p.buf)
	if n > p.max {
		p.max = n
		p.top = append(p.top[:0], p.buf[:n]...)
	}
	if n >= satFrames {
		p.sat = true
	}
	return nil
}

// funcCounts returns how often each library function occurs on the deepest stack,
// keyed like the call graph's ids (parser.parseExpression).
func (p *probe) funcCounts() map[string]int {
	out := map[string]int{}
	fr := runtime.CallersFrames(p.top)
	for {
		f, more := fr.Next()
		if strings.HasPrefix(f.Function, libPrefix) {
			a, b := shortFunc(f.Function)
			out[a]++
			if b != a {
				out[b]++
			}
		}
		if !more {
			break
		}
	}
	return out
}

const libPrefix = "github.com/ajitpratap0/GoSQLX/pkg/"

// shortFunc: github.com/…/pkg/sql/parser.(*Parser).parseX.func1 -> parser.parseX and
// parser.Parser.parseX (the call graph uses the second form when a name is ambiguous).
func shortFunc(full string) (string, string) {
	s := full
	if i := strings.LastIndex(s, "/"); i >= 0 {
		s = s[i+1:]
	}
	parts := strings.Split(s, ".")
	var keep, keepR []string
	for i, p := range parts {
		if i > 0 && (strings.HasPrefix(p, "func") || (len(p) > 0 && p[0] >= '0' && p[0] <= '9')) {
			break // closure suffixes
		}
		if strings.HasPrefix(p, "(") {
			keepR = append(keepR, strings.Trim(p, "(*)")) // receiver
			continue
		}
		keep = append(keep, p)
		keepR = append(keepR, p)
	}
	return strings.Join(keep, "."), strings.Join(keepR, ".")
}

type probeResult struct {
	Accepted bool
	Frames   int
	Sat      bool
	Polls    int
	Counts   map[string]int
}

// probeParse parses sql through gosqlx.ParseWithContext with a probe context.
func probeParse(sql string, wantCounts bool) probeResult {
	p := newProbe()
	_, err := gosqlx.ParseWithContext(p, sql)
	r := probeResult{Accepted: err == nil, Frames: p.max, Sat: p.sat, Polls: p.n}
	if wantCounts {
		r.Counts = p.funcCounts()
	}
	return r
}

// codeOf returns the first structured error code in the chain ("" if none).
func codeOf(err error) string {
	for e := err; e != nil; e = errors.Unwrap(e) {
		if ge, ok := e.(*goerrors.Error); ok {
			return string(ge.Code)
		}
	}
	return ""
}

// classify names the outcome of a call: accepted | rejected:<code>.
func classify(err error) string {
	if err == nil {
		return "accepted"
	}
	c := codeOf(err)
	if c == "" {
		c = "unstructured"
	}
	if c == "E2011" && strings.Contains(err.Error(), "recursion depth") {
		c = "E2011-depth" // parseCommonTableExpr reports its depth limit as an invalid-CTE error
	}
	return "rejected:" + c
}
