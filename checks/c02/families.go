package c02

import (
	"strings"
)

// A family is a generator f(depth) of SQL text: a *wrapper* (one self-embedding
// production of the grammar, text Pre…Post around the inner construct) applied
// depth times around a leaf, placed in a *context* (the clause of a top-level
// statement that holds the outermost construct).
//
//	text(d) = ctx.Pre + w.Pre^d + w.Leaf + w.Post^d + ctx.Post
//
// Nothing here states whether a wrapper is parsed recursively or by a loop:
// for parser families that is *measured* (stack frames at the deepest
// cancellation poll, see probe.go); only the tokenizer families, which have no
// poll site inside the recursion, declare the call-graph cycle they exercise.

type kind int

const (
	exprK kind = iota // wrapper: expression -> expression; context: hole for an expression
	stmtK             // wrapper: statement -> statement;  context: hole for a query
	lexK              // tokenizer family (comment runs); no context
)

type wrapper struct {
	Name      string
	Group     string // signature name shared by the wrappers that exercise one production ("" = Name)
	K         kind
	Pre, Post string
	Leaf      string   // "" = default leaf of the kind
	Via       []string // lexK only: functions of the call-graph cycle this family drives
}

// sig is the name used in failure signatures.
func (w wrapper) sig() string {
	if w.Group != "" {
		return w.Group
	}
	return w.Name
}

type clause struct {
	Name      string
	K         kind
	Pre, Post string
}

const (
	exprLeaf = "(1)"        // the parentheses make the parser poll the context at the bottom of the nesting
	stmtLeaf = "SELECT (1)" // same
)

func ew(name, pre, post string) wrapper { return wrapper{Name: name, K: exprK, Pre: pre, Post: post} }
func sw(name, pre, post string) wrapper { return wrapper{Name: name, K: stmtK, Pre: pre, Post: post} }
func swg(group, name, pre, post string) wrapper {
	return wrapper{Name: name, Group: group, K: stmtK, Pre: pre, Post: post}
}

// exprWrappers: every expression production that can contain an expression.
var exprWrappers = []wrapper{
	ew("paren", "(", ")"),
	ew("func", "f(", ")"),
	ew("func-arg2", "f(1, ", ")"),
	ew("func-distinct", "count(DISTINCT ", ")"),
	ew("func-if", "IF(", ", 1, 2)"),
	ew("case-operand", "CASE ", " WHEN 1 THEN 1 END"),
	ew("case-when-value", "CASE 1 WHEN ", " THEN 1 END"),
	ew("case-condition", "CASE WHEN ", " THEN 1 END"),
	ew("case-result", "CASE WHEN 1=1 THEN ", " END"),
	ew("case-else", "CASE WHEN 1=1 THEN 1 ELSE ", " END"),
	ew("cast", "CAST(", " AS INT)"),
	ew("not", "NOT ", ""),
	ew("not-paren", "NOT (", ")"),
	ew("neg", "- ", ""),
	ew("pos", "+ ", ""),
	ew("neg-paren", "-(", ")"),
	ew("dcolon-paren", "(", ")::int"),
	ew("subscript-index", "a[", "]"),
	ew("slice-start", "a[", ":2]"),
	ew("slice-end", "a[1:", "]"),
	ew("array", "ARRAY[", "]"),
	ew("array-subquery", "ARRAY(SELECT ", ")"),
	ew("tuple", "(", ", 2)"),
	ew("tuple-second", "(2, ", ")"),
	ew("in-list", "1 IN (", ")"),
	ew("in-list-second", "1 IN (0, ", ")"),
	ew("not-in-list", "1 NOT IN (", ")"),
	ew("in-left", "(", ") IN (1)"),
	ew("between-low", "1 BETWEEN (", ") AND 2"),
	ew("between-high", "1 BETWEEN 0 AND (", ")"),
	ew("not-between-low", "1 NOT BETWEEN (", ") AND 2"),
	ew("like-right", "'a' LIKE (", ")"),
	ew("is-null", "(", ") IS NULL"),
	ew("is-not-null", "(", ") IS NOT NULL"),
	ew("cmp-right", "1 = (", ")"),
	ew("cmp-left", "(", ") = 1"),
	ew("add-right", "1 + (", ")"),
	ew("mul-right", "1 * (", ")"),
	ew("concat-right", "'a' || (", ")"),
	ew("json-right", "a -> (", ")"),
	ew("and-right", "1=1 AND (", ")"),
	ew("or-right", "1=1 OR (", ")"),
	ew("scalar-subquery", "(SELECT ", ")"),
	ew("exists", "EXISTS (SELECT ", ")"),
	ew("not-exists", "NOT EXISTS (SELECT ", ")"),
	ew("in-subquery", "1 IN (SELECT ", ")"),
	ew("not-in-subquery", "1 NOT IN (SELECT ", ")"),
	ew("any-subquery", "1 = ANY (SELECT ", ")"),
	ew("all-subquery", "1 < ALL (SELECT ", ")"),
	ew("subquery-where", "(SELECT 1 FROM t WHERE ", ")"),
	ew("subquery-having", "(SELECT 1 FROM t GROUP BY a HAVING ", ")"),
	ew("subquery-join-on", "(SELECT 1 FROM t JOIN u ON ", ")"),
	ew("subquery-group-by", "(SELECT 1 FROM t GROUP BY ", ")"),
	ew("subquery-order-by", "(SELECT 1 FROM t ORDER BY ", ")"),
	ew("subquery-union-right", "(SELECT 1 UNION SELECT ", ")"),
	ew("subquery-with", "(WITH c AS (SELECT ", ") SELECT 1)"),
	ew("subquery-derived", "(SELECT 1 FROM (SELECT ", ") d)"),
	ew("over-partition", "sum(1) OVER (PARTITION BY ", ")"),
	ew("over-order", "sum(1) OVER (ORDER BY ", ")"),
	ew("frame-bound", "sum(1) OVER (ORDER BY a ROWS BETWEEN ", " PRECEDING AND CURRENT ROW)"),
	ew("filter", "count(*) FILTER (WHERE ", ")"),
	ew("within-group", "percentile_cont(0.5) WITHIN GROUP (ORDER BY ", ")"),
	ew("func-order-by", "string_agg(a, ',' ORDER BY ", ")"),
	ew("match-against", "MATCH(a) AGAINST(", ")"),
	ew("subquery-rollup", "(SELECT 1 FROM t GROUP BY ROLLUP(", "))"),
	ew("subquery-cube", "(SELECT 1 FROM t GROUP BY CUBE(", "))"),
	ew("subquery-grouping-sets", "(SELECT 1 FROM t GROUP BY GROUPING SETS((", ")))"),
	// ladders: a completed sibling construct precedes the one that nests on
	ew("func-after-subquery-arg", "f((SELECT 1), ", ")"),
	ew("add-after-subquery", "(SELECT 1) + (", ")"),
	ew("and-after-exists", "EXISTS (SELECT 1) AND (", ")"),
	ew("case-result-after-subquery-cond", "CASE WHEN EXISTS (SELECT 1) THEN ", " END"),
	ew("tuple-after-paren", "((1), ", ")"),
	ew("subquery-with-after-statement-cte", "(WITH r AS (DELETE FROM t WHERE a = 1), c AS (SELECT ", ") SELECT 1)"),
	// chains: the construct repeats without embedding (postfix / left-associative operators)
	{Name: "dcolon-chain", K: exprK, Pre: "", Post: "::int"},
	{Name: "subscript-chain", K: exprK, Pre: "", Post: "[1]", Leaf: "a"},
	{Name: "slice-chain", K: exprK, Pre: "", Post: "[1:2]", Leaf: "a"},
	{Name: "slice-open-start-chain", K: exprK, Pre: "", Post: "[:1]", Leaf: "a"},
	{Name: "slice-open-end-chain", K: exprK, Pre: "", Post: "[1:]", Leaf: "a"},
	{Name: "slice-open-both-chain", K: exprK, Pre: "", Post: "[:]", Leaf: "a"},
	{Name: "subscript-slice-mixed-chain", K: exprK, Pre: "", Post: "[1][:1][1:2]", Leaf: "a"},
	{Name: "subscript-dcolon-mixed-chain", K: exprK, Pre: "", Post: "[1]::int", Leaf: "a"},
	{Name: "is-null-chain", K: exprK, Pre: "", Post: " IS NULL"},
	{Name: "cmp-chain", K: exprK, Pre: "", Post: " = 1"},
	{Name: "like-chain", K: exprK, Pre: "", Post: " LIKE 'a'"},
	{Name: "sub-chain", K: exprK, Pre: "", Post: " - 1"},
	{Name: "div-chain", K: exprK, Pre: "", Post: " / 1"},
	{Name: "json-text-chain", K: exprK, Pre: "", Post: " ->> 'k'", Leaf: "a"},
	{Name: "and-chain", K: exprK, Pre: "", Post: " AND a"},
	{Name: "or-chain", K: exprK, Pre: "", Post: " OR a"},
	{Name: "add-chain", K: exprK, Pre: "", Post: " + 1"},
	{Name: "mul-chain", K: exprK, Pre: "", Post: " * 1"},
	{Name: "concat-chain", K: exprK, Pre: "", Post: " || 'a'"},
	{Name: "json-chain", K: exprK, Pre: "", Post: " -> 'k'", Leaf: "a"},
	{Name: "func-args-run", K: exprK, Pre: "f(", Post: ")", Leaf: "\x00args"}, // f(1,1,1,…): see text()
	{Name: "in-list-run", K: exprK, Pre: "1 IN (", Post: ")", Leaf: "\x00args"},
	{Name: "case-when-run", K: exprK, Pre: "CASE", Post: " END", Leaf: "\x00whens"},
}

// exprContexts: every clause of every statement kind that holds an expression.
var exprContexts = []clause{
	{"select-item", exprK, "SELECT ", ""},
	{"select-item-alias", exprK, "SELECT ", " AS x FROM t"},
	{"select-item-second", exprK, "SELECT a, ", " FROM t"},
	{"where", exprK, "SELECT 1 FROM t WHERE ", ""},
	{"having", exprK, "SELECT 1 FROM t GROUP BY a HAVING ", ""},
	{"join-on", exprK, "SELECT 1 FROM t JOIN u ON ", ""},
	{"join-on-second", exprK, "SELECT 1 FROM t JOIN u ON 1=1 LEFT JOIN v ON ", ""},
	{"group-by", exprK, "SELECT 1 FROM t GROUP BY ", ""},
	{"order-by", exprK, "SELECT 1 FROM t ORDER BY ", ""},
	{"insert-values", exprK, "INSERT INTO t (a) VALUES (", ")"},
	{"insert-returning", exprK, "INSERT INTO t (a) VALUES (1) RETURNING ", ""},
	{"on-conflict-set", exprK, "INSERT INTO t (a) VALUES (1) ON CONFLICT (a) DO UPDATE SET a = ", ""},
	{"on-conflict-where", exprK, "INSERT INTO t (a) VALUES (1) ON CONFLICT (a) DO UPDATE SET a = 1 WHERE ", ""},
	{"on-duplicate-key", exprK, "INSERT INTO t (a) VALUES (1) ON DUPLICATE KEY UPDATE a = ", ""},
	{"replace-values", exprK, "REPLACE INTO t (a) VALUES (", ")"},
	{"update-set", exprK, "UPDATE t SET a = ", ""},
	{"update-where", exprK, "UPDATE t SET a = 1 WHERE ", ""},
	{"update-returning", exprK, "UPDATE t SET a = 1 RETURNING ", ""},
	{"delete-where", exprK, "DELETE FROM t WHERE ", ""},
	{"merge-on", exprK, "MERGE INTO t USING s ON ", " WHEN MATCHED THEN DELETE"},
	{"merge-when-and", exprK, "MERGE INTO t USING s ON t.a = s.a WHEN MATCHED AND ", " THEN DELETE"},
	{"merge-update-set", exprK, "MERGE INTO t USING s ON t.a = s.a WHEN MATCHED THEN UPDATE SET a = ", ""},
	{"merge-insert-values", exprK, "MERGE INTO t USING s ON t.a = s.a WHEN NOT MATCHED THEN INSERT (a) VALUES (", ")"},
	{"create-default", exprK, "CREATE TABLE t (a INT DEFAULT ", ")"},
	{"create-check", exprK, "CREATE TABLE t (a INT CHECK (", "))"},
	{"create-table-check", exprK, "CREATE TABLE t (a INT, CHECK (", "))"},
	{"create-table-constraint-check", exprK, "CREATE TABLE t (a INT, CONSTRAINT k CHECK (", "))"},
	{"create-index-where", exprK, "CREATE INDEX i ON t (a) WHERE ", ""},
	{"create-view", exprK, "CREATE VIEW v AS SELECT ", ""},
	{"create-matview", exprK, "CREATE MATERIALIZED VIEW v AS SELECT ", ""},
	{"alter-add-default", exprK, "ALTER TABLE t ADD COLUMN a INT DEFAULT ", ""},
	{"alter-policy-using", exprK, "ALTER POLICY p ON t USING (", ")"},
	{"cte-body", exprK, "WITH c AS (SELECT ", ") SELECT 1"},
	{"cte-main", exprK, "WITH c AS (SELECT 1) SELECT ", ""},
	{"derived", exprK, "SELECT * FROM (SELECT ", ") d"},
	{"union-right", exprK, "SELECT 1 UNION SELECT ", ""},
	{"insert-select", exprK, "INSERT INTO t (a) SELECT ", ""},
}

// stmtWrappers: every production that can contain a query.
var stmtWrappers = []wrapper{
	swg("derived-table-from", "derived", "SELECT * FROM (", ") d"),
	swg("derived-table-from", "derived-as", "SELECT * FROM (", ") AS d"),
	swg("derived-table-from", "derived-second", "SELECT * FROM t, (", ") d"),
	swg("derived-table-from", "derived-lateral", "SELECT * FROM t, LATERAL (", ") d"),
	swg("derived-table-join", "derived-join", "SELECT * FROM t JOIN (", ") d ON 1=1"),
	swg("derived-table-join", "derived-left-join", "SELECT * FROM t LEFT JOIN (", ") d ON 1=1"),
	swg("derived-table-join", "derived-cross-join", "SELECT * FROM t CROSS JOIN (", ") d"),
	swg("derived-table-join", "derived-join-lateral", "SELECT * FROM t JOIN LATERAL (", ") d ON 1=1"),
	swg("derived-table-join", "derived-join-second", "SELECT * FROM t JOIN u ON 1=1 JOIN (", ") d ON 1=1"),
	swg("derived-table-join", "derived-both", "SELECT * FROM (SELECT 1) e JOIN (", ") d ON 1=1"),
	swg("cte-body", "cte", "WITH c AS (", ") SELECT * FROM c"),
	swg("cte-body", "cte-second", "WITH b AS (SELECT 1), c AS (", ") SELECT 1"),
	swg("cte-body", "cte-recursive", "WITH RECURSIVE c AS (", ") SELECT 1"),
	swg("cte-body", "cte-materialized", "WITH c AS MATERIALIZED (", ") SELECT 1"),
	swg("cte-body", "cte-columns", "WITH c (a) AS (", ") SELECT 1"),
	swg("cte-body", "cte-insert-main", "WITH c AS (", ") INSERT INTO t (a) SELECT 1"),
	sw("select-scalar", "SELECT (", ")"),
	sw("select-scalar-from", "SELECT (", ") FROM t"),
	sw("where-in", "SELECT 1 FROM t WHERE a IN (", ")"),
	sw("where-exists", "SELECT 1 FROM t WHERE EXISTS (", ")"),
	sw("where-any", "SELECT 1 FROM t WHERE a = ANY (", ")"),
	sw("where-cmp", "SELECT 1 FROM t WHERE a > (", ")"),
	sw("having-cmp", "SELECT 1 FROM t GROUP BY a HAVING a > (", ")"),
	sw("join-on-cmp", "SELECT 1 FROM t JOIN u ON a = (", ")"),
	sw("order-by-subquery", "SELECT 1 FROM t ORDER BY (", ")"),
	sw("derived-scalar", "SELECT * FROM (SELECT (", ")) d"),
	sw("derived-exists", "SELECT * FROM (SELECT 1 FROM t WHERE EXISTS (", ")) d"),
	sw("cte-derived", "WITH c AS (SELECT * FROM (", ") d) SELECT 1"),
	sw("cte-scalar", "WITH c AS (SELECT (", ")) SELECT 1"),
	// any statement can be a CTE body: DML / DDL holding a query in an expression
	sw("cte-insert-values", "WITH c AS (INSERT INTO t (a) VALUES ((", "))) SELECT 1"),
	sw("cte-insert-select", "WITH c AS (INSERT INTO t (a) SELECT (", ")) SELECT 1"),
	sw("cte-insert-returning", "WITH c AS (INSERT INTO t (a) VALUES (1) RETURNING (", ")) SELECT 1"),
	sw("cte-insert-on-conflict", "WITH c AS (INSERT INTO t (a) VALUES (1) ON CONFLICT (a) DO UPDATE SET a = (", ")) SELECT 1"),
	sw("cte-insert-on-duplicate", "WITH c AS (INSERT INTO t (a) VALUES (1) ON DUPLICATE KEY UPDATE a = (", ")) SELECT 1"),
	sw("cte-replace-values", "WITH c AS (REPLACE INTO t (a) VALUES ((", "))) SELECT 1"),
	sw("cte-update-set", "WITH c AS (UPDATE t SET a = (", ")) SELECT 1"),
	sw("cte-update-where", "WITH c AS (UPDATE t SET a = 1 WHERE a IN (", ")) SELECT 1"),
	sw("cte-delete-where", "WITH c AS (DELETE FROM t WHERE a IN (", ")) SELECT 1"),
	sw("cte-merge-on", "WITH c AS (MERGE INTO t USING s ON t.a = (", ") WHEN MATCHED THEN DELETE) SELECT 1"),
	sw("cte-merge-when", "WITH c AS (MERGE INTO t USING s ON t.a = s.a WHEN MATCHED AND t.a = (", ") THEN DELETE) SELECT 1"),
	sw("cte-merge-update", "WITH c AS (MERGE INTO t USING s ON t.a = s.a WHEN MATCHED THEN UPDATE SET a = (", ")) SELECT 1"),
	sw("cte-merge-insert", "WITH c AS (MERGE INTO t USING s ON t.a = s.a WHEN NOT MATCHED THEN INSERT (a) VALUES ((", "))) SELECT 1"),
	sw("cte-create-view", "WITH c AS (CREATE VIEW v AS SELECT (", ")) SELECT 1"),
	sw("cte-create-matview", "WITH c AS (CREATE MATERIALIZED VIEW v AS SELECT (", ")) SELECT 1"),
	sw("cte-create-table-default", "WITH c AS (CREATE TABLE t (a INT DEFAULT (", "))) SELECT 1"),
	sw("cte-create-table-check", "WITH c AS (CREATE TABLE t (a INT CHECK ((", ") > 0))) SELECT 1"),
	sw("cte-create-table-constraint", "WITH c AS (CREATE TABLE t (a INT, CHECK ((", ") > 0))) SELECT 1"),
	sw("cte-create-table-partition", "WITH c AS (CREATE TABLE t (a INT) PARTITION BY RANGE (a) (PARTITION p VALUES LESS THAN ((", ")))) SELECT 1"),
	sw("cte-create-index-where", "WITH c AS (CREATE INDEX i ON t (a) WHERE a > (", ")) SELECT 1"),
	sw("cte-alter-table-default", "WITH c AS (ALTER TABLE t ADD COLUMN a INT DEFAULT (", ")) SELECT 1"),
	sw("cte-alter-policy", "WITH c AS (ALTER POLICY p ON t USING (a > (", "))) SELECT 1"),
	sw("cte-alter-role-set", "WITH c AS (ALTER ROLE r SET x = (", ")) SELECT 1"),
	sw("cte-alter-role-password", "WITH c AS (ALTER ROLE r WITH PASSWORD (", ")) SELECT 1"),
	sw("cte-alter-role-valid-until", "WITH c AS (ALTER ROLE r WITH VALID UNTIL (", ")) SELECT 1"),
	sw("cte-describe", "WITH c AS (DESCRIBE SELECT (", ")) SELECT 1"),
	sw("cte-explain", "WITH c AS (EXPLAIN SELECT (", ")) SELECT 1"),
	// ladders: a sibling that is a statement of its own is completed before the nesting continues
	swg("cte-after-statement-cte", "cte-after-delete-cte", "WITH r AS (DELETE FROM t WHERE a = 1), c AS (", ") SELECT * FROM c"),
	swg("cte-after-statement-cte", "cte-after-update-cte", "WITH r AS (UPDATE t SET a = 1), c AS (", ") SELECT * FROM c"),
	swg("cte-after-statement-cte", "cte-after-insert-cte", "WITH r AS (INSERT INTO t (a) VALUES (1)), c AS (", ") SELECT * FROM c"),
	swg("cte-after-statement-cte", "cte-after-with-cte", "WITH r AS (WITH q AS (SELECT 1) SELECT * FROM q), c AS (", ") SELECT * FROM c"),
	swg("cte-after-statement-cte", "cte-after-select-cte", "WITH r AS (SELECT (SELECT 1)), c AS (", ") SELECT * FROM c"),
	swg("main-after-statement-cte", "main-after-delete-cte", "WITH r AS (DELETE FROM t WHERE a = 1) SELECT * FROM (", ") d"),
	swg("main-after-statement-cte", "main-after-with-cte", "WITH r AS (WITH q AS (SELECT 1) SELECT * FROM q) SELECT * FROM (", ") d"),
	swg("main-after-statement-cte", "main-scalar-after-insert-cte", "WITH r AS (INSERT INTO t (a) VALUES (1)) SELECT (", ")"),
	sw("derived-after-scalar", "SELECT (SELECT 1) FROM (", ") d"),
	sw("where-after-derived", "SELECT 1 FROM (SELECT 1) e WHERE a IN (", ")"),
	sw("union-right-derived", "SELECT 1 UNION SELECT * FROM (", ") d"),
	sw("union-left-derived", "SELECT * FROM (", ") d UNION SELECT 1"),
	// the statement after the WITH list
	sw("with-main-select", "WITH c AS (SELECT 1) SELECT (", ")"),
	sw("with-main-insert", "WITH c AS (SELECT 1) INSERT INTO t (a) SELECT (", ")"),
	sw("with-main-update", "WITH c AS (SELECT 1) UPDATE t SET a = (", ")"),
	sw("with-main-delete", "WITH c AS (SELECT 1) DELETE FROM t WHERE a IN (", ")"),
	// chains
	{Name: "union-chain", K: stmtK, Pre: "", Post: " UNION SELECT 1"},
	{Name: "union-all-chain", K: stmtK, Pre: "", Post: " UNION ALL SELECT 1"},
	{Name: "intersect-chain", K: stmtK, Pre: "", Post: " INTERSECT SELECT 1"},
	{Name: "except-chain", K: stmtK, Pre: "", Post: " EXCEPT SELECT 1"},
	{Name: "join-chain", K: stmtK, Pre: "", Post: " JOIN t ON 1=1", Leaf: "SELECT (1) FROM t"},
	{Name: "left-join-chain", K: stmtK, Pre: "", Post: " LEFT JOIN t ON (1)=1", Leaf: "SELECT (1) FROM t"},
	{Name: "cross-join-chain", K: stmtK, Pre: "", Post: " CROSS JOIN t", Leaf: "SELECT (1) FROM t"},
	{Name: "from-list-run", K: stmtK, Pre: "", Post: ", t", Leaf: "SELECT (1) FROM t"},
	{Name: "cte-list-run", K: stmtK, Pre: "WITH c AS (SELECT 1)", Post: " SELECT (1)", Leaf: "\x00ctes"},
	{Name: "select-list-run", K: stmtK, Pre: "SELECT (1)", Post: "", Leaf: "\x00items"},
	{Name: "values-rows-run", K: stmtK, Pre: "INSERT INTO t (a) VALUES (1)", Post: "", Leaf: "\x00rows"},
	{Name: "statements-run", K: stmtK, Pre: "SELECT (1)", Post: "", Leaf: "\x00stmts"},
}

// stmtContexts: every place that holds a query.
var stmtContexts = []clause{
	{"top", stmtK, "", ""},
	{"insert-select", stmtK, "INSERT INTO t (a) ", ""},
	{"insert-select-nocols", stmtK, "INSERT INTO t ", ""},
	{"create-view", stmtK, "CREATE VIEW v AS ", ""},
	{"create-matview", stmtK, "CREATE MATERIALIZED VIEW v AS ", ""},
	{"cte-main", stmtK, "WITH z AS (SELECT 1) ", ""},
	{"cte-body", stmtK, "WITH z AS (", ") SELECT 1"},
	{"union-right", stmtK, "SELECT 1 UNION ", ""},
	{"select-scalar", stmtK, "SELECT (", ")"},
	{"where-in", stmtK, "SELECT 1 FROM t WHERE a IN (", ")"},
	{"update-set", stmtK, "UPDATE t SET a = (", ")"},
	{"delete-where-in", stmtK, "DELETE FROM t WHERE a IN (", ")"},
	{"explain", stmtK, "EXPLAIN ", ""},
}

var lexVia = []string{"tokenizer.nextToken", "tokenizer.readPunctuation"}

// lexWrappers: runs of comments; each comment makes the tokenizer call
// nextToken -> readPunctuation -> nextToken on the pinned tree.
var lexWrappers = []wrapper{
	{Name: "block-comments", Group: "comment-run", K: lexK, Pre: "/*c*/ ", Leaf: "SELECT 1", Via: lexVia},
	{Name: "block-comments-adjacent", Group: "comment-run", K: lexK, Pre: "/**/", Leaf: "SELECT 1", Via: lexVia},
	{Name: "line-comments", Group: "comment-run", K: lexK, Pre: "--c\n", Leaf: "SELECT 1", Via: lexVia},
	{Name: "mixed-comments", Group: "comment-run", K: lexK, Pre: "/*c*/--c\n", Leaf: "SELECT 1", Via: lexVia},
	{Name: "block-comments-inner", Group: "comment-run", K: lexK, Pre: "/*c*/ ", Leaf: "\x00inner", Via: lexVia}, // SELECT <comments> 1
	{Name: "line-comments-inner", Group: "comment-run", K: lexK, Pre: "--c\n", Leaf: "\x00inner", Via: lexVia},
	{Name: "block-comments-trailing", Group: "comment-run", K: lexK, Post: " /*c*/", Leaf: "SELECT 1", Via: lexVia},
}

type family struct {
	W   wrapper
	C   clause
	Key string // <wrapper>@<context>
	// Primary: the wrapper in the first context of its kind, or the first wrapper of
	// a kind in any context, or a tokenizer family.  Primary families run every depth
	// in the quick tier; the others run the depths around the limit (thorough: all).
	Primary bool
}

// unreachable: functions of the recursive component that no SQL text can reach
// on the pinned tree, each with a witness statement: as long as the witness is
// rejected (the tokenizer never produces the ROLE keyword token, so ALTER ROLE
// is refused before parseAlterRoleStatement is called) the function needs no
// family.  When the witness becomes accepted the exemption lapses by itself.
var unreachable = map[string]string{
	"parser.parseAlterRoleStatement": "ALTER ROLE r RENAME TO s",
	"parser.parseRoleOption":         "ALTER ROLE r WITH LOGIN",
}

// families returns the whole table, in a fixed order.
func families() []family {
	var out []family
	for i, w := range exprWrappers {
		for j, c := range exprContexts {
			out = append(out, family{w, c, w.Name + "@" + c.Name, i == 0 || j == 0})
		}
	}
	for i, w := range stmtWrappers {
		for j, c := range stmtContexts {
			out = append(out, family{w, c, w.Name + "@" + c.Name, i == 0 || j == 0})
		}
	}
	for _, w := range lexWrappers {
		out = append(out, family{w, clause{Name: "text", K: lexK}, w.Name + "@text", true})
	}
	return out
}

// isqrt: integer square root (units per line; keeps both the number of lines
// and the line length near sqrt(size), because the pinned tokenizer's position
// conversion costs O(lines before + column) per token).
func isqrt(n int) int {
	r := 1
	for r*r < n {
		r++
	}
	return r
}

// repeatUnits writes unit d times with a line break every k units.
func repeatUnits(b *strings.Builder, unit string, d, k int) {
	for i := 0; i < d; i++ {
		b.WriteString(unit)
		if i%k == k-1 {
			b.WriteByte('\n')
		}
	}
}

// text renders the family at a depth.
func (f family) text(d int) string {
	k := isqrt(d)
	if k < 16 {
		k = 16
	}
	var b strings.Builder
	b.Grow(len(f.C.Pre) + len(f.C.Post) + d*(len(f.W.Pre)+len(f.W.Post)+8) + 32)
	b.WriteString(f.C.Pre)
	leaf := f.W.Leaf
	if leaf == "" {
		if f.W.K == exprK {
			leaf = exprLeaf
		} else {
			leaf = stmtLeaf
		}
	}
	if strings.HasPrefix(leaf, "\x00") {
		// runs: one construct with d repeated members
		if leaf != "\x00inner" {
			b.WriteString(f.W.Pre)
		}
		switch leaf[1:] {
		case "args":
			b.WriteString("(1)")
			repeatUnits(&b, ", 1", d, k)
		case "whens":
			repeatUnits(&b, " WHEN (1)=1 THEN 1", d, k)
		case "ctes":
			repeatUnits(&b, ", c AS (SELECT 1)", d, k)
		case "items":
			repeatUnits(&b, ", 1", d, k)
		case "rows":
			repeatUnits(&b, ", ((1))", d, k)
		case "stmts":
			repeatUnits(&b, "; SELECT 1", d, k)
		case "inner":
			b.WriteString("SELECT ")
			repeatUnits(&b, f.W.Pre, d, k)
			b.WriteString("1")
		}
		b.WriteString(f.W.Post)
	} else {
		repeatUnits(&b, f.W.Pre, d, k)
		b.WriteString(leaf)
		repeatUnits(&b, f.W.Post, d, k)
	}
	b.WriteString(f.C.Post)
	return b.String()
}
