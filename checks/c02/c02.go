// Package c02 checks property C02: size, token and nesting limits hold for
// every construct.
//
// Static half (graph search over program structure): the call graph of
// pkg/sql/parser and pkg/sql/tokenizer is built from the current working tree;
// every call made after a depth guard (p.depth++ … if p.depth > MaxRecursionDepth
// {return}) is deleted; every non-trivial strongly connected component that
// remains is recursion the depth counter does not see.  Every function that
// takes part in recursion must be driven by a nesting family of the dynamic
// half (measured, not declared: the function must occur once more per nesting
// level on the stack observed at the parser's own cancellation polls).
//
// Dynamic half: ~3500 nesting families (self-embedding production x clause that
// holds it) at every depth 1…130 and a ladder up to the largest depth the
// token/size limits allow; inputs around MaxInputSize and MaxTokens.
package c02

import (
	"bytes"
	"context"
	"fmt"
	"os"
	"os/exec"
	"runtime"
	"runtime/debug"
	"sort"
	"strings"
	"sync"

	"github.com/ajitpratap0/GoSQLX/pkg/formatter"
	"github.com/ajitpratap0/GoSQLX/pkg/gosqlx"
	"github.com/ajitpratap0/GoSQLX/pkg/models"
	"github.com/ajitpratap0/GoSQLX/pkg/sql/parser"
	"github.com/ajitpratap0/GoSQLX/pkg/sql/tokenizer"

	"verif/engine/cgraph"
	"verif/engine/common"
)

// The documented limits (parser/doc.go "MaxRecursionDepth = 100", tokenizer/doc.go
// "MaxInputSize: 10MB", "MaxTokens: 1M"; the property's anchors name the same values).
const (
	docDepth  = 100
	docSize   = 10 * 1024 * 1024
	docTokens = 1000000
)

var pkgs = []string{
	"github.com/ajitpratap0/GoSQLX/pkg/sql/parser",
	"github.com/ajitpratap0/GoSQLX/pkg/sql/tokenizer",
}

// Check returns the C02 check.
func Check() *common.Check {
	return &common.Check{
		ID:        "C02",
		Level:     "exploration",
		CrashSafe: true,
		MemLimit:  8 << 30, // inputs at the documented limits: trees of a million tokens, ten-megabyte literals
		Rule: "static: one case per strongly connected component of the call graph of pkg/sql/parser + pkg/sql/tokenizer (obligation: no cycle survives deleting the calls made under a depth guard), " +
			"one case per function that takes part in recursion (obligation: some nesting family drives it, measured on the stack at the parser's cancellation polls), limit constants, cross-check against `callgraph -algo=static` (thorough: + cha dynamic edges); " +
			"dynamic: every (wrapper production x holding clause) family at every depth 1…130, 200, 500, 1000 (thorough: 10^4, 10^5 and the largest depth the token/size limits allow for each wrapper in its primary clause and each clause with the parenthesis wrapper); " +
			"limits: inputs of MaxInputSize-1/0/+1 bytes (thorough -2…+2, x2) in 7 shapes (also padding before / after a short statement) and MaxTokens-1/0/+1 tokens (thorough -2…+2) in 5 shapes (thorough 9: the last token followed by nothing, a newline, blanks, a line comment, a block comment) through 16 text entry points (tokenizer, gosqlx, parser.Validate* / Parse*, formatter); " +
			"distinct = distinct (family, depth) / (shape, size, entry point) / graph component; non-trivial = input accepted, or rejected with a limit error (E1006/E1007/E2007/CTE depth), or a static obligation",
		Assume: []string{
			"call edges through stored function values are resolved only at the place where the function is mentioned (cross-checked against callgraph -algo=static; thorough adds the intra-library dynamic edges of -algo=cha)",
			"a depth guard is recognised syntactically: X.depth++ followed in the same block by `if X.depth > MaxRecursionDepth {… return}`; calls textually after it in that block are guarded",
			"tokenizer families (comment runs) have no poll site inside the recursion: their mapping to the cycle nextToken<->readPunctuation is declared in checks/c02/families.go, not measured",
			"documented limits: depth 100, 10 MiB, 1,000,000 tokens (doc.go of parser and tokenizer); whether the EOF token counts towards MaxTokens is left open (exactly MaxTokens non-EOF tokens may be accepted or rejected)",
			"stack growth is measured in frames at the entries of parseExpression/parseStatement (the library's own ctx.Err() polls); a family is called recursive only if the deepest observed stack grows by at least one frame per nesting level",
		},
		Enumerate: enumerate,
		Extra:     extra,
	}
}

func extra(tier string) map[string]any {
	g, err := cgraph.Load(common.Root(), pkgs)
	if err != nil {
		return map[string]any{"call_graph": "load failed: " + err.Error()}
	}
	guards := []string{}
	for id, f := range g.Funcs {
		if f.HasGuard {
			guards = append(guards, id)
		}
	}
	sort.Strings(guards)
	var ung []string
	for _, s := range g.SCCs(cgraph.Unguarded) {
		ung = append(ung, strings.Join(s, "+"))
	}
	rec := 0
	for _, s := range g.SCCs(nil) {
		rec += len(s)
	}
	nf := len(families())
	return map[string]any{"call_graph": map[string]any{
		"functions": len(g.Funcs), "call_edges": len(g.Edges), "recursive_components": len(g.SCCs(nil)),
		"functions_in_recursion": rec, "functions_with_guard": guards, "unguarded_components": ung,
	}, "families": nf, "overlay": cgraph.Overlay() != nil}
}

func enumerate(e *common.Enum) {
	// the rejection path of the library allocates heavily (nested error texts); fewer GC cycles
	debug.SetGCPercent(400)
	g, gerr := cgraph.Load(common.Root(), pkgs)
	if gerr != nil {
		e.Do("static/load", func(c *common.Ctx) {
			c.Fail("harness:callgraph-load-failed", gerr.Error())
		})
		g = &cgraph.Graph{Funcs: map[string]*cgraph.Func{}, Const: map[string]string{}}
	}
	only := os.Getenv("VERIF_C02_ONLY") // development aid: static | dyn | limit
	if only == "" || only == "static" {
		staticHalf(e, g)
	}
	if only == "" || only == "dyn" {
		dynamicHalf(e, g)
	}
	if only == "" || only == "limit" {
		limitCases(e)
	}
}

// ---------------------------------------------------------------- static half

// sccName: sorted function names joined by +, capped to the 4 smallest.
func sccName(s []string) string {
	if len(s) > 4 {
		return strings.Join(s[:4], "+") + "+..."
	}
	return strings.Join(s, "+")
}

func subset(a, b []string) bool {
	in := map[string]bool{}
	for _, x := range b {
		in[x] = true
	}
	for _, x := range a {
		if !in[x] {
			return false
		}
	}
	return true
}

func describeEdges(g *cgraph.Graph, comp []string) string {
	var b strings.Builder
	seen := map[string]bool{}
	for _, ed := range g.EdgesWithin(comp, cgraph.Unguarded) {
		k := ed.From + ">" + ed.To
		if seen[k] {
			continue
		}
		seen[k] = true
		fmt.Fprintf(&b, "\n  %s -> %s   (%s:%d)", ed.From, ed.To, strings.TrimPrefix(ed.File, "/repo/"), ed.Line)
		if len(seen) >= 24 {
			b.WriteString("\n  …")
			break
		}
	}
	return b.String()
}

func staticHalf(e *common.Enum, g *cgraph.Graph) {
	full := g.SCCs(nil)
	ung := g.SCCs(cgraph.Unguarded)

	// obligation 1: inside every recursive component, every cycle passes a guard
	for _, comp := range full {
		comp := comp
		e.Do("static/cycles-guarded/"+sccName(comp), func(c *common.Ctx) {
			c.Input("component: " + strings.Join(comp, " "))
			c.Sample(map[string]any{"obligation": "every cycle of this call-graph component passes a depth guard", "functions": len(comp), "first": comp[0]})
			c.NonTrivial()
			bad := 0
			for _, u := range ung {
				if !subset(u, comp) {
					continue
				}
				bad++
				c.Fail("unguarded-cycle:"+sccName(u),
					fmt.Sprintf("recursion that the depth counter does not see: after deleting every call made under a depth guard, %d function(s) still form a cycle: %s%s",
						len(u), strings.Join(u, " "), describeEdges(g, u)))
			}
			if bad == 0 {
				c.Outcome("static:component-guarded")
			} else {
				c.Outcome("static:component-has-unguarded-cycle")
			}
		})
	}

	// obligation 2: every function that takes part in recursion is driven by a family
	lex := map[string][]string{}
	for _, w := range lexWrappers {
		for _, fn := range w.Via {
			lex[fn] = append(lex[fn], w.Name+"@text")
		}
	}
	for _, comp := range full {
		for _, fn := range comp {
			fn := fn
			e.Do("static/mapped/"+fn, func(c *common.Ctx) {
				c.Input("function in a recursive component: " + fn)
				c.NonTrivial()
				if fams := lex[fn]; len(fams) > 0 {
					c.Outcome("static:mapped-declared")
					c.Sample(map[string]any{"function": fn, "declared_families": fams})
					return
				}
				fams := recursionPaths(fn)
				if w := unreachable[fn]; len(fams) == 0 && w != "" {
					if _, err := gosqlx.Parse(w); err != nil {
						c.Outcome("static:unreachable-from-text")
						c.Sample(map[string]any{"function": fn, "witness_rejected": w, "error_code": codeOf(err)})
						return
					}
				}
				if len(fams) == 0 {
					c.Outcome("static:unmapped")
					c.Fail("unmapped-recursion:"+fn, "function "+fn+" is part of a call-graph cycle but no nesting family of checks/c02/families.go recurses through it "+
						"(measured: it never occurs once more per nesting level on the stack seen at the parser's polls); a recursive production without a family is not exercised by the dynamic half")
					return
				}
				c.Outcome("static:mapped-measured")
				n := len(fams)
				if n > 3 {
					fams = fams[:3]
				}
				c.Sample(map[string]any{"function": fn, "families_recursing_through_it": n, "first": fams})
			})
		}
	}

	// obligation 3: the limit constants are the documented ones
	e.Do("static/limit-constants", func(c *common.Ctx) {
		c.Input("MaxRecursionDepth / MaxInputSize / MaxTokens")
		c.NonTrivial()
		c.Outcome("static:constants")
		if parser.MaxRecursionDepth != docDepth {
			c.Fail("limit-constant-changed:MaxRecursionDepth", fmt.Sprintf("parser.MaxRecursionDepth = %d, documented %d", parser.MaxRecursionDepth, docDepth))
		}
		if tokenizer.MaxInputSize != docSize {
			c.Fail("limit-constant-changed:MaxInputSize", fmt.Sprintf("tokenizer.MaxInputSize = %d, documented %d", tokenizer.MaxInputSize, docSize))
		}
		if tokenizer.MaxTokens != docTokens {
			c.Fail("limit-constant-changed:MaxTokens", fmt.Sprintf("tokenizer.MaxTokens = %d, documented %d", tokenizer.MaxTokens, docTokens))
		}
	})

	// cross-check of the graph itself against the callgraph tool
	algos := []string{"static"}
	if e.Thorough() {
		algos = append(algos, "cha")
	}
	for _, algo := range algos {
		algo := algo
		e.Do("static/crosscheck/callgraph-"+algo, func(c *common.Ctx) {
			c.Input("callgraph -algo=" + algo)
			crossCheck(c, g, algo, ung)
		})
	}
}

// toolID maps a callgraph-tool function name to a graph id ("" if not a library function).
// (*github.com/…/pkg/sql/parser.Parser).parseX$1 -> parser.parseX ; closure=true
func toolID(g *cgraph.Graph, s string) (id string, closure bool) {
	if !strings.Contains(s, "GoSQLX/pkg/sql/parser.") && !strings.Contains(s, "GoSQLX/pkg/sql/tokenizer.") {
		return "", false
	}
	if i := strings.Index(s, "$"); i >= 0 {
		s = s[:i]
		closure = true
	}
	recv := ""
	if strings.HasPrefix(s, "(") {
		j := strings.Index(s, ")")
		if j < 0 {
			return "", closure
		}
		r := strings.Trim(s[:j+1], "(*)")
		s = s[j+1:]
		if k := strings.LastIndex(r, "."); k >= 0 {
			recv = r[k+1:]
			r = r[:k]
		}
		s = r + s // path.name
	}
	k := strings.LastIndex(s, "/")
	s = s[k+1:] // parser.name
	if _, ok := g.Funcs[s]; ok {
		return s, closure
	}
	if recv != "" {
		d := strings.Index(s, ".")
		alt := s[:d] + "." + recv + s[d:]
		if _, ok := g.Funcs[alt]; ok {
			return alt, closure
		}
	}
	return "", closure
}

func crossCheck(c *common.Ctx, g *cgraph.Graph, algo string, ung [][]string) {
	if cgraph.Overlay() != nil {
		// the tool reads the files named by `go list`, not their overlay replacements
		c.Outcome("crosscheck:skipped-under-overlay")
		return
	}
	if _, err := exec.LookPath("callgraph"); err != nil {
		c.Outcome("crosscheck:tool-not-installed")
		return
	}
	args := append([]string{"-algo=" + algo, "-format={{.Caller}}\t{{.Callee}}"}, pkgs...)
	cmd := exec.Command("callgraph", args...)
	cmd.Dir = common.Root()
	cmd.Env = cgraph.GoEnv()
	var stderr bytes.Buffer
	cmd.Stderr = &stderr
	out, err := cmd.Output()
	if err != nil {
		c.Outcome("crosscheck:tool-failed")
		c.Sample(map[string]any{"callgraph_tool_error": common.Trim(stderr.String(), 300)})
		return
	}
	c.NonTrivial()
	have := map[string]bool{}
	for _, ed := range g.Edges {
		have[ed.From+">"+ed.To] = true
	}
	var missing []string
	seen := map[string]bool{}
	n := 0
	for _, line := range strings.Split(string(out), "\n") {
		parts := strings.Split(line, "\t")
		if len(parts) != 2 {
			continue
		}
		from, fc := toolID(g, parts[0])
		to, tc := toolID(g, parts[1])
		if from == "" || to == "" {
			continue
		}
		if from == to && (fc || tc) {
			continue // a function and its own closure
		}
		k := from + ">" + to
		if seen[k] {
			continue
		}
		seen[k] = true
		n++
		if !have[k] {
			missing = append(missing, k)
		}
	}
	sort.Strings(missing)
	c.Sample(map[string]any{"algo": algo, "tool_edges_between_library_functions": n, "not_in_static_graph": len(missing)})
	if algo == "static" {
		// every statically resolved call the tool sees between functions of one package must be in the graph
		var real []string
		for _, m := range missing {
			p := strings.Split(m, ">")
			if g.Funcs[p[0]].Pkg == g.Funcs[p[1]].Pkg {
				real = append(real, m)
			}
		}
		if len(real) > 0 {
			c.Outcome("crosscheck:static-graph-incomplete")
			c.Fail("static-graph-incomplete", "call edges reported by `callgraph -algo=static` that the check's own graph lacks (the static half would be unsound): "+strings.Join(real, ", "))
			return
		}
		c.Outcome("crosscheck:static-agrees")
		return
	}
	// cha: add the dynamic edges (calls through interfaces / function values) and look for new unguarded cycles
	g2 := &cgraph.Graph{Funcs: g.Funcs, Edges: append([]cgraph.Edge{}, g.Edges...)}
	for _, m := range missing {
		p := strings.Split(m, ">")
		g2.Edges = append(g2.Edges, cgraph.Edge{From: p[0], To: p[1], File: "(dynamic call, -algo=cha)"})
	}
	known := map[string]bool{}
	for _, u := range ung {
		known[strings.Join(u, "+")] = true
	}
	bad := 0
	for _, u := range g2.SCCs(cgraph.Unguarded) {
		if !known[strings.Join(u, "+")] {
			bad++
			c.Fail("unguarded-cycle-via-dynamic-call:"+sccName(u), "with the dynamic call edges of -algo=cha added, an unguarded cycle appears that the static graph does not have: "+strings.Join(u, " ")+describeEdges(g2, u))
		}
	}
	if bad == 0 {
		c.Outcome("crosscheck:cha-adds-no-cycle")
	} else {
		c.Outcome("crosscheck:cha-adds-cycle")
	}
}

// recursionPaths measures, for every parser family, which functions occur once
// more per nesting level on the deepest stack seen at the parser's polls, and
// returns function -> families that recurse through it.
var (
	rpMu   sync.Mutex
	rpMap  = map[string][]string{}
	rpDone [2]bool
)

func recursionPaths(fn string) []string {
	rpMu.Lock()
	defer rpMu.Unlock()
	// primary families first; the rest only for a function none of them drives
	for pass := 0; pass < 2; pass++ {
		if !rpDone[pass] {
			rpDone[pass] = true
			for _, f := range families() {
				if f.W.K == lexK || f.Primary != (pass == 0) {
					continue
				}
				for g := range measurePath(f) {
					rpMap[g] = append(rpMap[g], f.Key)
				}
			}
		}
		if len(rpMap[fn]) > 0 {
			break
		}
	}
	return rpMap[fn]
}

// measurePath: functions whose count on the deepest stack grows by >= 1 per level between depth 3 and 6.
func measurePath(f family) map[string]bool {
	a := probeParse(f.text(3), true)
	if !a.Accepted {
		return nil
	}
	b := probeParse(f.text(6), true)
	if !b.Accepted {
		return nil
	}
	out := map[string]bool{}
	for fn, n := range b.Counts {
		if n-a.Counts[fn] >= 3 {
			out[fn] = true
		}
	}
	return out
}

// ---------------------------------------------------------------- dynamic half

// depths: every depth 1…130 (so limit-1, limit, limit+1 are hit whatever the
// family's offset) and 200, 500, 1000; the non-primary families of the quick tier
// run the depths around the limit only.
func depths(all bool) []int {
	var d []int
	if all {
		for i := 1; i <= 130; i++ {
			d = append(d, i)
		}
		return append(d, 200, 500, 1000)
	}
	d = append(d, 1, 2, 3, 50)
	for i := docDepth - 3; i <= docDepth+4; i++ {
		d = append(d, i)
	}
	return append(d, 130, 200, 1000)
}

// deepEligible: families that also run the ladder above 1000 (thorough): every
// wrapper in its first context, every context with its first wrapper (parentheses
// / derived table), and the tokenizer families.
func deepEligible(f family) bool { return f.Primary }

func inputText(f family, d int, sql string) string {
	if len(sql) <= 1500 {
		return sql
	}
	// longer than any input shown in full, so that the smallest failing depth is reported first
	return fmt.Sprintf("family %s depth %d (%d bytes): %s … %s", f.Key, d, len(sql), sql[:1400], sql[len(sql)-100:])
}

// parseOutcome runs the family's entry point(s).
func parseOutcome(f family, sql string) (accepted bool, class string) {
	if f.W.K == lexK {
		tk := tokenizer.GetTokenizer()
		_, terr := tk.Tokenize([]byte(sql))
		tokenizer.PutTokenizer(tk)
		if terr != nil {
			return false, "tokenize-" + classify(terr)
		}
		_, perr := gosqlx.Parse(sql)
		return true, "tokenize-accepted/parse-" + classify(perr)
	}
	_, err := gosqlx.Parse(sql)
	return err == nil, classify(err)
}

func isLimitClass(class string) bool {
	return strings.Contains(class, "E2007") || strings.Contains(class, "E2011-depth") || strings.Contains(class, "E1006") || strings.Contains(class, "E1007")
}

// grows reports whether the deepest observed stack grows by at least one frame
// per nesting level between depth d/2 and d (both parsed with the probe context).
func grows(f family, d int) (bool, string) {
	h := d / 2
	a := probeParse(f.text(h), false)
	b := probeParse(f.text(d), false)
	if !a.Accepted || !b.Accepted {
		return false, "probe parse rejected"
	}
	msg := fmt.Sprintf("deepest stack at the parser's polls: %d frames at depth %d, %d frames at depth %d", a.Frames, h, b.Frames, d)
	if b.Sat {
		return true, msg + " (stopped counting)"
	}
	return b.Frames-a.Frames >= d-h, msg
}

func dynamicHalf(e *common.Enum, g *cgraph.Graph) {
	// tokenizer families: recursive iff their declared functions lie in one unguarded cycle of the current tree
	ung := g.SCCs(cgraph.Unguarded)
	lexRecursive := func(w wrapper) bool {
		for _, u := range ung {
			if len(w.Via) > 0 && subset(w.Via, u) {
				return true
			}
		}
		return false
	}
	for _, f := range families() {
		f := f
		lexRec := f.W.K == lexK && lexRecursive(f.W)
		for _, d := range depths(f.Primary || e.Thorough()) {
			d := d
			e.Do(fmt.Sprintf("dyn/%s/%d", f.Key, d), func(c *common.Ctx) {
				runDepth(c, f, d, lexRec)
			})
		}
		if e.Thorough() && deepEligible(f) {
			for _, d := range []string{"10000", "100000", "max"} {
				d := d
				e.Do("dyn/"+f.Key+"/"+d, func(c *common.Ctx) {
					runDeep(c, f, d, lexRec)
				})
			}
		}
	}
}

// unbounded decides whether an input accepted beyond the limit is evidence of
// unbounded stack use, and reports it.
func unbounded(c *common.Ctx, f family, d int, lexRec bool) bool {
	if f.W.K == lexK {
		if lexRec {
			c.Fail("unbounded-nesting:"+f.W.sig(), fmt.Sprintf("a run of %d comments is accepted although each comment makes the tokenizer recurse (nextToken -> readPunctuation -> nextToken, no depth guard on that cycle): stack use grows with the input length", d))
			return true
		}
		return false
	}
	g, how := grows(f, d)
	if g {
		c.Fail("unbounded-nesting:"+f.W.sig(), fmt.Sprintf("nesting depth %d (documented limit %d) of construct %q in clause %q is accepted, and the parser's stack grows with the depth: %s", d, docDepth, f.W.Name, f.C.Name, how))
	}
	return g
}

func band(d int) string {
	switch {
	case d <= docDepth:
		return "depth<=limit"
	case d <= 1000:
		return "depth>limit"
	}
	return "depth>1000"
}

func runDepth(c *common.Ctx, f family, d int, lexRec bool) {
	sql := f.text(d)
	c.Input(inputText(f, d, sql))
	if d == 3 {
		c.Sample(map[string]any{"family": f.Key, "depth": d, "sql": sql})
	}
	acc, class := parseOutcome(f, sql)
	if acc || isLimitClass(class) {
		c.NonTrivial()
	}
	if d == 1 {
		if acc {
			c.Count("families_accepted_at_depth_1", 1)
		} else {
			c.Count("families_rejected_at_depth_1", 1)
		}
	}
	if d > docDepth && acc {
		if unbounded(c, f, d, lexRec) {
			c.Outcome(band(d) + " accepted, stack grows")
			return
		}
		c.Outcome(band(d) + " accepted, stack flat")
		return
	}
	c.Outcome(band(d) + " " + class)
}

// countTokens returns the number of non-EOF tokens of a text (-1 if it does not tokenize).
func countTokens(sql string) int {
	tk := tokenizer.GetTokenizer()
	defer tokenizer.PutTokenizer(tk)
	toks, err := tk.Tokenize([]byte(sql))
	if err != nil {
		return -1
	}
	n := 0
	for _, t := range toks {
		if t.Token.Type != models.TokenTypeEOF {
			n++
		}
	}
	return n
}

// maxDepth: the largest depth whose text stays within both documented limits.
func maxDepth(f family) int {
	perByte := len(f.W.Pre) + len(f.W.Post)
	if strings.HasPrefix(f.W.Leaf, "\x00") {
		perByte = 20
	}
	perByte += 1
	byBytes := (docSize - len(f.C.Pre) - len(f.C.Post) - 256) / perByte
	t1, t2 := countTokens(f.text(8)), countTokens(f.text(16))
	if t1 < 0 || t2 < 0 {
		return 0
	}
	per := (t2 - t1) / 8
	if per <= 0 {
		return byBytes
	}
	byTokens := (docTokens - 2 - (t1 - 8*per)) / per
	if byTokens < byBytes {
		return byTokens
	}
	return byBytes
}

func runDeep(c *common.Ctx, f family, which string, lexRec bool) {
	// a family that is still accepted, with a growing stack, at depth 1000 is already reported;
	// deeper inputs would only kill the worker
	pre := f.text(1000)
	if acc, _ := parseOutcome(f, pre); acc {
		c.Input(inputText(f, 1000, pre))
		if unbounded(c, f, 1000, lexRec) {
			c.Outcome("depth>1000 not run: unbounded at 1000")
			return
		}
	}
	d := 0
	switch which {
	case "10000":
		d = 10000
	case "100000":
		d = 100000
	default:
		d = maxDepth(f)
		if d <= 1000 {
			c.Outcome("depth>1000 max: not computable")
			return
		}
	}
	sql := f.text(d)
	if len(sql) > docSize {
		c.Outcome("depth>1000 text over the size limit")
		return
	}
	c.Input(inputText(f, d, sql))
	acc, class := parseOutcome(f, sql)
	if acc || isLimitClass(class) {
		c.NonTrivial()
	}
	if acc {
		// only possible for constructs parsed by a loop; confirm with the probe when affordable
		if f.W.K != lexK && d <= 100000 {
			if unbounded(c, f, d, lexRec) {
				c.Outcome("depth>1000 accepted, stack grows")
				return
			}
		}
		c.Outcome("depth>1000 accepted")
		return
	}
	c.Outcome("depth>1000 " + class)
}

// ---------------------------------------------------------------- size and token limits

type entry struct {
	name string
	run  func(b []byte) error
}

var entries = []entry{
	{"Tokenize", func(b []byte) error {
		tk := tokenizer.GetTokenizer()
		defer tokenizer.PutTokenizer(tk)
		_, err := tk.Tokenize(b)
		return err
	}},
	{"TokenizeContext", func(b []byte) error {
		tk := tokenizer.GetTokenizer()
		defer tokenizer.PutTokenizer(tk)
		_, err := tk.TokenizeContext(context.Background(), b)
		return err
	}},
	{"gosqlx.Parse", func(b []byte) error {
		_, err := gosqlx.Parse(string(b))
		return err
	}},
	// every other entry point that takes SQL text: the limit belongs to the input the caller passed, whatever a
	// front end does to it (trimming, splitting, converting) before it reaches the tokenizer
	{"gosqlx.Validate", func(b []byte) error { return gosqlx.Validate(string(b)) }},
	{"gosqlx.ParseWithContext", func(b []byte) error {
		_, err := gosqlx.ParseWithContext(context.Background(), string(b))
		return err
	}},
	{"gosqlx.ParseWithRecovery", func(b []byte) error {
		_, errs := gosqlx.ParseWithRecovery(string(b))
		if len(errs) > 0 {
			return errs[0]
		}
		return nil
	}},
	{"gosqlx.ParseMultiple", func(b []byte) error { _, err := gosqlx.ParseMultiple([]string{string(b)}); return err }},
	// the serialisers recurse once per operand of a left-deep operator chain (about 320 bytes of stack per operand: 160 MB
	// for the longest chain the token limit allows).  That is within the runtime's own 1 GB limit, which is what "no
	// input overflows the stack" is judged against; the harness-wide 64 MiB cap is lifted for these two entry points.
	{"gosqlx.Format", func(b []byte) error {
		defer debug.SetMaxStack(debug.SetMaxStack(1 << 30))
		_, err := gosqlx.Format(string(b), gosqlx.DefaultFormatOptions())
		return err
	}},
	{"parser.Validate", func(b []byte) error { return parser.Validate(string(b)) }},
	{"parser.ValidateBytes", func(b []byte) error { return parser.ValidateBytes(b) }},
	{"parser.ValidateWithDialect", func(b []byte) error { return parser.ValidateWithDialect(string(b), "postgresql") }},
	{"parser.ValidateBytesWithDialect", func(b []byte) error { return parser.ValidateBytesWithDialect(b, "mysql") }},
	{"parser.ParseBytes", func(b []byte) error { _, err := parser.ParseBytes(b); return err }},
	{"parser.ParseBytesWithTokens", func(b []byte) error { _, _, err := parser.ParseBytesWithTokens(b); return err }},
	{"parser.ParseWithDialect", func(b []byte) error { _, err := parser.ParseWithDialect(string(b), "postgresql"); return err }},
	{"formatter.Format", func(b []byte) error {
		defer debug.SetMaxStack(debug.SetMaxStack(1 << 30))
		_, err := formatter.New(formatter.Options{}).Format(string(b))
		return err
	}},
}

// pad returns n bytes of ch with a newline every 997 bytes (short lines: the
// pinned tokenizer's position conversion is linear in the column).
func pad(n int, ch byte) []byte {
	b := bytes.Repeat([]byte{ch}, n)
	for i := 996; i < n-1; i += 997 {
		b[i] = '\n'
	}
	return b
}

// sizeShape builds an input of exactly n bytes.
func sizeShape(shape string, n int) []byte {
	var b bytes.Buffer
	b.Grow(n + 16)
	switch shape {
	case "comment":
		b.WriteString("SELECT /*")
		b.Write(pad(n-len("SELECT /*")-len("*/ 1"), 'x'))
		b.WriteString("*/ 1")
	case "whitespace":
		b.WriteString("SELECT")
		b.Write(pad(n-len("SELECT")-1, ' '))
		b.WriteString("1")
	case "trailing-blanks":
		b.WriteString("SELECT 1")
		b.Write(pad(n-len("SELECT 1"), ' '))
	case "leading-blanks":
		b.Write(pad(n-len("SELECT 1"), ' '))
		b.WriteString("SELECT 1")
	case "trailing-comment":
		b.WriteString("SELECT 1 --")
		b.Write(bytes.Repeat([]byte{'x'}, n-len("SELECT 1 --")))
	case "string":
		b.WriteString("SELECT '")
		b.Write(bytes.Repeat([]byte{'a'}, n-len("SELECT '")-1))
		b.WriteString("'")
	case "identifiers":
		// ~250k select items of 40 bytes (about 500k tokens, under the token limit), 256 per line
		b.WriteString("SELECT ")
		item := strings.Repeat("c", 39)
		i := 0
		for b.Len()+2*(len(item)+2) < n {
			b.WriteString(item)
			if i%256 == 255 {
				b.WriteString(",\n")
			} else {
				b.WriteString(", ")
			}
			i++
		}
		b.WriteString(strings.Repeat("c", n-b.Len()))
	}
	return b.Bytes()
}

// tokenShape builds an input with exactly n non-EOF tokens.
func tokenShape(shape string, n int) []byte {
	var b bytes.Buffer
	tail := ""
	if i := strings.Index(shape, "+"); i > 0 {
		shape, tail = shape[:i], shape[i+1:]
	}
	unit, first := ",1", "SELECT 1"
	switch shape {
	case "strings":
		unit, first = ",'a'", "SELECT 'a'"
	case "sums":
		unit, first = "+1", "SELECT 1"
	}
	b.Grow(n*3 + 16)
	b.WriteString(first)
	have := 2
	i := 0
	for have+2 <= n {
		b.WriteString(unit)
		have += 2
		if i%256 == 255 {
			b.WriteByte('\n')
		}
		i++
	}
	if have < n {
		b.WriteString(" ;")
	}
	// what follows the last token is not a token: the count is the same
	switch tail {
	case "newline":
		b.WriteString("\n")
	case "blanks":
		b.WriteString("  \t \n  ")
	case "line-comment":
		b.WriteString(" -- the end")
	case "block-comment":
		b.WriteString(" /* the end */\n")
	}
	return b.Bytes()
}

func limitCases(e *common.Enum) {
	sizes := []int{docSize - 1, docSize, docSize + 1}
	toks := []int{docTokens - 1, docTokens, docTokens + 1}
	tshapes := []string{"commas", "commas+newline", "commas+blanks", "commas+line-comment", "commas+block-comment"}
	if e.Thorough() {
		sizes = []int{docSize - 2, docSize - 1, docSize, docSize + 1, docSize + 2, 2 * docSize}
		toks = []int{docTokens - 2, docTokens - 1, docTokens, docTokens + 1, docTokens + 2}
		tshapes = append(tshapes, "strings", "sums", "strings+newline", "sums+line-comment")
	}
	for _, shape := range []string{"comment", "whitespace", "string", "identifiers", "trailing-blanks", "leading-blanks", "trailing-comment"} {
		for _, n := range sizes {
			for _, en := range entries {
				shape, n, en := shape, n, en
				e.Do(fmt.Sprintf("limit/size/%s/%d/%s", shape, n, en.name), func(c *common.Ctx) {
					b := sizeShape(shape, n)
					c.Input(fmt.Sprintf("%d bytes, shape %s, entry %s: %s…", len(b), shape, en.name, b[:40]))
					if len(b) != n {
						c.Fail("harness:size-shape", fmt.Sprintf("generator produced %d bytes, wanted %d", len(b), n))
						return
					}
					err := en.run(b)
					b = nil
					runtime.GC()
					class := classify(err)
					code := codeOf(err)
					rel := "at-or-below"
					if n > docSize {
						rel = "above"
					}
					c.Outcome("size " + rel + " limit: " + class)
					c.NonTrivial()
					if n == docSize {
						c.Sample(map[string]any{"bytes": n, "shape": shape, "entry": en.name, "outcome": class})
					}
					tag := "size:" + shape
					switch {
					case n <= docSize && code == "E1006":
						c.Fail("limit-too-early:"+tag, fmt.Sprintf("%s: input of %d bytes (limit %d) rejected with the size-limit error: %v", en.name, n, docSize, common.Trim(err.Error(), 200)))
					case n > docSize && err == nil:
						c.Fail("limit-not-enforced:"+tag, fmt.Sprintf("%s: input of %d bytes (limit %d) accepted", en.name, n, docSize))
					case n > docSize && code != "E1006":
						c.Fail("wrong-limit-code:"+tag, fmt.Sprintf("%s: input of %d bytes (limit %d) rejected with %q instead of E1006: %v", en.name, n, docSize, code, common.Trim(err.Error(), 200)))
					}
				})
			}
		}
	}
	for _, shape := range tshapes {
		for _, n := range toks {
			for _, en := range entries {
				shape, n, en := shape, n, en
				if strings.HasPrefix(shape, "sums") && (en.name == "gosqlx.Format" || en.name == "formatter.Format") {
					// a million-term operator chain through the serialisers is C20's finding (bottom-up string building,
					// quadratic allocation): it does not end within any memory limit and says nothing about the token limit
					continue
				}
				e.Do(fmt.Sprintf("limit/tokens/%s/%d/%s", shape, n, en.name), func(c *common.Ctx) {
					for _, k := range []int{1001, 1002} {
						if got := countTokens(string(tokenShape(shape, k))); got != k {
							c.Fail("harness:token-shape", fmt.Sprintf("generator %s(%d) produced %d tokens", shape, k, got))
							return
						}
					}
					b := tokenShape(shape, n)
					c.Input(fmt.Sprintf("%d tokens (+EOF), %d bytes, shape %s, entry %s: %s…", n, len(b), shape, en.name, b[:40]))
					err := en.run(b)
					b = nil
					runtime.GC()
					class := classify(err)
					code := codeOf(err)
					rel := "below"
					if n == docTokens {
						rel = "at"
					} else if n > docTokens {
						rel = "above"
					}
					c.Outcome("tokens " + rel + " limit: " + class)
					c.NonTrivial()
					if n == docTokens {
						c.Sample(map[string]any{"tokens_without_eof": n, "shape": shape, "entry": en.name, "outcome": class})
					}
					tag := "tokens:" + shape
					switch {
					case n <= docTokens && code == "E1007":
						c.Fail("limit-too-early:"+tag, fmt.Sprintf("%s: input of %d tokens plus EOF (limit %d) rejected with the token-limit error: %v", en.name, n, docTokens, common.Trim(err.Error(), 200)))
					case n > docTokens && err == nil:
						c.Fail("limit-not-enforced:"+tag, fmt.Sprintf("%s: input of %d tokens (limit %d) accepted", en.name, n, docTokens))
					case n > docTokens && code != "E1007":
						c.Fail("wrong-limit-code:"+tag, fmt.Sprintf("%s: input of %d tokens (limit %d) rejected with %q instead of E1007: %v", en.name, n, docTokens, code, common.Trim(err.Error(), 200)))
					}
				})
			}
		}
	}
}
