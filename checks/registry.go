// Package checks holds one file per property.
package checks

import "verif/engine/common"

// Registry maps a property id to its check.
var Registry = map[string]func() *common.Check{}
