// Package c07 checks property C07 (all parsing and validation entry points agree).
package c07

import (
	"context"
	"errors"
	"fmt"
	"regexp"
	"runtime"
	"runtime/debug"
	"strconv"
	"strings"
	"time"

	goerrors "github.com/ajitpratap0/GoSQLX/pkg/errors"
	"github.com/ajitpratap0/GoSQLX/pkg/gosqlx"
	"github.com/ajitpratap0/GoSQLX/pkg/sql/ast"
	"github.com/ajitpratap0/GoSQLX/pkg/sql/parser"
	"github.com/ajitpratap0/GoSQLX/pkg/sql/tokenizer"

	"verif/checks/c08/probe"
	"verif/engine/common"
	"verif/sqlgen"
)

// result of one entry point on one input.
type result struct {
	ok    bool
	tree  string // canonical dump; "" when the entry point returns no tree
	code  string // structured error code, "none" if the error carries none
	panic string
}

func codeOf(err error) string {
	var e *goerrors.Error
	if errors.As(err, &e) {
		return string(e.Code)
	}
	return "none"
}

func fromTree(t *ast.AST, err error) result {
	if err != nil {
		return result{code: codeOf(err)}
	}
	if t == nil {
		return result{ok: true, tree: "nil-tree"}
	}
	return result{ok: true, tree: sqlgen.DumpNorm(t.Statements)}
}

func fromErr(err error) result {
	if err != nil {
		return result{code: codeOf(err)}
	}
	return result{ok: true}
}

type entry struct {
	name string
	run  func(sql string) result
}

func entries() []entry {
	low := func(f func(p *parser.Parser, sql string) (*ast.AST, error)) func(string) result {
		return func(sql string) result {
			p := parser.NewParser()
			defer p.Release()
			return fromTree(f(p, sql))
		}
	}
	return []entry{
		{"gosqlx.Parse", func(s string) result { return fromTree(gosqlx.Parse(s)) }},
		{"gosqlx.ParseBytes", func(s string) result { return fromTree(gosqlx.ParseBytes([]byte(s))) }},
		{"gosqlx.ParseWithContext", func(s string) result { return fromTree(gosqlx.ParseWithContext(context.Background(), s)) }},
		{"gosqlx.ParseWithTimeout", func(s string) result { return fromTree(gosqlx.ParseWithTimeout(s, time.Hour)) }},
		{"gosqlx.ParseMultiple", func(s string) result {
			ts, err := gosqlx.ParseMultiple([]string{s})
			if err != nil {
				return result{code: codeOf(err)}
			}
			if len(ts) != 1 {
				return result{ok: true, tree: fmt.Sprintf("%d-trees", len(ts))}
			}
			return fromTree(ts[0], nil)
		}},
		{"gosqlx.Validate", func(s string) result { return fromErr(gosqlx.Validate(s)) }},
		{"gosqlx.ValidateMultiple", func(s string) result { return fromErr(gosqlx.ValidateMultiple([]string{s})) }},
		{"gosqlx.ParseWithRecovery", func(s string) result {
			stmts, errs := gosqlx.ParseWithRecovery(s)
			if len(errs) > 0 {
				return result{code: codeOf(errs[0])}
			}
			return result{ok: true, tree: sqlgen.DumpNorm(stmts)}
		}},
		{"parser.ParseBytes", func(s string) result { return fromTree(parser.ParseBytes([]byte(s))) }},
		{"parser.Validate", func(s string) result { return fromErr(parser.Validate(s)) }},
		{"parser.ValidateBytes", func(s string) result { return fromErr(parser.ValidateBytes([]byte(s))) }},
		{"parser.ParseBytesWithTokens", func(s string) result { t, _, err := parser.ParseBytesWithTokens([]byte(s)); return fromTree(t, err) }},
		{"parser.ParseWithDialect(default)", func(s string) result { return fromTree(parser.ParseWithDialect(s, "")) }},
		{"Parser.Parse(ParseFromModelTokens)", low(func(p *parser.Parser, s string) (*ast.AST, error) {
			tkz := tokenizer.GetTokenizer()
			defer tokenizer.PutTokenizer(tkz)
			toks, err := tkz.Tokenize([]byte(s))
			if err != nil {
				return nil, err
			}
			return p.ParseFromModelTokens(toks)
		})},
		{"Parser.ParseContext(ParseContextFromModelTokens)", low(func(p *parser.Parser, s string) (*ast.AST, error) {
			tkz := tokenizer.GetTokenizer()
			defer tokenizer.PutTokenizer(tkz)
			toks, err := tkz.Tokenize([]byte(s))
			if err != nil {
				return nil, err
			}
			return p.ParseContextFromModelTokens(context.Background(), toks)
		})},
		{"Parser.ParseWithPositions(ParseFromModelTokensWithPositions)", low(func(p *parser.Parser, s string) (*ast.AST, error) {
			tkz := tokenizer.GetTokenizer()
			defer tokenizer.PutTokenizer(tkz)
			toks, err := tkz.Tokenize([]byte(s))
			if err != nil {
				return nil, err
			}
			return p.ParseFromModelTokensWithPositions(toks)
		})},
	}
}

func safeRun(e entry, sql string) (r result) {
	defer func() {
		if p := recover(); p != nil {
			r = result{panic: fmt.Sprint(p)}
		}
	}()
	return e.run(sql)
}

var eps = entries()

// compareAll runs every entry point on sql and compares with gosqlx.Parse.
func compareAll(c *common.Ctx, sql, kind string) {
	c.Input(sql)
	ref := safeRun(eps[0], sql)
	if ref.panic != "" {
		c.Fail("panic:gosqlx.Parse", ref.panic)
		return
	}
	if ref.ok {
		c.Outcome("accepted:" + kindClass(kind))
	} else {
		c.Outcome("rejected:" + ref.code + ":" + kindClass(kind))
	}
	for _, e := range eps[1:] {
		r := safeRun(e, sql)
		switch {
		case r.panic != "":
			c.Fail("panic:"+e.name, e.name+" panicked: "+r.panic)
		case r.ok != ref.ok:
			c.Fail("accept-mismatch:"+e.name+":"+kind, fmt.Sprintf("gosqlx.Parse accepted=%v (code %s) but %s accepted=%v (code %s)", ref.ok, ref.code, e.name, r.ok, r.code))
		case r.ok && r.tree != "" && r.tree != ref.tree:
			c.Fail("tree-mismatch:"+e.name+":"+kind, fmt.Sprintf("%s returns a different tree than gosqlx.Parse %s", e.name, sqlgen.FirstDiff(ref.tree, r.tree)))
		case !r.ok && r.code != ref.code:
			c.Fail("code-mismatch:"+e.name+":"+kind, fmt.Sprintf("gosqlx.Parse fails with %s, %s with %s", ref.code, e.name, r.code))
		}
	}
	c.NonTrivial()
}

func kindClass(kind string) string {
	if i := strings.Index(kind, ":"); i > 0 {
		return kind[:i]
	}
	return kind
}

var queryIdx = regexp.MustCompile(`query (\d+)`)

// Check returns the C07 check.
func Check() *common.Check {
	return &common.Check{
		ID:    "C07",
		Level: "exploration",
		// every case is recorded before it runs: a fatal error or a hang of the worker is attributed to it
		CrashSafe: true,
		MemLimit:  8 << 30, // the token-limit boundary inputs are trees of a million tokens
		Rule: fmt.Sprintf("inputs with at least one non-semicolon token: the sqlgen clause/DML/DDL/hole/nesting statements (valid), every single-token deletion, duplication and replacement by 7 hostile tokens of the first 250 (quick) / 1500 (thorough) distinct statements, "+
			"all scripts of <=3 items over 3 valid + 2 invalid statements and the empty item (stray semicolons), 14 lexically invalid inputs; each through %d entry points compared with gosqlx.Parse (accept/reject, canonical tree, structured error code); "+
			"all batches of length <=3 over 4 valid + 3 invalid inputs + 4 near-duplicates (texts differing only in white space that are different statements), and every generated statement (once and twice) followed by the deepest nesting a new parser accepts, through ParseMultiple / ValidateMultiple; every entry point on 6 inputs that yield no tree (once, twice) followed by one ParseMultiple batch of three statements whose containers must be distinct and equal to the individual trees. distinct = distinct input text; non-trivial = every executed case (each runs all entry points)", len(eps)),
		Assume: []string{"ParseWithRecovery is compared through its first error", "failure index of a batch is read from the 'query <i>' prefix of the batch error"},
		Enumerate: func(e *common.Enum) {
			seen := map[string]bool{}
			var valid []sqlgen.S
			sqlgen.All(false, func(name string, s sqlgen.S) {
				if strings.HasPrefix(name, "shape") || strings.HasPrefix(name, "subsets") {
					return
				}
				sql := s.SQL()
				if seen[sql] {
					return
				}
				seen[sql] = true
				valid = append(valid, s)
				e.Do("valid|"+sql, func(c *common.Ctx) { c.Sample(sql); compareAll(c, sql, "generated") })
				for _, l := range []int{sqlgen.LLines, sqlgen.LComments, sqlgen.LComments2} {
					alt := sqlgen.Render(s.Toks, l)
					kind := fmt.Sprintf("generated:layout%d", l)
					e.Do("valid-layout|"+alt, func(c *common.Ctx) { compareAll(c, alt, kind) })
				}
			})
			// single-token corruptions
			n := 250
			if e.Thorough() {
				n = 1500
			}
			hostile := []string{")", "(", ",", "SELECT", "FROM", "]", "'x"}
			for i, s := range valid {
				if i%(len(valid)/n+1) != 0 {
					continue
				}
				for k := range s.Toks {
					del := append(append([]sqlgen.Tok{}, s.Toks[:k]...), s.Toks[k+1:]...)
					dup := append(append(append([]sqlgen.Tok{}, s.Toks[:k+1]...), s.Toks[k]), s.Toks[k+1:]...)
					for kind, toks := range map[string][]sqlgen.Tok{"corrupt:delete": del, "corrupt:duplicate": dup} {
						sql := sqlgen.Render(toks, sqlgen.LSpaced)
						if strings.Trim(sql, "; \t\n") == "" {
							continue
						}
						kind := kind
						e.Do(kind+"|"+sql, func(c *common.Ctx) { compareAll(c, sql, kind) })
					}
					for _, h := range hostile {
						rep := append([]sqlgen.Tok{}, s.Toks...)
						rep[k] = sqlgen.Tok{S: h}
						sql := sqlgen.Render(rep, sqlgen.LSpaced)
						kind := "corrupt:replace"
						e.Do(kind+"|"+sql, func(c *common.Ctx) { compareAll(c, sql, kind) })
					}
				}
			}
			// scripts with stray semicolons
			items := []string{"SELECT c1 FROM t1", "INSERT INTO t1 (c1) VALUES (1)", "DELETE FROM t1 WHERE c1 = 1", "SELECT FROM", "UPDATE SET", ""}
			var rec func(prefix []string, depth int)
			rec = func(prefix []string, depth int) {
				if len(prefix) > 0 {
					for _, trail := range []string{"", ";", " ; "} {
						sql := strings.Join(prefix, ";") + trail
						if strings.Trim(sql, "; \t\n") == "" {
							continue
						}
						kind := "script"
						for _, p := range prefix {
							if p == "" {
								kind = "script:stray-semicolon"
							}
						}
						if trail != "" && kind == "script" {
							kind = "script:trailing-semicolon"
						}
						e.Do("script|"+sql, func(c *common.Ctx) { c.Sample(sql); compareAll(c, sql, kind) })
					}
				}
				if depth == 3 {
					return
				}
				for _, it := range items {
					rec(append(append([]string{}, prefix...), it), depth+1)
				}
			}
			rec(nil, 0)
			// comments and blank space around statements
			for _, body := range []string{"SELECT c1 FROM t1", "SELECT FROM", "SELECT c1 FROM t1; DELETE FROM t2"} {
				for _, pre := range []string{"", "-- lead\n", "/* lead */ ", "\n\n  ", "/* a */\n-- b\n", "  -- a\n  -- b\n", "/* a */ /* b */ ", "-- a\n\n-- b\n"} {
					for _, post := range []string{"", " -- trail", " -- trail\n", " /* trail */", ";-- trail", "; /* trail */ ;", "\n"} {
						sql := pre + body + post
						e.Do("comment|"+sql, func(c *common.Ctx) { compareAll(c, sql, "comment") })
					}
				}
			}
			// lexically invalid inputs
			for _, sql := range []string{"SELECT 'abc", "SELECT \"abc", "SELECT `abc", "SELECT 1 /* open", "SELECT $$abc", "SELECT 1e", "SELECT a ^^ b", "SELECT \x00", "SELECT #", "SELECT 'a\\q'", "SELECT 1 FROM t WHERE a = 'x", "\xff\xfe", "SELECT ~~~", "SELECT @@@"} {
				sql := sql
				e.Do("lexical|"+sql, func(c *common.Ctx) { c.Sample(sql); compareAll(c, sql, "lexical") })
			}
			// the documented limits, at the boundary: inputs of MaxInputSize and MaxInputSize+1 bytes whose bulk is padding
			// before / after / inside a short statement (valid and invalid).  Every entry point sees the same text, so all
			// must agree on acceptance and on the dedicated limit code - also those that pre-process the text.
			for _, stmt := range []string{"SELECT 1", "SELECT FROM"} {
				for _, shape := range []string{"trailing-blanks", "leading-blanks", "inner-blanks", "trailing-newlines", "trailing-comment"} {
					for _, over := range []int{0, 1} {
						stmt, shape, over := stmt, shape, over
						key := fmt.Sprintf("limit|%s|%s|+%d", stmt, shape, over)
						e.Do(key, func(c *common.Ctx) {
							n := tokenizer.MaxInputSize + over
							padN := n - len(stmt)
							var sql string
							switch shape {
							case "trailing-blanks":
								sql = stmt + strings.Repeat(" ", padN)
							case "leading-blanks":
								sql = strings.Repeat(" ", padN) + stmt
							case "inner-blanks":
								sql = stmt[:6] + strings.Repeat(" ", padN) + stmt[6:]
							case "trailing-newlines":
								sql = stmt + strings.Repeat("\n", padN)
							case "trailing-comment":
								sql = stmt + " --" + strings.Repeat("x", padN-3)
							}
							c.Input(key)
							compareAll(c, sql, "limit:"+shape)
						})
					}
				}
			}
			// batches
			pool := []string{"SELECT c1 FROM t1", "SELECT c1 FROM t1 WHERE c2 IN (1, 2)", "INSERT INTO t1 (c1) VALUES (ARRAY[1, 2])", "SELECT (c1, c2) FROM t1",
				"SELECT FROM", "SELECT 'abc", "UPDATE t1 SET",
				// near-duplicates: texts that differ only in white space and are not the same statement (a line break that ends a
				// comment against a blank that does not; two blanks inside a value against one)
				"SELECT c1 FROM t1 WHERE -- live rows\n c1 > 1", "SELECT c1 FROM t1 WHERE -- live rows c1 > 1", "SELECT 'a  b' FROM t1", "SELECT 'a b' FROM t1"}
			var brec func(list []int)
			brec = func(list []int) {
				if len(list) > 0 {
					key := "batch|" + fmt.Sprint(list)
					l := append([]int{}, list...)
					e.Do(key, func(c *common.Ctx) {
						var qs []string
						for _, i := range l {
							qs = append(qs, pool[i])
						}
						c.Input(strings.Join(qs, " || "))
						// individual results
						firstFail := -1
						var indiv []result
						for i, q := range qs {
							r := safeRun(eps[0], q)
							indiv = append(indiv, r)
							if !r.ok && firstFail < 0 {
								firstFail = i
							}
						}
						trees, err := gosqlx.ParseMultiple(qs)
						verr := gosqlx.ValidateMultiple(qs)
						for name, be := range map[string]error{"ParseMultiple": err, "ValidateMultiple": verr} {
							if (be == nil) != (firstFail < 0) {
								c.Fail("batch-accept-mismatch:"+name, fmt.Sprintf("%s error=%v but first failing item index is %d", name, be, firstFail))
								continue
							}
							if be != nil {
								if m := queryIdx.FindStringSubmatch(be.Error()); m != nil {
									if i, _ := strconv.Atoi(m[1]); i != firstFail {
										c.Fail("batch-wrong-index:"+name, fmt.Sprintf("%s reports query %d, the first failing item is %d: %v", name, i, firstFail, be))
									}
								}
								if codeOf(be) != indiv[firstFail].code {
									c.Fail("batch-code-mismatch:"+name, fmt.Sprintf("%s fails with %s, the item alone with %s", name, codeOf(be), indiv[firstFail].code))
								}
							}
						}
						if err == nil && firstFail < 0 {
							if len(trees) != len(qs) {
								c.Fail("batch-tree-count", fmt.Sprintf("ParseMultiple returned %d trees for %d queries", len(trees), len(qs)))
							} else {
								for i := range qs {
									if got := sqlgen.DumpNorm(trees[i].Statements); got != indiv[i].tree {
										c.Fail("batch-tree-mismatch", fmt.Sprintf("ParseMultiple item %d differs from gosqlx.Parse of the same text %s", i, sqlgen.FirstDiff(indiv[i].tree, got)))
									}
								}
							}
						}
						c.Outcome(fmt.Sprintf("batch:firstfail=%d", firstFail))
						c.NonTrivial()
					})
				}
				if len(list) == 3 {
					return
				}
				for i := range pool {
					brec(append(append([]int{}, list...), i))
				}
			}
			brec(nil)
			// the token limit, at the boundary: MaxTokens-1 .. MaxTokens+2 tokens (every entry point has its own copy of the
			// tokenizing loop or calls one of the two)
			for _, d := range []int{-1, 0, 1, 2} {
				for _, shape := range []string{"select-list", "select-list-aliased-newline"} {
					d, shape := d, shape
					key := fmt.Sprintf("token-limit|%s|%+d", shape, d)
					e.Do(key, func(c *common.Ctx) {
						n := tokenizer.MaxTokens + d
						var sql string
						if shape == "select-list" {
							// SELECT 1,1,...,1 : 1 + (2k-1) tokens
							k := n / 2
							sql = "SELECT 1" + strings.Repeat(",1", k-1)
							if n%2 == 1 {
								sql += " x" // an alias: one more token
							}
						} else {
							k := (n - 1) / 2
							sql = "SELECT 1 x" + strings.Repeat(",1", k-1)
							if n%2 == 0 {
								sql += " y"
							}
							sql += "\n"
						}
						c.Input(key)
						compareAll(c, sql, "token-limit:"+shape)
					})
				}
			}
			// primed batches: what an entry point does with pooled containers on its way out of a call that yields no tree
			// (empty, blank, comment-only, semicolon-only, truncated input) is visible only afterwards, when several trees
			// are alive at once.  Every entry point x 6 such inputs, once and twice, then one ParseMultiple batch of three
			// different statements (one P, collector off, pools emptied first): three distinct containers, each equal to
			// the tree the statement gives alone
			batchQs := []string{"SELECT c1 FROM t1 WHERE c2 = 1", "DELETE FROM t2 WHERE c3 = 2", "UPDATE t3 SET c4 = 3"}
			var batchRef []string
			for _, q := range batchQs {
				batchRef = append(batchRef, safeRun(eps[0], q).tree)
			}
			for _, ep := range eps {
				for _, primer := range []string{"", " \n", "-- c", ";", ";;", "SELECT"} {
					for _, times := range []int{1, 2} {
						ep, primer, times := ep, primer, times
						e.Do(fmt.Sprintf("primed-batch|%s|%q|%d", ep.name, primer, times), func(c *common.Ctx) {
							c.Input(fmt.Sprintf("%s(%q) x%d, then ParseMultiple of three statements", ep.name, primer, times))
							runtime.GOMAXPROCS(1)
							defer debug.SetGCPercent(debug.SetGCPercent(-1))
							runtime.GC()
							runtime.GC()
							for i := 0; i < times; i++ {
								safeRun(ep, primer)
							}
							trees, err := gosqlx.ParseMultiple(batchQs)
							if err != nil || len(trees) != len(batchQs) {
								c.Fail("primed-batch-rejected:"+ep.name, fmt.Sprintf("ParseMultiple of three accepted statements fails afterwards: %v", err))
								return
							}
							for i := range trees {
								for j := i + 1; j < len(trees); j++ {
									if trees[i] == trees[j] {
										c.Fail("primed-batch-shared-container:"+ep.name, fmt.Sprintf("after %s(%q) the trees of items %d and %d of one batch are the same *ast.AST", ep.name, primer, i, j))
										return
									}
								}
							}
							for i := range trees {
								if got := sqlgen.DumpNorm(trees[i].Statements); got != batchRef[i] {
									c.Fail("primed-batch-tree-mismatch:"+ep.name, fmt.Sprintf("after %s(%q) item %d of the batch differs from the statement parsed alone %s", ep.name, primer, i, sqlgen.FirstDiff(batchRef[i], got)))
									return
								}
							}
							c.Outcome("primed-batch")
							c.NonTrivial()
						})
					}
				}
			}
			// batches at the nesting boundary: every generated statement followed by the deepest nesting a new
			// parser accepts.  The batch calls reuse one parser, so any state a statement leaves behind (a leaked
			// nesting level, a stale option) changes the verdict of the boundary query, which the individual calls accept.
			deepest := probe.NestSQL(probe.MaxNest())
			for _, s := range valid {
				sql := s.SQL()
				e.Do("batch-boundary|"+sql, func(c *common.Ctx) {
					c.Input(sql + " || <deepest accepted nesting>")
					if safeRun(eps[0], sql).ok != true || safeRun(eps[0], deepest).ok != true {
						c.Outcome("batch-boundary:item-rejected")
						return
					}
					for rep := 1; rep <= 2; rep++ {
						qs := []string{sql}
						if rep == 2 {
							qs = append(qs, sql)
						}
						qs = append(qs, deepest)
						if _, err := gosqlx.ParseMultiple(qs); err != nil {
							c.Fail("batch-accept-mismatch:ParseMultiple:boundary", fmt.Sprintf("every item is accepted alone, the batch fails: %v", err))
						}
						if err := gosqlx.ValidateMultiple(qs); err != nil {
							c.Fail("batch-accept-mismatch:ValidateMultiple:boundary", fmt.Sprintf("every item is accepted alone, the batch fails: %v", err))
						}
					}
					c.Outcome("batch-boundary")
					c.NonTrivial()
				})
			}
		},
	}
}
