// Package c06 checks property C06 (serialise -> re-parse gives the same tree; formatting is stable).
package c06

import (
	"fmt"
	"os"
	"path/filepath"
	"regexp"
	"sort"
	"strings"

	cli "github.com/ajitpratap0/GoSQLX/cmd/gosqlx/cmd"
	"github.com/ajitpratap0/GoSQLX/pkg/formatter"
	"github.com/ajitpratap0/GoSQLX/pkg/gosqlx"
	"github.com/ajitpratap0/GoSQLX/pkg/sql/ast"

	"verif/engine/common"
	"verif/sqlgen"
)

// serialiser is one (serialiser, option set) pair.
type serialiser struct {
	family string // sql | format | cli | gosqlx.Format | formatter.Format
	name   string
	tree   func(t *ast.AST) (string, error) // from a tree
	text   func(sql string) (string, error) // from text (entry points that parse themselves)
}

func serialisers() []serialiser {
	var out []serialiser
	out = append(out, serialiser{family: "sql", name: "AST.SQL", tree: func(t *ast.AST) (string, error) { return t.SQL(), nil }})
	for _, kc := range []ast.KeywordCase{ast.KeywordUpper, ast.KeywordLower, ast.KeywordPreserve} {
		for _, is := range []ast.IndentStyle{ast.IndentSpaces, ast.IndentTabs} {
			for _, w := range []int{0, 2, 4} {
				for _, nl := range []bool{false, true} {
					for _, semi := range []bool{false, true} {
						o := ast.FormatOptions{IndentStyle: is, IndentWidth: w, KeywordCase: kc, LineWidth: 80, NewlinePerClause: nl, AddSemicolon: semi}
						out = append(out, serialiser{family: "format", name: fmt.Sprintf("AST.Format%+v", o), tree: func(t *ast.AST) (string, error) { return t.Format(o), nil }})
					}
				}
			}
		}
	}
	out = append(out, serialiser{family: "format", name: "AST.Format(CompactStyle)", tree: func(t *ast.AST) (string, error) { return t.Format(ast.CompactStyle()), nil }})
	out = append(out, serialiser{family: "format", name: "AST.Format(ReadableStyle)", tree: func(t *ast.AST) (string, error) { return t.Format(ast.ReadableStyle()), nil }})
	for _, compact := range []bool{false, true} {
		for _, up := range []bool{false, true} {
			for _, ind := range []string{"  ", "\t", "    "} {
				for _, al := range []bool{false, true} {
					o := cli.FormatterOptions{Indent: ind, Compact: compact, UppercaseKw: up, AlignColumns: al}
					out = append(out, serialiser{family: "cli", name: fmt.Sprintf("cli.SQLFormatter%+v", o), tree: func(t *ast.AST) (string, error) { return cli.NewSQLFormatter(o).Format(t) }})
				}
			}
		}
	}
	for _, ind := range []int{0, 2, 4} {
		for _, up := range []bool{false, true} {
			for _, semi := range []bool{false, true} {
				o := gosqlx.FormatOptions{IndentSize: ind, UppercaseKeywords: up, AddSemicolon: semi, SingleLineLimit: 80}
				out = append(out, serialiser{family: "gosqlx.Format", name: fmt.Sprintf("gosqlx.Format%+v", o), text: func(sql string) (string, error) { return gosqlx.Format(sql, o) }})
			}
		}
	}
	for _, ind := range []int{2, 4} {
		for _, up := range []bool{false, true} {
			for _, compact := range []bool{false, true} {
				o := formatter.Options{IndentSize: ind, Uppercase: up, Compact: compact}
				out = append(out, serialiser{family: "formatter.Format", name: fmt.Sprintf("formatter.Format%+v", o), text: func(sql string) (string, error) { return formatter.New(o).Format(sql) }})
			}
		}
	}
	return out
}

var (
	fnName   = regexp.MustCompile(`FunctionCall\{Name:"[^"]*"`)
	typeName = regexp.MustCompile(`(CastExpression\{Expr:[^}]*\}?, Type:|ColumnDef\{Name:"[^"]*", Type:)"[^"]*"`)
	castType = regexp.MustCompile(`, Type:"[^"]*"\}`)
)

// norm is the canonical dump "up to the letter case of keywords and operator
// words": operator words and boolean literals are folded by sqlgen.DumpNorm;
// function names and type names (keywords in the tokenizer's tables) are folded here.
func norm(stmts []ast.Statement) string {
	s := sqlgen.DumpNorm(stmts)
	s = fnName.ReplaceAllStringFunc(s, strings.ToUpper)
	s = castType.ReplaceAllStringFunc(s, strings.ToUpper)
	return s
}

func safe(f func() (string, error)) (out string, err error, pan string) {
	defer func() {
		if r := recover(); r != nil {
			pan = fmt.Sprint(r)
		}
	}()
	out, err = f()
	return
}

var sers = serialisers()

func runCase(c *common.Ctx, sql string, feat []string, kind string) {
	c.Input(sql)
	t0, err := gosqlx.Parse(sql)
	if err != nil {
		c.Outcome("input-rejected") // C03's business
		return
	}
	c.Sample(sql)
	want := norm(t0.Statements)
	seen := map[string]bool{} // identical serialisations are judged once per family
	allOK := true
	famOK := map[string]bool{}
	famClass := map[string]map[string]bool{}
	fail := func(fam, class, msg string) {
		allOK = false
		famOK[fam] = false
		if famClass[fam] == nil {
			famClass[fam] = map[string]bool{}
		}
		famClass[fam][class] = true
		c.FailFeat("C06", fam+":"+class, feat, msg)
	}
	for _, s := range sers {
		if _, ok := famOK[s.family]; !ok {
			famOK[s.family] = true
		}
		var s1 string
		var pan string
		if s.tree != nil {
			s1, err, pan = safe(func() (string, error) { return s.tree(t0) })
		} else {
			s1, err, pan = safe(func() (string, error) { return s.text(sql) })
		}
		if pan != "" {
			fail(s.family, "panic", fmt.Sprintf("%s panicked: %s", s.name, pan))
			continue
		}
		if err != nil {
			fail(s.family, "serialise-error", fmt.Sprintf("%s failed on an accepted input: %v", s.name, err))
			continue
		}
		k := s.family + "\x00" + s1
		if seen[k] {
			continue
		}
		seen[k] = true
		c.Count("serialisations", 1)
		t1, err := gosqlx.Parse(s1)
		if err != nil {
			fail(s.family, "reparse-rejected", fmt.Sprintf("%s produced text that is rejected: %v\n text: %q", s.name, err, common.Trim(s1, 400)))
			continue
		}
		got := norm(t1.Statements)
		if got != want {
			fail(s.family, "tree-differs", fmt.Sprintf("%s changes the tree at %s %s\n text: %q", s.name, sqlgen.DiffPath(want, got), sqlgen.FirstDiff(want, got), common.Trim(s1, 400)))
			continue
		}
		// stability: formatting the formatted output returns it unchanged
		var s2 string
		if s.tree != nil {
			s2, err, pan = safe(func() (string, error) { return s.tree(t1) })
		} else {
			s2, err, pan = safe(func() (string, error) { return s.text(s1) })
		}
		if pan != "" || err != nil {
			fail(s.family, "second-pass-fails", fmt.Sprintf("%s fails on its own output: %v %s", s.name, err, pan))
			continue
		}
		if s2 != s1 {
			fail(s.family, "not-idempotent", fmt.Sprintf("%s is not stable:\n first:  %q\n second: %q", s.name, common.Trim(s1, 300), common.Trim(s2, 300)))
		}
	}
	if os.Getenv("VERIF_ANALYZE") != "" {
		for fam, ok := range famOK {
			pf := make([]string, len(feat))
			for i, f := range feat {
				pf[i] = fam + "|" + f
			}
			c.Features(pf, ok)
			for cl := range famClass[fam] {
				pc := make([]string, len(feat))
				for i, f := range feat {
					pc[i] = fam + ":" + cl + "|" + f
				}
				c.Features(pc, false)
			}
		}
	}
	if allOK {
		c.Outcome("ok:" + kind)
	} else {
		c.Outcome("fails:" + kind)
	}
	if len(feat) >= 3 || kind == "corpus" {
		c.NonTrivial()
	}
}

// Check returns the C06 check.
func Check() *common.Check {
	return &common.Check{
		ID:    "C06",
		Level: "exploration",
		// every case is recorded before it runs: a fatal error or a hang of the worker is attributed to it
		CrashSafe: true,
		Rule: fmt.Sprintf("every accepted statement of the sqlgen space (quick: shapes with <=2 operator nodes in WHERE, all clause/DML/DDL/hole/nesting sections; thorough: everything incl. 3-operator shapes) every expression shape again with lower-case words on separate lines and with mixed-case words between comments, every clause-option and DML statement again as commented text (2 comment layouts + 3 hand placements of line / block comments before, after and between code) and every accepted .sql file under /repo/testdata, "+
			"each through %d (serialiser, option set) pairs: AST.SQL; AST.Format x {keyword case 3 x indent style 2 x width 3 x newline-per-clause 2 x semicolon 2} + 2 presets; the CLI SQLFormatter x 24 option sets; gosqlx.Format x 12; formatter.Format x 8. "+
			"Oracle: re-parse accepted, tree equal up to keyword / operator-word / function-name / type-name letter case, second pass string-identical. distinct = distinct SQL text; non-trivial = statement uses >=3 grammar features", len(sers)),
		Assume: []string{"tree equality under sqlgen's canonical dump; letter case of function names and type names folded (they are keywords in the tokenizer's tables)"},
		Enumerate: func(e *common.Enum) {
			sqlgen.All(e.Thorough(), func(name string, s sqlgen.S) {
				if !e.Thorough() {
					if strings.HasPrefix(name, "shape3") || (strings.HasPrefix(name, "shape2") && !strings.HasSuffix(name, "/where")) {
						return
					}
				}
				sql := s.SQL()
				e.Do(sql, func(c *common.Ctx) { runCase(c, sql, s.Feat, s.Kind) })
				// the letter case the operator words and keywords were written in is kept in the tree: the expression
				// shapes again with lower-case words on separate lines and with mixed-case words between comments
				if strings.HasPrefix(name, "shape") {
					for _, l := range []int{sqlgen.LLines, sqlgen.LComments} {
						lsql := sqlgen.Render(s.Toks, l)
						feat := append(append([]string{}, s.Feat...), fmt.Sprintf("layout:word-case-%d", l))
						e.Do("L/"+lsql, func(c *common.Ctx) { runCase(c, lsql, feat, s.Kind) })
					}
				}
			})
			// commented texts: the text-based serialisers keep comments, so where a comment stood (before / after code on
			// its line, one or several per line, line or block) must not change the tree nor cost stability
			seenC := map[string]bool{}
			commented := func(name string, s sqlgen.S) {
				for _, l := range []int{sqlgen.LComments, sqlgen.LComments2} {
					sql := sqlgen.Render(s.Toks, l)
					if seenC[sql] {
						continue
					}
					seenC[sql] = true
					feat := append(append([]string{}, s.Feat...), fmt.Sprintf("layout:comments-%d", l))
					e.Do("C/"+sql, func(c *common.Ctx) { runCase(c, sql, feat, s.Kind) })
				}
				// hand placements on the natural text: trailing line comments on several lines, two comments sharing lines with code
				words := strings.Fields(s.SQL())
				if len(words) >= 4 {
					h := len(words) / 2
					for i, sql := range []string{
						strings.Join(words[:h], " ") + " -- first\n" + strings.Join(words[h:], " ") + " -- second\n",
						strings.Join(words[:2], " ") + " /* a */ " + strings.Join(words[2:h], " ") + " -- b\n" + strings.Join(words[h:], " ") + " /* c */",
						"-- lead\n" + strings.Join(words[:h], " ") + " -- mid\n/* own line */\n" + strings.Join(words[h:], " "),
					} {
						if seenC[sql] {
							continue
						}
						seenC[sql] = true
						feat := append(append([]string{}, s.Feat...), fmt.Sprintf("layout:comment-placement-%d", i))
						e.Do("C/"+sql, func(c *common.Ctx) { runCase(c, sql, feat, s.Kind) })
					}
				}
			}
			sqlgen.ClauseOptions(commented)
			sqlgen.DMLCases(commented)
			var files []string
			filepath.Walk("/repo/testdata", func(p string, info os.FileInfo, err error) error {
				if err == nil && !info.IsDir() && strings.HasSuffix(p, ".sql") {
					files = append(files, p)
				}
				return nil
			})
			sort.Strings(files)
			for _, p := range files {
				p := p
				e.Do("F/"+p, func(c *common.Ctx) {
					b, err := os.ReadFile(p)
					if err != nil {
						return
					}
					rel := strings.TrimPrefix(p, "/repo/testdata/")
					runCase(c, string(b), []string{"corpus:" + rel}, "corpus")
				})
			}
		},
	}
}
