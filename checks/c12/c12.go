// Package c12 checks property C12 (recovery parsing terminates, agrees with strict parsing, loses no good statement).
package c12

import (
	"errors"
	"fmt"
	"strings"

	"github.com/ajitpratap0/GoSQLX/pkg/gosqlx"
	"github.com/ajitpratap0/GoSQLX/pkg/sql/parser"

	"verif/engine/common"
	"verif/sqlgen"
)

type seg struct {
	name string
	sql  string
	ntok int
	ok   bool   // strict parsing accepts it on its own
	tree string // dump of its statements when ok
}

var stmtStart = map[string]bool{"SELECT": true, "INSERT": true, "UPDATE": true, "DELETE": true, "CREATE": true, "ALTER": true, "DROP": true, "WITH": true,
	"MERGE": true, "REFRESH": true, "TRUNCATE": true, "GRANT": true, "REVOKE": true, "SET": true, "BEGIN": true, "COMMIT": true, "ROLLBACK": true}

func x(v sqlgen.X) *sqlgen.X { return &v }

func validStatements() []sqlgen.S {
	one := 1
	_ = one
	return []sqlgen.S{
		sqlgen.Sel{Items: []sqlgen.SelItem{{X: sqlgen.Col("c1")}, {X: sqlgen.Col("c2")}}, From: []sqlgen.TableRef{{Name: "t1"}},
			Where: x(sqlgen.Bin("=", sqlgen.Col("c3"), sqlgen.Int("1"))), OrderBy: []sqlgen.OrderItem{{X: sqlgen.Col("c1")}}}.Build(),
		sqlgen.Ins{Table: "t2", Cols: []string{"c1", "c2"}, Rows: [][]sqlgen.X{{sqlgen.Int("1"), sqlgen.Str("x")}}}.Build(),
		sqlgen.Upd{Table: "t3", Set: []sqlgen.Assign{{Col: "c1", Val: sqlgen.Int("2")}}, Where: x(sqlgen.Bin("=", sqlgen.Col("c2"), sqlgen.Int("3")))}.Build(),
		sqlgen.Del{Table: "t4", Where: x(sqlgen.Bin("=", sqlgen.Col("c1"), sqlgen.Int("4")))}.Build(),
		sqlgen.CreateTable{Name: "t5", Cols: []sqlgen.ColDef{{Name: "c1", Type: "INT"}, {Name: "c2", Type: "TEXT"}}}.Build(),
		sqlgen.Sel{Items: []sqlgen.SelItem{{X: sqlgen.Func("COUNT", nil, sqlgen.FuncOpts{Star: true})}}, From: []sqlgen.TableRef{{Name: "t6"}}, GroupBy: []sqlgen.X{sqlgen.Col("c1")}}.Build(),
	}
}

func mkseg(name string, toks []sqlgen.Tok) seg {
	s := seg{name: name, sql: sqlgen.Render(toks, sqlgen.LSpaced), ntok: len(toks)}
	if t, err := gosqlx.Parse(s.sql); err == nil {
		s.ok = true
		s.tree = sqlgen.DumpNorm(t.Statements)
	}
	return s
}

func rawTok(words ...string) []sqlgen.Tok {
	var out []sqlgen.Tok
	for _, w := range words {
		out = append(out, sqlgen.Tok{S: w})
	}
	return out
}

// pools builds the valid and corrupt segment pools (deterministic).
func pools() (valid, corrupt []seg) {
	// statements whose first word is not one of the recovery synchronisation keywords
	for _, t := range [][]sqlgen.Tok{rawTok("DESCRIBE", "t7"), rawTok("SHOW", "TABLES"), rawTok("REPLACE", "INTO", "t8", "(", "c1", ")", "VALUES", "(", "1", ")")} {
		if v := mkseg("valid-nosync:"+t[0].S, t); v.ok {
			valid = append(valid, v)
		}
	}
	for i, s := range validStatements() {
		v := mkseg(fmt.Sprintf("valid%d:%s", i, s.Kind), s.Toks)
		if !v.ok {
			continue // C03's business
		}
		valid = append(valid, v)
		hasSet := false
		for _, t := range s.Toks[1:] {
			if stmtStart[strings.ToUpper(t.S)] {
				hasSet = true
			}
		}
		if hasSet {
			continue // a corruption would contain a statement-starting keyword after its first token
		}
		n := len(s.Toks)
		cands := []struct {
			kind string
			toks []sqlgen.Tok
		}{
			{"delete-first", append([]sqlgen.Tok{}, s.Toks[1:]...)},
			{"truncate-2", append([]sqlgen.Tok{}, s.Toks[:2]...)},
			{"truncate-3", append([]sqlgen.Tok{}, s.Toks[:3]...)},
			{"truncate-4", append([]sqlgen.Tok{}, s.Toks[:4]...)},
			{"delete-second", append(append([]sqlgen.Tok{}, s.Toks[:1]...), s.Toks[2:]...)},
			{"delete-last", append([]sqlgen.Tok{}, s.Toks[:n-1]...)},
			{"duplicate-mid", append(append(append([]sqlgen.Tok{}, s.Toks[:n/2+1]...), s.Toks[n/2]), s.Toks[n/2+1:]...)},
			{"replace-mid", append(append(append([]sqlgen.Tok{}, s.Toks[:n/2]...), sqlgen.Tok{S: ")"}), s.Toks[n/2+1:]...)},
			{"truncate-half", append([]sqlgen.Tok{}, s.Toks[:n/2]...)},
		}
		for _, cd := range cands {
			c := mkseg(fmt.Sprintf("%s:%s", cd.kind, s.Kind), cd.toks)
			if c.ok || len(cd.toks) == 0 {
				continue
			}
			corrupt = append(corrupt, c)
		}
	}
	return
}

func checkScript(c *common.Ctx, segs []seg, trailing bool) {
	var parts []string
	for _, s := range segs {
		parts = append(parts, s.sql)
	}
	script := strings.Join(parts, " ; ")
	if trailing {
		script += " ;"
	}
	c.Input(script)
	stmts, errs := gosqlx.ParseWithRecovery(script)
	_, strictErr := gosqlx.Parse(script)
	nbad := 0
	want := ""
	var bad []string
	for _, s := range segs {
		if !s.ok {
			nbad++
			bad = append(bad, s.name)
		} else {
			want += s.tree
		}
	}
	if nbad == 0 {
		bad = []string{"all-valid"}
	}
	if (len(errs) > 0) != (strictErr != nil) {
		c.FailFeat("C12", "iff-mismatch", bad, fmt.Sprintf("recovery reports %d errors but strict parsing error is %v", len(errs), strictErr))
	}
	got := ""
	for _, st := range stmts {
		got += sqlgen.DumpNorm([]any{st})
	}
	// want is a concatenation of "[...]" dumps per segment; normalise both to a flat form
	flat := func(s string) string { return strings.ReplaceAll(strings.ReplaceAll(s, "][", ", "), "], [", ", ") }
	if flat(got) != flat(want) {
		c.FailFeat("C12", "statements-differ", bad, fmt.Sprintf("recovery returns other statements than strict parsing of the well-formed segments:\n want %s\n got  %s", common.Trim(flat(want), 400), common.Trim(flat(got), 400)))
	}
	if len(errs) != nbad {
		k := "more"
		if len(errs) < nbad {
			k = "fewer"
		}
		c.FailFeat("C12", "error-count:"+k, bad, fmt.Sprintf("%d malformed segments but %d errors: %v", nbad, len(errs), errs))
	} else {
		// each error names a token inside its own segment
		start := 0
		j := 0
		for _, s := range segs {
			end := start + s.ntok
			if !s.ok {
				var pe *parser.ParseError
				if errors.As(errs[j], &pe) {
					if pe.TokenIdx < start || pe.TokenIdx >= end+1 {
						c.Fail("error-token-outside-segment@"+s.name, fmt.Sprintf("error %d names token %d, its segment spans tokens [%d,%d): %v", j, pe.TokenIdx, start, end, errs[j]))
					}
				} else {
					c.Fail("error-not-parse-error@"+s.name, fmt.Sprintf("error %d is not a *parser.ParseError: %T %v", j, errs[j], errs[j]))
				}
				j++
			}
			start = end + 1 // the separating semicolon
		}
	}
	c.Outcome(fmt.Sprintf("segments=%d bad=%d", len(segs), nbad))
	if nbad > 0 && nbad < len(segs) {
		c.NonTrivial()
	}
}

// Check returns the C12 check.
func Check() *common.Check {
	return &common.Check{
		ID:        "C12",
		Level:     "exploration",
		CrashSafe: true,
		Rule: "scripts S1;...;Sn: all sequences of n<=2 over the full pool (9 valid statements - one per kind plus DESCRIBE / SHOW / REPLACE, which do not start with a recovery synchronisation keyword - and every failing corruption of them: first / second / last token deleted, middle token duplicated or replaced, truncated after 2, 3, 4 tokens and at half, none containing a statement-starting keyword after its first token), n<=3 over the valid statements and an even spread of 14 corruptions " +
			"and n<=5 (quick) / n<=6 (thorough) over 2 valid + 3 corrupt, each with and without a trailing semicolon; plus all lexeme sequences of length <=3 (quick) / <=4 (thorough) over a 24-lexeme alphabet for termination and the iff clause. " +
			"distinct = distinct script text; non-trivial = script mixes well-formed and malformed segments",
		Assume: []string{"a segment is well-formed iff gosqlx.Parse accepts it alone", "parser-token count of a segment = number of generator lexemes (verified at run time on the valid segments; the token-index clause is skipped when it does not hold)"},
		Enumerate: func(e *common.Enum) {
			valid, corrupt := pools()
			// self-check of token counting on valid segments
			countOK := true
			for _, v := range valid {
				_, toks, err := parser.ParseBytesWithTokens([]byte(v.sql))
				if err != nil || len(toks)-1 != v.ntok {
					if err != nil || len(toks) != v.ntok {
						countOK = false
					}
				}
			}
			if !countOK {
				e.Cap("token counting self-check failed: token-index clause not evaluated")
			}
			full := append(append([]seg{}, valid...), corrupt...)
			var rec func(pool []seg, prefix []seg, max int, tag string)
			rec = func(pool []seg, prefix []seg, max int, tag string) {
				if len(prefix) > 0 {
					for _, trailing := range []bool{false, true} {
						var names []string
						for _, s := range prefix {
							names = append(names, s.name)
						}
						key := fmt.Sprintf("%s|%v|%s", tag, trailing, strings.Join(names, ";"))
						p := append([]seg{}, prefix...)
						e.Do(key, func(c *common.Ctx) {
							if !countOK {
								for i := range p {
									p[i].ntok = 1 << 20
								}
							}
							checkScript(c, p, trailing)
							c.Sample(key)
						})
					}
				}
				if len(prefix) == max {
					return
				}
				for _, s := range pool {
					rec(pool, append(append([]seg{}, prefix...), s), max, tag)
				}
			}
			rec(full, nil, 2, "full")
			// n<=3 over all valid segments and an even spread of 14 corruptions
			mid := append([]seg{}, valid...)
			step := len(corrupt)/14 + 1
			for i := 0; i < len(corrupt); i += step {
				mid = append(mid, corrupt[i])
			}
			rec(mid, nil, 3, "mid")
			if len(valid) >= 2 && len(corrupt) >= 3 {
				small := []seg{valid[0], valid[1], corrupt[0], corrupt[len(corrupt)/2], corrupt[len(corrupt)-1]}
				max := 5
				if e.Thorough() {
					max = 6
				}
				rec(small, nil, max, "small")
			}
			// token soup: termination and the iff clause
			alpha := []string{"SELECT", "FROM", "WHERE", "INSERT", "INTO", "VALUES", "UPDATE", "SET", "DELETE", "WITH", "AS", "(", ")", ",", ";", "*", "=", "a", "1", "'s'", "AND", "NOT", "JOIN", "CASE"}
			K := 3
			if e.Thorough() {
				K = 4
			}
			var soup func(prefix []string)
			soup = func(prefix []string) {
				if len(prefix) > 0 {
					sql := strings.Join(prefix, " ")
					if strings.Trim(sql, "; ") != "" {
						e.Do("soup|"+sql, func(c *common.Ctx) {
							c.Input(sql)
							_, errs := gosqlx.ParseWithRecovery(sql)
							_, strictErr := gosqlx.Parse(sql)
							if (len(errs) > 0) != (strictErr != nil) {
								first := strings.ToUpper(prefix[0])
								c.Fail("iff-mismatch@soup:"+first, fmt.Sprintf("recovery reports %d errors but strict parsing error is %v", len(errs), strictErr))
							}
							if strictErr != nil {
								c.Outcome("soup:rejected")
							} else {
								c.Outcome("soup:accepted")
								c.NonTrivial()
							}
						})
					}
				}
				if len(prefix) == K {
					return
				}
				for _, a := range alpha {
					soup(append(append([]string{}, prefix...), a))
				}
			}
			soup(nil)
		},
	}
}
