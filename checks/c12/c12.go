// Package c12 checks property C12 (recovery parsing terminates, agrees with strict parsing, loses no good statement).
package c12

import (
	"errors"
	"fmt"
	"github.com/ajitpratap0/GoSQLX/pkg/sql/ast"
	"github.com/ajitpratap0/GoSQLX/pkg/sql/tokenizer"
	"os"
	"path/filepath"
	"sort"
	"strings"

	"github.com/ajitpratap0/GoSQLX/pkg/gosqlx"
	"github.com/ajitpratap0/GoSQLX/pkg/models"
	"github.com/ajitpratap0/GoSQLX/pkg/sql/parser"

	"verif/checks/c08/probe"
	"verif/engine/common"
	"verif/sqlgen"
)

type seg struct {
	name  string
	sql   string
	words []string // the lexemes sql was rendered from (a lexeme may contain blanks: string values, quoted names)
	ntok  int
	// cntOK: the parser's token count of the statement this segment was cut from equals its lexeme count (the tokenizer
	// merges some keyword pairs and the converter splits only some of them again), so ntok can be trusted
	cntOK bool
	ok    bool   // strict parsing accepts it on its own
	tree  string // dump of its statements when ok
}

var stmtStart = map[string]bool{"SELECT": true, "INSERT": true, "UPDATE": true, "DELETE": true, "CREATE": true, "ALTER": true, "DROP": true, "WITH": true,
	"MERGE": true, "REFRESH": true, "TRUNCATE": true, "GRANT": true, "REVOKE": true, "SET": true, "BEGIN": true, "COMMIT": true, "ROLLBACK": true}

func x(v sqlgen.X) *sqlgen.X { return &v }

// colWidth is the number of columns a one-line text occupies in the tokenizer's reckoning (a tab counts as four columns).
func colWidth(s string) int { return len(s) + 3*strings.Count(s, "\t") }

func validStatements() []sqlgen.S {
	one := 1
	_ = one
	return []sqlgen.S{
		sqlgen.Sel{Items: []sqlgen.SelItem{{X: sqlgen.Col("c1")}, {X: sqlgen.Col("c2")}}, From: []sqlgen.TableRef{{Name: "t1"}},
			Where: x(sqlgen.Bin("=", sqlgen.Col("c3"), sqlgen.Int("1"))), OrderBy: []sqlgen.OrderItem{{X: sqlgen.Col("c1")}}}.Build(),
		sqlgen.Ins{Table: "t2", Cols: []string{"c1", "c2"}, Rows: [][]sqlgen.X{{sqlgen.Int("1"), sqlgen.Str("x")}}}.Build(),
		sqlgen.Upd{Table: "t3", Set: []sqlgen.Assign{{Col: "c1", Val: sqlgen.Int("2")}}, Where: x(sqlgen.Bin("=", sqlgen.Col("c2"), sqlgen.Int("3")))}.Build(),
		sqlgen.Del{Table: "t4", Where: x(sqlgen.Bin("=", sqlgen.Col("c1"), sqlgen.Int("4")))}.Build(),
		sqlgen.CreateTable{Name: "t5", Cols: []sqlgen.ColDef{{Name: "c1", Type: "INT"}, {Name: "c2", Type: "TEXT"}}}.Build(),
		sqlgen.Sel{Items: []sqlgen.SelItem{{X: sqlgen.Func("COUNT", nil, sqlgen.FuncOpts{Star: true})}}, From: []sqlgen.TableRef{{Name: "t6"}}, GroupBy: []sqlgen.X{sqlgen.Col("c1")}}.Build(),
	}
}

func mkseg(name string, toks []sqlgen.Tok) seg {
	s := seg{name: name, sql: sqlgen.Render(toks, sqlgen.LSpaced), ntok: len(toks)}
	for _, t := range toks {
		s.words = append(s.words, t.S)
	}
	if t, err := gosqlx.Parse(s.sql); err == nil {
		s.ok = true
		s.tree = sqlgen.DumpNorm(t.Statements)
	}
	s.cntOK = countable(toks)
	return s
}

// countable reports whether the parser sees exactly one token per lexeme of toks.  It can only be asked of text the
// parser accepts, so corruptions inherit the answer of the statement they were cut from (mksegFrom).
func countable(toks []sqlgen.Tok) bool {
	_, ptoks, err := parser.ParseBytesWithTokens([]byte(sqlgen.Render(toks, sqlgen.LSpaced)))
	if err != nil {
		return false
	}
	n := len(ptoks)
	if n > 0 && ptoks[n-1].Type == models.TokenTypeEOF {
		n--
	}
	return n == len(toks)
}

func mksegFrom(name string, toks, whole []sqlgen.Tok) seg {
	s := mkseg(name, toks)
	s.cntOK = countable(whole)
	return s
}

func rawTok(words ...string) []sqlgen.Tok {
	var out []sqlgen.Tok
	for _, w := range words {
		out = append(out, sqlgen.Tok{S: w})
	}
	return out
}

// pools builds the valid and corrupt segment pools (deterministic).
func pools() (valid, corrupt []seg) {
	// statements whose first word is not one of the recovery synchronisation keywords
	for _, t := range [][]sqlgen.Tok{rawTok("DESCRIBE", "t7"), rawTok("SHOW", "TABLES"), rawTok("REPLACE", "INTO", "t8", "(", "c1", ")", "VALUES", "(", "1", ")")} {
		if v := mkseg("valid-nosync:"+t[0].S, t); v.ok {
			valid = append(valid, v)
		}
	}
	for i, s := range validStatements() {
		v := mkseg(fmt.Sprintf("valid%d:%s", i, s.Kind), s.Toks)
		if !v.ok {
			continue // C03's business
		}
		valid = append(valid, v)
		hasSet := false
		for _, t := range s.Toks[1:] {
			if stmtStart[strings.ToUpper(t.S)] {
				hasSet = true
			}
		}
		if hasSet {
			continue // a corruption would contain a statement-starting keyword after its first token
		}
		n := len(s.Toks)
		cands := []struct {
			kind string
			toks []sqlgen.Tok
		}{
			{"delete-first", append([]sqlgen.Tok{}, s.Toks[1:]...)},
			{"truncate-2", append([]sqlgen.Tok{}, s.Toks[:2]...)},
			{"truncate-3", append([]sqlgen.Tok{}, s.Toks[:3]...)},
			{"truncate-4", append([]sqlgen.Tok{}, s.Toks[:4]...)},
			{"delete-second", append(append([]sqlgen.Tok{}, s.Toks[:1]...), s.Toks[2:]...)},
			{"delete-last", append([]sqlgen.Tok{}, s.Toks[:n-1]...)},
			{"duplicate-mid", append(append(append([]sqlgen.Tok{}, s.Toks[:n/2+1]...), s.Toks[n/2]), s.Toks[n/2+1:]...)},
			{"replace-mid", append(append(append([]sqlgen.Tok{}, s.Toks[:n/2]...), sqlgen.Tok{S: ")"}), s.Toks[n/2+1:]...)},
			{"truncate-half", append([]sqlgen.Tok{}, s.Toks[:n/2]...)},
		}
		for _, cd := range cands {
			c := mksegFrom(fmt.Sprintf("%s:%s", cd.kind, s.Kind), cd.toks, s.Toks)
			if c.ok || len(cd.toks) == 0 {
				continue
			}
			corrupt = append(corrupt, c)
		}
	}
	return
}

func checkScript(c *common.Ctx, segs []seg, trailing bool) {
	var parts []string
	for _, s := range segs {
		parts = append(parts, s.sql)
	}
	script := strings.Join(parts, " ; ")
	if trailing {
		script += " ;"
	}
	c.Input(script)
	stmts, errs := gosqlx.ParseWithRecovery(script)
	_, strictErr := gosqlx.Parse(script)
	nbad := 0
	want := ""
	var bad []string
	for _, s := range segs {
		if !s.ok {
			nbad++
			bad = append(bad, s.name)
		} else {
			want += s.tree
		}
	}
	if nbad == 0 {
		bad = []string{"all-valid"}
	}
	if (len(errs) > 0) != (strictErr != nil) {
		c.FailFeat("C12", "iff-mismatch", bad, fmt.Sprintf("recovery reports %d errors but strict parsing error is %v", len(errs), strictErr))
	}
	got := ""
	for _, st := range stmts {
		got += sqlgen.DumpNorm([]any{st})
	}
	// want is a concatenation of "[...]" dumps per segment; normalise both to a flat form
	flat := func(s string) string { return strings.ReplaceAll(strings.ReplaceAll(s, "][", ", "), "], [", ", ") }
	if flat(got) != flat(want) && nbad > 0 {
		// one precise class first: a malformed segment whose leading tokens form a complete statement (the parser does
		// not require separators between statements) contributes that statement's tree and one error for the rest
		if kind := prefixKept(segs, flat(got), flat); kind != "" {
			c.Fail("prefix-statement-kept@"+kind, fmt.Sprintf("a malformed segment starting with %s contributes the tree of its well-formed leading tokens:\n want %s\n got  %s", kind, common.Trim(flat(want), 400), common.Trim(flat(got), 400)))
			goto errs
		}
	}
	if flat(got) != flat(want) {
		c.FailFeat("C12", "statements-differ", bad, fmt.Sprintf("recovery returns other statements than strict parsing of the well-formed segments:\n want %s\n got  %s", common.Trim(flat(want), 400), common.Trim(flat(got), 400)))
	}
errs:
	if len(errs) != nbad {
		k := "more"
		if len(errs) < nbad {
			k = "fewer"
		}
		c.FailFeat("C12", "error-count:"+k, bad, fmt.Sprintf("%d malformed segments but %d errors: %v", nbad, len(errs), errs))
	} else {
		// each error names a token inside its own segment: by token index where the parser's token count of every
		// segment is known, and by reported location (the script is one line) always
		countable := true
		for _, s := range segs {
			countable = countable && s.cntOK
		}
		if !countable {
			c.Count("token_index_clause_skipped", 1)
		}
		start, off := 0, 0
		j := 0
		for _, s := range segs {
			end := start + s.ntok
			if !s.ok {
				var pe *parser.ParseError
				if errors.As(errs[j], &pe) {
					if countable && (pe.TokenIdx < start || pe.TokenIdx >= end+1) {
						c.Fail("error-token-outside-segment@"+s.name, fmt.Sprintf("error %d names token %d, its segment spans tokens [%d,%d): %v", j, pe.TokenIdx, start, end, errs[j]))
					}
					if pe.Line == 1 && (pe.Column < off+1 || pe.Column > off+colWidth(s.sql)+3) {
						c.Fail("error-location-outside-segment@"+s.name, fmt.Sprintf("error %d is reported at column %d, its segment spans columns [%d,%d] (separator included): %v", j, pe.Column, off+1, off+colWidth(s.sql)+3, errs[j]))
					}
				} else {
					c.Fail("error-not-parse-error@"+s.name, fmt.Sprintf("error %d is not a *parser.ParseError: %T %v", j, errs[j], errs[j]))
				}
				j++
			}
			start = end + 1       // the separating semicolon
			off += colWidth(s.sql) + 3 // " ; "
		}
	}
	c.Outcome(fmt.Sprintf("segments=%d bad=%d", len(segs), nbad))
	if nbad > 0 && nbad < len(segs) {
		c.NonTrivial()
	}
}

func tokensOnly(sql string) ([]models.TokenWithSpan, error) {
	_, toks, err := tokensOf(sql)
	return toks, err
}

func tokensOf(sql string) (*tokenizer.Tokenizer, []models.TokenWithSpan, error) {
	tk := tokenizer.GetTokenizer()
	defer tokenizer.PutTokenizer(tk)
	toks, err := tk.Tokenize([]byte(sql))
	return nil, append([]models.TokenWithSpan{}, toks...), err
}

// prefixKept reports whether got equals the expected trees once some malformed segments contribute the tree of one
// of their strictly-parseable proper token prefixes; it returns the first word of the first such segment.
func prefixKept(segs []seg, got string, flat func(string) string) string {
	type alt struct{ tree, kind string }
	alts := make([][]alt, len(segs))
	for i, s := range segs {
		if s.ok {
			alts[i] = []alt{{s.tree, ""}}
			continue
		}
		alts[i] = []alt{{"", ""}}
		words := s.words
		if len(words) == 0 {
			words = strings.Fields(s.sql) // segments that were not built from lexemes
		}
		seen := map[string]bool{}
		for k := 1; k < len(words); k++ {
			if t, err := gosqlx.Parse(strings.Join(words[:k], " ")); err == nil {
				d := sqlgen.DumpNorm(t.Statements)
				if !seen[d] {
					seen[d] = true
					alts[i] = append(alts[i], alt{d, strings.ToUpper(words[0])})
				}
			}
		}
	}
	var rec func(i int, acc, kind string, budget *int) string
	rec = func(i int, acc, kind string, budget *int) string {
		if *budget <= 0 {
			return ""
		}
		if i == len(segs) {
			*budget--
			if kind != "" && flat(acc) == got {
				return kind
			}
			return ""
		}
		for _, a := range alts[i] {
			k := kind
			if k == "" {
				k = a.kind
			}
			if r := rec(i+1, acc+a.tree, k, budget); r != "" {
				return r
			}
		}
		return ""
	}
	budget := 4096
	return rec(0, "", "", &budget)
}

// Check returns the C12 check.
func Check() *common.Check {
	return &common.Check{
		ID:        "C12",
		Level:     "exploration",
		CrashSafe: true,
		Rule: "scripts S1;...;Sn: all sequences of n<=2 over the full pool (9 valid statements - one per kind plus DESCRIBE / SHOW / REPLACE, which do not start with a recovery synchronisation keyword - and every failing corruption of them: first / second / last token deleted, middle token duplicated or replaced, truncated after 2, 3, 4 tokens and at half, none containing a statement-starting keyword after its first token), n<=3 over the valid statements and an even spread of 14 corruptions " +
			"and n<=5 (quick) / n<=6 (thorough) over 2 valid + 3 corrupt, each with and without a trailing semicolon; every rejected proper prefix (up to the first inner statement-starting keyword) of every clause-option, DML and DDL statement of the sqlgen space, followed by SHOW TABLES / a SELECT / a malformed non-keyword segment, and between two neighbours; every proper prefix of those statements followed by a statement exactly at the nesting limit (which must be returned); all scripts of <=3 segments over 6 MySQL-only / portable / malformed statements through the recovery method of a parser built with the mysql dialect, once and twice; every byte prefix (quick: 600 bytes) of every corpus file under /repo/testdata for termination and the iff clause; every single-token deletion / duplication / replacement inside every representative expression of sqlgen (in WHERE and in the select list) and at every position of every clause-option / DML / DDL statement without an inner statement-starting keyword, before a follower and between two neighbours; bracket debris: every malformed segment of the corruption pool followed by every word of length <=2 (quick) / <=3 (thorough) over ( ) [ ] 1 and the comma that contains a bracket (unclosed, unopened, balanced, crossed, empty, filled), before SHOW TABLES and between SELECTs followed by SHOW TABLES; plus all lexeme sequences of length <=3 (quick) / <=4 (thorough) over a 24-lexeme alphabet for termination and the iff clause. " +
			"distinct = distinct script text; non-trivial = script mixes well-formed and malformed segments",
		Assume: []string{"a segment is well-formed iff gosqlx.Parse accepts it alone", "parser-token count of a segment = number of generator lexemes; verified at run time on the accepted statement each segment was cut from, and where it does not hold (keyword pairs the tokenizer merges) the token-index clause is replaced by the reported-column clause alone"},
		Enumerate: func(e *common.Enum) {
			valid, corrupt := pools()
			full := append(append([]seg{}, valid...), corrupt...)
			var rec func(pool []seg, prefix []seg, max int, tag string)
			rec = func(pool []seg, prefix []seg, max int, tag string) {
				if len(prefix) > 0 {
					for _, trailing := range []bool{false, true} {
						var names []string
						for _, s := range prefix {
							names = append(names, s.name)
						}
						key := fmt.Sprintf("%s|%v|%s", tag, trailing, strings.Join(names, ";"))
						p := append([]seg{}, prefix...)
						e.Do(key, func(c *common.Ctx) {
							checkScript(c, p, trailing)
							c.Sample(key)
						})
					}
				}
				if len(prefix) == max {
					return
				}
				for _, s := range pool {
					rec(pool, append(append([]seg{}, prefix...), s), max, tag)
				}
			}
			rec(full, nil, 2, "full")
			// n<=3 over all valid segments and an even spread of 14 corruptions
			mid := append([]seg{}, valid...)
			step := len(corrupt)/14 + 1
			for i := 0; i < len(corrupt); i += step {
				mid = append(mid, corrupt[i])
			}
			rec(mid, nil, 3, "mid")
			if len(valid) >= 2 && len(corrupt) >= 3 {
				small := []seg{valid[0], valid[1], corrupt[0], corrupt[len(corrupt)/2], corrupt[len(corrupt)-1]}
				max := 5
				if e.Thorough() {
					max = 6
				}
				rec(small, nil, max, "small")
			}
			// every rejected proper prefix of every clause-option / DML / DDL statement of the model grammar, between and
			// before well-formed neighbours: each production's error path at the statement boundary (it must stop at its own
			// semicolon, name a token of its own statement, and leave both neighbours alone)
			var followers []seg
			for _, v := range valid {
				if strings.HasPrefix(v.name, "valid-nosync:SHOW") || strings.HasPrefix(v.name, "valid0:") {
					followers = append(followers, v)
				}
			}
			for _, c := range corrupt {
				if strings.HasPrefix(c.name, "delete-first:") {
					followers = append(followers, c)
					break
				}
			}
			seenPrefix := map[string]bool{}
			prefixes := func(name string, s sqlgen.S) {
				for n := 1; n < len(s.Toks); n++ {
					if n > 1 && stmtStart[strings.ToUpper(s.Toks[n-1].S)] {
						break // longer prefixes would contain a statement-starting keyword after their first token
					}
					toks := append([]sqlgen.Tok{}, s.Toks[:n]...)
					pre := mksegFrom(fmt.Sprintf("prefix-%d:%s", n, name), toks, s.Toks)
					if pre.ok || seenPrefix[pre.sql] {
						continue
					}
					seenPrefix[pre.sql] = true
					last := "prefix-last:" + strings.ToUpper(s.Toks[n-1].S)
					for _, f := range followers {
						p := []seg{pre, f}
						p[0].name = last
						key := "prefix|" + pre.sql + "|" + f.name
						e.Do(key, func(c *common.Ctx) {
							checkScript(c, p, false)
						})
					}
					if len(followers) > 0 {
						p := []seg{followers[0], pre, followers[len(followers)-1]}
						p[1].name = last
						key := "prefix-mid|" + pre.sql
						e.Do(key, func(c *common.Ctx) {
							checkScript(c, p, true)
						})
					}
				}
			}
			sqlgen.ClauseOptions(prefixes)
			sqlgen.DMLCases(prefixes)
			sqlgen.DDLCases(prefixes)
			// "loses no good statement", at the parser's nesting limit: every proper prefix of every clause-option statement
			// (here also the ones that run into an inner SELECT: whatever recovery makes of them, the text after the next
			// semicolon is a well-formed statement) followed by a statement that sits exactly at the nesting limit.  A failed
			// statement that leaves anything behind in the parser's nesting bookkeeping loses that statement.
			nest := probe.NestSQL(probe.MaxNest())
			nestTree := ""
			if t, err := gosqlx.Parse(nest); err == nil {
				nestTree = sqlgen.DumpNorm(t.Statements)
			}
			seenNest := map[string]bool{}
			nestFollower := func(name string, st sqlgen.S) {
				if nestTree == "" {
					return
				}
				for n := 1; n < len(st.Toks); n++ {
					pre := sqlgen.Render(st.Toks[:n], sqlgen.LSpaced)
					if seenNest[pre] {
						continue
					}
					seenNest[pre] = true
					last := strings.ToUpper(st.Toks[n-1].S)
					e.Do("nest-follower|"+pre, func(c *common.Ctx) {
						script := pre + " ;\n" + nest
						c.Input(script)
						stmts, _ := gosqlx.ParseWithRecovery(script)
						got := ""
						if len(stmts) > 0 {
							got = sqlgen.DumpNorm([]any{stmts[len(stmts)-1]})
						}
						if got != nestTree {
							c.Fail("good-statement-lost:at-nesting-limit@prefix-last:"+last, fmt.Sprintf("the statement after the semicolon is well-formed (it sits exactly at the nesting limit) but recovery does not return it as the last statement: %d statements returned", len(stmts)))
						}
						c.Outcome("nest-follower")
						c.NonTrivial()
					})
				}
			}
			sqlgen.ClauseOptions(nestFollower)
			sqlgen.DMLCases(nestFollower)
			// every single-token deletion / duplication / replacement inside every representative expression (CASE, casts,
			// calls with their clauses, sub-queries are excluded by the keyword rule ...), in a WHERE clause and in the select
			// list: expression-level keywords (END, ELSE, WHEN, AS ...) must not be taken for statement boundaries
			seenCorrupt := map[string]bool{}
			corruptExpr := func(name string, st sqlgen.S) {
				for _, t := range st.Toks[1:] {
					if stmtStart[strings.ToUpper(t.S)] {
						return
					}
				}
				whole := mkseg("expr:"+name, st.Toks)
				if !whole.ok {
					return
				}
				n := len(st.Toks)
				for k := 1; k < n; k++ {
					del := append(append([]sqlgen.Tok{}, st.Toks[:k]...), st.Toks[k+1:]...)
					dup := append(append(append([]sqlgen.Tok{}, st.Toks[:k+1]...), st.Toks[k]), st.Toks[k+1:]...)
					rep := append(append(append([]sqlgen.Tok{}, st.Toks[:k]...), sqlgen.Tok{S: ")"}), st.Toks[k+1:]...)
					for ci, toks := range [][]sqlgen.Tok{del, dup, rep} {
						cs := mksegFrom(fmt.Sprintf("%s-in-expr:%s", []string{"delete", "duplicate", "replace"}[ci], name), toks, st.Toks)
						if cs.ok || seenCorrupt[cs.sql] || len(followers) == 0 {
							continue
						}
						seenCorrupt[cs.sql] = true
						p1 := []seg{cs, followers[0]}
						e.Do("exprcorrupt|"+cs.sql, func(c *common.Ctx) { checkScript(c, p1, false) })
						p2 := []seg{whole, cs, followers[0]}
						e.Do("exprcorrupt-mid|"+cs.sql, func(c *common.Ctx) { checkScript(c, p2, true) })
					}
				}
			}
			sqlgen.RepExprs(func(name string, x sqlgen.X) {
				corruptExpr("where:"+name, sqlgen.Sel{Items: []sqlgen.SelItem{{X: sqlgen.Col("c0")}}, From: []sqlgen.TableRef{{Name: "t0"}}, Where: &x}.Build())
				corruptExpr("item:"+name, sqlgen.Sel{Items: []sqlgen.SelItem{{X: x}, {X: sqlgen.Col("c0")}}, From: []sqlgen.TableRef{{Name: "t0"}}}.Build())
			})
			// the same corruptions at every position of every clause-option, DML and DDL statement that has no inner
			// statement-starting keyword: the words of the clauses behind the corruption (BY, SETS, ROWS, NOTHING ...) must
			// not be taken for statement boundaries either
			sqlgen.ClauseOptions(func(name string, st sqlgen.S) { corruptExpr("clause:"+name, st) })
			sqlgen.DMLCases(func(name string, st sqlgen.S) { corruptExpr("dml:"+name, st) })
			sqlgen.DDLCases(func(name string, st sqlgen.S) { corruptExpr("ddl:"+name, st) })
			// bracket debris: every malformed segment of the corruption pool followed, behind its last token - so at or behind the token its error is
			// raised at - by every word of length <=2 (thorough: <=3) over ( ) [ ] 1 and the comma: brackets that are never
			// closed, closed without being opened, balanced, crossed, empty or filled.  What recovery skips belongs to the
			// broken statement alone: the next semicolon ends it whatever brackets were left open, and both neighbours (one
			// starting with a synchronisation keyword, one not) are returned.  Words the tokenizer rejects are left out
			// (nothing is parsed then), segments the debris completes to a well-formed statement are left out too.
			{
				dalpha := []string{"(", ")", "[", "]", "1", ","}
				dmax := 2
				if e.Thorough() {
					dmax = 3
				}
				var dwords [][]string
				var dw func(prefix []string)
				dw = func(prefix []string) {
					if len(prefix) > 0 {
						hasBracket := false
						for _, w := range prefix {
							hasBracket = hasBracket || w == "(" || w == ")" || w == "[" || w == "]"
						}
						if hasBracket {
							dwords = append(dwords, append([]string{}, prefix...))
						}
					}
					if len(prefix) == dmax {
						return
					}
					for _, a := range dalpha {
						dw(append(append([]string{}, prefix...), a))
					}
				}
				dw(nil)
				type dbase struct {
					name  string
					words []string
					cntOK bool
				}
				var bases []dbase
				for _, cs := range corrupt {
					bases = append(bases, dbase{cs.name, cs.words, cs.cntOK})
				}
				seenDebris := map[string]bool{}
				for _, b := range bases {
					for _, w := range dwords {
						toks := rawTok(append(append([]string{}, b.words...), w...)...)
						ds := mkseg("debris:"+b.name, toks)
						if ds.ok || seenDebris[ds.sql] {
							continue
						}
						seenDebris[ds.sql] = true
						// the token-index clause needs one parser token per lexeme: true of the statement the base was cut
						// from, and of the debris when the tokenizer gives one token per debris lexeme
						ds.cntOK = false
						if ttoks, err := tokensOnly(strings.Join(w, " ")); err != nil {
							continue
						} else {
							n := len(ttoks)
							if n > 0 && ttoks[n-1].Token.Type == models.TokenTypeEOF {
								n--
							}
							ds.cntOK = b.cntOK && n == len(w)
						}
						if _, err := tokensOnly(ds.sql); err != nil {
							continue
						}
						if len(followers) < 2 {
							continue
						}
						p1 := []seg{ds, followers[0]}
						e.Do("debris|"+ds.sql, func(c *common.Ctx) { checkScript(c, p1, false) })
						p2 := []seg{followers[1], ds, followers[1], followers[0]}
						e.Do("debris-mid|"+ds.sql, func(c *common.Ctx) { checkScript(c, p2, true) })
					}
				}
			}
			// every byte prefix (quick: the first 600 bytes) of every corpus file: statement kinds and dialect constructs
			// outside the model grammar, cut at every point - termination and the iff clause
			var files []string
			filepath.Walk("/repo/testdata", func(p string, info os.FileInfo, err error) error {
				if err == nil && !info.IsDir() && strings.HasSuffix(p, ".sql") {
					files = append(files, p)
				}
				return nil
			})
			sort.Strings(files)
			for _, p := range files {
				b, err := os.ReadFile(p)
				if err != nil {
					continue
				}
				text := string(b)
				max := 600
				if e.Thorough() || max > len(text) {
					max = len(text)
				}
				rel := strings.TrimPrefix(p, "/repo/testdata/")
				for k := 1; k <= max; k++ {
					pre := text[:k]
					if strings.Trim(pre, "; \t\r\n") == "" {
						continue
					}
					e.Do(fmt.Sprintf("fileprefix|%s|%d", rel, k), func(c *common.Ctx) {
						c.Input(fmt.Sprintf("%s[:%d]", rel, k))
						_, errs := gosqlx.ParseWithRecovery(pre)
						_, strictErr := gosqlx.Parse(pre)
						// the iff clause speaks of inputs with at least one token other than semicolons
						real := false
						if _, toks, err := tokensOf(pre); err == nil {
							for _, t := range toks {
								if t.Token.Type != models.TokenTypeEOF && t.Token.Type != models.TokenTypeSemicolon {
									real = true
								}
							}
						} else {
							real = true
						}
						if real && (len(errs) > 0) != (strictErr != nil) {
							c.Fail("iff-mismatch@fileprefix", fmt.Sprintf("recovery reports %d errors but strict parsing error is %v", len(errs), strictErr))
						}
						c.Outcome("fileprefix")
						if strictErr == nil {
							c.NonTrivial()
						}
					})
				}
			}
			// a configured parser: recovery through the instance methods must parse with the dialect and mode the holder set.
			// All scripts of <=3 segments over MySQL-only, portable and malformed statements on a parser built WithDialect("mysql").
			{
				type dseg struct {
					sql string
					ok  bool
					tr  string
				}
				strictMy := func(sql string) ([]ast.Statement, error) {
					toks, err := tokensOnly(sql)
					if err != nil {
						return nil, err
					}
					p := parser.NewParser(parser.WithDialect("mysql"))
					defer p.Release()
					t, err := p.ParseFromModelTokens(toks)
					if err != nil {
						return nil, err
					}
					return t.Statements, nil
				}
				var dpool []dseg
				for _, q := range []string{"SELECT a FROM t LIMIT 5, 10", "SELECT b FROM u LIMIT 3", "SELECT c FROM v WHERE c = 1 LIMIT 1, 2", "SELECT FROM WHERE", "UPDATE t SET", "SHOW TABLES"} {
					d := dseg{sql: q}
					if st, err := strictMy(q); err == nil {
						d.ok, d.tr = true, sqlgen.DumpNorm(st)
					}
					dpool = append(dpool, d)
				}
				var drec func(prefix []int)
				drec = func(prefix []int) {
					if len(prefix) > 0 {
						pp := append([]int{}, prefix...)
						e.Do(fmt.Sprintf("dialect|mysql|%v", pp), func(c *common.Ctx) {
							var parts []string
							want, nbad := "", 0
							for _, i := range pp {
								parts = append(parts, dpool[i].sql)
								if dpool[i].ok {
									want += dpool[i].tr
								} else {
									nbad++
								}
							}
							script := strings.Join(parts, " ; ")
							c.Input("mysql parser: " + script)
							toks, err := tokensOnly(script)
							if err != nil {
								return
							}
							for _, via := range []string{"ParseWithRecoveryFromModelTokens", "second call on the same parser"} {
								p := parser.NewParser(parser.WithDialect("mysql"))
								if via != "ParseWithRecoveryFromModelTokens" {
									p.ParseWithRecoveryFromModelTokens(toks)
								}
								stmts, errs := p.ParseWithRecoveryFromModelTokens(toks)
								got := ""
								for _, st := range stmts {
									got += sqlgen.DumpNorm([]any{st})
								}
								flat := func(s string) string { return strings.ReplaceAll(strings.ReplaceAll(s, "][", ", "), "], [", ", ") }
								if flat(got) != flat(want) || len(errs) != nbad {
									c.Fail("configured-parser:mysql:recovery-differs", fmt.Sprintf("%s on a mysql parser: %d errors (want %d)\n want %s\n got  %s", via, len(errs), nbad, common.Trim(flat(want), 300), common.Trim(flat(got), 300)))
								}
								if p.Dialect() != "mysql" {
									c.Fail("configured-parser:mysql:dialect-lost", "after recovery parsing the parser reports dialect "+p.Dialect())
								}
								p.Release()
							}
							c.Outcome("dialect-script")
							if nbad > 0 && nbad < len(pp) {
								c.NonTrivial()
							}
						})
					}
					if len(prefix) == 3 {
						return
					}
					for i := range dpool {
						drec(append(append([]int{}, prefix...), i))
					}
				}
				drec(nil)
			}
			// token soup: termination and the iff clause
			alpha := []string{"SELECT", "FROM", "WHERE", "INSERT", "INTO", "VALUES", "UPDATE", "SET", "DELETE", "WITH", "AS", "(", ")", ",", ";", "*", "=", "a", "1", "'s'", "AND", "NOT", "JOIN", "CASE"}
			K := 3
			if e.Thorough() {
				K = 4
			}
			var soup func(prefix []string)
			soup = func(prefix []string) {
				if len(prefix) > 0 {
					sql := strings.Join(prefix, " ")
					if strings.Trim(sql, "; ") != "" {
						e.Do("soup|"+sql, func(c *common.Ctx) {
							c.Input(sql)
							_, errs := gosqlx.ParseWithRecovery(sql)
							_, strictErr := gosqlx.Parse(sql)
							if (len(errs) > 0) != (strictErr != nil) {
								first := strings.ToUpper(prefix[0])
								c.Fail("iff-mismatch@soup:"+first, fmt.Sprintf("recovery reports %d errors but strict parsing error is %v", len(errs), strictErr))
							}
							if strictErr != nil {
								c.Outcome("soup:rejected")
							} else {
								c.Outcome("soup:accepted")
								c.NonTrivial()
							}
						})
					}
				}
				if len(prefix) == K {
					return
				}
				for _, a := range alpha {
					soup(append(append([]string{}, prefix...), a))
				}
			}
			soup(nil)
		},
	}
}
