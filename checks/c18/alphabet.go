package c18

import (
	"encoding/json"
	"fmt"
	"strings"
)

// ---------------------------------------------------------------------------
// Messages.  An alphabet item is a generator: given the reference model and the
// index of the message in the history it produces the framed bytes, what the
// client is owed for it (responses with which id, how many), and updates the
// model.  Versions are 10+index and ids are derived from the index, so every
// message of a history has its own id and every open/change its own version.
// ---------------------------------------------------------------------------

const (
	kRequest = iota // a request with a well-formed id: exactly one response with that id
	kNotif          // a notification: no response
	kJunk           // not a valid request or notification; at most one answer (own id or null)
	kHeader         // a broken header block without body
)

type step struct {
	name   string
	frame  []byte
	method string
	kind   int
	id     string // canonical id ("" = none)
	min    int    // responses owed with this id
	max    int
	nullOK bool // may (need not) be answered with a null-id error response

	// class of the message for signatures: for a didChange the class of its first edit relative to
	// the model text (mirror-mismatch:<edClass>, panic:<frame>@<pClass>), otherwise what is unusual
	// about the message (ok | far | neg | the item name for junk and header items)
	edClass string
	pClass  string
	// model text/version of mainURI after this step (valid when the document is open and untainted)
	mOpen    bool
	mTainted bool
	mText    string
}

type model struct {
	doc    *mdoc // mainURI; nil = not open
	other  *mdoc // otherURI (only opened, edited in range and closed: must never be confused with mainURI)
	exited int   // index of the exit notification, -1 = none; the model stops there
	// unsure: a frame has been sent after which a conforming server may or may not be able to see
	// further input.  The model goes on as if it could (so that messages keep their classes), but
	// nothing is owed and no document clause is asserted any more.
	unsure bool
}

func newModel() *model { return &model{exited: -1} }

// live reports whether the server is still obliged to process messages.
func (m *model) live() bool { return m.exited < 0 && !m.unsure }

type item struct {
	name string
	gen  func(m *model, i int) step
}

func frame(body string) []byte {
	return []byte(fmt.Sprintf("Content-Length: %d\r\n\r\n%s", len(body), body))
}

func js(v any) string {
	b, _ := json.Marshal(v)
	return string(b)
}

func posJSON(p pos) string { return fmt.Sprintf(`{"line":%d,"character":%d}`, p.L, p.C) }

const tdMain = `"textDocument":{"uri":"` + mainURI + `"}`
const tdOther = `"textDocument":{"uri":"` + otherURI + `"}`

// request builds a request step.  idRaw is the JSON text of the id.
func request(m *model, name, idRaw, method, params string) step {
	body := `{"jsonrpc":"2.0","id":` + idRaw + `,"method":"` + method + `"`
	if params != "" {
		body += `,"params":` + params
	}
	body += "}"
	s := step{name: name, frame: frame(body), method: method, kind: kRequest, id: canonID(json.RawMessage(idRaw)), min: 1, max: 1}
	if !m.live() {
		s.min = 0
	}
	return s
}

func notification(name, method, params string) step {
	body := `{"jsonrpc":"2.0","method":"` + method + `"`
	if params != "" {
		body += `,"params":` + params
	}
	body += "}"
	return step{name: name, frame: frame(body), method: method, kind: kNotif}
}

func numID(i int) string { return fmt.Sprint(100 + i) }
func strID(i int) string { return fmt.Sprintf(`"s%d"`, i) }
func fltID(i int) string { return fmt.Sprintf("%d.5", i) }

// documents of the conversation space.  docA: one statement per line, the second
// line is not SQL (one recovery error, on line 1).  docU: a BMP non-ASCII letter
// (1 UTF-16 unit, 2 bytes) and a supplementary-plane character (2 units, 4 bytes)
// in front of most columns of line 0.  docF: two broken lines.
const (
	docA = "SELECT COUNT(a) FROM t;\nSELEC b;\nSELECT c FROM u;"
	docU = "SELECT é, '😀' AS x FROM t;\nSELEC é;"
	docF = "SELECT 1;\nSELECT FROM WHERE;\nSELEC 2;\nSELECT 3;"
	// two-word keywords (one tokenizer token, two parser tokens) on lines before the broken statements
	docK = "SELECT a FROM t LEFT JOIN u ON a = b ORDER BY a;\nSELECT c FROM v GROUP BY c ORDER BY c;\nSELEC 1;\nSELECT d FROM w;\nSELECT e FROM x ORDER BY e, ;"
	docB = "SELECT b FROM t2;\nSELEC 1;\nSELEC 2;"
	// a lexical error (the tokenizer's message quotes the neighbouring source lines) next to text that looks like a
	// position: an array slice on the line above / on the error line itself, and the words "line N" in an identifier
	docT1 = "SELECT a FROM u;\nSELECT tags[4:1] FROM t;\nSELECT 1e;\nSELECT line_9 FROM v;"
	// broken statements that are one word on a line of its own (the offending token is the last token of its line)
	docW  = "SELECT a FROM u;\nfoo\nSELECT b FROM v;\nbar\nSELECT c FROM w;"
	docT2 = "SELECT b FROM u;\nSELECT c FROM v;\nSELECT d FROM w;\nSELECT tags[1:7], 1e;"
)

func (m *model) open(text string, ver int) {
	if m.exited >= 0 {
		return
	}
	m.doc = &mdoc{text: text, ver: ver}
}

// change applies the content changes of one didChange notification to the model
// and returns the classes of the first edit (for signatures).
func (m *model) change(ver int, eds []edit) (string, string) {
	cls, pcls := "no-document", "no-document"
	if len(eds) > 0 && m.doc != nil {
		// (for a tainted document the text of before the undefined edit is used: best effort, deterministic)
		f := flagsOf(m.doc.text, eds[0])
		cls, pcls = f.mirrorClass(), f.panicClass()
	}
	if m.exited >= 0 || m.doc == nil {
		return cls, pcls
	}
	m.doc.ver = ver
	for _, ed := range eds {
		if ed.Full {
			m.doc.text, m.doc.tainted = ed.Text, false
			continue
		}
		if m.doc.tainted {
			continue
		}
		if !inContract(m.doc.text, ed) {
			m.doc.tainted = true
			continue
		}
		m.doc.text = apply(m.doc.text, ed)
	}
	return cls, pcls
}

func (m *model) stamp(s step) step {
	if s.pClass == "" {
		switch {
		case s.kind == kJunk || s.kind == kHeader:
			s.pClass = s.name
		case strings.HasSuffix(s.name, "-neg"):
			s.pClass = "neg"
		case strings.HasSuffix(s.name, "-far"):
			s.pClass = "far"
		default:
			s.pClass = "ok"
		}
	}
	if m.doc != nil {
		s.mOpen, s.mTainted, s.mText = true, m.doc.tainted, m.doc.text
	}
	return s
}

func changeParams(ver int, eds []edit, cur ...string) string {
	var cc []string
	for _, ed := range eds {
		switch {
		case ed.Full:
			cc = append(cc, `{"text":`+js(ed.Text)+`}`)
		case ed.WithLen && len(eds) == 1 && len(cur) == 1 && inContract(cur[0], ed):
			so, _ := locate(cur[0], ed.S)
			eo, _ := locate(cur[0], ed.E)
			cc = append(cc, fmt.Sprintf(`{"range":{"start":%s,"end":%s},"rangeLength":%d,"text":%s}`, posJSON(ed.S), posJSON(ed.E), utf16Len(cur[0][so:eo]), js(ed.Text)))
		default:
			cc = append(cc, `{"range":{"start":`+posJSON(ed.S)+`,"end":`+posJSON(ed.E)+`},"text":`+js(ed.Text)+`}`)
		}
	}
	return fmt.Sprintf(`{"textDocument":{"uri":"%s","version":%d},"contentChanges":[%s]}`, mainURI, ver, strings.Join(cc, ","))
}

func openStep(m *model, name, text string, i int) step {
	s := notification(name, "textDocument/didOpen",
		fmt.Sprintf(`{"textDocument":{"uri":"%s","languageId":"sql","version":%d,"text":%s}}`, mainURI, 10+i, js(text)))
	m.open(text, 10+i)
	s.edClass, s.pClass = "open", "open"
	return m.stamp(s)
}

func changeStep(m *model, name string, i int, eds ...edit) step {
	var cur []string
	if m.doc != nil && !m.doc.tainted && m.exited < 0 {
		cur = []string{m.doc.text}
	}
	s := notification(name, "textDocument/didChange", changeParams(10+i, eds, cur...))
	s.edClass, s.pClass = m.change(10+i, eds)
	return m.stamp(s)
}

func openItem(name, text string) item {
	return item{name, func(m *model, i int) step { return openStep(m, name, text, i) }}
}

func changeItem(name string, eds ...edit) item {
	return item{name, func(m *model, i int) step { return changeStep(m, name, i, eds...) }}
}

func posRequest(name, method string, id func(int) string, p pos, extra string) item {
	return item{name, func(m *model, i int) step {
		return m.stamp(request(m, name, id(i), method, `{`+tdMain+`,"position":`+posJSON(p)+extra+`}`))
	}}
}

func fmtRequest(name string, tab int) item {
	return item{name, func(m *model, i int) step {
		return m.stamp(request(m, name, numID(i), "textDocument/formatting",
			fmt.Sprintf(`{%s,"options":{"tabSize":%d,"insertSpaces":true,"insertFinalNewline":true}}`, tdMain, tab)))
	}}
}

func junk(name, body string, id string) item {
	return item{name, func(m *model, i int) step {
		b := strings.ReplaceAll(body, "$ID", numID(i))
		s := step{name: name, frame: frame(b), method: name, kind: kJunk, max: 1, nullOK: true}
		if id != "" {
			s.id = canonID(json.RawMessage(numID(i)))
		}
		return m.stamp(s)
	}}
}

func header(name, raw string, unsure bool) item {
	return item{name, func(m *model, i int) step {
		s := step{name: name, frame: []byte(raw), method: name, kind: kHeader}
		if unsure {
			m.unsure = true
		}
		return m.stamp(s)
	}}
}

func codeAction(name string, r [4]int, msg string) item {
	return item{name, func(m *model, i int) step {
		rng := fmt.Sprintf(`{"start":{"line":%d,"character":%d},"end":{"line":%d,"character":%d}}`, r[0], r[1], r[2], r[3])
		return m.stamp(request(m, name, numID(i), "textDocument/codeAction",
			fmt.Sprintf(`{%s,"range":%s,"context":{"diagnostics":[{"range":%s,"severity":1,"source":"gosqlx","message":%s}]}}`, tdMain, rng, rng, js(msg))))
	}}
}

// alphabet returns the conversation alphabet (Space A).
func alphabet() []item {
	return []item{
		// ---- lifecycle
		{"init", func(m *model, i int) step {
			// Content-Length first, another header after it
			s := request(m, "init", numID(i), "initialize", `{"processId":1,"rootUri":"file:///","capabilities":{}}`)
			body := s.frame[strings.Index(string(s.frame), "\r\n\r\n")+4:]
			s.frame = []byte(fmt.Sprintf("Content-Length: %d\r\nContent-Type: application/vscode-jsonrpc; charset=utf-8\r\n\r\n%s", len(body), body))
			return m.stamp(s)
		}},
		{"inited", func(m *model, i int) step { return m.stamp(notification("inited", "initialized", `{}`)) }},
		{"shutdown", func(m *model, i int) step {
			// id 0 at the first position: the smallest legal id
			return m.stamp(request(m, "shutdown", fmt.Sprint(i), "shutdown", ""))
		}},
		{"exit", func(m *model, i int) step {
			s := notification("exit", "exit", "")
			if m.exited < 0 {
				m.exited = i
			}
			return m.stamp(s)
		}},
		// ---- document synchronisation
		openItem("open-a", docA),
		openItem("open-u", docU),
		openItem("open-k", docK),
		openItem("open-w", docW),
		openItem("open-t1", docT1),
		openItem("open-t2", docT2),
		changeItem("chg-full", edit{Full: true, Text: docF}),
		changeItem("chg-full-k", edit{Full: true, Text: docK}),
		changeItem("chg-in", edit{S: pos{0, 8}, E: pos{0, 9}, Text: "x"}), // behind 'é' in docU
		changeItem("chg-in-len", edit{S: pos{0, 7}, E: pos{0, 9}, Text: "x", WithLen: true}), // with rangeLength; replaces 'é' in docU
		changeItem("chg-lines", edit{S: pos{0, 3}, E: pos{1, 2}, Text: "\n"}),                // spans a line break
		changeItem("chg-eol", edit{S: pos{1, 4}, E: pos{1, 1000}, Text: " 1;"}),              // end past the end of the line
		changeItem("chg-eof-end", edit{S: pos{1, 0}, E: pos{99, 0}, Text: ""}),               // end past the end of the document
		changeItem("chg-eof-start", edit{S: pos{99, 0}, E: pos{99, 5}, Text: "\nSELECT 9;"}), // append: start past the end
		changeItem("chg-inverted", edit{S: pos{1, 3}, E: pos{0, 1}, Text: "x"}),
		changeItem("chg-negchar", edit{S: pos{0, -1}, E: pos{0, 2}, Text: "x"}),
		changeItem("chg-negline", edit{S: pos{-1, 0}, E: pos{0, 1}, Text: "x"}),
		// two changes in one notification: the second is relative to the result of the first (net effect: none)
		changeItem("chg-two", edit{S: pos{0, 0}, E: pos{0, 0}, Text: "SELECT 0;\n"}, edit{S: pos{0, 0}, E: pos{1, 0}, Text: ""}),
		{"save", func(m *model, i int) step {
			return m.stamp(notification("save", "textDocument/didSave", `{`+tdMain+`}`))
		}},
		{"save-text", func(m *model, i int) step {
			// a client includes the text it holds, i.e. the model text
			t := docA
			if m.doc != nil && !m.doc.tainted {
				t = m.doc.text
			}
			return m.stamp(notification("save-text", "textDocument/didSave", `{`+tdMain+`,"text":`+js(t)+`}`))
		}},
		{"close", func(m *model, i int) step {
			s := notification("close", "textDocument/didClose", `{`+tdMain+`}`)
			if m.exited < 0 {
				m.doc = nil
			}
			return m.stamp(s)
		}},
		// ---- a second document
		{"open-b", func(m *model, i int) step {
			s := notification("open-b", "textDocument/didOpen",
				fmt.Sprintf(`{"textDocument":{"uri":"%s","languageId":"sql","version":%d,"text":%s}}`, otherURI, 10+i, js(docB)))
			if m.exited < 0 {
				m.other = &mdoc{text: docB, ver: 10 + i}
			}
			return m.stamp(s)
		}},
		{"chg-b", func(m *model, i int) step {
			ed := edit{S: pos{0, 7}, E: pos{0, 8}, Text: "z"}
			s := notification("chg-b", "textDocument/didChange",
				strings.Replace(changeParams(10+i, []edit{ed}), mainURI, otherURI, 1))
			if m.exited < 0 && m.other != nil {
				m.other.ver = 10 + i
				m.other.text = apply(m.other.text, ed) // in contract on every text this document can have
			}
			return m.stamp(s)
		}},
		{"close-b", func(m *model, i int) step {
			s := notification("close-b", "textDocument/didClose", `{`+tdOther+`}`)
			if m.exited < 0 {
				m.other = nil
			}
			return m.stamp(s)
		}},
		// ---- requests of every kind the server advertises x position classes
		posRequest("hover-ok", "textDocument/hover", numID, pos{0, 2}, ""),
		posRequest("hover-far", "textDocument/hover", numID, pos{0, 99}, ""), // character past the end of an existing line
		posRequest("hover-neg", "textDocument/hover", numID, pos{0, -1}, ""),
		{"compl-ok", func(m *model, i int) step {
			// extra header in front of Content-Length
			s := request(m, "compl-ok", numID(i), "textDocument/completion", `{`+tdMain+`,"position":{"line":0,"character":3},"context":{"triggerKind":1}}`)
			s.frame = append([]byte("Content-Type: application/vscode-jsonrpc; charset=utf-8\r\n"), s.frame...)
			return m.stamp(s)
		}},
		posRequest("compl-far", "textDocument/completion", numID, pos{99, 0}, ""), // line past the last line
		posRequest("compl-neg", "textDocument/completion", numID, pos{-1, 0}, ""),
		fmtRequest("fmt-2", 2),
		fmtRequest("fmt-0", 0),
		fmtRequest("fmt-neg", -1),
		{"symbols", func(m *model, i int) step {
			return m.stamp(request(m, "symbols", strID(i), "textDocument/documentSymbol", `{`+tdMain+`}`)) // string id
		}},
		posRequest("sig-ok", "textDocument/signatureHelp", numID, pos{0, 13}, ""),
		posRequest("sig-far", "textDocument/signatureHelp", numID, pos{0, 99}, ""),
		posRequest("sig-neg", "textDocument/signatureHelp", numID, pos{-1, 0}, ""),
		codeAction("action-ok", [4]int{1, 0, 1, 5}, "expected keyword ; semicolon"),
		codeAction("action-neg", [4]int{-1, -1, -1, 2}, "unexpected keyword"),
		posRequest("definition", "textDocument/definition", fltID, pos{0, 2}, ""), // not advertised; fractional id
		{"hover-noparams", func(m *model, i int) step {
			return m.stamp(request(m, "hover-noparams", numID(i), "textDocument/hover", ""))
		}},
		{"notif-unknown", func(m *model, i int) step {
			return m.stamp(notification("notif-unknown", "workspace/didChangeConfiguration", `{"settings":{}}`))
		}},
		// ---- method-name classes: reserved "$/" names and unknown names, each as a request (one response owed,
		// whatever it says) and as a notification (nothing owed)
		{"req-dollar", func(m *model, i int) step {
			return m.stamp(request(m, "req-dollar", numID(i), "$/unknownRequest", `{}`))
		}},
		{"req-cancel-id", func(m *model, i int) step {
			return m.stamp(request(m, "req-cancel-id", strID(i), "$/cancelRequest", `{"id":1}`))
		}},
		{"req-unknown", func(m *model, i int) step {
			return m.stamp(request(m, "req-unknown", numID(i), "workspace/executeCommand", `{"command":"x"}`))
		}},
		{"req-empty-method", func(m *model, i int) step {
			return m.stamp(request(m, "req-empty-method", numID(i), "", `{}`))
		}},
		{"notif-cancel", func(m *model, i int) step {
			return m.stamp(notification("notif-cancel", "$/cancelRequest", `{"id":1}`))
		}},
		{"notif-settrace", func(m *model, i int) step {
			return m.stamp(notification("notif-settrace", "$/setTrace", `{"value":"off"}`))
		}},
		// ---- document notifications without a "params" member: invalid, so they change nothing - in particular they
		// must not act on whatever the previous message carried
		{"chg-noparams", func(m *model, i int) step { return m.stamp(notification("chg-noparams", "textDocument/didChange", "")) }},
		{"close-noparams", func(m *model, i int) step {
			return m.stamp(notification("close-noparams", "textDocument/didClose", ""))
		}},
		{"open-noparams", func(m *model, i int) step { return m.stamp(notification("open-noparams", "textDocument/didOpen", "")) }},
		{"save-noparams", func(m *model, i int) step { return m.stamp(notification("save-noparams", "textDocument/didSave", "")) }},
		// ---- messages that are neither a request nor a notification
		junk("id-null", `{"jsonrpc":"2.0","id":null,"method":"textDocument/hover","params":{`+tdMain+`,"position":{"line":0,"character":2}}}`, ""),
		junk("malformed", `{"jsonrpc":"2.0","id":$ID,"method":`, "id"),
		junk("wrong-type", `{"jsonrpc":"2.0","id":$ID,"method":5}`, "id"),
		junk("response-shaped", `{"jsonrpc":"2.0","id":$ID,"result":null}`, "id"),
		// ---- header blocks
		header("hdr-empty-body", "Content-Length: 0\r\n\r\n", false),
		header("hdr-missing", "Content-Type: application/vscode-jsonrpc\r\n\r\n", false),
		header("hdr-negative", "Content-Length: -1\r\n\r\n", false),
		header("hdr-nonnumeric", "Content-Length: abc\r\n\r\n", false),
		// a length no input can satisfy: a server may refuse it (and go on) or wait for the bytes (and see
		// nothing more); both keep it alive, so nothing is owed for later messages
		header("hdr-huge", "Content-Length: 99999999999\r\n\r\n", true),
	}
}
