package c18

import (
	"bytes"
	"encoding/json"
	"fmt"
	"io"
	"runtime/debug"
	"strconv"
	"strings"

	"github.com/ajitpratap0/GoSQLX/pkg/lsp"

	"verif/engine/common"
)

// ---------------------------------------------------------------------------
// Running one history against a fresh real server.
//
// The pinned server is strictly synchronous: Run reads one frame, handles it,
// writes its answers, reads the next frame; no goroutine is started anywhere in
// pkg/lsp.  The harness nevertheless does not rely on that for any verdict: the
// whole history is offered through an in-memory reader, Run is called on the
// harness goroutine inside recover(), and all verdicts are taken from the state
// after Run has returned (quiescence = input at EOF and Run returned; no sleeps,
// no clocks).  Responses are matched to requests by id, never by order.
//
// The reader hands out one frame per Read call.  Because Run only asks for more
// input between messages, the moment frame k+1 is requested is a moment at which
// frames 0..k have been handled; the harness takes a snapshot there (document
// content, bytes written so far).  Snapshots are used ONLY to attribute a failure
// to a step (which message made the mirror diverge / produced a stray response)
// so that signatures name the right message class.
// ---------------------------------------------------------------------------

const mainURI = "file:///a.sql"
const otherURI = "file:///b.sql"

type snap struct {
	content string
	open    bool
	outLen  int
}

type frameReader struct {
	frames  [][]byte
	i, off  int
	eof     bool
	onBound func(k int)
	lastB   int
}

func (r *frameReader) Read(p []byte) (int, error) {
	if r.off == 0 && r.lastB < r.i+1 {
		r.lastB = r.i + 1
		r.onBound(r.i)
	}
	if r.i >= len(r.frames) {
		r.eof = true
		return 0, io.EOF
	}
	n := copy(p, r.frames[r.i][r.off:])
	r.off += n
	if r.off == len(r.frames[r.i]) {
		r.i++
		r.off = 0
	}
	return n, nil
}

type runResult struct {
	panicked bool
	panicVal string
	stack    string
	fetched  int // frames handed to the server when Run ended
	eof      bool
	runErr   error
	out      []byte
	snaps    map[int]snap // k -> state after frames 0..k-1
	content  string
	open     bool
	oContent string // otherURI
	oOpen    bool
}

func runHistory(steps []step) (res runResult) {
	frames := make([][]byte, len(steps))
	for i, s := range steps {
		frames[i] = s.frame
	}
	var out bytes.Buffer
	rd := &frameReader{frames: frames}
	srv := lsp.NewServer(rd, &out, nil)
	res.snaps = map[int]snap{}
	rd.onBound = func(k int) {
		c, ok := srv.Documents().GetContent(mainURI)
		res.snaps[k] = snap{content: c, open: ok, outLen: out.Len()}
	}
	func() {
		defer func() {
			if r := recover(); r != nil {
				res.panicked = true
				res.panicVal = fmt.Sprint(r)
				res.stack = string(debug.Stack())
			}
		}()
		res.runErr = srv.Run()
	}()
	res.fetched = rd.i
	res.eof = rd.eof
	res.out = out.Bytes()
	if !res.panicked {
		res.content, res.open = srv.Documents().GetContent(mainURI)
		res.oContent, res.oOpen = srv.Documents().GetContent(otherURI)
	}
	return res
}

func panicSig(stack string) string { return "panic:" + common.PanicSite(stack) }

// ---------------------------------------------------------------------------
// Output stream: Content-Length framed JSON objects, nothing else.
// ---------------------------------------------------------------------------

type outMsg struct {
	off    int
	body   []byte
	method string
	hasID  bool
	id     string // canonical JSON text of the id ("null" when null)
	params json.RawMessage
	step   int // input step during which it was written (attribution only; -1 unknown)
}

// canonID renders a JSON id canonically: numbers by value (100 == 1e2 == 100.0),
// strings quoted, null as "null".
func canonID(raw json.RawMessage) string {
	var v any
	if err := json.Unmarshal(raw, &v); err != nil {
		return "?" + string(raw)
	}
	b, _ := json.Marshal(v)
	return string(b)
}

// parseOut splits the server's output into frames.  Any deviation from
// "Content-Length: <n>\r\n[other headers\r\n]\r\n<n bytes forming one JSON object>"
// repeated to the end of the stream is an error.
func parseOut(b []byte) ([]outMsg, error) {
	var msgs []outMsg
	o := 0
	for o < len(b) {
		start := o
		cl := -1
		for {
			i := bytes.Index(b[o:], []byte("\r\n"))
			if i < 0 {
				return msgs, fmt.Errorf("offset %d: header line not terminated by CRLF: %q", o, common.Trim(string(b[o:]), 80))
			}
			line := string(b[o : o+i])
			o += i + 2
			if line == "" {
				break
			}
			j := strings.Index(line, ":")
			if j <= 0 {
				return msgs, fmt.Errorf("offset %d: not a header line: %q", start, common.Trim(line, 80))
			}
			if strings.EqualFold(strings.TrimSpace(line[:j]), "Content-Length") {
				n, err := strconv.Atoi(strings.TrimSpace(line[j+1:]))
				if err != nil || n < 0 || cl >= 0 {
					return msgs, fmt.Errorf("offset %d: bad Content-Length header %q", start, line)
				}
				cl = n
			}
		}
		if cl < 0 {
			return msgs, fmt.Errorf("offset %d: frame without Content-Length", start)
		}
		if o+cl > len(b) {
			return msgs, fmt.Errorf("offset %d: Content-Length %d but only %d bytes follow", start, cl, len(b)-o)
		}
		body := b[o : o+cl]
		var obj map[string]json.RawMessage
		if err := json.Unmarshal(body, &obj); err != nil {
			return msgs, fmt.Errorf("offset %d: the %d bytes announced by Content-Length are not one JSON object (%v): %q", start, cl, err, common.Trim(string(body), 120))
		}
		m := outMsg{off: start, body: body, step: -1}
		if raw, ok := obj["method"]; ok {
			json.Unmarshal(raw, &m.method)
		}
		if raw, ok := obj["id"]; ok {
			m.hasID = true
			m.id = canonID(raw)
		}
		m.params = obj["params"]
		msgs = append(msgs, m)
		o += cl
	}
	return msgs, nil
}
