// Package c18 checks property C18: the language server never dies, answers each
// request exactly once, frames its output exactly, mirrors the document under the
// protocol's position rules and publishes the diagnostics of the mirrored text.
package c18

import (
	"encoding/json"
	"fmt"
	"os"
	"regexp"
	"sort"
	"strings"

	"github.com/ajitpratap0/GoSQLX/pkg/gosqlx"

	"verif/engine/common"
)

// Check returns the C18 check.
func Check() *common.Check {
	return &common.Check{
		ID:    "C18",
		Level: "model_checking",
		Rule: fmt.Sprintf("explicit-state search over message histories, each replayed on a fresh real lsp.Server over in-memory streams with the reference model (uri -> text, version; UTF-16 clamping position arithmetic) in lock-step. "+
			"Space A: every history of length <= 3 (quick) / <= 4 (thorough) over the %d-message alphabet of checks/c18/alphabet.go, plus every history of length 4 (quick) / 5 (thorough, tail alphabet reduced to %d document and request messages) that starts with a didOpen of the main document. "+
			"Space B: for each of 6 small documents every incremental edit with start/end line in [-1, lines+1] and character in [-1, longest line+2] x 4 replacement texts; thorough adds every ordered pair of in-contract edits over a reduced coordinate set. "+
			"distinct = distinct history (names of its messages / document+ranges); non-trivial = the history owes at least one response or holds an open, untainted document at its end (A), the edit is in contract (B); "+
			"states = distinct (model document open/defined/text, server document open/text) pairs observed after a transition; transitions = messages delivered to a server; at most %d failing cases per signature and worker are reported in detail, counters failures:<sig> hold the totals", len(alphabet()), len(reducedSet), failCap),
		Assume: []string{
			"the server's own stream discipline is synchronous (no goroutines in pkg/lsp); the harness still takes every verdict after Run has returned and matches responses by id, snapshots between messages are used only to name the failing step",
			"protocol rules taken as given: Position.character counts UTF-16 code units; character past the line end clamps to the line end; line past the last line clamps to the document end; negative coordinates, start after end and a character inside a surrogate pair are undefined (only liveness and response rules are checked for those); a '\\r' occurs only as part of CR LF; a column behind the content of a CR LF line is undefined as well",
			"JSON-RPC: a message with a non-null number or string id and a string method is a request and is owed exactly one response; messages that are neither request nor notification (null id, malformed JSON, wrong member types, response-shaped) may be answered at most once, with their own id or null; nothing is owed after the exit notification or after a Content-Length that the remaining input cannot satisfy",
			"expected number of diagnostics = number of errors gosqlx.ParseWithRecovery reports for the model text (the property defines it so); the line of a diagnostic is asserted only for texts made of one ';'-terminated statement per line without quotes or comments, where the broken lines are found by strict-parsing each line on its own and the counts agree",
			"each history is far below the rate limiter's 100 messages per second window (<= 6 messages on a fresh server)",
			"small-scope hypothesis above the stated bounds",
		},
		CrashSafe: true,
		Enumerate: enumerate,
	}
}

func enumerate(e *common.Enum) {
	// development aid: C18_SPACE=A or B runs one space only (recorded as a cap: exhaustive=false)
	only := os.Getenv("C18_SPACE")
	if only != "" {
		e.Cap("C18_SPACE=" + only + " restricts the run to one space")
	}
	if only == "" || only == "B" {
		defer enumerateB(e)
		defer enumerateC(e)
	}
	if only == "B" {
		return
	}
	al := alphabet()
	depth := 3
	if e.Thorough() {
		depth = 4
	}
	// ---- Space A: all histories up to depth, shortest first
	for n := 0; n <= depth; n++ {
		idx := make([]int, n)
		var rec func(k int)
		rec = func(k int) {
			if k == n {
				runA(e, al, idx)
				return
			}
			for i := range al {
				idx[k] = i
				rec(k + 1)
			}
		}
		rec(0)
	}
	// ---- Space A': one more message behind an open document
	var sub []int // alphabet of the extension
	for i, it := range al {
		if e.Thorough() {
			// thorough: length 5 over the document and request messages (no lifecycle, junk, header items)
			if reducedSet[it.name] {
				sub = append(sub, i)
			}
		} else {
			sub = append(sub, i)
		}
	}
	for i, it := range al {
		if it.name != "open-a" && it.name != "open-u" {
			continue
		}
		var ext func(h []int)
		ext = func(h []int) {
			if len(h) == depth+1 {
				runA(e, al, h)
				return
			}
			for _, j := range sub {
				ext(append(h, j))
			}
		}
		ext([]int{i})
	}
}

var reducedSet = map[string]bool{
	"chg-full": true, "chg-in": true, "chg-lines": true, "chg-eol": true, "chg-eof-end": true, "chg-eof-start": true,
	"chg-inverted": true, "chg-two": true, "save": true, "save-text": true, "close": true, "open-a": true, "open-u": true,
	"hover-ok": true, "hover-far": true, "compl-ok": true, "fmt-2": true, "symbols": true, "sig-ok": true,
	"action-ok": true, "definition": true, "hover-noparams": true, "malformed": true, "hdr-nonnumeric": true,
}

func runA(e *common.Enum, al []item, h []int) {
	names := make([]string, len(h))
	for i, x := range h {
		names[i] = al[x].name
	}
	key := "A:" + strings.Join(names, ",")
	hh := append([]int(nil), h...)
	e.Do(key, func(c *common.Ctx) {
		m := newModel()
		steps := make([]step, len(hh))
		for i, x := range hh {
			steps[i] = al[x].gen(m, i)
		}
		evaluate(c, "A", key, m, steps)
	})
}

// ---------------------------------------------------------------------------
// Space B
// ---------------------------------------------------------------------------

var docsB = []string{"", "a", "ab\ncd", "a\n", "é\nb", "😀b\nc", "ab\r\ncd", "a\r\n\r\nb\r\n"}
var replB = []string{"", "x", "\n", "é"}

func enumerateB(e *common.Enum) {
	for di, d := range docsB {
		lines := strings.Split(d, "\n")
		maxc := 0
		for _, l := range lines {
			if n := utf16Len(l); n > maxc {
				maxc = n
			}
		}
		var ps []pos
		for l := -1; l <= len(lines)+1; l++ {
			for ch := -1; ch <= maxc+2; ch++ {
				ps = append(ps, pos{l, ch})
			}
		}
		for _, s := range ps {
			for _, en := range ps {
				for ri, r := range replB {
					ed := edit{S: s, E: en, Text: r}
					key := fmt.Sprintf("B1:d%d:%d,%d-%d,%d:r%d", di, s.L, s.C, en.L, en.C, ri)
					e.Do(key, func(c *common.Ctx) { runB(c, d, ed) })
					// the same edit with the deprecated rangeLength member (consistent with the range), where the span is not empty
					if inContract(d, ed) && less(s, en) {
						edl := ed
						edl.WithLen = true
						e.Do(key+":len", func(c *common.Ctx) { runB(c, d, edl) })
					}
				}
			}
		}
		if !e.Thorough() {
			continue
		}
		// pairs of in-contract edits over a reduced coordinate set: first and last line and the
		// line behind it; characters 0, 1, end of the longest line and one past it
		lset := uniq([]int{0, len(lines) - 1, len(lines)})
		cset := uniq([]int{0, 1, maxc, maxc + 1})
		var rp []pos
		for _, l := range lset {
			for _, ch := range cset {
				rp = append(rp, pos{l, ch})
			}
		}
		var eds []edit
		for _, s := range rp {
			for _, en := range rp {
				if less(en, s) {
					continue
				}
				for _, r := range replB {
					eds = append(eds, edit{S: s, E: en, Text: r})
				}
			}
		}
		for i1, e1 := range eds {
			if !inContract(d, e1) {
				continue // inside the surrogate pair
			}
			t1 := apply(d, e1)
			for i2, e2 := range eds {
				if !inContract(t1, e2) {
					continue
				}
				key := fmt.Sprintf("B2:d%d:%d+%d", di, i1, i2)
				e.Do(key, func(c *common.Ctx) { runB(c, d, e1, e2) })
			}
		}
	}
}

// enumerateC: position sweep.  One request of every position-taking kind at every (line, character) from -1 to two
// past the last line / two past the longest line counted in BYTES (so that every value between the rune count, the
// UTF-16 length and the byte length of a non-ASCII line is met), on every document of the alphabet and of space B.
func enumerateC(e *common.Enum) {
	docs := append([]string{docA, docU, docK, docF}, docsB[:6]...) // the CR LF documents take part in the edit sweep only
	kinds := []struct{ name, method, extra string }{
		{"hover", "textDocument/hover", ""},
		{"completion", "textDocument/completion", `,"context":{"triggerKind":1}`},
		{"signatureHelp", "textDocument/signatureHelp", ""},
		{"definition", "textDocument/definition", ""},
	}
	for di, d := range docs {
		lines := strings.Split(d, "\n")
		maxb := 0
		for _, l := range lines {
			if len(l) > maxb {
				maxb = len(l)
			}
		}
		for _, k := range kinds {
			for l := -1; l <= len(lines)+1; l++ {
				for ch := -1; ch <= maxb+2; ch++ {
					d, k, p := d, k, pos{l, ch}
					key := fmt.Sprintf("C:d%d:%s:%d,%d", di, k.name, l, ch)
					e.Do(key, func(c *common.Ctx) {
						m := newModel()
						steps := []step{openStep(m, "open", d, 0), posRequest(k.name+"-sweep", k.method, numID, p, k.extra).gen(m, 1),
							posRequest("hover-after", "textDocument/hover", numID, pos{0, 0}, "").gen(m, 2)}
						evaluate(c, "C", fmt.Sprintf("C: open %q ; %s at %d:%d ; hover at 0:0", d, k.name, l, ch), m, steps)
					})
				}
			}
		}
	}
}

func uniq(a []int) []int {
	var out []int
	seen := map[int]bool{}
	for _, x := range a {
		if !seen[x] {
			seen[x] = true
			out = append(out, x)
		}
	}
	return out
}

func runB(c *common.Ctx, doc string, eds ...edit) {
	m := newModel()
	steps := []step{openStep(m, "open", doc, 0)}
	for i, ed := range eds {
		steps = append(steps, changeStep(m, "change", i+1, ed))
	}
	title := fmt.Sprintf("B: open %q", doc)
	for _, ed := range eds {
		title += fmt.Sprintf(" ; change %d:%d-%d:%d %q", ed.S.L, ed.S.C, ed.E.L, ed.E.C, ed.Text)
	}
	evaluate(c, "B", title, m, steps)
}

// ---------------------------------------------------------------------------
// Oracle
// ---------------------------------------------------------------------------

func describe(steps []step) string {
	var b strings.Builder
	for i, s := range steps {
		fmt.Fprintf(&b, "#%d %s: %s\n", i, s.name, strings.ReplaceAll(strings.ReplaceAll(string(s.frame), "\r\n", "\\r\\n"), "\n", "\\n"))
	}
	return b.String()
}

// The framework keeps every reported failure in memory.  On a tree with a defect that a large
// part of the space runs into (a panic on any negative position fails every history that contains
// such a message) that is millions of records, so a worker process reports at most failCap
// failing cases per signature - the first ones in enumeration order, i.e. the shortest histories -
// and only counts the rest (counter "failures:<signature>" holds the true total).
const failCap = 200

var failSeen = map[string]int{}

type reporter struct {
	c *common.Ctx
	n int
}

func (r *reporter) Fail(sig, msg string) {
	r.n++
	r.c.Count("failures:"+sig, 1)
	failSeen[sig]++
	if failSeen[sig] <= failCap || r.c.Enum().Replaying() {
		r.c.Fail(sig, msg)
	}
}
func (r *reporter) Failed() bool            { return r.n > 0 }
func (r *reporter) Count(n string, v int64) { r.c.Count(n, v) }
func (r *reporter) Outcome(o string)        { r.c.Outcome(o) }
func (r *reporter) NonTrivial()             { r.c.NonTrivial() }
func (r *reporter) State(h uint64)          { r.c.State(h) }
func (r *reporter) Input(s string)          { r.c.Input(s) }
func (r *reporter) Sample(v any)            { r.c.Sample(v) }

func evaluate(cc *common.Ctx, space, title string, m *model, steps []step) {
	c := &reporter{c: cc}
	desc := title + "\n" + describe(steps)
	c.Input(desc)
	names := make([]string, len(steps))
	for i, s := range steps {
		names[i] = s.name
	}
	c.Sample(map[string]any{"space": space, "history": names, "frames": desc})

	res := runHistory(steps)
	c.Count("transitions", int64(res.fetched))

	// states reached after each transition (vacuity guard only)
	for k := 1; k <= len(steps); k++ {
		sn, ok := res.snaps[k]
		if !ok {
			break
		}
		st := steps[k-1]
		c.State(common.Hash64(fmt.Sprintf("%v|%v|%q|%v|%q", st.mOpen, st.mTainted, st.mText, sn.open, sn.content)))
	}

	// (1) liveness: Run never panics ...
	if res.panicked {
		at := res.fetched - 1
		nm := "?"
		if at >= 0 && at < len(steps) {
			nm = steps[at].name
		}
		c.Outcome(space + ":panic")
		cls := "?"
		if at >= 0 && at < len(steps) {
			cls = steps[at].pClass
		}
		c.Fail(panicSig(res.stack)+"@"+cls, fmt.Sprintf("server died: panic %q while handling message #%d (%s)\n%s", res.panicVal, at, nm, common.Trim(res.stack, 1800)))
		return
	}
	// ... and returns only at EOF or after exit
	if !res.eof && m.exited < 0 {
		c.Outcome(space + ":early-return")
		c.Fail("early-return", fmt.Sprintf("Run returned (err=%v) after %d of %d messages although the input was not at EOF and no exit notification was sent", res.runErr, res.fetched, len(steps)))
		return
	}

	// (2) framing
	out, err := parseOut(res.out)
	if err != nil {
		c.Outcome(space + ":bad-frame")
		c.Fail("frame-length", "output stream is not a sequence of exactly framed JSON objects: "+err.Error())
		return
	}
	// attribute every outgoing message to the step during which it was written
	for i := range out {
		for k := 0; k < len(steps); k++ {
			a, okA := res.snaps[k]
			b, okB := res.snaps[k+1]
			end := len(res.out)
			if okB {
				end = b.outLen
			}
			if okA && out[i].off >= a.outLen && out[i].off < end {
				out[i].step = k
				break
			}
		}
	}

	// (3) responses
	resp := map[string][]outMsg{}
	nullResp := 0
	for _, o := range out {
		if o.method != "" {
			continue // notification (or request) from the server
		}
		if !o.hasID || o.id == "null" {
			nullResp++
			continue
		}
		resp[o.id] = append(resp[o.id], o)
	}
	nullAllowed := 0
	owed := 0
	for _, s := range steps {
		switch s.kind {
		case kRequest:
			n := len(resp[s.id])
			delete(resp, s.id)
			owed += s.min
			if n < s.min {
				c.Fail("missing-response:"+s.method, fmt.Sprintf("request %s (id %s) got %d responses", s.name, s.id, n))
			}
			if n > s.max {
				c.Fail("duplicate-response:"+s.method, fmt.Sprintf("request %s (id %s) got %d responses", s.name, s.id, n))
			}
		case kJunk:
			n := 0
			if s.id != "" {
				n = len(resp[s.id])
				delete(resp, s.id)
			}
			if n > 1 {
				c.Fail("duplicate-response:"+s.method, fmt.Sprintf("message %s (id %s) got %d responses", s.name, s.id, n))
			}
			if n == 0 {
				nullAllowed++
			}
		}
	}
	stray := func(o outMsg) {
		what := "unknown"
		if o.step >= 0 && o.step < len(steps) {
			what = steps[o.step].method
			if steps[o.step].kind == kHeader || steps[o.step].kind == kJunk {
				what = steps[o.step].name
			}
		}
		if o.step >= 0 && o.step < len(steps) && steps[o.step].kind == kNotif {
			c.Fail("response-to-notification:"+what, fmt.Sprintf("a response (id %v) was written while handling notification #%d %s: %s", o.id, o.step, steps[o.step].name, common.Trim(string(o.body), 200)))
		} else {
			c.Fail("stray-response:"+what, fmt.Sprintf("a response with id %v that no request of the history carries was written (step %d): %s", o.id, o.step, common.Trim(string(o.body), 200)))
		}
	}
	var strayIDs []string
	for id := range resp {
		strayIDs = append(strayIDs, id)
	}
	sort.Strings(strayIDs)
	for _, id := range strayIDs {
		for _, o := range resp[id] {
			stray(o)
		}
	}
	if nullResp > nullAllowed {
		for _, o := range out {
			if o.method == "" && (!o.hasID || o.id == "null") {
				if o.step >= 0 && o.step < len(steps) && steps[o.step].kind == kJunk {
					continue
				}
				stray(o)
			}
		}
		if !c.Failed() {
			c.Fail("stray-response:null-id", fmt.Sprintf("%d responses with null id but only %d messages that may be answered so", nullResp, nullAllowed))
		}
	}

	// (4) mirror, (5) diagnostics: only while the model knows what the server has seen
	docChecks := !m.unsure
	if m.exited >= 0 && res.fetched != m.exited+1 {
		docChecks = false // the server kept reading after exit: not forbidden by the property, but the model stopped there
	}
	outc := space + ":ok"
	if docChecks && m.doc != nil && !m.doc.tainted {
		if !res.open || res.content != m.doc.text {
			// first step after which the snapshots disagree with the model
			cls := "unknown"
			for k := 1; k <= len(steps); k++ {
				sn, ok := res.snaps[k]
				st := steps[k-1]
				if !ok {
					break
				}
				if st.mOpen && !st.mTainted && (!sn.open || sn.content != st.mText) {
					cls = st.edClass
					break
				}
			}
			c.Fail("mirror-mismatch:"+cls, fmt.Sprintf("server document %q (open=%v) but the edits give %q", res.content, res.open, m.doc.text))
		} else {
			c.Count("mirror_equal_asserted", 1)
			checkDiagnostics(c, mainURI, m.doc, out)
		}
		outc = space + ":open"
	} else if docChecks && m.doc == nil && res.open {
		c.Fail("mirror-mismatch:close", fmt.Sprintf("document is closed in the model but the server still holds %q", res.content))
	} else if m.doc != nil && m.doc.tainted {
		outc = space + ":out-of-contract"
	}
	if docChecks {
		switch {
		case m.other == nil && res.oOpen:
			c.Fail("mirror-mismatch:close", fmt.Sprintf("second document is closed in the model but the server still holds %q", res.oContent))
		case m.other != nil && (!res.oOpen || res.oContent != m.other.text):
			c.Fail("mirror-mismatch:other-document", fmt.Sprintf("second document: server holds %q (open=%v) but the edits give %q", res.oContent, res.oOpen, m.other.text))
		case m.other != nil:
			c.Count("mirror_equal_asserted", 1)
			checkDiagnostics(c, otherURI, m.other, out)
			outc += "+b"
		}
	}
	if m.exited >= 0 {
		outc += "+exit"
	}
	if m.unsure {
		outc += "+unsure"
	}
	c.Outcome(fmt.Sprintf("%s/resp%d", outc, owed))
	if owed > 0 || (docChecks && m.doc != nil && !m.doc.tainted) || (docChecks && m.other != nil) {
		c.NonTrivial()
	}
}

type diagMsg struct {
	URI         string `json:"uri"`
	Version     *int   `json:"version"`
	Diagnostics []struct {
		Range struct {
			Start struct {
				Line      int `json:"line"`
				Character int `json:"character"`
			} `json:"start"`
		} `json:"range"`
		Message string `json:"message"`
	} `json:"diagnostics"`
}

// checkDiagnostics: the last publishDiagnostics for the open, untainted document
// carries the model's version (when it carries one: the member is optional in the
// protocol), as many diagnostics as ParseWithRecovery reports errors for the model
// text and - where the lines can be located independently - each on its line.
// If the server never published anything for the uri nothing is asserted.
func checkDiagnostics(c *reporter, uri string, doc *mdoc, out []outMsg) {
	var last *diagMsg
	for _, o := range out {
		if o.method != "textDocument/publishDiagnostics" {
			continue
		}
		var d diagMsg
		if json.Unmarshal(o.params, &d) != nil || d.URI != uri {
			continue
		}
		dd := d
		last = &dd
	}
	if last == nil {
		return
	}
	if last.Version != nil && *last.Version != doc.ver {
		c.Fail("diag-version", fmt.Sprintf("last publishDiagnostics carries version %d, the document is at version %d", *last.Version, doc.ver))
		return
	}
	c.Count("diag_version_and_count_asserted", 1)
	_, errs := gosqlx.ParseWithRecovery(doc.text)
	if len(last.Diagnostics) != len(errs) {
		c.Fail("diag-count", fmt.Sprintf("last publishDiagnostics has %d diagnostics, ParseWithRecovery reports %d errors for %q", len(last.Diagnostics), len(errs), doc.text))
		return
	}
	want, ok := brokenLines(doc.text)
	if !ok || len(want) != len(errs) {
		return
	}
	c.Count("diag_lines_asserted", 1)
	if len(want) > 0 {
		c.Count("diag_lines_asserted_nonempty", 1)
	}
	var got []int
	for _, d := range last.Diagnostics {
		got = append(got, d.Range.Start.Line)
	}
	sort.Ints(got)
	if fmt.Sprint(got) != fmt.Sprint(want) {
		sig := "diag-line:wrong-line"
		if got[len(got)-1] == 0 {
			sig = "diag-line:all-at-line-0" // every diagnostic on the first line although broken statements are elsewhere
		}
		c.Fail(sig, fmt.Sprintf("diagnostics published on lines %v, the broken statements are on lines %v of %q", got, want, doc.text))
	}
}

// brokenLines locates the lines holding a broken statement without the recovery
// parser: for a text made of one ';'-terminated statement per line (no quotes, no
// comments, so that neither tokens nor statements span lines) a line is broken iff
// strict parsing of that line alone fails.
var bareWord = regexp.MustCompile(`^[A-Za-z_][A-Za-z0-9_]*$`)

var stmtWord = map[string]bool{"SELECT": true, "INSERT": true, "UPDATE": true, "DELETE": true, "CREATE": true, "ALTER": true, "DROP": true, "WITH": true, "MERGE": true,
	"TRUNCATE": true, "REFRESH": true, "SHOW": true, "DESCRIBE": true, "EXPLAIN": true, "REPLACE": true, "BEGIN": true, "COMMIT": true, "ROLLBACK": true, "SET": true, "VALUES": true, "TABLE": true}

func brokenLines(text string) ([]int, bool) {
	if strings.ContainsAny(text, "'\"`$#\\") || strings.Contains(text, "--") || strings.Contains(text, "/*") {
		return nil, false
	}
	var bad []int
	for i, l := range strings.Split(text, "\n") {
		t := strings.TrimSpace(l)
		if t == "" {
			continue
		}
		if bareWord.MatchString(t) && !stmtWord[strings.ToUpper(t)] {
			// a lone word that starts no statement: a broken statement of its own (recovery resumes at the statement
			// keyword that opens the next line)
			bad = append(bad, i)
			continue
		}
		if !strings.HasSuffix(t, ";") || strings.Count(t, ";") != 1 || t == ";" {
			return nil, false
		}
		if _, err := gosqlx.Parse(t); err != nil {
			bad = append(bad, i)
		}
	}
	return bad, true
}
