package c18

import (
	"strings"
	"unicode/utf8"
)

// ---------------------------------------------------------------------------
// Reference model: uri -> (text, version), edited under the protocol's position
// rules.  Deliberately boring: a string, a line scan and a UTF-16 unit counter.
//
//   * lines are separated by '\n' (the documents of this check contain no '\r',
//     so the three LSP line terminators cannot disagree);
//   * Position.character counts UTF-16 code units (1 per BMP rune, 2 per
//     supplementary rune);
//   * a character past the end of its line clamps to the end of that line
//     (before the '\n'); a line past the last line clamps to the end of the
//     document;
//   * negative coordinates, start after end, and a character that falls between
//     the two halves of a surrogate pair are NOT defined by the protocol: such an
//     edit is "out of contract"; the model marks the document tainted and nothing
//     about its content is asserted until a full-text change or re-open.
// ---------------------------------------------------------------------------

type pos struct{ L, C int }

type edit struct {
	Full bool // no range: replace the whole text
	S, E pos
	Text string
	// WithLen: the notification also carries the deprecated rangeLength member (UTF-16 units of the replaced span, as
	// clients that still send it compute it); it is consistent with the range, so the result is the same
	WithLen bool
}

type mdoc struct {
	text    string
	ver     int
	tainted bool
}

// locate converts a non-negative position to a byte offset in text.  mid reports
// that the character falls strictly inside a surrogate pair.
func locate(text string, p pos) (off int, mid bool) {
	o := 0
	for l := 0; l < p.L; l++ {
		i := strings.IndexByte(text[o:], '\n')
		if i < 0 {
			return len(text), false // line past the last line: end of document
		}
		o += i + 1
	}
	units := 0
	for o < len(text) && text[o] != '\n' && units < p.C {
		r, sz := utf8.DecodeRuneInString(text[o:])
		u := 1
		if r >= 0x10000 {
			u = 2
		}
		if units+u > p.C {
			return o, true
		}
		units += u
		o += sz
	}
	return o, false
}

func less(a, b pos) bool { return a.L < b.L || (a.L == b.L && a.C < b.C) }

// inContract reports whether the protocol defines the result of ed on text.
func inContract(text string, ed edit) bool {
	if ed.Full {
		return true
	}
	if ed.S.L < 0 || ed.S.C < 0 || ed.E.L < 0 || ed.E.C < 0 || less(ed.E, ed.S) {
		return false
	}
	_, m1 := locate(text, ed.S)
	_, m2 := locate(text, ed.E)
	return !m1 && !m2 && !beyondCR(text, ed.S) && !beyondCR(text, ed.E)
}

// beyondCR reports that p addresses a column behind the content of a line that ends in CR LF.  The protocol counts
// "\r\n" as one line terminator and clamps such a column to the line's length; whether an implementation lands in front
// of or behind the '\r' is not something the mirror clause can decide, so these positions are never asserted.
func beyondCR(text string, p pos) bool {
	o := 0
	for l := 0; l < p.L; l++ {
		i := strings.IndexByte(text[o:], '\n')
		if i < 0 {
			return false
		}
		o += i + 1
	}
	line := text[o:]
	if i := strings.IndexByte(line, '\n'); i >= 0 {
		line = line[:i]
	} else {
		return false // last line: a trailing '\r' is content
	}
	if !strings.HasSuffix(line, "\r") {
		return false
	}
	return p.C > utf16Len(line[:len(line)-1])
}

// apply returns the text after an in-contract edit.
func apply(text string, ed edit) string {
	if ed.Full {
		return ed.Text
	}
	s, _ := locate(text, ed.S)
	e, _ := locate(text, ed.E)
	if e < s { // cannot happen for in-contract edits (start <= end is monotone under clamping)
		e = s
	}
	return text[:s] + ed.Text + text[e:]
}

func utf16Len(s string) int {
	n := 0
	for _, r := range s {
		if r >= 0x10000 {
			n += 2
		} else {
			n++
		}
	}
	return n
}

func isASCII(s string) bool {
	for i := 0; i < len(s); i++ {
		if s[i] >= 0x80 {
			return false
		}
	}
	return true
}

// editFlags describes an edit relative to the text it is applied to.
type editFlags struct{ full, out, eof, eol, nonASCII bool }

func flagsOf(text string, ed edit) (f editFlags) {
	if ed.Full {
		f.full = true
		return
	}
	if !inContract(text, ed) {
		f.out = true
		return
	}
	lines := strings.Split(text, "\n")
	for _, p := range []pos{ed.S, ed.E} {
		if p.L >= len(lines) {
			f.eof = true
			continue
		}
		// the part of the line in front of the (clamped) position
		o, _ := locate(lines[p.L], pos{0, p.C})
		if !isASCII(lines[p.L][:o]) {
			f.nonASCII = true
		}
		if p.C > utf16Len(lines[p.L]) {
			f.eol = true
		}
	}
	return
}

// mirrorClass names the class of an edit for the mirror-mismatch signature:
//
//	full              full-text replacement
//	out-of-contract   negative, inverted or inside a surrogate pair (never asserted)
//	non-ascii-column  a non-ASCII character stands in front of an addressed column
//	past-eof          a line number is past the last line
//	past-eol          a character is past the end of its line
//	in-range          none of the above
func (f editFlags) mirrorClass() string {
	switch {
	case f.full:
		return "full"
	case f.out:
		return "out-of-contract"
	case f.nonASCII:
		return "non-ascii-column"
	case f.eof:
		return "past-eof"
	case f.eol:
		return "past-eol"
	}
	return "in-range"
}

// panicClass names the class of an edit for the panic signature (what about the
// message is unusual, most unusual first).
func (f editFlags) panicClass() string {
	switch {
	case f.full:
		return "full"
	case f.out:
		return "out-of-contract"
	case f.eof:
		return "past-eof"
	case f.eol:
		return "past-eol"
	case f.nonASCII:
		return "non-ascii-column"
	}
	return "in-range"
}
