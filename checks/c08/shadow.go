package c08

import (
	"context"
	"fmt"
	"os"
	"regexp"
	"runtime"
	"runtime/debug"
	"strings"

	"github.com/ajitpratap0/GoSQLX/pkg/models"
	"github.com/ajitpratap0/GoSQLX/pkg/sql/parser"

	"verif/checks/c08/probe"
	"verif/engine/common"
)

// Keyword-shadow family.
//
// The parse entry points that take tokenizer output convert every identifier
// and keyword through a PROCESS-WIDE pooled scratch buffer (keywordBufferPool in
// pkg/sql/parser/token_conversion.go): whatever the previous word - of this
// input or of the previous input, on any parser - left in that buffer is the
// "pooled object" of the property, and no field of a Parser shows it.  A
// carry-over through it needs a probe word that is ALMOST a keyword of the
// conversion's identifier-keyword list (so that stale bytes can complete it)
// and a history whose last converted word supplies the missing bytes at the
// same offsets.  The fixed probes contain no such word, so the family is
// enumerated here:
//
//	keyword K   : every string of the `case "…"` list of getIdentifierKeywordType, read from the source
//	shadow S    : K in lower case with the bytes [i, i+w) replaced by one letter of w bytes that is not ASCII
//	              (w = 2: 'é', w = 3: 'あ'); quick: the tail (i = len(K)-w), thorough: every i
//	probe text  : S statement-initial ("S FROM t1") and S in a clause position after words that do not
//	              pass through the buffer ("SELECT 1 S SELECT 2": S is an alias unless it is taken for a keyword)
//	entry point : the four *FromModelTokens entry points
//	history     : one parse on the same instance of "SELECT a FROM <W>" (the conversion is done before the
//	              parse, so W is the last word that went through the buffer) with W one of
//	                neutral : 32 x 'z'            (overwrites the whole buffer; no keyword has a 'Z')
//	                keyword : K itself
//	                tail    : 'q' x i + K[i:]     (an ordinary identifier with K's bytes from offset i on)
//	                upper   : K in upper case     (the bytes as the conversion leaves them)
//
// Oracle: the property says the outcome of the probe depends only on the
// probe's input, so it is the same after every history; the answer after the
// neutral history is the reference (a newly constructed parser in this process
// would see the same process-wide buffer, so "new instance" alone is no
// reference here; the neutral history puts the buffer into a state that is
// the same whatever ran before in the worker, which also makes a case
// independent of the cases before it).
var shadowCaseRE = regexp.MustCompile(`(?m)^\s*case "([A-Z_]+)":`)

// identifierKeywords reads the keyword list of getIdentifierKeywordType from the library source.
func identifierKeywords() []string {
	b, err := os.ReadFile("/repo/pkg/sql/parser/token_conversion.go")
	if err != nil {
		return nil
	}
	src := string(b)
	i := strings.Index(src, "func getIdentifierKeywordType(")
	if i < 0 {
		return nil
	}
	src = src[i:]
	if j := strings.Index(src[1:], "\nfunc "); j >= 0 {
		src = src[:j+1]
	}
	seen := map[string]bool{}
	var out []string
	for _, m := range shadowCaseRE.FindAllStringSubmatch(src, -1) {
		if !seen[m[1]] {
			seen[m[1]] = true
			out = append(out, m[1])
		}
	}
	return out
}

type shadowWord struct {
	text string // the identifier
	at   int    // offset of the non-ASCII letter
	w    int    // its width
}

func shadowWords(k string, thorough bool) []shadowWord {
	var out []shadowWord
	low := strings.ToLower(k)
	for _, l := range []string{"é", "あ"} {
		w := len(l)
		if len(k) <= w {
			continue // nothing of the keyword would be left
		}
		from := len(k) - w
		if thorough {
			from = 1
		}
		for i := from; i+w <= len(k); i++ {
			out = append(out, shadowWord{low[:i] + l + low[i+w:], i, w})
		}
	}
	return out
}

func enumerateShadow(e *common.Enum) {
	kws := identifierKeywords()
	if len(kws) == 0 {
		e.Cap("keyword-shadow family: the identifier-keyword list could not be read from pkg/sql/parser/token_conversion.go")
		return
	}
	type entry struct {
		name string
		call func(p *parser.Parser, toks []models.TokenWithSpan) string
	}
	entries := []entry{
		{"Parse", func(p *parser.Parser, t []models.TokenWithSpan) string { return probe.Tree(p.ParseFromModelTokens(t)) }},
		{"ParseWithPositions", func(p *parser.Parser, t []models.TokenWithSpan) string {
			return probe.Tree(p.ParseFromModelTokensWithPositions(t))
		}},
		{"ParseContext", func(p *parser.Parser, t []models.TokenWithSpan) string {
			return probe.Tree(p.ParseContextFromModelTokens(context.Background(), t))
		}},
		{"ParseWithRecovery", func(p *parser.Parser, t []models.TokenWithSpan) string {
			return probe.Recovery(p.ParseWithRecoveryFromModelTokens(t))
		}},
	}
	templates := []struct{ name, pre, post string }{
		{"initial", "", " FROM t1"},
		{"clause", "SELECT 1 ", " SELECT 2"},
	}
	neutral := strings.Repeat("z", 32)
	for _, k := range kws {
		for _, sw := range shadowWords(k, e.Thorough()) {
			for _, tp := range templates {
				for _, en := range entries {
					k, sw, tp, en := k, sw, tp, en
					text := tp.pre + sw.text + tp.post
					key := "KS:" + en.name + ":" + tp.name + ":" + k + ":" + sw.text
					if !e.Mine(key) {
						continue
					}
					e.Do(key, func(c *common.Ctx) {
						// one P and no collection inside the case: sync.Pool then hands the buffer the
						// history returned to the probe, every time
						runtime.GOMAXPROCS(1)
						defer debug.SetGCPercent(debug.SetGCPercent(-1))
						c.Input("keyword shadow: " + en.name + "(" + text + ") after Parse(SELECT a FROM <neutral | " + k + " | tail | upper>)")
						toks := probe.MustTokenize(text)
						after := func(w string) string {
							p := parser.NewParser()
							p.ParseFromModelTokens(probe.MustTokenize("SELECT a FROM " + w))
							c.Count("transitions", 1)
							c.Count("probe_calls", 1)
							return en.call(p, toks)
						}
						want := after(neutral)
						c.State(common.Hash64("shadow|" + want))
						bad := false
						for _, h := range []struct{ name, w string }{
							{"keyword", strings.ToLower(k)},
							{"tail", strings.Repeat("q", sw.at) + strings.ToLower(k[sw.at:])},
							{"upper", k},
						} {
							got := after(h.w)
							if got == want {
								continue
							}
							bad = true
							c.Fail("probe-differs:parser:keyword-shadow-"+tp.name+":after-parse",
								fmt.Sprintf("%s(%q) after Parse(%q) on the same parser [history word: %s]\n got: %s\nwant: %s  (the same call after Parse(%q): the outcome may depend on the probe's input only)",
									en.name, text, "SELECT a FROM "+h.w, h.name, common.Trim(got, 600), common.Trim(want, 600), "SELECT a FROM "+neutral))
						}
						if again := after(neutral); again != want {
							bad = true
							c.Fail("probe-differs:parser:keyword-shadow-"+tp.name+":after-parse",
								fmt.Sprintf("%s(%q) after Parse(%q) gives two answers in one case\n 1st: %s\n 2nd: %s", en.name, text, "SELECT a FROM "+neutral, common.Trim(want, 600), common.Trim(again, 600)))
						}
						if bad {
							c.Outcome("shadow-differs")
						} else if strings.Contains(want, "rror") {
							c.Outcome("shadow-agrees-rejected")
						} else {
							c.Outcome("shadow-agrees-accepted")
						}
						c.NonTrivial()
					})
				}
			}
		}
	}
}
