// Package probe holds what C08 and C11 share: canonical renderings of call
// outcomes (tokens with positions, comments, tree dump, error code / location /
// text), the probe sets that make every field of Parser and Tokenizer change
// some answer, the reference answers (the same probe on a newly constructed
// instance with the holder's configuration) and a reflective dump of an
// instance including its unexported fields.
package probe

import (
	"context"
	"errors"
	"fmt"
	"github.com/ajitpratap0/GoSQLX/pkg/sql/token"
	"reflect"
	"sort"
	"strings"
	"time"
	"unsafe"

	goerrors "github.com/ajitpratap0/GoSQLX/pkg/errors"
	"github.com/ajitpratap0/GoSQLX/pkg/models"
	"github.com/ajitpratap0/GoSQLX/pkg/sql/ast"
	"github.com/ajitpratap0/GoSQLX/pkg/sql/keywords"
	"github.com/ajitpratap0/GoSQLX/pkg/sql/parser"
	"github.com/ajitpratap0/GoSQLX/pkg/sql/tokenizer"

	"verif/sqlgen"
)

// ---------------------------------------------------------------- outcomes

// Err renders an error: structured code and location (errors.As to
// *errors.Error), whether it matches a context error, and its full text.
func Err(err error) string {
	if err == nil {
		return "ok"
	}
	var sb strings.Builder
	var e *goerrors.Error
	if errors.As(err, &e) {
		fmt.Fprintf(&sb, "code=%s loc=%d:%d", e.Code, e.Location.Line, e.Location.Column)
	} else {
		sb.WriteString("code=- loc=-")
	}
	switch {
	case errors.Is(err, context.Canceled):
		sb.WriteString(" is=Canceled")
	case errors.Is(err, context.DeadlineExceeded):
		sb.WriteString(" is=DeadlineExceeded")
	}
	var pe *parser.ParseError
	if errors.As(err, &pe) {
		fmt.Fprintf(&sb, " parse-error{tok=%d line=%d col=%d type=%s lit=%q}", pe.TokenIdx, pe.Line, pe.Column, pe.TokenType, pe.Literal)
	}
	sb.WriteString(" text=")
	sb.WriteString(err.Error())
	return sb.String()
}

// Code returns the structured error code ("E2002"), "-" when the error is not
// a structured one and "ok" for nil.
func Code(err error) string {
	if err == nil {
		return "ok"
	}
	var e *goerrors.Error
	if errors.As(err, &e) {
		return string(e.Code)
	}
	return "-"
}

// Tokens renders a token stream with every field the caller can see.
func Tokens(toks []models.TokenWithSpan) string {
	var sb strings.Builder
	for _, t := range toks {
		fmt.Fprintf(&sb, "%s(%q", t.Token.Type.String(), t.Token.Value)
		if t.Token.Word != nil {
			fmt.Fprintf(&sb, " w=%q", t.Token.Word.Value)
			if t.Token.Word.QuoteStyle != 0 {
				fmt.Fprintf(&sb, " wq=%q", t.Token.Word.QuoteStyle)
			}
			if t.Token.Word.Keyword != nil {
				fmt.Fprintf(&sb, " kw=%+v", *t.Token.Word.Keyword)
			}
		}
		if t.Token.Long {
			sb.WriteString(" long")
		}
		if t.Token.Quote != 0 {
			fmt.Fprintf(&sb, " q=%q", t.Token.Quote)
		}
		fmt.Fprintf(&sb, ")@%d:%d-%d:%d ", t.Start.Line, t.Start.Column, t.End.Line, t.End.Column)
	}
	return sb.String()
}

// Comments renders the captured comments.
func Comments(cs []models.Comment) string {
	var sb strings.Builder
	for _, c := range cs {
		fmt.Fprintf(&sb, "{%q style=%v %d:%d-%d:%d inline=%v} ", c.Text, c.Style, c.Start.Line, c.Start.Column, c.End.Line, c.End.Column, c.Inline)
	}
	return sb.String()
}

// Tree renders a parse result.
func Tree(t *ast.AST, err error) string {
	if err != nil {
		if t != nil {
			return "TREE-AND-ERROR " + Err(err)
		}
		return "error " + Err(err)
	}
	if t == nil {
		return "nil-tree-nil-error"
	}
	return "tree " + sqlgen.Dump(t.Statements)
}

// Recovery renders the result of a recovery parse.
func Recovery(stmts []ast.Statement, errs []error) string {
	var sb strings.Builder
	sb.WriteString("stmts " + sqlgen.Dump(stmts))
	for _, e := range errs {
		sb.WriteString(" | " + Err(e))
	}
	return sb.String()
}

// MustTokenize tokenizes with a newly constructed tokenizer (inputs of the
// parser alphabet are tokenized once, outside the instance under test).
func MustTokenize(sql string) []models.TokenWithSpan {
	tk, err := tokenizer.New()
	if err != nil {
		panic(err)
	}
	toks, err := tk.Tokenize([]byte(sql))
	if err != nil {
		panic(fmt.Sprintf("harness input does not tokenize: %q: %v", sql, err))
	}
	return toks
}

// ---------------------------------------------------------------- configuration (the reference model's state)

// PCfg is the configuration a holder can give a Parser.
type PCfg struct {
	Strict  bool
	Dialect string // "" = default
}

func (c PCfg) String() string { return fmt.Sprintf("strict=%v,dialect=%q", c.Strict, c.Dialect) }

// New builds a newly constructed parser with this configuration.
func (c PCfg) New() *parser.Parser {
	var opts []parser.ParserOption
	if c.Strict {
		opts = append(opts, parser.WithStrictMode())
	}
	if c.Dialect != "" {
		opts = append(opts, parser.WithDialect(c.Dialect))
	}
	return parser.NewParser(opts...)
}

// TCfg is the configuration a holder can give a Tokenizer.
type TCfg struct {
	Dialect keywords.SQLDialect // "" = default (New())
}

func (c TCfg) String() string { return fmt.Sprintf("dialect=%q", string(c.Dialect)) }

// New builds a newly constructed tokenizer with this configuration.
func (c TCfg) New() *tokenizer.Tokenizer {
	var t *tokenizer.Tokenizer
	var err error
	if c.Dialect == "" {
		t, err = tokenizer.New()
	} else {
		t, err = tokenizer.NewWithDialect(c.Dialect)
	}
	if err != nil {
		panic(err)
	}
	return t
}

// ---------------------------------------------------------------- probes

// PProbe is one probe call on a parser.
type PProbe struct {
	Name string
	Run  func(p *parser.Parser) string
}

// TProbe is one probe call on a tokenizer.
type TProbe struct {
	Name string
	Run  func(t *tokenizer.Tokenizer) string
}

// NestSQL returns SELECT with n nested parentheses around a column.
func NestSQL(n int) string {
	return "SELECT " + strings.Repeat("(", n) + "a" + strings.Repeat(")", n) + " FROM t"
}

// MaxNest is the deepest parenthesis nesting a newly constructed parser
// accepts (measured, so the probe sits exactly at the limit of the depth
// counter: one leaked level turns the answer into a recursion error).
func MaxNest() int {
	lo := 0
	for n := 1; n <= 400; n++ {
		p := parser.NewParser()
		if _, err := p.ParseFromModelTokens(MustTokenize(NestSQL(n))); err != nil {
			break
		}
		lo = n
	}
	return lo
}

const (
	SQLLimit     = "SELECT * FROM t LIMIT 10, 20"
	SQLEmpties   = "SELECT a FROM t;; SELECT b FROM u"
	SQLErrOne    = "SELECT a FROM"
	SQLErrMulti  = "SELECT a,\n   b\nFROM t1\nJOIN\n  WHERE c"
	SQLValid     = "SELECT a, COUNT(*) AS n FROM t1 LEFT JOIN t2 ON t1.id = t2.id WHERE x > 1 AND y IN (1, 2) GROUP BY a HAVING COUNT(*) > 2 ORDER BY a DESC"
	SQLOnlySemis = ";"
	SQLRecovery  = "SELECT FROM WHERE;\nSELECT a FROM t;\nINSERT INTO;\nSELECT b FROM u"
)

// handBuiltBad returns the parser tokens of "SELECT a FROM t WHERE" (a statement cut after WHERE) plus EOF.
func handBuiltBad() []token.Token {
	_, toks, err := parser.ParseBytesWithTokens([]byte("SELECT a FROM t WHERE b = 1"))
	if err != nil || len(toks) < 6 {
		return nil
	}
	out := append([]token.Token{}, toks[:5]...)
	return append(out, toks[len(toks)-1])
}

// ParserProbes returns the probe set for parsers.  Each field of Parser
// changes at least one answer: dialect (limit, dialect), strict (empties),
// positions (err-nopos, ctx-empty, recovery), depth (nest-max), ctx (every
// probe: a stale cancelled context turns Parse into "parsing cancelled"),
// tokens/currentPos/currentToken (valid, err-pos).
func ParserProbes() []PProbe {
	limit := MustTokenize(SQLLimit)
	empties := MustTokenize(SQLEmpties)
	errOne := MustTokenize(SQLErrOne)
	errMulti := MustTokenize(SQLErrMulti)
	valid := MustTokenize(SQLValid)
	semis := MustTokenize(SQLOnlySemis)
	rec := MustTokenize(SQLRecovery)
	nest := MustTokenize(NestSQL(MaxNest()))
	return []PProbe{
		{"limit", func(p *parser.Parser) string { return Tree(p.ParseFromModelTokens(limit)) }},
		{"empties", func(p *parser.Parser) string { return Tree(p.ParseFromModelTokens(empties)) }},
		{"err-nopos", func(p *parser.Parser) string { return Tree(p.ParseFromModelTokens(errOne)) }},
		{"err-pos", func(p *parser.Parser) string { return Tree(p.ParseFromModelTokensWithPositions(errMulti)) }},
		{"valid", func(p *parser.Parser) string { return Tree(p.ParseFromModelTokens(valid)) }},
		{"nest-max", func(p *parser.Parser) string {
			t, err := p.ParseFromModelTokens(nest)
			if err != nil {
				return "error " + Err(err)
			}
			return fmt.Sprintf("tree with %d statement(s)", len(t.Statements))
		}},
		{"ctx-empty", func(p *parser.Parser) string {
			return Tree(p.ParseContextFromModelTokens(context.Background(), semis))
		}},
		{"ctx-valid", func(p *parser.Parser) string {
			return Tree(p.ParseContextFromModelTokens(context.Background(), valid))
		}},
		{"recovery", func(p *parser.Parser) string { return Recovery(p.ParseWithRecoveryFromModelTokens(rec)) }},
		// when and how often the context is consulted is part of the answer: a cancellation that arrives at the k-th
		// poll inside a statement must be seen at the same place whatever the instance parsed before
		{"ctx-poll-count", func(p *parser.Parser) string {
			c := NewCountCtx(-1, nil)
			_, err := p.ParseContextFromModelTokens(c, valid)
			return fmt.Sprintf("polls=%d err=%v", c.Calls, err != nil)
		}},
		{"ctx-cancel-poll-4", func(p *parser.Parser) string {
			c := NewCountCtx(4, context.Canceled)
			return Tree(p.ParseContextFromModelTokens(c, valid)) + fmt.Sprintf(" polls=%d", c.Calls)
		}},
		{"ctx-cancel-poll-9", func(p *parser.Parser) string {
			c := NewCountCtx(9, context.DeadlineExceeded)
			return Tree(p.ParseContextFromModelTokens(c, valid)) + fmt.Sprintf(" polls=%d", c.Calls)
		}},
		// the public ParseWithPositions with conversion results built by hand (the type is exported and has no constructor):
		// no position table, and a table shorter than the token list - the location reported must come from this call
		{"err-handbuilt-nomap", func(p *parser.Parser) string {
			return Tree(p.ParseWithPositions(&parser.ConversionResult{Tokens: handBuiltBad()}))
		}},
		{"err-handbuilt-shortmap", func(p *parser.Parser) string {
			toks := handBuiltBad()
			return Tree(p.ParseWithPositions(&parser.ConversionResult{Tokens: toks, PositionMapping: []parser.TokenPosition{
				{OriginalIndex: 0, Start: models.Location{Line: 1, Column: 1}, End: models.Location{Line: 1, Column: 7}}}}))
		}},
		{"dialect", func(p *parser.Parser) string { return p.Dialect() }},
	}
}

const (
	TSQLValid    = "SELECT a,\n  'it''s' AS s, 1.5e3\nFROM \"T 1\"\n  LEFT JOIN u ON a <> b\nGROUP BY a"
	TSQLComments = "SELECT a -- first\nFROM t /* second\n spans */ WHERE b = 1 -- last"
	TSQLUnterm   = "SELECT a,\n b\nFROM t WHERE c = 'abc"
	TSQLBadChar  = "SELECT a\nFROM t\nWHERE a = \x01"
)

// TokenizerProbes returns the probe set for tokenizers: input/pos/lineStart/
// lineStarts/line (valid, unterminated, bad-char: token and error positions on
// later lines), Comments (comments, ctx-comments), dialect/keywords (dialect).
// Comments are compared only after a successful call: a call that fails before
// its internal reset (too large, already cancelled) leaves the field as it
// was, and what the field holds after a failed call is not promised anywhere.
func TokenizerProbes() []TProbe {
	tok := func(in string) func(t *tokenizer.Tokenizer) string {
		return func(t *tokenizer.Tokenizer) string {
			toks, err := t.Tokenize([]byte(in))
			if err != nil {
				if toks != nil {
					return "TOKENS-AND-ERROR " + Err(err)
				}
				return "error " + Err(err)
			}
			return "tokens " + Tokens(toks) + " comments " + Comments(t.Comments)
		}
	}
	return []TProbe{
		{"valid", tok(TSQLValid)},
		{"comments", tok(TSQLComments)},
		{"unterminated", tok(TSQLUnterm)},
		{"bad-char", tok(TSQLBadChar)},
		{"ctx-comments", func(t *tokenizer.Tokenizer) string {
			toks, err := t.TokenizeContext(context.Background(), []byte(TSQLComments))
			if err != nil {
				return "error " + Err(err)
			}
			return "tokens " + Tokens(toks) + " comments " + Comments(t.Comments)
		}},
		// inputs without a single token: whatever short cut they take must leave nothing of the previous input visible
		{"empty", tok("")},
		{"blank", tok(" \n\t ")},
		{"ctx-empty", func(t *tokenizer.Tokenizer) string {
			toks, err := t.TokenizeContext(context.Background(), nil)
			if err != nil {
				return "error " + Err(err)
			}
			return "tokens " + Tokens(toks) + " comments " + Comments(t.Comments)
		}},
		{"dialect", func(t *tokenizer.Tokenizer) string { return string(t.Dialect()) }},
	}
}

// ---------------------------------------------------------------- reference answers

var pref = map[string]string{}
var tref = map[string]string{}

// PWant is the answer of probe pr on a newly constructed parser with cfg.
func PWant(cfg PCfg, pr PProbe) string {
	k := cfg.String() + "|" + pr.Name
	if v, ok := pref[k]; ok {
		return v
	}
	v := pr.Run(cfg.New())
	pref[k] = v
	return v
}

// TWant is the answer of probe pr on a newly constructed tokenizer with cfg.
func TWant(cfg TCfg, pr TProbe) string {
	k := cfg.String() + "|" + pr.Name
	if v, ok := tref[k]; ok {
		return v
	}
	v := pr.Run(cfg.New())
	tref[k] = v
	return v
}

// ---------------------------------------------------------------- reflective dump of an instance

// Fields returns field name -> canonical rendering for every field of the
// struct p points to, unexported fields included.  Slice capacity is ignored,
// nil and empty slices are identified, a context is rendered by its dynamic
// type, a logger by presence, the keyword table by the dialect it was built
// for ("" = default table, identified with postgresql: the tokenizer never
// consults the table, so the two default constructions are indistinguishable).
func Fields(p any) map[string]string {
	v := reflect.ValueOf(p).Elem()
	out := map[string]string{}
	for i := 0; i < v.NumField(); i++ {
		f := v.Field(i)
		f = reflect.NewAt(f.Type(), unsafe.Pointer(f.UnsafeAddr())).Elem()
		out[v.Type().Field(i).Name] = render(f, 0)
	}
	return out
}

// Dump renders Fields in a fixed order.
func Dump(p any) string {
	m := Fields(p)
	var ks []string
	for k := range m {
		ks = append(ks, k)
	}
	sort.Strings(ks)
	var sb strings.Builder
	for _, k := range ks {
		sb.WriteString(k + "=" + m[k] + ";")
	}
	return sb.String()
}

func render(v reflect.Value, depth int) string {
	if depth > 6 {
		return "…"
	}
	switch v.Kind() {
	case reflect.Interface:
		if v.IsNil() {
			return "nil"
		}
		return "iface:" + v.Elem().Type().String()
	case reflect.Ptr:
		if v.IsNil() {
			return "nil"
		}
		switch v.Type().String() {
		case "*keywords.Keywords":
			d := v.Elem().FieldByName("dialect")
			s := d.String()
			if s == "" || s == string(keywords.DialectPostgreSQL) {
				s = "default"
			}
			return "keywords(" + s + ")"
		case "*slog.Logger":
			return "logger"
		}
		return "&" + render(v.Elem(), depth+1)
	case reflect.Slice:
		if v.Len() == 0 {
			return "[]"
		}
		var sb strings.Builder
		sb.WriteString("[")
		for i := 0; i < v.Len(); i++ {
			if i > 0 {
				sb.WriteString(" ")
			}
			if i >= 6 {
				fmt.Fprintf(&sb, "…+%d", v.Len()-i)
				break
			}
			sb.WriteString(render(v.Index(i), depth+1))
		}
		sb.WriteString("]")
		return sb.String()
	case reflect.Struct:
		var sb strings.Builder
		sb.WriteString("{")
		for i := 0; i < v.NumField(); i++ {
			f := v.Field(i)
			if f.CanAddr() {
				f = reflect.NewAt(f.Type(), unsafe.Pointer(f.UnsafeAddr())).Elem()
			} else if !f.CanInterface() {
				// unexported field of a non-addressable copy: render by kind only
				sb.WriteString(v.Type().Field(i).Name + ":? ")
				continue
			}
			sb.WriteString(v.Type().Field(i).Name + ":" + render(f, depth+1) + " ")
		}
		sb.WriteString("}")
		return sb.String()
	case reflect.String:
		return fmt.Sprintf("%q", v.String())
	case reflect.Bool:
		return fmt.Sprint(v.Bool())
	case reflect.Int, reflect.Int8, reflect.Int16, reflect.Int32, reflect.Int64:
		return fmt.Sprint(v.Int())
	case reflect.Uint, reflect.Uint8, reflect.Uint16, reflect.Uint32, reflect.Uint64:
		return fmt.Sprint(v.Uint())
	case reflect.Map:
		return fmt.Sprintf("map(len=%d)", v.Len())
	}
	return v.Kind().String()
}

// DiffFields lists the fields whose rendering differs, sorted.
func DiffFields(got, want map[string]string) []string {
	var d []string
	for k, w := range want {
		if got[k] != w {
			d = append(d, k)
		}
	}
	sort.Strings(d)
	return d
}

// ---------------------------------------------------------------- counting context (fault injector of C11, cancel ops of C08)

// CountCtx is a context whose Err() returns nil for the first FireAt calls and
// Kind afterwards (FireAt < 0: never).  It counts the calls, closes Done() at
// the moment it fires, and reports a deadline iff Kind is DeadlineExceeded.
// The library only polls Err(); Done/Deadline are kept consistent anyway.
type CountCtx struct {
	FireAt int
	Kind   error
	Calls  int // number of Err() calls so far
	After  int // number of Err() calls after the one that first reported Kind
	Fired  bool
	OnFire func() // called once, inside the poll that fires
	// Inner, when set, answers Value(): the context then looks like a hand-written wrapper around a standard context
	// (context.Cause and friends find that context's cancellation state through Value, not through Err)
	Inner context.Context
	done  chan struct{}
}

// ErrCause is the cause given to the standard context inside a "cause" flavoured counting context.
var ErrCause = errors.New("caller's own cause")

// NewCountCtxFlavour builds a counting context of one of three flavours: "" (plain), "cause" (wraps a
// context.WithCancelCause context that is cancelled with ErrCause at the moment the counting context fires; Err() keeps
// answering kind, as the standard context does) and "live-parent" (wraps a standard cancel context that is never
// cancelled: only Err() of the wrapper says done).
func NewCountCtxFlavour(fireAt int, kind error, flavour string) *CountCtx {
	c := NewCountCtx(fireAt, kind)
	switch flavour {
	case "cause":
		in, cancel := context.WithCancelCause(context.Background())
		c.Inner = in
		c.OnFire = func() { cancel(ErrCause) }
	case "live-parent":
		in, cancel := context.WithCancel(context.Background())
		_ = cancel // never cancelled; released with the process
		c.Inner = in
	}
	return c
}

// NewCountCtx builds a counting context.
func NewCountCtx(fireAt int, kind error) *CountCtx {
	return &CountCtx{FireAt: fireAt, Kind: kind, done: make(chan struct{})}
}

var longAgo = time.Date(2000, 1, 1, 0, 0, 0, 0, time.UTC)

func (c *CountCtx) Deadline() (time.Time, bool) {
	if c.Kind == context.DeadlineExceeded {
		return longAgo, true
	}
	return time.Time{}, false
}

func (c *CountCtx) Done() <-chan struct{} { return c.done }

func (c *CountCtx) Err() error {
	c.Calls++
	if c.FireAt < 0 || c.Calls <= c.FireAt {
		return nil
	}
	if !c.Fired {
		c.Fired = true
		close(c.done)
		if c.OnFire != nil {
			c.OnFire()
		}
	} else {
		c.After++
	}
	return c.Kind
}

func (c *CountCtx) Value(key any) any {
	if c.Inner != nil {
		return c.Inner.Value(key)
	}
	return nil
}
