package c08

// Pool hand-out: the parser and tokenizer pools must never hand one instance to two holders,
// and what they hand out must behave like a new instance - whatever the earlier holders did
// (configure, parse, release, put, release a recovery result once or twice, put twice is a
// caller error and not in the alphabet).  Explicit-state search over all histories of pool
// operations up to a depth, executed on the real pools with one P and the collector off so
// that a sync.Pool hands back exactly what was put.

import (
	"fmt"
	"reflect"
	"runtime"
	"runtime/debug"
	"strings"

	"github.com/ajitpratap0/GoSQLX/pkg/sql/parser"
	"github.com/ajitpratap0/GoSQLX/pkg/sql/token"
	"github.com/ajitpratap0/GoSQLX/pkg/sql/tokenizer"

	"verif/checks/c08/probe"
	"verif/engine/common"
)

type poolState struct {
	parsers []*parser.Parser         // held by get
	results []*parser.RecoveryResult // obtained, possibly already released
	relCnt  []int                    // how often results[i] was released
	toks    []*tokenizer.Tokenizer
	puts    int
}

func resultParser(r *parser.RecoveryResult) uintptr {
	f := reflect.ValueOf(r).Elem().FieldByName("parser")
	if !f.IsValid() || f.Kind() != reflect.Ptr {
		return 0
	}
	return f.Pointer()
}

type poolOp struct {
	name    string
	enabled func(s *poolState) bool
	do      func(s *poolState)
}

func poolOps() []poolOp {
	badToks := func() []token.Token {
		p := parser.NewParser()
		defer p.Release()
		// parser tokens of a script with one bad and one good statement
		_, toks, err := parser.ParseBytesWithTokens([]byte("SELECT a FROM t"))
		_ = err
		return append(append([]token.Token{{Literal: "oops"}}, toks...), toks...)
	}()
	posBad := probe.MustTokenize("SELECT a,\n  b,\n  ,")
	return []poolOp{
		{"get", func(s *poolState) bool { return len(s.parsers) < 3 }, func(s *poolState) { s.parsers = append(s.parsers, parser.GetParser()) }},
		{"configure-newest", func(s *poolState) bool { return len(s.parsers) > 0 }, func(s *poolState) {
			p := s.parsers[len(s.parsers)-1]
			p.ApplyOptions(parser.WithStrictMode(), parser.WithDialect("mysql"))
			_, _ = p.ParseFromModelTokensWithPositions(posBad)
		}},
		{"put-oldest", func(s *poolState) bool { return len(s.parsers) > 0 }, func(s *poolState) {
			parser.PutParser(s.parsers[0])
			s.parsers = s.parsers[1:]
			s.puts++
		}},
		{"release-put-newest", func(s *poolState) bool { return len(s.parsers) > 0 }, func(s *poolState) {
			p := s.parsers[len(s.parsers)-1]
			p.Release()
			parser.PutParser(p)
			s.parsers = s.parsers[:len(s.parsers)-1]
			s.puts++
		}},
		{"recovery", func(s *poolState) bool { return len(s.results) < 2 }, func(s *poolState) {
			s.results = append(s.results, parser.ParseMultiWithRecovery(badToks))
			s.relCnt = append(s.relCnt, 0)
		}},
		{"release-result", func(s *poolState) bool { return len(s.results) > 0 && s.relCnt[len(s.results)-1] == 0 }, func(s *poolState) {
			i := len(s.results) - 1
			s.results[i].Release()
			s.relCnt[i]++
			s.puts++
		}},
		// documented as safe: "Release ... It is safe to call multiple times"
		{"release-result-again", func(s *poolState) bool { return len(s.results) > 0 && s.relCnt[len(s.results)-1] > 0 && s.relCnt[len(s.results)-1] < 3 }, func(s *poolState) {
			i := len(s.results) - 1
			s.results[i].Release()
			s.relCnt[i]++
		}},
		{"tok-get", func(s *poolState) bool { return len(s.toks) < 2 }, func(s *poolState) { s.toks = append(s.toks, tokenizer.GetTokenizer()) }},
		{"tok-use-put", func(s *poolState) bool { return len(s.toks) > 0 }, func(s *poolState) {
			t := s.toks[0]
			_, _ = t.Tokenize([]byte("SELECT 'x\n"))
			tokenizer.PutTokenizer(t)
			s.toks = s.toks[1:]
			s.puts++
		}},
	}
}

func clearParserPools() {
	runtime.GC()
	runtime.GC()
}

func enumeratePool(e *common.Enum) {
	ops := poolOps()
	depth := 5
	if e.Thorough() {
		depth = 6
	}
	probes := probe.ParserProbes()
	var rec func(seq []int, st func() *poolState)
	// enabledness is tracked on a shadow state so that disabled steps are not generated
	type shadow struct{ parsers, results, lastRel, toks int }
	var gen func(seq []int, sh shadow)
	gen = func(seq []int, sh shadow) {
		if len(seq) > 0 {
			s2 := append([]int{}, seq...)
			var names []string
			for _, k := range s2 {
				names = append(names, ops[k].name)
			}
			key := "pool|" + strings.Join(names, ">")
			e.Do(key, func(c *common.Ctx) { runPoolHistory(c, ops, s2, probes) })
		}
		if len(seq) == depth {
			return
		}
		for k, o := range ops {
			n := sh
			ok := true
			switch o.name {
			case "get":
				ok = sh.parsers < 3
				n.parsers++
			case "configure-newest":
				ok = sh.parsers > 0
			case "put-oldest", "release-put-newest":
				ok = sh.parsers > 0
				n.parsers--
			case "recovery":
				ok = sh.results < 2
				n.results++
				n.lastRel = 0
			case "release-result":
				ok = sh.results > 0 && sh.lastRel == 0
				n.lastRel = 1
			case "release-result-again":
				ok = sh.results > 0 && sh.lastRel > 0 && sh.lastRel < 3
				n.lastRel++
			case "tok-get":
				ok = sh.toks < 2
				n.toks++
			case "tok-use-put":
				ok = sh.toks > 0
				n.toks--
			}
			if ok {
				gen(append(append([]int{}, seq...), k), n)
			}
		}
	}
	_ = rec
	gen(nil, shadow{})
}

func runPoolHistory(c *common.Ctx, ops []poolOp, seq []int, probes []probe.PProbe) {
	runtime.GOMAXPROCS(1)
	defer debug.SetGCPercent(debug.SetGCPercent(-1))
	clearParserPools()
	s := &poolState{}
	c.Input(c.Key)
	check := func(step string) bool {
		seen := map[uintptr]string{}
		add := func(p uintptr, who string) bool {
			if p == 0 {
				return true
			}
			if other, dup := seen[p]; dup {
				c.Fail("pool-instance-shared:parser", fmt.Sprintf("after %s (history %s) one *Parser is owned twice: by %s and by %s", step, c.Key, other, who))
				return false
			}
			seen[p] = who
			return true
		}
		for i, p := range s.parsers {
			if !add(reflect.ValueOf(p).Pointer(), fmt.Sprintf("holder %d of GetParser", i)) {
				return false
			}
		}
		for i, r := range s.results {
			if s.relCnt[i] == 0 {
				if !add(resultParser(r), fmt.Sprintf("unreleased recovery result %d", i)) {
					return false
				}
			}
		}
		ts := map[uintptr]bool{}
		for _, t := range s.toks {
			a := reflect.ValueOf(t).Pointer()
			if ts[a] {
				c.Fail("pool-instance-shared:tokenizer", fmt.Sprintf("after %s (history %s) one *Tokenizer is held by two holders", step, c.Key))
				return false
			}
			ts[a] = true
		}
		return true
	}
	for _, k := range seq {
		if !ops[k].enabled(s) {
			c.Enum().Cap("pool history enabledness diverged at " + ops[k].name + " of " + c.Key)
			c.Outcome("pool:model-diverged")
			return
		}
		ops[k].do(s)
		c.Count("transitions", 1)
		if !check(ops[k].name) {
			c.Outcome("pool:violated")
			return
		}
	}
	// drain: more Gets than Puts were made; every instance handed out is distinct from every other
	// and from the ones still held, and answers every probe like a new parser
	n := 2*s.puts + 3
	for i := 0; i < n; i++ {
		p := parser.GetParser()
		s.parsers = append(s.parsers, p)
		if !check(fmt.Sprintf("drain Get %d", i+1)) {
			c.Outcome("pool:violated")
			return
		}
		if i < s.puts+1 {
			for _, pr := range probes {
				got, want := pr.Run(p), probe.PWant(probe.PCfg{}, pr)
				if got != want {
					c.Fail("pool-instance-not-new:parser:"+pr.Name, fmt.Sprintf("a parser handed out by GetParser at the end of %s answers probe %q unlike a new one\n got: %s\nwant: %s", c.Key, pr.Name, common.Trim(got, 400), common.Trim(want, 400)))
					c.Outcome("pool:violated")
					return
				}
			}
		}
	}
	for i := 0; i < n; i++ {
		t := tokenizer.GetTokenizer()
		s.toks = append(s.toks, t)
	}
	if !check("drain tokenizers") {
		c.Outcome("pool:violated")
		return
	}
	c.State(common.Hash64(fmt.Sprintf("pool|%d|%d|%d|%d", len(s.parsers), len(s.results), len(s.toks), s.puts)))
	c.Outcome("pool:ok")
	if s.puts > 0 {
		c.NonTrivial()
	}
}
