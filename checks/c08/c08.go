// Package c08 checks property C08: the outcome of a call on a tokenizer or
// parser never depends on what the instance did before, only on the call's
// input and the configuration the current holder gave it; a pooled or reset
// instance behaves like a new one.
//
// Engine: explicit-state search over call histories on real objects (DESIGN
// §2.4).  Every history over the operation alphabet up to the depth bound is
// executed from a newly constructed instance, with a two-field reference model
// (the holder's configuration) in lock-step; after the history each probe call
// is made (each one on its own re-execution of the history, so probes never
// see each other) and compared with the same probe on a new instance built
// with the model's configuration.  After Reset/Put the instance is also
// compared field by field (unexported fields included) with a new one.
package c08

import (
	"context"
	"fmt"
	"io"
	"log/slog"
	"os"
	"path/filepath"
	"regexp"
	"runtime/debug"
	"sort"
	"strings"

	"github.com/ajitpratap0/GoSQLX/pkg/models"
	"github.com/ajitpratap0/GoSQLX/pkg/sql/keywords"
	"github.com/ajitpratap0/GoSQLX/pkg/sql/parser"
	"github.com/ajitpratap0/GoSQLX/pkg/sql/tokenizer"

	"verif/checks/c08/probe"
	"verif/engine/common"
	"verif/sqlgen"
)

// ---------------------------------------------------------------- generic history machine

// inst is one instance under test together with the reference model's state.
type inst interface {
	dump() string                // reference cfg + reflective dump of the instance
	dirty(after string) []string // fields differing from a new instance (only meaningful right after Reset/Put)
}

// op is one letter of an operation alphabet.
type op struct {
	name  string
	class string // after-<class> in signatures
	clean string // "Reset" / "Put" when the op must leave the instance like a new one
}

// machine is an operation alphabet + probe set over one kind of instance.
type machine struct {
	kind   string // parser | tokenizer
	ops    []op
	probes []string
	// run executes history h (indices into ops) on a newly constructed instance,
	// calls step after every transition, then runs probe pi on the instance and
	// returns (got, want) where want is the same probe on a new instance built
	// with the reference configuration.  pi < 0: no probe.
	run func(h []int, pi int, step func(i int, in inst)) (got, want string)
}

func (m *machine) names(h []int) string {
	s := make([]string, len(h))
	for i, o := range h {
		s[i] = m.ops[o].name
	}
	return strings.Join(s, ",")
}

// minimize removes operations from a failing history while probe pi still
// differs (greedy, left to right, to a fixpoint; deterministic).
func (m *machine) minimize(h []int, pi int) []int {
	cur := append([]int{}, h...)
	for changed := true; changed; {
		changed = false
		for i := 0; i < len(cur); i++ {
			cand := append(append([]int{}, cur[:i]...), cur[i+1:]...)
			if g, w := m.run(cand, pi, nil); g != w {
				cur = cand
				changed = true
				i--
			}
		}
	}
	return cur
}

// after names the operation class a failure is attributed to: the last
// operation of the smallest failing sub-history that is not a configuration
// call (a configuration call only makes a carried-over field visible).
func (m *machine) after(mh []int) string {
	for i := len(mh) - 1; i >= 0; i-- {
		if cl := m.ops[mh[i]].class; cl != "option" {
			return cl
		}
	}
	if len(mh) > 0 {
		return "option"
	}
	return "nothing"
}

var (
	locRE   = regexp.MustCompile(`loc=\d+:\d+|at line \d+, column \d+|line=\d+ col=\d+`)
	perrRE  = regexp.MustCompile(`parse error at line \d+, column \d+ \(token (\d+)\)`)
	ctxtRE  = regexp.MustCompile(`(?m)^\s+\d+ \| .*$|^\s+\^+\s*$`)
	blankRE = regexp.MustCompile(`\n\s*\n+`)
)

// noLoc removes everything that renders an error location: the numbers, the
// "line x, column y" form of a recovery error, and the source excerpt with its
// caret that Error() prints only when a location is present.
func noLoc(s string) string {
	s = perrRE.ReplaceAllString(s, "parse error at token $1")
	s = locRE.ReplaceAllString(s, "@")
	s = ctxtRE.ReplaceAllString(s, "")
	return blankRE.ReplaceAllString(s, "\n")
}

// aspect is the probe's name, or "location" when the two answers differ in
// nothing but the reported error location (so that one stale position table
// is one signature whichever probe's error happens to show it).
func aspect(probeName, got, want string) string {
	if noLoc(got) == noLoc(want) {
		return "location"
	}
	return probeName
}

// check runs one history completely: state hashes and dirty checks on the
// first execution, then every probe on its own re-execution.
func (m *machine) check(c *common.Ctx, h []int) {
	c.Input(m.kind + ": " + m.names(h))
	nfail := 0
	m.run(h, -1, func(i int, in inst) {
		c.State(common.Hash64(m.kind + "|" + in.dump()))
		c.Count("transitions", 1)
		if cl := m.ops[h[i]].clean; cl != "" {
			for _, f := range in.dirty(cl) {
				nfail++
				c.Fail("dirty-after:"+cl+":"+f, fmt.Sprintf("after %s (history %s, step %d) field %s differs from a newly constructed instance\ninstance: %s",
					cl, m.names(h), i+1, f, in.dump()))
			}
		}
	})
	for pi, pn := range m.probes {
		got, want := m.run(h, pi, nil)
		c.Count("probe_calls", 1)
		if got == want {
			continue
		}
		nfail++
		mh := m.minimize(h, pi)
		mg, mw := m.run(mh, pi, nil) // classify what the smallest sub-history shows
		c.Fail("probe-differs:"+m.kind+":"+aspect(pn, mg, mw)+":after-"+m.after(mh),
			fmt.Sprintf("probe %q after history [%s] (smallest failing sub-history [%s])\n got: %s\nwant: %s  (same call on a newly constructed instance with the holder's configuration)",
				pn, m.names(h), m.names(mh), common.Trim(got, 700), common.Trim(want, 700)))
	}
	if nfail == 0 {
		c.Outcome("agrees")
	} else {
		c.Outcome("differs")
	}
	if len(h) >= 2 {
		c.NonTrivial()
	}
}

// histories enumerates every sequence over n letters of length 0..depth.
func histories(n, depth int, yield func(h []int)) {
	var rec func(h []int)
	rec = func(h []int) {
		yield(h)
		if len(h) == depth {
			return
		}
		for o := 0; o < n; o++ {
			rec(append(h, o))
		}
	}
	rec(make([]int, 0, depth))
}

// ---------------------------------------------------------------- parser machine

type pinst struct {
	p   *parser.Parser
	cfg probe.PCfg
}

func (s *pinst) dump() string { return s.cfg.String() + "|" + probe.Dump(s.p) }
func (s *pinst) dirty(string) []string {
	d := probe.DiffFields(probe.Fields(s.p), probe.Fields(parser.NewParser()))
	for i := range d {
		d[i] = "Parser." + d[i]
	}
	return d
}

const (
	pValid    = "WITH w AS (SELECT a FROM t1) SELECT CASE WHEN x > 1 THEN 'y' ELSE f(z) END AS c FROM w JOIN u ON w.a = u.a WHERE b IN (SELECT c FROM v) ORDER BY 1"
	pInvalid  = "SELECT a FROM t WHERE (b = 1 AND (c <"
	pPosBad   = "SELECT a,\n  b,\n  c,\n  d\nFROM t1\n  JOIN t2 ON t1.a = t2.a\n  JOIN t3 ON t2.b = t3.b\nWHERE a = 1\n  AND b = 2\n  AND c = 3\nGROUP BY a,\n  b,\n  ,"
	pRecovery = "SELECT FROM;\nSELECT a FROM t"
	pCancel   = "SELECT a, (SELECT b FROM u WHERE c = (d + 1)) FROM t WHERE e = 1 AND f = 2"
)

// pAdhoc is an operation outside the fixed alphabet (sweep families).
type pAdhoc func(s *pinst)

func parserMachine() (*machine, func(pre []int, ad pAdhoc, pi int, step func(int, inst)) (string, string)) {
	valid := probe.MustTokenize(pValid)
	invalid := probe.MustTokenize(pInvalid)
	posBad := probe.MustTokenize(pPosBad)
	rec := probe.MustTokenize(pRecovery)
	canc := probe.MustTokenize(pCancel)
	emptyIn := probe.MustTokenize(";")
	deep := probe.MustTokenize(probe.NestSQL(probe.MaxNest() + 3))
	probes := probe.ParserProbes()

	type pop struct {
		op
		do func(s *pinst)
	}
	ops := []pop{
		{op{"parse-valid", "parse", ""}, func(s *pinst) { s.p.ParseFromModelTokens(valid) }},
		{op{"parse-invalid", "error", ""}, func(s *pinst) { s.p.ParseFromModelTokens(invalid) }},
		{op{"parsepos-invalid", "positions", ""}, func(s *pinst) { s.p.ParseFromModelTokensWithPositions(posBad) }},
		{op{"ctx-live", "parse", ""}, func(s *pinst) { s.p.ParseContextFromModelTokens(context.Background(), valid) }},
		// the usual "ctx, cancel := ...; defer cancel()" pattern: the context of a finished call is cancelled afterwards
		{op{"ctx-live-then-cancel", "parse", ""}, func(s *pinst) {
			ctx, cancel := context.WithCancel(context.Background())
			s.p.ParseContextFromModelTokens(ctx, valid)
			cancel()
		}},
		{op{"ctx-empty-then-cancel", "error", ""}, func(s *pinst) {
			ctx, cancel := context.WithCancel(context.Background())
			s.p.ParseContextFromModelTokens(ctx, emptyIn)
			cancel()
		}},
		{op{"ctx-invalid-then-cancel", "error", ""}, func(s *pinst) {
			ctx, cancel := context.WithCancel(context.Background())
			s.p.ParseContextFromModelTokens(ctx, invalid)
			cancel()
		}},
		{op{"ctx-cancelled", "cancel", ""}, func(s *pinst) {
			s.p.ParseContextFromModelTokens(probe.NewCountCtx(0, context.Canceled), canc)
		}},
		{op{"ctx-cancel-mid", "cancel", ""}, func(s *pinst) {
			s.p.ParseContextFromModelTokens(probe.NewCountCtx(5, context.Canceled), canc)
		}},
		{op{"recovery", "error", ""}, func(s *pinst) { s.p.ParseWithRecoveryFromModelTokens(rec) }},
		{op{"parse-too-deep", "depth-limit", ""}, func(s *pinst) { s.p.ParseFromModelTokens(deep) }},
		{op{"opt-strict", "option", ""}, func(s *pinst) { s.p.ApplyOptions(parser.WithStrictMode()); s.cfg.Strict = true }},
		{op{"opt-mysql", "option", ""}, func(s *pinst) { s.p.ApplyOptions(parser.WithDialect("mysql")); s.cfg.Dialect = "mysql" }},
		// Reset: "clears the parser state for reuse from the pool" -> like new, default configuration
		{op{"reset", "reset", "Reset"}, func(s *pinst) { s.p.Reset(); s.cfg = probe.PCfg{} }},
		// Release: "releases any resources held" by the same holder -> configuration stays
		{op{"release", "release", ""}, func(s *pinst) { s.p.Release() }},
		// PutParser: the same object is what the next holder obtains from the pool -> must be like new
		{op{"put", "put", "Put"}, func(s *pinst) { parser.PutParser(s.p); s.cfg = probe.PCfg{} }},
		{op{"new", "new", ""}, func(s *pinst) { s.p = parser.NewParser(); s.cfg = probe.PCfg{} }},
	}
	m := &machine{kind: "parser"}
	for _, o := range ops {
		m.ops = append(m.ops, o.op)
	}
	for _, p := range probes {
		m.probes = append(m.probes, p.Name)
	}
	runx := func(pre []int, ad pAdhoc, pi int, step func(int, inst)) (string, string) {
		s := &pinst{p: parser.NewParser()}
		for i, o := range pre {
			ops[o].do(s)
			if step != nil {
				step(i, s)
			}
		}
		if ad != nil {
			ad(s)
			if step != nil {
				step(len(pre), s)
			}
		}
		if pi < 0 {
			return "", ""
		}
		return probes[pi].Run(s.p), probe.PWant(s.cfg, probes[pi])
	}
	m.run = func(h []int, pi int, step func(int, inst)) (string, string) { return runx(h, nil, pi, step) }
	return m, runx
}

// ---------------------------------------------------------------- tokenizer machine

type tinst struct {
	t   *tokenizer.Tokenizer
	cfg probe.TCfg
}

func (s *tinst) dump() string { return s.cfg.String() + "|" + probe.Dump(s.t) }

// dirty: after PutTokenizer the next holder must see a new tokenizer; after
// Reset (documented "Keywords preserved", and called by Tokenize itself) the
// holder's dialect stays, everything else is like new.
func (s *tinst) dirty(after string) []string {
	ref := probe.TCfg{}
	var d []string
	for _, f := range probe.DiffFields(probe.Fields(s.t), probe.Fields(ref.New())) {
		if after == "Reset" && (f == "dialect" || f == "keywords") {
			// Reset is documented not to touch them; whether they hold what the
			// model says is decided by the probes and by the check after Put
			continue
		}
		d = append(d, "Tokenizer."+f)
	}
	return d
}

const (
	tValid    = "SELECT x,\n  y\nFROM t\nWHERE x = 'a\nb'"
	tUnterm   = "SELECT\n\n 'never closed"
	tComments = "/* head */ SELECT a -- one\n, b /* two */\nFROM t -- three"
)

var tooLarge []byte

var quietLogger = slog.New(slog.NewTextHandler(io.Discard, nil))

type tAdhoc func(s *tinst)

func tokenizerMachine() (*machine, func(pre []int, ad tAdhoc, pi int, step func(int, inst)) (string, string)) {
	probes := probe.TokenizerProbes()
	var long strings.Builder
	long.WriteString("SELECT ")
	for i := 0; i < 150; i++ {
		fmt.Fprintf(&long, "c%d, -- n\n", i)
	}
	long.WriteString("z FROM t")
	longIn := []byte(long.String())
	type top struct {
		op
		do func(s *tinst)
	}
	ops := []top{
		{op{"tok-valid", "tokenize", ""}, func(s *tinst) { s.t.Tokenize([]byte(tValid)) }},
		{op{"tok-unterminated", "error", ""}, func(s *tinst) { s.t.Tokenize([]byte(tUnterm)) }},
		{op{"tok-comments", "tokenize", ""}, func(s *tinst) { s.t.Tokenize([]byte(tComments)) }},
		{op{"tok-too-large", "error", ""}, func(s *tinst) {
			if tooLarge == nil {
				tooLarge = make([]byte, tokenizer.MaxInputSize+1)
				for i := range tooLarge {
					tooLarge[i] = ' '
				}
			}
			s.t.Tokenize(tooLarge)
		}},
		{op{"ctx-cancelled", "cancel", ""}, func(s *tinst) { s.t.TokenizeContext(probe.NewCountCtx(0, context.Canceled), longIn) }},
		{op{"ctx-cancel-mid", "cancel", ""}, func(s *tinst) { s.t.TokenizeContext(probe.NewCountCtx(3, context.Canceled), longIn) }},
		{op{"set-mysql", "option", ""}, func(s *tinst) { s.t.SetDialect(keywords.DialectMySQL); s.cfg.Dialect = keywords.DialectMySQL }},
		// a debug logger changes no result; Reset/Put are documented to drop it, which the field comparison checks
		{op{"set-logger", "option", ""}, func(s *tinst) { s.t.SetLogger(quietLogger) }},
		// Reset keeps the holder's dialect (documented), see tinst.dirty
		{op{"reset", "reset", "Reset"}, func(s *tinst) { s.t.Reset() }},
		{op{"put", "put", "Put"}, func(s *tinst) { tokenizer.PutTokenizer(s.t); s.cfg = probe.TCfg{} }},
		{op{"new", "new", ""}, func(s *tinst) { s.t = probe.TCfg{}.New(); s.cfg = probe.TCfg{} }},
	}
	m := &machine{kind: "tokenizer"}
	for _, o := range ops {
		m.ops = append(m.ops, o.op)
	}
	for _, p := range probes {
		m.probes = append(m.probes, p.Name)
	}
	runx := func(pre []int, ad tAdhoc, pi int, step func(int, inst)) (string, string) {
		s := &tinst{t: probe.TCfg{}.New()}
		for i, o := range pre {
			ops[o].do(s)
			if step != nil {
				step(i, s)
			}
		}
		if ad != nil {
			ad(s)
			if step != nil {
				step(len(pre), s)
			}
		}
		if pi < 0 {
			return "", ""
		}
		return probes[pi].Run(s.t), probe.TWant(s.cfg, probes[pi])
	}
	m.run = func(h []int, pi int, step func(int, inst)) (string, string) { return runx(h, nil, pi, step) }
	return m, runx
}

// ---------------------------------------------------------------- sweep families (every error path once)

// sweepBase are statements whose every proper prefix is fed to every parse
// entry point as a one-operation history: together the prefixes fail inside
// every production that sits under a depth-counting function, so a counter
// (or any other field) that is not restored on one error path is seen by the
// probes that follow.
var sweepBase = []string{
	"SELECT a FROM t WHERE (b = 1 OR c < 2) AND NOT d",
	"WITH c1 AS (SELECT a FROM t), c2 (x) AS (SELECT b FROM u) SELECT * FROM c1 JOIN c2 ON c1.a = c2.x",
	"SELECT CASE WHEN a > 1 THEN - - b ELSE f(c, d + 1) END FROM t",
	"SELECT a FROM t WHERE b IN (SELECT c FROM u WHERE EXISTS (SELECT 1 FROM v)) AND e BETWEEN 1 AND 2",
	"INSERT INTO t (a, b) VALUES (1, 'x'), (2, 'y')",
	"UPDATE t SET a = 1, b = b + 1 WHERE c = 2",
	"DELETE FROM t WHERE a = 1 AND b LIKE 'x%'",
	"SELECT a FROM t UNION ALL SELECT b FROM u ORDER BY 1 LIMIT 5",
	"SELECT f(a) OVER (PARTITION BY b ORDER BY c ROWS BETWEEN 1 PRECEDING AND CURRENT ROW) FROM t",
	"CREATE TABLE t (a INT PRIMARY KEY, b VARCHAR(10) NOT NULL)",
}

// prefixes returns the text of every proper token prefix of a one-line statement.
func prefixes(sql string) []string {
	toks := probe.MustTokenize(sql)
	var out []string
	for _, t := range toks {
		if t.Token.Type == models.TokenTypeEOF || t.Start.Line != 1 || t.Start.Column <= 1 {
			continue
		}
		out = append(out, strings.TrimRight(sql[:t.Start.Column-1], " "))
	}
	return out
}

// limitInputs nest each depth-counted construct until the counter trips.
func limitInputs() map[string]string {
	n := probe.MaxNest()
	m := map[string]string{
		"parens":     probe.NestSQL(n + 1),
		"signs":      "SELECT " + strings.Repeat("- ", 2*n) + "a FROM t",
		"parens-bad": "SELECT " + strings.Repeat("(", n) + "a +" + strings.Repeat(")", n) + " FROM t",
		"case":       "SELECT " + strings.Repeat("CASE WHEN ", n+1) + "a" + strings.Repeat(" THEN 1 END", n+1) + " FROM t",
		"subquery":   "SELECT a FROM t WHERE b = " + strings.Repeat("(SELECT ", n+1) + "1" + strings.Repeat(")", n+1),
	}
	var cte strings.Builder
	for i := 0; i < n+1; i++ {
		cte.WriteString("WITH c AS (")
	}
	cte.WriteString("SELECT 1")
	for i := 0; i < n+1; i++ {
		cte.WriteString(") SELECT 1")
	}
	m["cte"] = cte.String()
	return m
}

// Check returns the C08 check.
func Check() *common.Check {
	return &common.Check{
		ID:    "C08",
		Level: "model_checking",
		// every case is recorded before it runs: a fatal error or a hang of the worker is attributed to it
		CrashSafe: true,
		MemLimit:  8 << 30,
		Rule: "every history over the parser alphabet (17 operations: Parse valid/invalid, ParseWithPositions multi-line invalid, ParseContext live / already cancelled / cancelled at the 6th poll, " +
			"ParseWithRecovery, parse past the recursion limit, ApplyOptions strict / mysql, Reset, Release, PutParser with the same object then used as the next holder's, NewParser) and the tokenizer alphabet " +
			"(11 operations: Tokenize valid / unterminated string / comments / larger than MaxInputSize, TokenizeContext cancelled / cancelled at the 4th poll, SetDialect, SetLogger, Reset, PutTokenizer, New) of length 0..4 (quick) / 0..5 (thorough), " +
			"each executed from a newly constructed instance with the reference configuration in lock-step, followed by each of 15 parser (two of them ParseWithPositions on hand-built conversion results without / with a short position table, three of them observing where the context is polled and where a cancellation at the 4th / 9th poll lands) / 9 tokenizer probes (three of them inputs without a token) on its own re-execution; plus one-operation histories feeding 24 statements of kinds outside the model grammar (utility, session, role, dialect statements), every corpus file under /repo/testdata, every proper token prefix of 10 statements and 6 inputs nested past the depth limit to each of 4 parse entry points, " +
			"and every byte prefix of 3 inputs to both tokenize entry points; keyword shadows (the process-wide scratch buffer of the token conversion): for every keyword K of the identifier-keyword list of token_conversion.go, K with its last 2 / 3 bytes (thorough: any 2 / 3 bytes after the first) replaced by one non-ASCII letter, statement-initial and in a clause position, through each of 4 parse entry points, after a parse whose last converted word is K, K in upper case, or an identifier with K's bytes at the replaced offsets, compared with the same call after a parse whose last word overwrites the whole buffer; pool hand-out: every history of length <=5 (6) over 9 pool operations (GetParser, configure + parse, PutParser, Release + PutParser, ParseMultiWithRecovery, RecoveryResult.Release once / again, GetTokenizer, use + PutTokenizer) on the real pools (one P, collector off): no instance owned twice at any step or in the final drain, every parser handed out answers the probes like a new one; distinct = distinct history; non-trivial = at least two operations",
		Assume: []string{
			"reference model: configuration = (strict, dialect) for a parser, (dialect) for a tokenizer; New/Get/Put give the default, ApplyOptions/SetDialect update it, Parser.Reset gives the default (documented: clears the state for reuse from the pool), Parser.Release keeps it (same holder), Tokenizer.Reset keeps the dialect (documented 'Keywords preserved'; Tokenize calls it)",
			"after PutParser/PutTokenizer the same pointer stands for what the next holder obtains from the pool (sync.Pool may hand out exactly that object)",
			"inputs avoid tuple/array constructors so that pooled AST nodes (property C09) cannot influence a tree",
			"Tokenizer.Comments is compared only after a successful call",
			"small-scope hypothesis: a carry-over needs at most 4 (5) operations to set up",
		},
		Enumerate: func(e *common.Enum) {
			// millions of short-lived parses over a live heap of ~10 MB: with the default
			// GC pacing three quarters of the CPU time is background sweeping
			debug.SetGCPercent(800)
			depth := 4
			if e.Thorough() {
				depth = 5
			}
			enumeratePool(e)
			enumerateShadow(e)
			pm, prun := parserMachine()
			tm, trun := tokenizerMachine()
			histories(len(pm.ops), depth, func(h []int) {
				key := "P:" + pm.names(h)
				if !e.Mine(key) {
					return
				}
				hh := append([]int{}, h...)
				e.Do(key, func(c *common.Ctx) {
					if len(hh) == depth {
						c.Sample("parser: " + pm.names(hh))
					}
					pm.check(c, hh)
				})
			})
			histories(len(tm.ops), depth, func(h []int) {
				key := "T:" + tm.names(h)
				if !e.Mine(key) {
					return
				}
				hh := append([]int{}, h...)
				e.Do(key, func(c *common.Ctx) {
					if len(hh) == depth {
						c.Sample("tokenizer: " + tm.names(hh))
					}
					tm.check(c, hh)
				})
			})

			// sweep: every error path of the parser once, through every entry point
			type entry struct {
				name  string
				class string
				call  func(p *parser.Parser, toks []models.TokenWithSpan)
			}
			entries := []entry{
				{"Parse", "error", func(p *parser.Parser, t []models.TokenWithSpan) { p.ParseFromModelTokens(t) }},
				{"ParseWithPositions", "positions", func(p *parser.Parser, t []models.TokenWithSpan) { p.ParseFromModelTokensWithPositions(t) }},
				{"ParseContext", "error", func(p *parser.Parser, t []models.TokenWithSpan) {
					p.ParseContextFromModelTokens(context.Background(), t)
				}},
				{"ParseWithRecovery", "error", func(p *parser.Parser, t []models.TokenWithSpan) { p.ParseWithRecoveryFromModelTokens(t) }},
			}
			var inputs []string
			for _, b := range sweepBase {
				inputs = append(inputs, prefixes(b)...)
			}
			lim := limitInputs()
			for _, k := range []string{"parens", "signs", "parens-bad", "case", "subquery", "cte"} {
				inputs = append(inputs, lim[k])
			}
			// every statement of the model grammar once (successful parses of every construct leave no residue
			// either: added after the independently seeded change seeded/C07b leaked one nesting level per
			// joined derived table and was invisible to the fixed alphabet)
			seenStmt := map[string]bool{}
			sqlgen.All(false, func(name string, s sqlgen.S) {
				if strings.HasPrefix(name, "shape") || strings.HasPrefix(name, "holeshape") || strings.HasPrefix(name, "subsets") {
					if !e.Thorough() || strings.HasPrefix(name, "shape3") {
						return
					}
				}
				sql := s.SQL()
				if !seenStmt[sql] {
					seenStmt[sql] = true
					inputs = append(inputs, sql)
				}
			})
			// statement kinds outside the model grammar (utility, session, role and dialect statements), accepted and not, and
			// every corpus file of the repository: whatever a statement is taken for must not be written into the parser
			for _, sql := range []string{"SHOW TABLES", "SHOW COLUMNS FROM t1", "SHOW", "DESCRIBE t1", "EXPLAIN SELECT c1 FROM t1", "REPLACE INTO t1 (c1) VALUES (1)",
				"REPLACE t1 (c1) VALUES (1)", "SELECT 1; SHOW DATABASES", "SET x = 1", "USE db1", "BEGIN", "COMMIT", "CALL p1()", "PRAGMA table_info(t1)",
				"GRANT SELECT ON t1 TO r1", "CREATE ROLE r1", "ALTER ROLE r1 WITH LOGIN", "DROP ROLE r1", "ALTER POLICY p1 ON t1 USING (c1 = 1)", "CREATE TRIGGER g1 AFTER INSERT ON t1 FOR EACH ROW EXECUTE FUNCTION f1()",
				"SELECT TOP 5 c1 FROM t1", "SELECT c1 FROM t1 LIMIT 5, 10", "SELECT * FROM t1 WITH (NOLOCK)", "SELECT c1 FROM t1 QUALIFY ROW_NUMBER() OVER (ORDER BY c1) = 1"} {
				inputs = append(inputs, sql)
			}
			var corpus []string
			filepath.Walk("/repo/testdata", func(p string, info os.FileInfo, err error) error {
				if err == nil && !info.IsDir() && strings.HasSuffix(p, ".sql") {
					corpus = append(corpus, p)
				}
				return nil
			})
			sort.Strings(corpus)
			for _, p := range corpus {
				b, err := os.ReadFile(p)
				if err != nil {
					continue
				}
				if tk, terr := tokenizer.New(); terr == nil {
					if _, terr = tk.Tokenize(b); terr == nil {
						inputs = append(inputs, string(b))
					}
				}
			}
			pprobes := probe.ParserProbes()
			for _, in := range inputs {
				for _, en := range entries {
					in, en := in, en
					key := "PS:" + en.name + ":" + in
					if len(key) > 160 {
						key = fmt.Sprintf("%s…#%x", key[:160], common.Hash64(key))
					}
					if !e.Mine(key) {
						continue
					}
					e.Do(key, func(c *common.Ctx) {
						c.Input("parser sweep: " + en.name + "(" + in + ")")
						toks := probe.MustTokenize(in)
						ad := func(s *pinst) { en.call(s.p, toks) }
						prun(nil, ad, -1, func(i int, s inst) {
							c.State(common.Hash64("parser|" + s.dump()))
							c.Count("transitions", 1)
						})
						bad := false
						for pi, pr := range pprobes {
							c.Count("probe_calls", 1)
							if g, w := prun(nil, ad, pi, nil); g != w {
								bad = true
								c.Fail("probe-differs:parser:"+aspect(pr.Name, g, w)+":after-"+en.class,
									fmt.Sprintf("probe %q after %s(%q)\n got: %s\nwant: %s  (same call on a newly constructed parser)", pr.Name, en.name, in, common.Trim(g, 600), common.Trim(w, 600)))
							}
						}
						if bad {
							c.Outcome("sweep-differs")
						} else {
							c.Outcome("sweep-agrees")
						}
						c.NonTrivial()
					})
				}
			}

			// sweep: every byte prefix of comment / string / multi-line inputs through both tokenize entry points
			tprobes := probe.TokenizerProbes()
			for _, base := range []string{tValid, tComments, "SELECT $tag$ body\n$tag$, \"q\"\"x\", `b` /* c\n*/ FROM t"} {
				for cut := 1; cut < len(base); cut++ {
					in := base[:cut]
					for _, en := range []string{"Tokenize", "TokenizeContext"} {
						en := en
						key := "TS:" + en + ":" + in
						if !e.Mine(key) {
							continue
						}
						e.Do(key, func(c *common.Ctx) {
							c.Input("tokenizer sweep: " + en + "(" + in + ")")
							class := "tokenize"
							ad := func(s *tinst) {
								var err error
								if en == "Tokenize" {
									_, err = s.t.Tokenize([]byte(in))
								} else {
									_, err = s.t.TokenizeContext(context.Background(), []byte(in))
								}
								if err != nil {
									class = "error"
								}
							}
							trun(nil, ad, -1, func(i int, s inst) {
								c.State(common.Hash64("tokenizer|" + s.dump()))
								c.Count("transitions", 1)
							})
							bad := false
							for pi, pr := range tprobes {
								c.Count("probe_calls", 1)
								if g, w := trun(nil, ad, pi, nil); g != w {
									bad = true
									c.Fail("probe-differs:tokenizer:"+aspect(pr.Name, g, w)+":after-"+class,
										fmt.Sprintf("probe %q after %s(%q)\n got: %s\nwant: %s  (same call on a newly constructed tokenizer)", pr.Name, en, in, common.Trim(g, 600), common.Trim(w, 600)))
								}
							}
							if bad {
								c.Outcome("sweep-differs")
							} else {
								c.Outcome("sweep-agrees")
							}
							c.NonTrivial()
						})
					}
				}
			}
		},
	}
}
