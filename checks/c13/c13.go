// Package c13 checks property C13 (every failure is a structured, classifiable, reproducible error).
package c13

import (
	"context"
	"errors"
	"fmt"
	"regexp"
	"strings"

	goerrors "github.com/ajitpratap0/GoSQLX/pkg/errors"
	"github.com/ajitpratap0/GoSQLX/pkg/gosqlx"
	"github.com/ajitpratap0/GoSQLX/pkg/models"
	"github.com/ajitpratap0/GoSQLX/pkg/sql/parser"
	"github.com/ajitpratap0/GoSQLX/pkg/sql/tokenizer"

	"verif/checks/c08/probe"
	"verif/engine/common"
	"verif/lexgen"
	"verif/sqlgen"
)

// documented codes (pkg/errors/errors.go)
var documented = map[string]bool{
	"E1001": true, "E1002": true, "E1003": true, "E1004": true, "E1005": true, "E1006": true, "E1007": true, "E1008": true,
	"E2001": true, "E2002": true, "E2003": true, "E2004": true, "E2005": true, "E2006": true, "E2007": true, "E2008": true, "E2009": true, "E2010": true, "E2011": true, "E2012": true,
	"E3001": true, "E3002": true, "E3003": true, "E3004": true, "E4001": true, "E4002": true,
}

type entry struct {
	name string
	run  func(sql string) error
}

var entries = []entry{
	{"tokenizer.Tokenize", func(s string) error {
		t := tokenizer.GetTokenizer()
		defer tokenizer.PutTokenizer(t)
		_, err := t.Tokenize([]byte(s))
		return err
	}},
	{"gosqlx.Parse", func(s string) error { _, err := gosqlx.Parse(s); return err }},
	{"gosqlx.Validate", func(s string) error { return gosqlx.Validate(s) }},
	{"gosqlx.ParseWithContext", func(s string) error { _, err := gosqlx.ParseWithContext(context.Background(), s); return err }},
	{"gosqlx.ParseMultiple", func(s string) error { _, err := gosqlx.ParseMultiple([]string{s}); return err }},
	{"gosqlx.ParseWithRecovery", func(s string) error {
		_, errs := gosqlx.ParseWithRecovery(s)
		if len(errs) > 0 {
			return errs[0]
		}
		return nil
	}},
	{"parser.ValidateBytes", func(s string) error { return parser.ValidateBytes([]byte(s)) }},
	{"parser.ParseBytes", func(s string) error { _, err := parser.ParseBytes([]byte(s)); return err }},
	{"parser.ParseWithDialect(mysql)", func(s string) error { _, err := parser.ParseWithDialect(s, "mysql"); return err }},
	{"Parser.ParseWithPositions", func(s string) error {
		t := tokenizer.GetTokenizer()
		defer tokenizer.PutTokenizer(t)
		toks, err := t.Tokenize([]byte(s))
		if err != nil {
			return err
		}
		p := parser.NewParser()
		defer p.Release()
		_, err = p.ParseFromModelTokensWithPositions(toks)
		return err
	}},
}

var (
	quoted = regexp.MustCompile(`'[^']*'|"[^"]*"|\([^)]*\)`)
	digits = regexp.MustCompile(`[0-9]+`)
)

// template reduces a message to its fixed words (the error-construction site).
func template(msg string) string {
	m := quoted.ReplaceAllString(msg, "_")
	m = digits.ReplaceAllString(m, "_")
	if i := strings.Index(m, ":"); i > 0 && i < 60 {
		m = m[:i]
	}
	f := strings.Fields(m)
	if len(f) > 5 {
		f = f[:5]
	}
	return strings.Join(f, "-")
}

type obs struct {
	code string
	msg  string
	loc  models.Location
	ok   bool // structured
	text string
}

func observe(err error) obs {
	var e *goerrors.Error
	if errors.As(err, &e) {
		return obs{code: string(e.Code), msg: e.Message, loc: e.Location, ok: true, text: err.Error()}
	}
	return obs{text: err.Error()}
}

func inside(loc models.Location, input string) bool {
	lines := strings.Split(input, "\n")
	if loc.Line < 1 || loc.Line > len(lines) {
		// a location on the line just after a trailing newline is still inside the input
		return false
	}
	l := lines[loc.Line-1]
	// the tokenizer counts a tab as four columns (columnWidth): the width of a line with tabs is not its byte length
	return loc.Column >= 1 && loc.Column <= len(l)+3*strings.Count(l, "\t")+1
}

func checkInput(c *common.Ctx, input, class string) {
	c.Input(input)
	// stage: does the tokenizer reject it?
	lexErr := entries[0].run(input)
	stage := "parse"
	if lexErr != nil {
		stage = "lexical"
	}
	anyFail := false
	for _, e := range entries {
		var err error
		pan := ""
		func() {
			defer func() {
				if r := recover(); r != nil {
					pan = fmt.Sprint(r)
				}
			}()
			err = e.run(input)
		}()
		if pan != "" {
			continue // C01's business
		}
		if err == nil {
			continue
		}
		anyFail = true
		o := observe(err)
		if !o.ok {
			c.Fail("unstructured:"+e.name+":"+stage+":"+template(o.text), fmt.Sprintf("%s returns an error that exposes no *errors.Error through errors.As: %v", e.name, err))
			continue
		}
		c.Outcome(stage + ":" + o.code)
		if !documented[o.code] {
			c.Fail("undocumented-code:"+o.code, fmt.Sprintf("%s: code %q is not a documented error code: %v", e.name, o.code, err))
		}
		switch stage {
		case "lexical":
			if !strings.HasPrefix(o.code, "E1") {
				c.Fail("wrong-family:lexical:"+o.code+":"+template(o.msg), fmt.Sprintf("%s: the tokenizer rejects this input, yet the error carries the non-tokenizer code %s: %v", e.name, o.code, err))
			}
		case "parse":
			if !strings.HasPrefix(o.code, "E2") && o.code != "E4001" && o.code != "E4002" {
				c.Fail("wrong-family:parse:"+o.code+":"+template(o.msg), fmt.Sprintf("%s: the input tokenizes and fails in the parser, yet the error carries code %s: %v", e.name, o.code, err))
			}
		}
		if strings.TrimSpace(o.msg) == "" {
			c.Fail("empty-message:"+o.code, fmt.Sprintf("%s: structured error with an empty message: %v", e.name, err))
		}
		if o.loc.Line > 0 && !inside(o.loc, input) {
			c.Fail("location-outside-input:"+o.code+":"+template(o.msg), fmt.Sprintf("%s: location %d:%d lies outside the input (%d lines): %v", e.name, o.loc.Line, o.loc.Column, strings.Count(input, "\n")+1, err))
		}
		// reproducible
		err2 := e.run(input)
		if err2 == nil {
			c.Fail("not-reproducible:"+e.name, "second call succeeded")
		} else if o2 := observe(err2); o2.code != o.code || o2.msg != o.msg || o2.loc != o.loc {
			c.Fail("not-reproducible:"+e.name, fmt.Sprintf("two calls differ: %v / %v", err, err2))
		}
	}
	if anyFail && stage == "parse" {
		history(c, input)
	}
	if anyFail && stage != "parse" {
		lexHistory(c, input)
	}
	if anyFail {
		c.NonTrivial()
	} else {
		c.Outcome("accepted")
	}
}

var (
	nestProbe     string
	nestProbeToks []models.TokenWithSpan
)

// lexHistory is the history clause for inputs the tokenizer rejects: one Tokenizer object (as a holder reuses it, and as the
// pool hands it on) first tokenizes a primer - texts whose line structure, tabs and length differ from the input's - and then
// the rejected input, bare and pushed right by blanks beyond the primer's length, through both tokenizing entry points.
// Code, message and location must be those a new tokenizer reports.
var lexPrimers = []string{"\tSELECT 1", "SELECT a,\n\tb,\n\t\tc\nFROM t -- x", "/* c\n c */ SELECT '\n\n'", "SELECT 'unterminated", ""}

func lexHistory(c *common.Ctx, input string) {
	type tokFn struct {
		name string
		run  func(t *tokenizer.Tokenizer, b []byte) error
	}
	fns := []tokFn{
		{"Tokenize", func(t *tokenizer.Tokenizer, b []byte) error { _, err := t.Tokenize(b); return err }},
		{"TokenizeContext", func(t *tokenizer.Tokenizer, b []byte) error {
			_, err := t.TokenizeContext(context.Background(), b)
			return err
		}},
	}
	for _, pad := range []string{"", "            ", "\n\n   "} {
		text := []byte(pad + input)
		for _, second := range fns {
			fresh, _ := tokenizer.New()
			want := second.run(fresh, text)
			if want == nil {
				continue
			}
			ow := observe(want)
			for pi, primer := range lexPrimers {
				for _, first := range fns {
					for _, via := range []string{"held", "pool"} {
						var t *tokenizer.Tokenizer
						if via == "held" {
							t, _ = tokenizer.New()
							_ = first.run(t, []byte(primer))
						} else {
							p := tokenizer.GetTokenizer()
							_ = first.run(p, []byte(primer))
							tokenizer.PutTokenizer(p)
							t = tokenizer.GetTokenizer()
						}
						got := second.run(t, text)
						if via == "pool" {
							tokenizer.PutTokenizer(t)
						}
						c.Count("lexical_histories", 1)
						if got == nil {
							c.Fail("history-dependent:reused-tokenizer:"+second.name, fmt.Sprintf("after %s of primer %d (%s) %s accepts what a new tokenizer rejects with %v", first.name, pi, via, second.name, want))
							return
						}
						if o := observe(got); o.code != ow.code || o.msg != ow.msg || o.loc != ow.loc {
							c.Fail("history-dependent:reused-tokenizer:"+second.name, fmt.Sprintf("after %s of primer %d %q (%s) %s of %q reports %v, a new tokenizer %v", first.name, pi, primer, via, second.name, string(text), got, want))
							return
						}
					}
				}
			}
		}
	}
}

// history evaluates "the same input always produces the same code, message and location" and "limit codes for limit
// violations only" across a history instead of across two fresh calls: a rejected input is followed, on the same
// Parser object and inside one recovery call, by a statement that sits exactly at the nesting limit (accepted on a
// fresh parser) and by the rejected input again.  Whatever the failed parse left behind must not show.
func history(c *common.Ctx, input string) {
	if nestProbe == "" {
		nestProbe = probe.NestSQL(probe.MaxNest())
		nestProbeToks = probe.MustTokenize(nestProbe)
	}
	tk := tokenizer.GetTokenizer()
	toks, err := tk.Tokenize([]byte(input))
	if err == nil {
		toks = append([]models.TokenWithSpan{}, toks...)
	}
	tokenizer.PutTokenizer(tk)
	if err != nil {
		return
	}
	fresh := func(t []models.TokenWithSpan) error {
		p := parser.NewParser()
		defer p.Release()
		_, e := p.ParseFromModelTokensWithPositions(t)
		return e
	}
	want := fresh(toks)
	if want == nil || fresh(nestProbeToks) != nil {
		return
	}
	p := parser.NewParser()
	defer p.Release()
	_, e1 := p.ParseFromModelTokensWithPositions(toks)
	_, ep := p.ParseFromModelTokensWithPositions(nestProbeToks)
	_, e2 := p.ParseFromModelTokensWithPositions(toks)
	ow := observe(want)
	for i, got := range []error{e1, e2} {
		if got == nil {
			c.Fail("history-dependent:reused-parser", fmt.Sprintf("call %d on a reused parser accepts what a fresh parser rejects with %v", 2*i+1, want))
		} else if o := observe(got); o.code != ow.code || o.msg != ow.msg || o.loc != ow.loc {
			c.Fail("history-dependent:reused-parser", fmt.Sprintf("call %d on a reused parser reports %v, a fresh parser %v", 2*i+1, got, want))
		}
	}
	// the same with other calls in between: a parse under a context that is done at entry, one cancelled in the middle of a
	// statement, a recovering parse of the rejected input, an accepted statement
	dead, cancel := context.WithCancel(context.Background())
	cancel()
	between := []struct {
		name string
		run  func(p *parser.Parser)
	}{
		{"ParseContext(done context)", func(p *parser.Parser) { _, _ = p.ParseContextFromModelTokens(dead, nestProbeToks) }},
		{"ParseContext(deadline passed)", func(p *parser.Parser) {
			_, _ = p.ParseContextFromModelTokens(probe.NewCountCtx(0, context.DeadlineExceeded), toks)
		}},
		{"ParseContext(cancelled mid-statement)", func(p *parser.Parser) {
			_, _ = p.ParseContextFromModelTokens(probe.NewCountCtx(4, context.Canceled), nestProbeToks)
		}},
		{"ParseWithRecovery(same input)", func(p *parser.Parser) { _, _ = p.ParseWithRecoveryFromModelTokens(toks) }},
		{"Parse(accepted statement, no positions)", func(p *parser.Parser) { _, _ = p.ParseFromModelTokens(nestProbeToks) }},
	}
	for _, b := range between {
		q := parser.NewParser()
		_, _ = q.ParseFromModelTokensWithPositions(toks)
		b.run(q)
		_, got := q.ParseFromModelTokensWithPositions(toks)
		if got == nil {
			c.Fail("history-dependent:reused-parser", fmt.Sprintf("after %s the same parser accepts what a fresh parser rejects with %v", b.name, want))
		} else if o := observe(got); o.code != ow.code || o.msg != ow.msg || o.loc != ow.loc {
			c.Fail("history-dependent:reused-parser", fmt.Sprintf("after %s the same parser reports %v, a fresh parser %v", b.name, got, want))
		}
		q.Release()
	}
	if ep != nil {
		c.Fail("limit-code-without-violation:reused-parser:"+observe(ep).code, fmt.Sprintf("after this rejected input the same parser rejects a statement at (not over) the nesting limit: %s", common.Trim(ep.Error(), 300)))
	}
	// one recovery call: the rejected input, then the statement at the limit
	_, errsAlone := gosqlx.ParseWithRecovery(input)
	_, errsBoth := gosqlx.ParseWithRecovery(input + "\n;\n" + nestProbe)
	codes := map[string]bool{}
	for _, e := range errsAlone {
		codes[observe(e).code] = true
	}
	for _, e := range errsBoth {
		if o := observe(e); (o.code == "E2007" || o.code == "E2011") && !codes[o.code] {
			c.Fail("limit-code-without-violation:recovery:"+o.code, fmt.Sprintf("recovery of the input followed by a statement at (not over) the nesting limit reports the limit code %s, which the input alone does not: %s", o.code, common.Trim(e.Error(), 300)))
		}
	}
}

// Check returns the C13 check.
func Check() *common.Check {
	return &common.Check{
		ID:    "C13",
		Level: "exploration",
		// every case is recorded before it runs: a fatal error or a hang of the worker is attributed to it
		CrashSafe: true,
		Rule: "inputs: every single-token deletion, duplication and replacement (13 tokens, one of every lexical kind) of a spread of 300 (quick) / 2000 (thorough) sqlgen statements; every ordered pair of 7 inputs without a statement (empty, blank, comments, semicolons; one and several lines) in one case; every number position of every clause-option / DML / DDL statement x 10 number forms and magnitudes (0, 2^63-1, 2^63, 20 digits, fraction, exponent, sign, leading zeros, hex, overflowing exponent); all fragment strings of length <=3 (quick) / <=4 (thorough) over lexgen's 37-fragment lexical alphabet (bad escapes, unterminated literals, lone punctuation, control bytes); " +
			"nesting beyond the depth limit in 6 constructs; an input one byte over the size limit; each through 10 failing-capable entry points; every input the parser (not the tokenizer) rejects is also run as a history: rejected input, a statement exactly at the nesting limit, the rejected input again - on one Parser object, and with five other calls in between (ParseContext under a context done at entry / with a passed deadline / cancelled mid-statement, a recovering parse, a parse without positions) and (first two) inside one recovery call. every input the tokenizer rejects is also run as a lexical history: one Tokenizer object (held, or handed on by the pool) tokenizes one of 5 primers through Tokenize / TokenizeContext and then the input, bare and behind two paddings, through both. distinct = distinct input text; non-trivial = at least one entry point rejects the input",
		Assume: []string{"stage of a failure = whether tokenizer.Tokenize alone rejects the input", "message template = message with quoted/numeric parts removed, first five words before the first colon"},
		Enumerate: func(e *common.Enum) {
			seen := map[string]bool{}
			var valid []sqlgen.S
			sqlgen.All(false, func(name string, s sqlgen.S) {
				if strings.HasPrefix(name, "shape2") || strings.HasPrefix(name, "shape3") || strings.HasPrefix(name, "subsets") {
					return
				}
				sql := s.SQL()
				if !seen[sql] {
					seen[sql] = true
					valid = append(valid, s)
				}
			})
			n := 300
			if e.Thorough() {
				n = 2000
			}
			// one replacement token of every lexical kind: punctuation, keyword, unterminated literal, stray operator, the
			// number forms, a string, an identifier, NULL, a star
			hostile := []string{")", ",", "SELECT", "]", "'x", "@@", "1.5", "1e3", "99999999999999999999", "'s'", "zz", "NULL", "*"}
			step := len(valid)/n + 1
			for i := 0; i < len(valid); i += step {
				s := valid[i]
				for k := range s.Toks {
					del := append(append([]sqlgen.Tok{}, s.Toks[:k]...), s.Toks[k+1:]...)
					dup := append(append(append([]sqlgen.Tok{}, s.Toks[:k+1]...), s.Toks[k]), s.Toks[k+1:]...)
					for _, toks := range [][]sqlgen.Tok{del, dup} {
						sql := sqlgen.Render(toks, sqlgen.LLines)
						if strings.Trim(sql, "; \t\r\n") == "" {
							continue
						}
						e.Do("corrupt|"+sql, func(c *common.Ctx) { checkInput(c, sql, "corrupt") })
					}
					for _, h := range hostile {
						rep := append([]sqlgen.Tok{}, s.Toks...)
						rep[k] = sqlgen.Tok{S: h}
						sql := sqlgen.Render(rep, sqlgen.LLines)
						e.Do("corrupt|"+sql, func(c *common.Ctx) { checkInput(c, sql, "corrupt") })
					}
				}
			}
			// inputs without any statement (empty, blank, comments, semicolons; one line and several): each alone, and every
			// ordered pair in one case - what the first leaves behind anywhere in the process (a shared error value, a cache)
			// must not show in the code, message or location reported for the second
			stmtless := []string{"", " ", ";", "\n\n\n\n;", "-- a\n-- b\n\n", "/* c */\n\n  ;;\n", "\t\n;\n\n\n\n\n"}
			for _, a1 := range stmtless {
				for _, b1 := range stmtless {
					a1, b1 := a1, b1
					e.Do(fmt.Sprintf("stmtless|%q|%q", a1, b1), func(c *common.Ctx) {
						checkInput(c, a1, "statement-less")
						checkInput(c, b1, "statement-less")
					})
				}
			}
			// every position that holds a number, in every clause-option / DML / DDL statement (not a spread): counts, sizes,
			// offsets and frame bounds are converted by the clause that owns them - each number form and magnitude there
			numForms := []string{"0", "9223372036854775807", "9223372036854775808", "99999999999999999999", "1.5", "1e3", "-1", "007", "0x10", "1e400"}
			numberPos := func(name string, st sqlgen.S) {
				for k, t := range st.Toks {
					if t.S == "" || t.S[0] < '0' || t.S[0] > '9' {
						continue
					}
					for _, f := range numForms {
						rep := append([]sqlgen.Tok{}, st.Toks...)
						rep[k] = sqlgen.Tok{S: f}
						sql := sqlgen.Render(rep, sqlgen.LNatural)
						e.Do("number|"+sql, func(c *common.Ctx) { checkInput(c, sql, "number") })
					}
				}
			}
			sqlgen.ClauseOptions(numberPos)
			sqlgen.DMLCases(numberPos)
			sqlgen.DDLCases(numberPos)
			L := 3
			if e.Thorough() {
				L = 4
			}
			lexgen.FragStrings(L, func(key, text string, n int) {
				if strings.Trim(text, "; \t\r\n") == "" {
					return
				}
				e.Do("frag|"+key, func(c *common.Ctx) { c.Sample(text); checkInput(c, text, "lexical") })
				sel := "SELECT " + text + " FROM t"
				e.Do("frag-in-select|"+key, func(c *common.Ctx) { checkInput(c, sel, "lexical") })
			})
			// limits
			fam := map[string]func(n int) string{
				"parens": func(n int) string { return "SELECT " + strings.Repeat("(", n) + "1" + strings.Repeat(")", n) },
				"calls":  func(n int) string { return "SELECT " + strings.Repeat("f(", n) + "1" + strings.Repeat(")", n) },
				"case": func(n int) string {
					return "SELECT " + strings.Repeat("CASE WHEN ", n) + "1" + strings.Repeat(" THEN 1 END", n)
				},
				"subquery": func(n int) string {
					return "SELECT 1 FROM t WHERE 1 IN " + strings.Repeat("(SELECT 1 FROM t WHERE 1 IN ", n) + "(1)" + strings.Repeat(")", n)
				},
				"array": func(n int) string { return "SELECT " + strings.Repeat("ARRAY[", n) + "1" + strings.Repeat("]", n) },
				"sign":  func(n int) string { return "SELECT " + strings.Repeat("- ", n) + "1" },
			}
			for k, f := range fam {
				k, f := k, f
				sql := f(300)
				e.Do("limit|depth|"+k, func(c *common.Ctx) {
					if _, err := gosqlx.Parse(f(3)); err != nil {
						c.Outcome("limit-family-not-accepted-at-depth-3")
						return // the construct itself is rejected: C03's business
					}
					checkInput(c, sql, "limit")
					_, err := gosqlx.Parse(sql)
					if err != nil {
						if o := observe(err); o.ok && o.code != "E2007" && o.code != "E2011" {
							c.Fail("wrong-limit-code:depth:"+k+":"+o.code, fmt.Sprintf("nesting %s beyond the depth limit is rejected with %s, not the dedicated recursion-limit code: %s", k, o.code, common.Trim(err.Error(), 300)))
						}
					}
				})
			}
			e.Do("limit|size", func(c *common.Ctx) {
				big := "SELECT 1 " + strings.Repeat(" ", tokenizer.MaxInputSize)
				c.Input(fmt.Sprintf("SELECT 1 + %d spaces", tokenizer.MaxInputSize))
				for _, en := range entries[:3] {
					err := en.run(big)
					if err == nil {
						continue // C02's business
					}
					o := observe(err)
					if !o.ok {
						c.Fail("unstructured:"+en.name+":limit", fmt.Sprintf("%v", common.Trim(err.Error(), 300)))
					} else if o.code != "E1006" {
						c.Fail("wrong-limit-code:size:"+o.code, fmt.Sprintf("%s: input over the size limit rejected with %s", en.name, o.code))
					}
				}
				c.NonTrivial()
			})
		},
	}
}
