package c17

import (
	"bytes"
	"encoding/json"
	"fmt"
	"os"
	"path/filepath"
	"strconv"
	"strings"
	"unicode/utf8"

	cli "github.com/ajitpratap0/GoSQLX/cmd/gosqlx/cmd"
	"github.com/ajitpratap0/GoSQLX/pkg/linter"
	"github.com/ajitpratap0/GoSQLX/pkg/linter/rules/keywords"
	"github.com/ajitpratap0/GoSQLX/pkg/linter/rules/style"
	"github.com/ajitpratap0/GoSQLX/pkg/linter/rules/whitespace"
	"github.com/ajitpratap0/GoSQLX/pkg/lsp"

	"verif/engine/common"
)

// The rules, configured as the CLI configures them (cmd/gosqlx/cmd/lint.go createLinter:
// max 1 blank line, max line length 100, upper-case keywords).
const (
	maxBlank = 1
	maxLen   = 100
)

type namedRule struct {
	name string // used in signatures
	rule linter.Rule
}

func layoutRules() []namedRule {
	return []namedRule{
		{"trailing-whitespace", whitespace.NewTrailingWhitespaceRule()},
		{"mixed-indentation", whitespace.NewMixedIndentationRule()},
		{"blank-lines", whitespace.NewConsecutiveBlankLinesRule(maxBlank)},
		{"long-lines", whitespace.NewLongLinesRule(maxLen)},
		{"redundant-whitespace", whitespace.NewRedundantWhitespaceRule()},
		{"keyword-case", keywords.NewKeywordCaseRule(keywords.CaseUpper)},
	}
}

// otherRules are the remaining rules of the CLI's rule set; only the location
// clause of the property applies to them.
func otherRules() []namedRule {
	return []namedRule{
		{"indentation-depth", whitespace.NewIndentationDepthRule(4, 4)},
		{"column-alignment", style.NewColumnAlignmentRule()},
		{"comma-placement", style.NewCommaPlacementRule(style.CommaTrailing)},
		{"aliasing-consistency", style.NewAliasingConsistencyRule(true)},
	}
}

// lintWith runs the given rules through the library's Linter on a text.
func lintWith(text string, rules ...linter.Rule) ([]linter.Violation, error) {
	r := linter.New(rules...).LintString(text, "t.sql")
	return r.Violations, r.Error
}

// ---------------------------------------------------------------- CLI: lint --auto-fix

var cliDir string

func cliFile() string {
	if cliDir == "" {
		cliDir = filepath.Dir(common.Work("c17", fmt.Sprintf("w%d", os.Getpid()), "t.sql"))
	}
	return filepath.Join(cliDir, "t.sql")
}

func cleanupCLI() {
	if cliDir != "" {
		os.RemoveAll(cliDir)
	}
}

var devNull *os.File

// content of the scratch file as far as this process knows (it is the only writer)
var cliFileHolds = "\x00"

// cliAutoFix runs the real command `gosqlx lint --auto-fix <file>` in this process
// (cmd.Execute is what main() calls) on a scratch file and returns the file's
// content afterwards.
func cliAutoFix(text string) (string, error) {
	p := cliFile()
	if text != cliFileHolds {
		cliFileHolds = "\x00"
		if err := os.WriteFile(p, []byte(text), 0o644); err != nil {
			return "", err
		}
	}
	if devNull == nil {
		devNull, _ = os.OpenFile(os.DevNull, os.O_WRONLY, 0)
	}
	oldArgs, so, se := os.Args, os.Stdout, os.Stderr
	os.Args = []string{"gosqlx", "lint", "--auto-fix", p}
	os.Stdout, os.Stderr = devNull, devNull
	func() {
		defer func() { os.Args, os.Stdout, os.Stderr = oldArgs, so, se }()
		// a non-nil error only says that violations were found
		_ = cli.Execute()
	}()
	b, err := os.ReadFile(p)
	if err == nil {
		cliFileHolds = string(b)
	}
	return string(b), err
}

// ---------------------------------------------------------------- LSP: textDocument/formatting

func frame(v any) []byte {
	b, _ := json.Marshal(v)
	return []byte(fmt.Sprintf("Content-Length: %d\r\n\r\n%s", len(b), b))
}

type obj = map[string]any

var errServerPanic = fmt.Errorf("language server panicked")

// lspFormat opens the text in a fresh language server (real lsp.Server reading
// framed JSON-RPC from an in-memory stream), asks for textDocument/formatting with
// the given indentation option, and applies the returned edits to the text.
func lspFormat(text string, insertSpaces bool) (res string, err error) {
	const uri = "file:///t.sql"
	defer func() {
		// a server that panics on a text is the business of C18, not of this property
		if r := recover(); r != nil {
			res, err = "", errServerPanic
		}
	}()
	var in bytes.Buffer
	in.Write(frame(obj{"jsonrpc": "2.0", "id": 1, "method": "initialize", "params": obj{"processId": nil, "rootUri": nil, "capabilities": obj{}}}))
	in.Write(frame(obj{"jsonrpc": "2.0", "method": "initialized", "params": obj{}}))
	in.Write(frame(obj{"jsonrpc": "2.0", "method": "textDocument/didOpen", "params": obj{"textDocument": obj{"uri": uri, "languageId": "sql", "version": 1, "text": text}}}))
	in.Write(frame(obj{"jsonrpc": "2.0", "id": 2, "method": "textDocument/formatting", "params": obj{"textDocument": obj{"uri": uri}, "options": obj{"tabSize": 4, "insertSpaces": insertSpaces}}}))
	in.Write(frame(obj{"jsonrpc": "2.0", "id": 3, "method": "shutdown"}))
	in.Write(frame(obj{"jsonrpc": "2.0", "method": "exit"}))
	var out bytes.Buffer
	if err := lsp.NewServer(&in, &out, nil).Run(); err != nil {
		return "", err
	}
	// find the answer to request 2
	rest := out.Bytes()
	for len(rest) > 0 {
		h := bytes.Index(rest, []byte("\r\n\r\n"))
		if h < 0 {
			break
		}
		n := 0
		for _, hl := range strings.Split(string(rest[:h]), "\r\n") {
			if strings.HasPrefix(hl, "Content-Length:") {
				n, _ = strconv.Atoi(strings.TrimSpace(strings.TrimPrefix(hl, "Content-Length:")))
			}
		}
		body := rest[h+4:]
		if n <= 0 || n > len(body) {
			break
		}
		var msg struct {
			ID     *int            `json:"id"`
			Result json.RawMessage `json:"result"`
			Error  *struct {
				Message string `json:"message"`
			} `json:"error"`
		}
		if json.Unmarshal(body[:n], &msg) == nil && msg.ID != nil && *msg.ID == 2 {
			if msg.Error != nil {
				return "", fmt.Errorf("formatting request answered with error: %s", msg.Error.Message)
			}
			var edits []lsp.TextEdit
			if len(msg.Result) > 0 && string(msg.Result) != "null" {
				if err := json.Unmarshal(msg.Result, &edits); err != nil {
					return "", fmt.Errorf("formatting result is not a TextEdit array: %v", err)
				}
			}
			return applyEdits(text, edits)
		}
		rest = body[n:]
	}
	return "", fmt.Errorf("no answer to the formatting request")
}

// applyEdits applies LSP text edits the way a client does (positions are
// line/character; a character past the end of the line means the end of the line;
// a line past the end of the document means the end of the document; characters are
// UTF-16 code units).
func applyEdits(text string, edits []lsp.TextEdit) (string, error) {
	if len(edits) == 0 {
		return text, nil
	}
	if len(edits) > 1 {
		return "", fmt.Errorf("%d edits returned, one whole-document edit expected", len(edits))
	}
	// line start offsets and lengths (without terminator)
	var starts, lens []int
	off := 0
	for _, l := range strings.Split(text, "\n") {
		starts = append(starts, off)
		ll := len(l)
		if strings.HasSuffix(l, "\r") && off+len(l) < len(text) {
			ll--
		}
		lens = append(lens, ll)
		off += len(l) + 1
	}
	pos := func(p lsp.Position) (int, error) {
		if p.Line < 0 || p.Character < 0 {
			return 0, fmt.Errorf("negative position %d:%d", p.Line, p.Character)
		}
		if p.Line >= len(starts) {
			return len(text), nil
		}
		// characters are UTF-16 code units (LSP): walk the line's runes
		line := text[starts[p.Line] : starts[p.Line]+lens[p.Line]]
		units, b := 0, 0
		for _, r := range line {
			if units >= p.Character {
				break
			}
			if r >= 0x10000 {
				units += 2
			} else {
				units++
			}
			b += utf8.RuneLen(r)
		}
		return starts[p.Line] + b, nil
	}
	e := edits[0]
	a, err := pos(e.Range.Start)
	if err != nil {
		return "", err
	}
	b, err := pos(e.Range.End)
	if err != nil {
		return "", err
	}
	if b < a {
		return "", fmt.Errorf("edit range ends before it starts")
	}
	return text[:a] + e.NewText + text[b:], nil
}
