package main

import (
	"fmt"
	"os"

	cli "github.com/ajitpratap0/GoSQLX/cmd/gosqlx/cmd"
)

func main() {
	p := "/verif/.work/c17probe.sql"
	os.WriteFile(p, []byte("select  a from t  \n\n\n\nwhere `from` = 'x\n  and  y'\n"), 0o644)
	old := os.Args
	os.Args = []string{"gosqlx", "lint", "--auto-fix", p}
	so, se := os.Stdout, os.Stderr
	dn, _ := os.OpenFile("/dev/null", os.O_WRONLY, 0)
	os.Stdout, os.Stderr = dn, dn
	err := cli.Execute()
	os.Stdout, os.Stderr = so, se
	os.Args = old
	b, _ := os.ReadFile(p)
	fmt.Printf("err=%v\n%q\n", err, b)
}
