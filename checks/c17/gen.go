package c17

import (
	"strings"
)

// ---------------------------------------------------------------- line alphabet

// A fragment is one line of text (without its line terminator).  The alphabet is
// ordered simplest first.
type fragment struct {
	name string
	text string
}

func longLine(n int) string {
	// "SELECT aaaa…a" with exactly n characters, no other layout defect
	return "SELECT " + strings.Repeat("a", n-len("SELECT "))
}

var alphabet = []fragment{
	{"clean", "SELECT a, b"},
	{"empty", ""},
	{"dblspace", "SELECT  a   FROM t"},
	{"trail-sp", "FROM t  "},
	{"trail-tab", "WHERE a = 1\t"},
	{"tab-ind", "\tAND b = 2"},
	{"sp-ind", "    AND c = 3"},
	{"mix-ind", "\t  OR d = 4"},
	{"sp-tab-ind", "  \tAND e = 5"},
	{"tab-sp-tab-ind", "\t \tOR f = 6"},
	{"emoji-str", "WHERE s = '😀 x' AND t = 1"},
	{"emoji-cmt", "SELECT é -- 🚀 done"},
	{"lower-kw", "select a from t"},
	{"lower-long-kw", "refresh materialized view v1"},
	{"mixed-long-kw", "With Recursive w1 As (Select Distinct a From t Intersect Select b From u)"},
	{"kw-prefix-idents", "table1, key2, from3, select_4"},
	{"kw-suffix-idents", "  x_from, a1where, _and, Or9 AS x"},
	{"str-1line", "WHERE s = 'and  x '  AND f = 6"},
	{"str-open", "WHERE s = 'x  select  "},
	{"str-mid", "from  y  "},
	{"str-close", "and  z' AND e = 5"},
	{"line-cmt", "-- select 'a'  from \"b\""},
	{"blk-cmt", "SELECT a /* from 'q'  and */ FROM t"},
	{"dq-ident", "SELECT \"select\" FROM t"},
	{"bt-ident", "SELECT `from` FROM t"},
	{"cmt-open", "/* select  'x  "},
	{"cmt-close", "  from */ SELECT 1"},
	{"ws-only", "  "},
	{"fit-100", longLine(100)},
	{"long-101", longLine(101)},
}

// ---------------------------------------------------------------- backslash family

// escLines is the family of one-line texts with two quoted sections on the same
// line, the first holding a backslash (an ordinary character in standard SQL, an
// escape character for code that thinks in C), the second holding blanks:
//
//	SELECT <q1><content1><q1><sep><q2><content2><q2><tail>
//
// q1, q2 in {', ", `}; content1 = backslash last / first / in the middle / doubled
// at the end / absent; sep and tail with and without repeated spaces outside the
// quoted sections; content2 with and without repeated spaces inside.  Every member
// is enumerated.  A rule or fixer whose idea of where a quoted section ends
// differs from the others' (and from the reference lexer's) has inside and outside
// swapped for the rest of such a line.
var escQuotes = []fragment{{"sq", "'"}, {"dq", "\""}, {"bt", "`"}}
var escContent1 = []fragment{{"last", `C:\`}, {"first", `\C:`}, {"mid", `C:\d`}, {"dbl", `C:\\`}, {"none", `C:`}}
var escSeps = []fragment{{"s1", ", "}, {"s2", " ,  "}}
var escContent2 = []fragment{{"c1", "x y"}, {"c2", "x  y"}}
var escTails = []fragment{{"t1", " FROM t"}, {"t2", "  FROM t"}}

// escFirst is the index in alphabet of the first member of the family; the members
// are appended to alphabet (init) so that keys, assemble and emit treat them like
// any other line, but the n-line products only range over the first escFirst fragments.
var escFirst int

func init() {
	escFirst = len(alphabet)
	for _, q1 := range escQuotes {
		for _, c1 := range escContent1 {
			for _, sp := range escSeps {
				for _, q2 := range escQuotes {
					for _, c2 := range escContent2 {
						for _, tl := range escTails {
							alphabet = append(alphabet, fragment{
								"esc:" + q1.name + "-" + c1.name + "." + sp.name + "." + q2.name + "-" + c2.name + "." + tl.name,
								"SELECT " + q1.text + c1.text + q1.text + sp.text + q2.text + c2.text + q2.text + tl.text,
							})
						}
					}
				}
			}
		}
	}
}

// keywords used by the alphabet (all of them are keywords for the library's
// tokenizer and for the keyword-case rule's own list).
var modelKeywords = map[string]bool{"SELECT": true, "FROM": true, "WHERE": true, "AND": true, "OR": true,
	"REFRESH": true, "MATERIALIZED": true, "VIEW": true, "WITH": true, "RECURSIVE": true, "AS": true, "DISTINCT": true, "INTERSECT": true}

// ---------------------------------------------------------------- text of a case

type form struct {
	name       string
	eol        string
	terminated bool
}

var forms = []form{
	{"lf+", "\n", true},
	{"lf-", "\n", false},
	{"crlf+", "\r\n", true},
	{"crlf-", "\r\n", false},
}

func assemble(idx []int, f form) string {
	var sb strings.Builder
	for i, k := range idx {
		sb.WriteString(alphabet[k].text)
		if i < len(idx)-1 || f.terminated {
			sb.WriteString(f.eol)
		}
	}
	return sb.String()
}

// ---------------------------------------------------------------- reference lexer

// lexical state of a byte
const (
	stCode  = 'C'
	stStr   = 'S' // single-quoted string literal (delimiters included)
	stDQ    = 'D' // double-quoted identifier
	stBT    = 'B' // back-ticked identifier
	stLine  = 'L' // line comment
	stBlock = 'K' // block comment
)

func stateName(s byte) string {
	switch s {
	case stStr:
		return "string-literal"
	case stDQ:
		return "quoted-identifier"
	case stBT:
		return "backtick-identifier"
	case stLine:
		return "line-comment"
	case stBlock:
		return "block-comment"
	}
	return "code"
}

type refTok struct {
	kind string // word | num | punct | string | dqident | btident
	val  string
}

type refComment struct {
	block bool
	text  string
}

// lineInfo is what the generator knows about one line of a text.
type lineInfo struct {
	text   string // without line terminator (no \n, no \r of a \r\n)
	raw    string // as strings.Split(text, "\n") gives it (keeps a trailing \r)
	labels []byte // lexical state of every byte of text
	start  byte   // state in which the line starts
	end    byte   // state of the last byte before the terminator (start if the line is empty)
	// unterminated: the line lies at or after the opening of a literal/comment that
	// never closes; "inside a literal" is then not a meaningful notion
	unterminated bool
}

type lexed struct {
	lines    []lineInfo // real lines (the empty piece after a final terminator is not a line)
	toks     []refTok
	comments []refComment
	endState byte
}

func isWordStart(c byte) bool {
	return c == '_' || (c >= 'a' && c <= 'z') || (c >= 'A' && c <= 'Z')
}
func isDigit(c byte) bool { return c >= '0' && c <= '9' }

// lex is a plain SQL lexer over the whole text: strings 'x' (” escapes), "x", `x`,
// -- comments to end of line, /* */ comments (not nested), words, numbers,
// single-character punctuation.  It labels every byte with its lexical state.
func lex(text string) lexed {
	n := len(text)
	lab := make([]byte, n)
	var lx lexed
	i := 0
	lastOpen := -1 // offset where a still-open literal/comment started
	for i < n {
		c := text[i]
		switch {
		case c == '\'' || c == '"' || c == '`':
			st := byte(stStr)
			kind := "string"
			if c == '"' {
				st, kind = stDQ, "dqident"
			} else if c == '`' {
				st, kind = stBT, "btident"
			}
			j := i + 1
			closed := false
			for j < n {
				if text[j] == c {
					if j+1 < n && text[j+1] == c {
						j += 2
						continue
					}
					closed = true
					break
				}
				j++
			}
			end := j
			if closed {
				end = j + 1
			} else {
				lastOpen = i
			}
			for k := i; k < end; k++ {
				lab[k] = st
			}
			lx.toks = append(lx.toks, refTok{kind, text[i+1 : j]})
			if !closed {
				lx.endState = st
			}
			i = end
		case c == '-' && i+1 < n && text[i+1] == '-':
			j := i
			for j < n && text[j] != '\n' {
				j++
			}
			for k := i; k < j; k++ {
				lab[k] = stLine
			}
			lx.comments = append(lx.comments, refComment{false, strings.TrimRight(text[i:j], " \t\r")})
			i = j
		case c == '/' && i+1 < n && text[i+1] == '*':
			j := strings.Index(text[i+2:], "*/")
			end := n
			if j >= 0 {
				end = i + 2 + j + 2
			} else {
				lastOpen = i
				lx.endState = stBlock
			}
			for k := i; k < end; k++ {
				lab[k] = stBlock
			}
			ctext := text[i:end]
			if j < 0 {
				ctext = strings.TrimRight(ctext, " \t\r\n") // never closed: see libTokens
			}
			lx.comments = append(lx.comments, refComment{true, ctext})
			i = end
		case isWordStart(c):
			j := i
			for j < n && (isWordStart(text[j]) || isDigit(text[j])) {
				j++
			}
			for k := i; k < j; k++ {
				lab[k] = stCode
			}
			lx.toks = append(lx.toks, refTok{"word", text[i:j]})
			i = j
		case isDigit(c):
			j := i
			for j < n && isDigit(text[j]) {
				j++
			}
			for k := i; k < j; k++ {
				lab[k] = stCode
			}
			lx.toks = append(lx.toks, refTok{"num", text[i:j]})
			i = j
		default:
			lab[i] = stCode
			if c != ' ' && c != '\t' && c != '\n' && c != '\r' {
				lx.toks = append(lx.toks, refTok{"punct", string(c)})
			}
			i++
		}
	}
	if lx.endState == 0 {
		lx.endState = stCode
	}
	// split into lines
	off := 0
	pieces := strings.Split(text, "\n")
	for pi, raw := range pieces {
		if pi == len(pieces)-1 && raw == "" && pi > 0 {
			break // the empty piece after a final terminator
		}
		t := raw
		if strings.HasSuffix(t, "\r") && pi < len(pieces)-1 {
			t = t[:len(t)-1]
		}
		li := lineInfo{text: t, raw: raw, labels: lab[off : off+len(t)]}
		// state at line start: the state of the terminator of the previous line if that
		// terminator lies inside a literal/comment, else code
		li.start = stCode
		if pi > 0 {
			nl := off - 1 // the '\n' before this line
			if lab[nl] == stStr || lab[nl] == stDQ || lab[nl] == stBT || lab[nl] == stBlock {
				li.start = lab[nl]
			}
		}
		if len(t) > 0 {
			li.end = li.labels[len(t)-1]
		} else {
			li.end = li.start
		}
		if lastOpen >= 0 && off+len(raw) >= lastOpen {
			li.unterminated = true
		}
		lx.lines = append(lx.lines, li)
		off += len(raw) + 1
	}
	return lx
}

// refTokensEqual compares two reference token sequences; unquoted keywords are
// compared without regard to letter case.  It returns the index of the first
// difference, or -1.
func refTokensEqual(a, b []refTok) int {
	for i := 0; i < len(a) && i < len(b); i++ {
		if a[i].kind != b[i].kind {
			return i
		}
		if a[i].val == b[i].val {
			continue
		}
		if a[i].kind == "word" && modelKeywords[strings.ToUpper(a[i].val)] && strings.EqualFold(a[i].val, b[i].val) {
			continue
		}
		return i
	}
	if len(a) != len(b) {
		if len(a) < len(b) {
			return len(a)
		}
		return len(b)
	}
	return -1
}

func refCommentsEqual(a, b []refComment) int {
	for i := 0; i < len(a) && i < len(b); i++ {
		if a[i] != b[i] {
			return i
		}
	}
	if len(a) != len(b) {
		if len(a) < len(b) {
			return len(a)
		}
		return len(b)
	}
	return -1
}

// ---------------------------------------------------------------- defect models

// verdicts of the model for one line and one rule
const (
	vMustNot = 0
	vMust    = 1
	vEither  = 2
)

func literalState(s byte) bool { return s == stStr || s == stDQ || s == stBT || s == stBlock }

func isBlank(s string) bool { return strings.Trim(s, " \t\r") == "" }

// modelTrailing: the line has trailing blanks when it is non-empty and its last
// character before the line terminator is a space or a tab.  When that character
// belongs to a multi-line literal or block comment the rule may report it or not
// (the property names no exemption, the text there is content, not layout).
func modelTrailing(lx lexed) []int {
	v := make([]int, len(lx.lines))
	for i, l := range lx.lines {
		if len(l.text) == 0 {
			continue
		}
		c := l.text[len(l.text)-1]
		if c != ' ' && c != '\t' {
			continue
		}
		if literalState(l.end) {
			v[i] = vEither
		} else {
			v[i] = vMust
		}
	}
	return v
}

// modelMixed follows the rule's documented definition: a line whose leading
// whitespace contains both a tab and a space is a violation; otherwise a line is a
// violation when its indentation character differs from the first indentation
// character seen in the file.  Lines whose leading whitespace is not indentation of
// code (whitespace-only lines, lines starting inside a literal or comment) and
// lines that mix both characters may or may not count as "indentation seen", so
// the set of possible first characters is tracked and a verdict is only definite
// when it is the same under every reading.
func modelMixed(lx lexed) []int {
	v := make([]int, len(lx.lines))
	const none, tab, space = 1, 2, 4
	first := none // bit set of possible "first indentation type"
	for i, l := range lx.lines {
		lead := l.text[:len(l.text)-len(strings.TrimLeft(l.text, " \t"))]
		if lead == "" {
			continue
		}
		hasTab := strings.Contains(lead, "\t")
		hasSp := strings.Contains(lead, " ")
		ambiguous := isBlank(l.text) || l.start != stCode
		if hasTab && hasSp {
			if ambiguous {
				v[i] = vEither
			} else {
				v[i] = vMust
			}
			// may or may not define the file's style
			if first&none != 0 {
				first |= tab | space
			}
			continue
		}
		t := space
		if hasTab {
			t = tab
		}
		other := tab + space - t
		switch {
		case ambiguous:
			v[i] = vEither
			if first&none != 0 {
				first |= t // the reading in which this line counts
			}
		default:
			if first&other == 0 {
				v[i] = vMustNot
			} else if first&(none|t) == 0 {
				v[i] = vMust
			} else {
				v[i] = vEither
			}
			if first&none != 0 {
				first = first&^none | t
			}
		}
	}
	return v
}

// blankRun is a maximal run of blank lines.
type blankRun struct {
	from, to int // 0-based line indexes, inclusive
	verdict  int
	atEOF    bool
}

// modelBlankRuns: more than max consecutive blank lines (empty or whitespace-only)
// is the defect.  A run inside a multi-line literal/comment may be reported or
// not.  A run of exactly max blank lines followed by the end of a terminated text
// may be reported or not (the rule documents that it "removes excessive blank lines
// at the end of files" and counts the empty piece after the last terminator).
func modelBlankRuns(lx lexed, terminated bool, max int) []blankRun {
	var runs []blankRun
	n := len(lx.lines)
	for i := 0; i < n; {
		if !isBlank(lx.lines[i].text) {
			i++
			continue
		}
		j := i
		for j+1 < n && isBlank(lx.lines[j+1].text) {
			j++
		}
		r := blankRun{from: i, to: j, atEOF: j == n-1}
		cnt := j - i + 1
		switch {
		case lx.lines[i].start != stCode:
			r.verdict = vEither
		case cnt > max:
			r.verdict = vMust
		case cnt == max && r.atEOF && terminated:
			r.verdict = vEither
		default:
			r.verdict = vMustNot
		}
		runs = append(runs, r)
		i = j + 1
	}
	return runs
}

// modelLong: a line is over-long when it has more than max characters (the line
// terminator is not part of the line).  The rule documents that comment-only lines
// are skipped; lines that start with a comment or inside a block comment may
// therefore be reported or not.
func modelLong(lx lexed, max int) []int {
	v := make([]int, len(lx.lines))
	for i, l := range lx.lines {
		if len(l.text) <= max {
			continue
		}
		t := strings.TrimSpace(l.text)
		if l.start == stBlock || strings.HasPrefix(t, "--") || strings.HasPrefix(t, "/*") {
			v[i] = vEither
		} else {
			v[i] = vMust
		}
	}
	return v
}

// modelRedundant: two or more consecutive spaces outside string literals and
// outside the line's indentation.  Runs inside comments or back-ticked identifiers,
// and runs at the very end of the line (trailing blanks, the business of another
// rule), may be reported or not.
func modelRedundant(lx lexed) []int {
	v := make([]int, len(lx.lines))
	for li, l := range lx.lines {
		t := l.text
		must, amb := false, false
		for i := 0; i < len(t); {
			if t[i] != ' ' {
				i++
				continue
			}
			j := i
			for j < len(t) && t[j] == ' ' {
				j++
			}
			if j-i >= 2 {
				st := l.labels[i]
				switch {
				case st == stStr || st == stDQ:
					// inside a literal: not a defect
				case strings.Trim(t[:i], " \t") == "":
					// leading whitespace: indentation (or, inside a comment, comment text)
					if st != stCode {
						amb = true
					}
				case j == len(t):
					amb = true
				case st == stCode:
					must = true
				default:
					amb = true
				}
			}
			i = j
		}
		switch {
		case l.unterminated:
			v[li] = vEither // the literal never closes: "outside literals" is undefined from here on
		case must:
			v[li] = vMust
		case amb:
			v[li] = vEither
		}
	}
	return v
}

// modelKeywordCase (preferred style: upper): the line has an unquoted keyword, in
// code, that is not written in upper case.  Words inside string literals, quoted
// or back-ticked identifiers and comments are not keywords.
func modelKeywordCase(lx lexed) []int {
	v := make([]int, len(lx.lines))
	for li, l := range lx.lines {
		t := l.text
		for i := 0; i < len(t); {
			if !isWordStart(t[i]) {
				i++
				continue
			}
			j := i
			for j < len(t) && (isWordStart(t[j]) || isDigit(t[j])) {
				j++
			}
			w := t[i:j]
			if l.labels[i] == stCode && modelKeywords[strings.ToUpper(w)] && w != strings.ToUpper(w) {
				v[li] = vMust
			}
			i = j
		}
		if l.unterminated && v[li] != vMust {
			v[li] = vEither
		}
	}
	return v
}

// lineClass names the kind of line for a failure signature (never the line's text).
func lineClass(l lineInfo) string {
	if l.start != stCode {
		return "inside-" + stateName(l.start)
	}
	if literalState(l.end) && l.unterminated {
		return "unterminated-" + stateName(l.end)
	}
	seen := map[byte]bool{}
	var parts []string
	for _, s := range l.labels {
		if s != stCode && !seen[s] {
			seen[s] = true
			parts = append(parts, stateName(s))
		}
	}
	if len(parts) > 0 {
		return "line-with-" + strings.Join(parts, "+")
	}
	if isBlank(l.text) {
		return "blank-line"
	}
	if l.text != strings.TrimLeft(l.text, " \t") {
		return "indented-code"
	}
	return "code"
}
