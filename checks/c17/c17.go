// Package c17 checks property C17: the linter flags exactly what it names; the text
// rewriters (lint auto-fixes, `lint --auto-fix`, the language server's format
// action) keep the token sequence and converge.
package c17

import (
	"fmt"
	"sort"
	"strings"

	"github.com/ajitpratap0/GoSQLX/pkg/linter"
	"github.com/ajitpratap0/GoSQLX/pkg/models"
	"github.com/ajitpratap0/GoSQLX/pkg/sql/tokenizer"

	"verif/engine/common"
)

// ---------------------------------------------------------------- library tokens

type libTok struct {
	typ models.TokenType
	val string
	kw  bool // unquoted keyword: letter case may change
}

type libLex struct {
	toks     []libTok
	comments []refComment
	err      error
}

func libTokens(text string) libLex {
	t := tokenizer.GetTokenizer()
	defer tokenizer.PutTokenizer(t)
	toks, err := t.Tokenize([]byte(text))
	var r libLex
	if err != nil {
		r.err = err
		return r
	}
	for _, k := range toks {
		if k.Token.Type == models.TokenTypeEOF {
			continue
		}
		r.toks = append(r.toks, libTok{k.Token.Type, strings.Clone(k.Token.Value), k.Token.Quote == 0 && k.Token.Type.IsKeyword()})
	}
	for _, cm := range t.Comments {
		block := strings.HasPrefix(cm.Text, "/*")
		txt := strings.Clone(cm.Text)
		if !block {
			// blanks between the comment's last word and the line end are not comment
			// content (else "trailing blanks must be reported and removed" and "comments
			// keep their content" would contradict each other)
			txt = strings.TrimRight(txt, " \t\r")
		} else if !strings.HasSuffix(txt, "*/") {
			// a block comment that is never closed runs to the end of the text (the
			// tokenizer accepts that); blanks and line ends before the end of the text
			// are not counted as its content either
			txt = strings.TrimRight(txt, " \t\r\n")
		}
		r.comments = append(r.comments, refComment{block, txt})
	}
	return r
}

func libTokensEqual(a, b []libTok) int {
	for i := 0; i < len(a) && i < len(b); i++ {
		if a[i].typ != b[i].typ {
			return i
		}
		if a[i].val == b[i].val || (a[i].kw && strings.EqualFold(a[i].val, b[i].val)) {
			continue
		}
		return i
	}
	if len(a) != len(b) {
		if len(a) < len(b) {
			return len(a)
		}
		return len(b)
	}
	return -1
}

// ---------------------------------------------------------------- rewriters

type rewriter struct {
	name   string
	apply  func(text string) (string, error)
	relint []namedRule // rules whose fix this rewriter applies
}

func rewriters(layout []namedRule) []rewriter {
	var rws []rewriter
	var fixable []namedRule
	for _, nr := range layout {
		nr := nr
		if !nr.rule.CanAutoFix() {
			continue
		}
		fixable = append(fixable, nr)
		rws = append(rws, rewriter{
			name: nr.name,
			apply: func(text string) (string, error) {
				vs, err := lintWith(text, nr.rule)
				if err != nil {
					return "", err
				}
				return nr.rule.Fix(text, vs)
			},
			relint: []namedRule{nr},
		})
	}
	rws = append(rws, rewriter{name: "cli-auto-fix", apply: cliAutoFix, relint: fixable})
	rws = append(rws, rewriter{name: "lsp-format", apply: func(t string) (string, error) { return lspFormat(t, true) }})
	rws = append(rws, rewriter{name: "lsp-format", apply: func(t string) (string, error) { return lspFormat(t, false) }})
	return rws
}

func damageKind(in []refTok, i int) string {
	if i >= len(in) {
		return "token-added"
	}
	switch in[i].kind {
	case "string":
		// "string-literal" = a literal that spans lines (the known weak spot of the
		// line-based rewriters); damage to a literal on one line is a different defect
		if !strings.Contains(in[i].val, "\n") {
			return "one-line-string-literal"
		}
		return "string-literal"
	case "dqident":
		return "quoted-identifier"
	case "btident":
		return "backtick-identifier"
	case "word":
		if modelKeywords[strings.ToUpper(in[i].val)] {
			return "keyword"
		}
		return "identifier"
	case "num":
		return "number"
	}
	return "punctuation"
}

// ---------------------------------------------------------------- the check

func linesOf(vs []linter.Violation, id string) map[int]bool {
	m := map[int]bool{}
	for _, v := range vs {
		if v.Rule == id {
			m[v.Location.Line] = true
		}
	}
	return m
}

func show(s string) string { return fmt.Sprintf("%q", common.Trim(s, 400)) }

// Check returns the C17 check.
func Check() *common.Check {
	return &common.Check{
		ID:    "C17",
		Level: "exploration",
		// every case is recorded before it runs: a fatal error or a hang of the worker is attributed to it
		CrashSafe: true,
		Rule: fmt.Sprintf("texts = every sequence of 1..3 lines plus every 4-line text that wraps two arbitrary lines into a multi-line string literal or block comment (quick); thorough adds every other sequence of 4 lines; over a %d-fragment line alphabet "+
			"(clean code, empty line, whitespace-only line, double spaces, trailing spaces, trailing tab, tab-/space-/mixed-indented code, lower-case keywords, "+
			"a one-line string literal and the opening/middle/closing line of a multi-line string literal, each holding a keyword, double spaces and trailing blanks, line comment and block comment holding quotes and keywords, "+
			"opening/closing line of a multi-line block comment, double-quoted and back-ticked identifiers spelled like keywords, a 100- and a 101-character line), "+
			"each with LF and CRLF terminators and with/without a terminator after the last line (3-line texts in the quick tier and the additional 4-line texts of the thorough tier: only LF with and CRLF without final terminator); every text goes through 8 rewriters (5 rule fixes, in-process `gosqlx lint --auto-fix`, "+
			"LSP textDocument/formatting with insertSpaces true/false) and 10 lint rules; distinct = distinct text; non-trivial = the generator's model says at least one layout rule must report a line, "+
			"or a line starts inside a multi-line literal/comment; "+
			"plus the backslash family: every one-line text SELECT <q1><c1><q1><sep><q2><c2><q2><tail> with q1,q2 in {',\",`}, c1 = a backslash last/first/in the middle/doubled at the end/absent, sep and tail with/without repeated spaces, "+
			"c2 with/without repeated spaces (%d lines; LF and CRLF with, LF without final terminator); thorough adds every 2-line text of one such line before/after every fragment of the line alphabet", escFirst, len(alphabet)-escFirst),
		Assume: []string{
			"the library tokenizer (pkg/sql/tokenizer) is the judge of token sequences; a difference counts only when an independent reference lexer of the harness sees it too (tokenizer layout bugs belong to C04)",
			"blanks between a line comment's last character and the line end are not comment content",
			"rule configuration as in cmd/gosqlx/cmd/lint.go: max 1 blank line, max line length 100, upper-case keywords, trailing commas",
			"where the property text and the rule's documentation leave a line's status open (blanks ending inside a literal, repeated spaces inside comments, whitespace-only lines as indentation, one blank line before the end of file) either answer is accepted",
			"small-scope hypothesis above the stated bounds; ASCII only",
		},
		Enumerate: enumerate,
	}
}

func enumerate(e *common.Enum) {
	defer cleanupCLI()
	maxLines := 3
	if e.Thorough() {
		maxLines = 4
	}
	layout := layoutRules()
	others := otherRules()
	rws := rewriters(layout)
	var allRules []linter.Rule
	for _, r := range layout {
		allRules = append(allRules, r.rule)
	}
	for _, r := range others {
		allRules = append(allRules, r.rule)
	}
	names := map[string]string{}
	for _, r := range append(append([]namedRule{}, layout...), others...) {
		names[r.rule.ID()] = r.name
	}

	emit := func(idx []int, forms []form) {
		n := len(idx)
		for _, f := range forms {
			// the same text is produced by a shorter sequence / another form: skip
			if !f.terminated && ((n > 1 && alphabet[idx[n-1]].text == "") || (n == 1 && f.eol != "\n")) {
				continue
			}
			var kb strings.Builder
			kb.WriteString(f.name)
			for i, k := range idx {
				if i == 0 {
					kb.WriteByte('|')
				} else {
					kb.WriteByte(',')
				}
				kb.WriteString(alphabet[k].name)
			}
			key := kb.String()
			if !e.Mine(key) {
				continue
			}
			text := assemble(idx, f)
			lfText := ""
			if f.eol != "\n" {
				lfText = assemble(idx, form{"", "\n", f.terminated})
			}
			f := f
			e.Do(key, func(c *common.Ctx) {
				runCase(c, key, text, lfText, f, layout, allRules, names, rws)
			})
		}
	}
	for n := 1; n <= maxLines; n++ {
		idx := make([]int, n)
		fs := forms
		if n == 4 || (n == 3 && !e.Thorough()) {
			// LF with final terminator and CRLF without (the sandwiches below have all four forms)
			fs = []form{forms[0], forms[3]}
		}
		for {
			emit(idx, fs)
			// next index vector
			p := n - 1
			for p >= 0 {
				idx[p]++
				if idx[p] < escFirst {
					break
				}
				idx[p] = 0
				p--
			}
			if p < 0 {
				break
			}
		}
	}
	{
		// 4-line texts that wrap two arbitrary lines into a multi-line string literal or
		// block comment: both tiers, all four forms
		for _, pair := range [][2]string{{"str-open", "str-close"}, {"cmt-open", "cmt-close"}} {
			for x := 0; x < escFirst; x++ {
				for y := 0; y < escFirst; y++ {
					emit([]int{fragIndex(pair[0]), x, y, fragIndex(pair[1])}, forms)
				}
			}
		}
	}
	// the backslash family (gen.go): every member as a one-line text; thorough: also
	// before and after every fragment of the line alphabet
	for k := escFirst; k < len(alphabet); k++ {
		emit([]int{k}, forms)
		if e.Thorough() {
			for x := 0; x < escFirst; x++ {
				emit([]int{k, x}, []form{forms[0], forms[3]})
				emit([]int{x, k}, []form{forms[0], forms[3]})
			}
		}
	}
}

func fragIndex(name string) int {
	for i, f := range alphabet {
		if f.name == name {
			return i
		}
	}
	panic("no fragment " + name)
}

func runCase(c *common.Ctx, key, text, lfText string, f form, layout []namedRule, allRules []linter.Rule, names map[string]string, rws []rewriter) {
	c.Input(text)
	c.Sample(map[string]string{"case": key, "text": text})
	lx := lex(text)
	n := len(lx.lines)
	libIn := libTokens(text)
	terminated := strings.HasSuffix(text, "\n") // == f.terminated (sequences giving the same text are enumerated once)

	// ------------------------------------------------------------ (d) and (e): what the rules report
	vs, err := lintWith(text, allRules...)
	if err != nil {
		c.Fail("lint-error", "LintString failed: "+err.Error())
		return
	}
	var lfVs []linter.Violation
	if lfText != "" {
		lfVs, _ = lintWith(lfText, allRules...)
	}
	// (e) every location is an existing line and column
	for _, v := range vs {
		ln, col := v.Location.Line, v.Location.Column
		ok := false
		switch {
		case ln >= 1 && ln <= n:
			ok = col >= 1 && col <= len(lx.lines[ln-1].raw)+1
		case ln == n+1 && terminated:
			ok = col == 1 // the empty line after the last terminator
		}
		if !ok {
			c.Fail("bad-location:"+names[v.Rule], fmt.Sprintf("rule %s reports line %d column %d; the text has %d lines%s\ntext: %s", v.Rule, ln, col, n,
				func() string {
					if ln >= 1 && ln <= n {
						return fmt.Sprintf(" and line %d has %d characters", ln, len(lx.lines[ln-1].text))
					}
					return ""
				}(), show(text)))
		}
	}
	// (d) per-line models
	must := map[string]bool{}
	perLine := map[string][]int{
		"trailing-whitespace":  modelTrailing(lx),
		"mixed-indentation":    modelMixed(lx),
		"long-lines":           modelLong(lx, maxLen),
		"redundant-whitespace": modelRedundant(lx),
		"keyword-case":         modelKeywordCase(lx),
	}
	for _, nr := range layout {
		model, ok := perLine[nr.name]
		if !ok {
			continue
		}
		got := linesOf(vs, nr.rule.ID())
		var lfGot map[int]bool
		if lfText != "" {
			lfGot = linesOf(lfVs, nr.rule.ID())
		}
		for i, want := range model {
			if want == vMust {
				must[nr.name] = true
			}
			rep := got[i+1]
			if want == vEither || (want == vMust) == rep {
				continue
			}
			class := lineClass(lx.lines[i])
			if lfGot != nil && (want == vMust) == lfGot[i+1] {
				class = "crlf" // the same line is judged correctly when the terminators are LF
			}
			if rep {
				c.Fail("false-positive:"+nr.name+":"+class, fmt.Sprintf("rule %s reports line %d (%s) which does not have the defect the rule names\ntext: %s", nr.rule.ID(), i+1, show(lx.lines[i].text), show(text)))
			} else {
				c.Fail("false-negative:"+nr.name+":"+class, fmt.Sprintf("rule %s does not report line %d (%s) which has the defect the rule names\ntext: %s", nr.rule.ID(), i+1, show(lx.lines[i].text), show(text)))
			}
		}
	}
	// (d) blank-line runs
	{
		const name = "blank-lines"
		id := "L003"
		runs := modelBlankRuns(lx, terminated, maxBlank)
		got := linesOf(vs, id)
		var lfGot map[int]bool
		if lfText != "" {
			lfGot = linesOf(lfVs, id)
		}
		inRun := func(m map[int]bool, r blankRun) bool {
			for l := r.from + 1; l <= r.to+1; l++ {
				if m[l] {
					return true
				}
			}
			return r.atEOF && terminated && m[n+1]
		}
		covered := map[int]bool{}
		for _, r := range runs {
			for l := r.from + 1; l <= r.to+1; l++ {
				covered[l] = true
			}
			if r.atEOF && terminated {
				covered[n+1] = true
			}
			if r.verdict == vMust {
				must[name] = true
			}
			rep := inRun(got, r)
			if r.verdict == vEither || (r.verdict == vMust) == rep {
				continue
			}
			class := lineClass(lx.lines[r.from])
			if r.atEOF {
				class = "end-of-text"
			}
			if lfGot != nil && (r.verdict == vMust) == inRun(lfGot, r) {
				class = "crlf"
			}
			if rep {
				c.Fail("false-positive:"+name+":"+class, fmt.Sprintf("rule %s reports the run of %d blank line(s) at lines %d..%d (max %d allowed)\ntext: %s", id, r.to-r.from+1, r.from+1, r.to+1, maxBlank, show(text)))
			} else {
				c.Fail("false-negative:"+name+":"+class, fmt.Sprintf("rule %s does not report the run of %d blank lines at lines %d..%d (max %d allowed)\ntext: %s", id, r.to-r.from+1, r.from+1, r.to+1, maxBlank, show(text)))
			}
		}
		var ls []int
		for l := range got {
			ls = append(ls, l)
		}
		sort.Ints(ls)
		for _, l := range ls {
			if covered[l] {
				continue
			}
			if l >= 1 && l <= n {
				c.Fail("false-positive:"+name+":"+lineClass(lx.lines[l-1]), fmt.Sprintf("rule %s reports line %d (%s) which is not a blank line\ntext: %s", id, l, show(lx.lines[l-1].text), show(text)))
			} else if l == n+1 && terminated {
				c.Fail("false-positive:"+name+":end-of-text", fmt.Sprintf("rule %s reports the end of the text (line %d) although no blank line precedes it\ntext: %s", id, l, show(text)))
			}
		}
	}

	// ------------------------------------------------------------ (a) (b) (c): the rewriters
	changed := 0
	for ri, rw := range rws {
		c.Count("rewriter_applications", 1)
		label := rw.name
		if rw.name == "lsp-format" {
			label = fmt.Sprintf("lsp-format(insertSpaces=%v)", ri == len(rws)-2)
		}
		out, err := rw.apply(text)
		if err == errServerPanic {
			c.Count("lsp_server_panics_skipped", 1)
			continue
		}
		if err != nil {
			c.Fail("rewriter-error:"+rw.name, label+" failed: "+err.Error()+"\ntext: "+show(text))
			continue
		}
		if out != text {
			changed++
		}
		// (a) token sequence and comments are kept
		if libIn.err == nil && out != text {
			lxOut := lex(out)
			libOut := libTokens(out)
			rt := refTokensEqual(lx.toks, lxOut.toks)
			rc := refCommentsEqual(lx.comments, lxOut.comments)
			if libOut.err != nil {
				if rt >= 0 || rc >= 0 || lx.endState != lxOut.endState {
					c.Fail("fix-changes-tokens:"+rw.name+":untokenizable", fmt.Sprintf("%s turns a text that tokenizes into one that does not (%v)\n in: %s\nout: %s", label, firstLine(libOut.err), show(text), show(out)))
				}
			} else {
				if li := libTokensEqual(libIn.toks, libOut.toks); li >= 0 && rt >= 0 {
					c.Fail("fix-changes-tokens:"+rw.name+":"+damageKind(lx.toks, rt), fmt.Sprintf("%s changes the token sequence: token %d was %s, is %s\n in: %s\nout: %s", label, li, descLib(libIn.toks, li), descLib(libOut.toks, li), show(text), show(out)))
				}
				if lc := refCommentsEqual(libIn.comments, libOut.comments); lc >= 0 && rc >= 0 {
					kind := "comment-added"
					if rc < len(lx.comments) {
						kind = "line-comment"
						if lx.comments[rc].block {
							kind = "block-comment" // spans lines
							if !strings.Contains(lx.comments[rc].text, "\n") {
								kind = "one-line-block-comment"
							}
						}
					}
					c.Fail("fix-changes-comment:"+rw.name+":"+kind, fmt.Sprintf("%s changes comment %d: was %s, is %s\n in: %s\nout: %s", label, lc, descCom(libIn.comments, lc), descCom(libOut.comments, lc), show(text), show(out)))
				}
			}
		}
		// (b) applying the same rewriter again changes nothing
		out2, err := rw.apply(out)
		if err != nil {
			c.Fail("rewriter-error:"+rw.name, label+" failed on its own output: "+err.Error()+"\ntext: "+show(out))
		} else if out2 != out {
			c.Fail("not-idempotent:"+rw.name, fmt.Sprintf("%s applied twice differs from applied once\n   in: %s\n once: %s\ntwice: %s", label, show(text), show(out), show(out2)))
		}
		// (c) re-linting reports no violation of a rule whose fix was applied
		for _, nr := range rw.relint {
			rv, err := lintWith(out, nr.rule)
			if err != nil || len(rv) == 0 {
				continue
			}
			sig := "relint-after-fix:" + nr.name
			if len(rw.relint) > 1 {
				sig = "relint-after-fix:" + rw.name + ":" + nr.name
			}
			c.Fail(sig, fmt.Sprintf("after %s rule %s still reports line %d column %d: %s\n in: %s\nout: %s", label, nr.rule.ID(), rv[0].Location.Line, rv[0].Location.Column, rv[0].Message, show(text), show(out)))
		}
	}

	// ------------------------------------------------------------ bookkeeping
	var ms []string
	for k := range must {
		ms = append(ms, k)
	}
	sort.Strings(ms)
	multi := false
	for _, l := range lx.lines {
		if l.start != stCode {
			multi = true
		}
	}
	o := "defects=[" + strings.Join(ms, ",") + "]"
	if multi {
		o += " multi-line-" + func() string {
			s := map[string]bool{}
			for _, l := range lx.lines {
				if l.start != stCode {
					s[stateName(l.start)] = true
				}
			}
			var k []string
			for x := range s {
				k = append(k, x)
			}
			sort.Strings(k)
			return strings.Join(k, "+")
		}()
	}
	if libIn.err != nil {
		o += " does-not-tokenize"
	}
	if libIn.err != nil && lx.endState == stCode {
		c.Count("tokenizer_rejects_text_the_reference_lexer_accepts", 1)
	}
	if libIn.err == nil && lx.endState != stCode {
		c.Count("tokenizer_accepts_unterminated_"+stateName(lx.endState), 1)
	}
	c.Outcome(o)
	c.Count(fmt.Sprintf("texts_changed_by_%d_rewriters", changed), 1)
	if len(ms) > 0 || multi {
		c.NonTrivial()
	}
}

func firstLine(err error) string {
	s := err.Error()
	if i := strings.Index(s, "\n"); i >= 0 {
		s = s[:i]
	}
	return s
}

func descLib(t []libTok, i int) string {
	if i >= len(t) {
		return "(none)"
	}
	return fmt.Sprintf("%s %q", t[i].typ, t[i].val)
}

func descCom(t []refComment, i int) string {
	if i >= len(t) {
		return "(none)"
	}
	return fmt.Sprintf("%q", t[i].text)
}
