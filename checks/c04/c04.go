// Package c04 checks property C04: the token stream is a faithful,
// layout-independent reading of the text.
package c04

import (
	"fmt"
	"strings"

	"github.com/ajitpratap0/GoSQLX/pkg/models"
	"github.com/ajitpratap0/GoSQLX/pkg/sql/parser"
	"github.com/ajitpratap0/GoSQLX/pkg/sql/tokenizer"

	"verif/engine/common"
	"verif/lexgen"
	"verif/sqlgen"
)

type fail struct{ sig, msg string }

// coarse class of a skip reason, for the outcome histogram
func skipClass(why string) string {
	if i := strings.Index(why, ":"); i > 0 {
		return why[:i]
	}
	return why
}

// gapSig names the lexeme classes around the gap next to the divergent element.
func gapSig(in *lexgen.Input, idx int) string {
	n := len(in.Lexes)
	if n == 0 {
		return "-"
	}
	if idx >= n {
		idx = n - 1
	}
	if idx < 0 {
		idx = 0
	}
	if idx > 0 {
		return in.Lexeme(idx-1).Lex.Class + "|" + in.Lexeme(idx).Lex.Class + ":" + in.Gaps[idx].Name
	}
	if n > 1 {
		return in.Lexeme(0).Lex.Class + "|" + in.Lexeme(1).Lex.Class + ":" + in.Gaps[1].Name
	}
	return in.Lexeme(0).Lex.Class + ":" + in.Gaps[0].Name + "," + in.Trail.Name
}

func classes(in *lexgen.Input) string {
	var cl, gp []string
	for i := range in.Lexes {
		cl = append(cl, in.Lexeme(i).Lex.Class)
		gp = append(gp, in.Gaps[i].Name)
	}
	return strings.Join(cl, "|") + ":" + strings.Join(gp, ",")
}

// eofChecks: exactly one end-of-input marker, last.
func eofChecks(toks []models.TokenWithSpan, eofs []int, trailingComment bool) []fail {
	var fs []fail
	switch {
	case len(eofs) == 0:
		fs = append(fs, fail{"eof:missing", "no end-of-input marker: " + lexgen.Describe(toks)})
	case eofs[len(eofs)-1] != len(toks)-1 || eofs[0] != len(toks)-len(eofs):
		fs = append(fs, fail{"eof:not-last", "an end-of-input marker is followed by another element: " + lexgen.Describe(toks)})
	case len(eofs) > 1 && trailingComment:
		fs = append(fs, fail{"double-eof:trailing-comment", fmt.Sprintf("%d end-of-input markers after a trailing comment: %s", len(eofs), lexgen.Describe(toks))})
	case len(eofs) > 1:
		fs = append(fs, fail{"double-eof:other", fmt.Sprintf("%d end-of-input markers: %s", len(eofs), lexgen.Describe(toks))})
	}
	return fs
}

// commentChecks: every comment captured separately with its exact text.
func commentChecks(in *lexgen.Input, got []models.Comment) []fail {
	if len(got) != len(in.Cmts) {
		var texts []string
		for _, g := range got {
			texts = append(texts, g.Text)
		}
		return []fail{{"comment-count", fmt.Sprintf("%d comments placed, %d captured: %q", len(in.Cmts), len(got), texts)}}
	}
	var fs []fail
	for i, ci := range in.Cmts {
		it := in.Items[ci]
		style := "block"
		wantStyle := models.BlockComment
		if it.Line {
			style = "line"
			wantStyle = models.LineComment
		}
		ok := got[i].Text == it.Text
		// a line comment ended by \r\n: whether the \r belongs to the comment or to the line terminator is left open
		if !ok && it.Line && got[i].Text == it.Text+"\r" && strings.HasPrefix(in.Text[it.End:], "\r\n") {
			ok = true
		}
		if !ok {
			fs = append(fs, fail{"comment-text:" + style, fmt.Sprintf("comment %d captured as %q, placed %q", i, got[i].Text, it.Text)})
		}
		if got[i].Style != wantStyle {
			fs = append(fs, fail{"comment-style:" + style, fmt.Sprintf("comment %q has style %d", it.Text, got[i].Style)})
		}
	}
	return fs
}

// evalInput evaluates oracle clauses (i)-(iv) on a generated input.
func evalInput(in, base *lexgen.Input, tokenize func(string) lexgen.Run) (fs []fail, outcome string) {
	run := tokenize(in.Text)
	if run.Err != nil {
		// attribute to a single lexeme if it is rejected on its own
		for i := range in.Lexes {
			l := in.Lexeme(i).Lex
			if r := tokenize(l.Text); r.Err != nil {
				return []fail{{"rejected:" + l.Sig, fmt.Sprintf("lexeme %s %q rejected: %v", l.Name, l.Text, firstLine(run.Err))}}, "rejected"
			}
		}
		return []fail{{"rejected:" + classes(in), fmt.Sprintf("lexically valid input rejected: %v", firstLine(run.Err))}}, "rejected"
	}
	obs, eofs := lexgen.Expand(run.Toks)
	fs = append(fs, eofChecks(run.Toks, eofs, in.Trail.Comment)...)
	want := in.Wants()
	d := lexgen.Compare(want, obs)
	var baseObs []lexgen.Obs
	baseOK := false
	if base != nil && base.Text != in.Text {
		br := tokenize(base.Text)
		if br.Err == nil {
			baseObs, _ = lexgen.Expand(br.Toks)
			baseOK = lexgen.Compare(base.Wants(), baseObs) == nil
		}
	}
	if d != nil {
		outcome = "diverges:" + d.What
		if baseOK {
			fs = append(fs, fail{"layout-variance:" + gapSig(in, d.Idx), fmt.Sprintf("%s; the same lexemes joined by single spaces (%q) are read correctly\ntokens: %s", d.Msg, base.Text, lexgen.Describe(run.Toks))})
		} else {
			sig := d.What + ":" + want[d.Idx].Sig
			fs = append(fs, fail{sig, d.Msg + "\ntokens: " + lexgen.Describe(run.Toks)})
		}
	} else {
		outcome = "ok"
		if baseOK && lexgen.CanonSeq(obs) != lexgen.CanonSeq(baseObs) {
			outcome = "variance"
			fs = append(fs, fail{"layout-variance:" + gapSig(in, 0), fmt.Sprintf("(kind,value) sequence differs from the single-space rendering %q\ntokens: %s", base.Text, lexgen.Describe(run.Toks))})
		}
	}
	fs = append(fs, commentChecks(in, run.Comments)...)
	return fs, outcome
}

func firstLine(err error) string {
	s := err.Error()
	if i := strings.Index(s, "\n"); i > 0 {
		s = s[:i]
	}
	return s
}

func byteClass(b byte) string {
	switch {
	case b < 0x20 || b == 0x7f:
		if b == '\n' || b == '\r' || b == '\t' {
			return fmt.Sprintf("ws-%02x", b)
		}
		return "control"
	case b >= 0x80:
		return "non-utf8"
	}
	return string(b)
}

// evalRef evaluates an arbitrary text against the reference lexer (hostile bytes, fragments).
func evalRef(text string, bclass string, tokenize func(string) lexgen.Run) (fs []fail, outcome string) {
	r := lexgen.RefLex(text)
	if r.Ambig != "" {
		return nil, "no-verdict"
	}
	run := tokenize(text)
	if r.Err != nil {
		if strings.HasPrefix(r.Err.Kind, "unterminated:") {
			if run.Err == nil {
				return []fail{{"unterminated-accepted:" + strings.TrimPrefix(r.Err.Kind, "unterminated:"), "input ending inside an unterminated " + r.Err.Kind[13:] + " is accepted: " + lexgen.Describe(run.Toks)}}, "unterminated-accepted"
			}
			return nil, "unterminated-rejected"
		}
		// a byte that starts no lexical element: an error is fine; reading it as some element is not ours to
		// judge; silently dropping it is a violation
		if run.Err != nil {
			return nil, "badchar-rejected"
		}
		obs, _ := lexgen.Expand(run.Toks)
		k := r.Err.Off
		pre := lexgen.RefWants(lexgen.RefResult{Toks: r.Toks})
		rest := lexgen.RefLex(text[k+1:])
		glued := lexgen.RefLex(text[:k] + text[k+1:])
		dropped := (rest.Err == nil && rest.Ambig == "" && lexgen.Compare(append(append([]lexgen.Want{}, pre...), lexgen.RefWants(rest)...), obs) == nil) ||
			(glued.Err == nil && glued.Ambig == "" && lexgen.Compare(lexgen.RefWants(glued), obs) == nil)
		if dropped {
			return []fail{{"byte-dropped:" + bclass, fmt.Sprintf("byte %q at offset %d starts no lexical element and is silently dropped: %s", text[k], k, lexgen.Describe(run.Toks))}}, "byte-dropped"
		}
		return nil, "badchar-accepted"
	}
	want := lexgen.RefWants(r)
	if run.Err != nil {
		sig := "rejected:ref"
		if len(want) > 0 {
			// attribute to the first element that is rejected on its own
			for i, t := range r.Toks {
				if rr := tokenize(text[t.Off:t.End]); rr.Err != nil {
					sig = "rejected:" + want[i].Sig
					break
				}
			}
			if sig == "rejected:ref" {
				var cl []string
				for _, w := range want {
					cl = append(cl, w.Sig)
				}
				if len(cl) > 3 {
					cl = cl[:3]
				}
				sig = "rejected:" + strings.Join(cl, "|")
			}
		}
		return []fail{{sig, fmt.Sprintf("lexically valid input rejected: %s", firstLine(run.Err))}}, "rejected"
	}
	obs, eofs := lexgen.Expand(run.Toks)
	trailing := len(r.Comments) > 0 && (len(r.Toks) == 0 || r.Comments[len(r.Comments)-1].Off > r.Toks[len(r.Toks)-1].Off)
	fs = append(fs, eofChecks(run.Toks, eofs, trailing)...)
	if d := lexgen.Compare(want, obs); d != nil {
		idx := d.Idx
		if idx < 0 {
			idx = 0
		}
		sig := d.What + ":"
		if len(want) > 0 {
			sig += want[idx].Sig
		} else {
			sig += "empty"
		}
		fs = append(fs, fail{sig, d.Msg + "\ntokens: " + lexgen.Describe(run.Toks)})
		outcome = "diverges:" + d.What
	} else {
		outcome = "ok"
	}
	if len(run.Comments) != len(r.Comments) {
		fs = append(fs, fail{"comment-count", fmt.Sprintf("reference lexer finds %d comments, %d captured", len(r.Comments), len(run.Comments))})
	} else {
		for i, c := range r.Comments {
			if run.Comments[i].Text != c.Text && run.Comments[i].Text != strings.TrimSuffix(c.Text, "\r") {
				style := "block"
				if c.Line {
					style = "line"
				}
				fs = append(fs, fail{"comment-text:" + style, fmt.Sprintf("comment captured as %q, text is %q", run.Comments[i].Text, c.Text)})
			}
		}
	}
	return fs, outcome
}

// report runs an evaluation with the shared tokenizer instance and, if anything fails,
// repeats it with a fresh instance so that a reported failure never depends on what the
// instance processed before.
// emitted counts the failures already emitted per signature by this worker process.  A
// signature that a worker has reported sigCap times adds no information; further cases
// with it are only counted (never when a single case is replayed).
var emitted = map[string]int{}

const sigCap = 48

func emit(c *common.Ctx, fs []fail) {
	for _, f := range fs {
		if !c.Enum().Replaying() && emitted[f.sig] >= sigCap {
			c.Count("failures-not-listed-individually:"+f.sig, 1)
			continue
		}
		emitted[f.sig]++
		c.Fail(f.sig, f.msg)
	}
}

func allCapped(c *common.Ctx, fs []fail) bool {
	if c.Enum().Replaying() {
		return false
	}
	for _, f := range fs {
		if emitted[f.sig] < sigCap {
			return false
		}
	}
	return true
}

func report(c *common.Ctx, eval func(tok func(string) lexgen.Run) ([]fail, string)) {
	// every text is tokenized through both entry points; the oracle is evaluated on Tokenize's
	// result and, whenever TokenizeContext observed anything different, on that one as well
	diverged := false
	fs, out := eval(func(text string) lexgen.Run {
		r := lexgen.TokenizeShared(text)
		if !diverged && !lexgen.SameRun(r, lexgen.TokenizeContextShared(text)) {
			diverged = true
		}
		return r
	})
	if len(fs) > 0 && !allCapped(c, fs) {
		fs, out = eval(lexgen.Tokenize)
	}
	c.Outcome(out)
	emit(c, fs)
	if diverged {
		fs2, out2 := eval(lexgen.TokenizeContext)
		c.Outcome("TokenizeContext-differs:" + out2)
		for i := range fs2 {
			fs2[i].sig += "@TokenizeContext"
			fs2[i].msg = "via TokenizeContext (Tokenize reads the same text differently): " + fs2[i].msg
		}
		emit(c, fs2)
	}
}

// words spelled like keywords, used inside quotes (clause v)
var extraWords = []string{"LATERAL", "ANY", "SOME", "RETURNING", "VALID", "URL", "OWNER", "MEMBER", "POLICY", "UNTIL", "RESET",
	"AUTO_INCREMENT", "DATABASE", "SCHEMA", "TRIGGER", "INTEGER", "VARCHAR", "TEXT", "BOOLEAN", "DATE", "TIMESTAMP",
	"COUNT", "SUM", "MIN", "MAX", "AVG", "USER", "ROLE", "SHOW", "EXPLAIN", "NOLOGIN", "CONNECTOR"}

type quoteStyle struct {
	name        string
	open, close string
	kinds       []models.TokenType
}

var quoteStyles = []quoteStyle{
	{"double", `"`, `"`, []models.TokenType{models.TokenTypeDoubleQuotedString, models.TokenTypeIdentifier}},
	{"backtick", "`", "`", []models.TokenType{models.TokenTypeIdentifier, models.TokenTypeDoubleQuotedString}},
	{"unicode-double", "“", "”", []models.TokenType{models.TokenTypeDoubleQuotedString, models.TokenTypeIdentifier}},
}

// statement templates with one quoted identifier (%s) in identifier position
var quotedTemplates = []struct{ name, sql string }{
	{"select-item", "SELECT %s FROM t1"},
	{"table", "SELECT c1 FROM %s"},
	{"qualifier", "SELECT %s.c1 FROM t1"},
	{"qualified-column", "SELECT t1.%s FROM t1"},
	{"alias", "SELECT c1 AS %s FROM t1"},
	{"where", "SELECT c1 FROM t1 WHERE %s = 1"},
	{"insert-column", "INSERT INTO t1 (%s) VALUES (1)"},
	{"update-set", "UPDATE t1 SET %s = 1"},
}

func parseDump(sql string) (string, error) {
	tk, err := tokenizer.New()
	if err != nil {
		return "", err
	}
	toks, err := tk.Tokenize([]byte(sql))
	if err != nil {
		return "", err
	}
	p := parser.NewParser()
	tree, err := p.ParseFromModelTokens(toks)
	if err != nil {
		return "", err
	}
	return sqlgen.Dump(tree.Statements), nil
}

// Check returns the C04 check.
func Check() *common.Check {
	return &common.Check{
		ID:    "C04",
		Level: "exploration",
		// every case is recorded before it runs: a fatal error or a hang of the worker is attributed to it
		CrashSafe: true,
		Rule: "lexgen catalogue (every documented operator and punctuation mark, numbers, strings with every documented escape, multi-line / Unicode / dollar-quoted strings, " +
			"quoted, backtick and Unicode identifiers, placeholders, keywords in three letter cases): ALL ordered pairs x separator classes (none, space, tab, LF, CRLF, line comment, block comment; their 36 ordered pairs over the reduced alphabet in quick, over all pairs in thorough; " +
			"'none' and comment adjacency only where the reference maximal-munch lexer reads exactly the placed lexemes), ALL triples over the reduced alphabet x separator pairs, every lexeme first/last under every leading/trailing separator, " +
			"every keyword x 3 cases, every catalogue comment x placement, 3-lexeme multi-line layouts, every lexeme x every hostile byte (before and after), all strings of <=3 (quick) / <=4 (thorough) fragments over a 37-fragment alphabet, " +
			"unterminated literals/comments x prefixes, keyword-spelled quoted identifiers x 3 quote styles x 8 statement positions; " +
			"distinct = distinct case key (one rendered input); non-trivial = the input has an adjacency without white space, a comment, a line break, a quoted/escaped literal or a multi-character operator, and is not skipped as inadmissible/ambiguous",
		Assume: []string{
			"the lexeme catalogue and the reference lexer (lexgen) state the lexical grammar documented in pkg/sql/tokenizer/doc.go and pkg/models/token_type.go; they are cross-checked against each other at start-up",
			"where two readings are defensible (keyword-specific vs generic keyword kind, compound keyword tokens, '''x''' as triple-quoted or doubled quotes, guillemets as string or identifier, \\r of a CRLF-terminated line comment, operator spellings known to pkg/models but not to the tokenizer, '1.', '.5', 'N'x'', '$' alone) both are accepted or nothing is asserted",
			"compound keyword tokens are expanded into their words the way the parser's converter does before sequences are compared",
			"small-scope hypothesis above pairs / reduced triples",
		},
		Enumerate: enumerate,
	}
}

func nonTrivial(in *lexgen.Input) bool {
	if len(in.Cmts) > 0 || strings.ContainsAny(in.Text, "\n\t") {
		return true
	}
	for i := range in.Lexes {
		l := in.Lexeme(i).Lex
		if i > 0 && in.Gaps[i].Empty {
			return true
		}
		switch l.Class {
		case "str", "gstr", "tstr", "dstr", "qident", "btident":
			return true
		case "op":
			if len(l.Text) > 1 {
				return true
			}
		}
	}
	return false
}

func enumerate(e *common.Enum) {
	// (1)-(6) shared lexical space
	lexgen.Space(e.Thorough(), func(cs lexgen.Case) {
		if !e.Mine(cs.Key) {
			return
		}
		in, base := cs.Build()
		if ok, why := in.Admissible(); !ok {
			e.Count("inadmissible:"+cs.Space+":"+skipClass(why), 1)
			return
		}
		e.Do(cs.Key, func(c *common.Ctx) {
			c.Input(in.Text)
			c.Sample(in.Text)
			report(c, func(tok func(string) lexgen.Run) ([]fail, string) { return evalInput(in, base, tok) })
			if nonTrivial(in) {
				c.NonTrivial()
			}
		})
	})

	// (7) every lexeme followed / preceded by every hostile byte
	for _, l := range lexgen.Cat() {
		for _, b := range lexgen.HostileBytes() {
			for side := 0; side < 2; side++ {
				l, b, side := l, b, side
				key := fmt.Sprintf("H|%s|%02x|%d", l.Name, b, side)
				e.Do(key, func(c *common.Ctx) {
					text := l.Text + string([]byte{b})
					if side == 1 {
						text = string([]byte{b}) + l.Text
					}
					c.Input(text)
					report(c, func(tok func(string) lexgen.Run) ([]fail, string) {
						fs, out := evalRef(text, byteClass(b), tok)
						return fs, "hostile:" + out
					})
					c.NonTrivial()
				})
			}
		}
	}

	// (8) all strings of up to N fragments
	maxLen := 3
	if e.Thorough() {
		maxLen = 4
	}
	var rec func(prefix string, key string, depth int)
	rec = func(prefix, key string, depth int) {
		if depth > 0 {
			text := prefix
			e.Do("F|"+key, func(c *common.Ctx) {
				c.Input(text)
				report(c, func(tok func(string) lexgen.Run) ([]fail, string) {
					fs, out := evalRef(text, "frag", tok)
					return fs, "frag:" + out
				})
				if depth > 1 {
					c.NonTrivial()
				}
			})
		}
		if depth == maxLen {
			return
		}
		for i, f := range lexgen.Fragments() {
			rec(prefix+f, fmt.Sprintf("%s%02d", key, i), depth+1)
		}
	}
	rec("", "", 0)

	// (9) unterminated string / quoted identifier / dollar quote / block comment is an error
	lexgen.Unterminated(func(u lexgen.Unterm) {
		e.Do(u.Key, func(c *common.Ctx) {
			c.Input(u.Text)
			report(c, func(tok func(string) lexgen.Run) ([]fail, string) {
				run := tok(u.Text)
				if run.Err == nil {
					return []fail{{"unterminated-accepted:" + u.What, fmt.Sprintf("input ending inside an unterminated %s is accepted: %s", u.What, lexgen.Describe(run.Toks))}}, "unterminated-accepted"
				}
				return nil, "unterminated-rejected"
			})
			c.NonTrivial()
		})
	})

	// (10) quoted identifiers never acquire a keyword kind, neither in the token stream nor after the
	// parser's token conversion (observed through ParseFromModelTokens)
	words := append(append([]string{}, lexgen.AllKeywords()...), extraWords...)
	for _, w := range words {
		for _, variant := range []string{strings.ToLower(w), w} {
			for _, q := range quoteStyles {
				w, variant, q := w, variant, q
				quoted := q.open + variant + q.close
				e.Do("Q|tok|"+q.name+"|"+variant, func(c *common.Ctx) {
					c.Input(quoted)
					report(c, func(tok func(string) lexgen.Run) ([]fail, string) {
						run := tok(quoted)
						if run.Err != nil {
							return []fail{{"rejected:quoted-keyword:" + q.name, "quoted identifier rejected: " + firstLine(run.Err)}}, "rejected"
						}
						obs, _ := lexgen.Expand(run.Toks)
						want := []lexgen.Want{{Sig: "quoted-keyword:" + q.name, Class: "qident", Exp: []lexgen.Expect{{Kinds: q.kinds, Value: variant}}}}
						if d := lexgen.Compare(want, obs); d != nil {
							sig := d.What + ":quoted-keyword:" + q.name
							if len(obs) > 0 && lexgen.IsKeywordKind(obs[0].Type) {
								sig = "quoted-ident-keyword:" + q.name
							}
							return []fail{{sig, d.Msg}}, "diverges"
						}
						return nil, "ok"
					})
					c.NonTrivial()
				})
				for _, t := range quotedTemplates {
					t := t
					e.Do("Q|parse|"+q.name+"|"+t.name+"|"+variant, func(c *common.Ctx) {
						sql := fmt.Sprintf(t.sql, quoted)
						ref := fmt.Sprintf(t.sql, q.open+"zq"+q.close)
						c.Input(sql)
						refDump, err := parseDump(ref)
						if err != nil {
							c.Outcome("quoted:baseline-rejected") // the position itself is not supported: nothing to compare with
							return
						}
						got, err := parseDump(sql)
						if err != nil {
							c.Outcome("quoted:rejected")
							emit(c, []fail{{"quoted-ident-retyped:" + q.name + ":rejected", fmt.Sprintf("%q is rejected (%s) although %q parses: the quoted identifier %s is not kept distinct from the keyword %s", sql, firstLine(err), ref, quoted, w)}})
							return
						}
						if strings.ReplaceAll(refDump, "zq", variant) != got {
							c.Outcome("quoted:tree-differs")
							emit(c, []fail{{"quoted-ident-retyped:" + q.name + ":tree", fmt.Sprintf("%q parses to a different tree than %q: %s", sql, ref, sqlgen.FirstDiff(strings.ReplaceAll(refDump, "zq", variant), got))}})
							return
						}
						c.Outcome("quoted:ok")
						c.NonTrivial()
					})
				}
			}
		}
	}
}
