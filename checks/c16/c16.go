// Package c16 checks property C16 (injection findings are context-closed, layout-invariant and self-consistent).
package c16

import (
	"fmt"
	"sort"
	"strings"

	"github.com/ajitpratap0/GoSQLX/pkg/gosqlx"
	textsec "github.com/ajitpratap0/GoSQLX/pkg/security"
	"github.com/ajitpratap0/GoSQLX/pkg/sql/security"

	"verif/engine/common"
	"verif/sqlgen"
)

// payload is a documented injection payload as an expression of the model grammar.
type payload struct {
	name  string
	class string // tautology | time | oob
	cond  bool   // a condition (only meaningful in condition positions) vs a call (any expression position)
	x     func() sqlgen.X
	// documented (pattern, severity) of the tree scanner for the canonical position
	pattern  security.PatternType
	severity security.Severity
}

func payloads() []payload {
	call := func(name string, args ...sqlgen.X) func() sqlgen.X {
		return func() sqlgen.X { return sqlgen.Func(name, args, sqlgen.FuncOpts{}) }
	}
	return []payload{
		{"1=1", "tautology", true, func() sqlgen.X { return sqlgen.Bin("=", sqlgen.Int("1"), sqlgen.Int("1")) }, security.PatternTautology, security.SeverityCritical},
		{"'a'='a'", "tautology", true, func() sqlgen.X { return sqlgen.Bin("=", sqlgen.Str("a"), sqlgen.Str("a")) }, security.PatternTautology, security.SeverityCritical},
		// other literals of the documented "same literal on both sides" rule (1=1, 2=2, 'a'='a', etc.): every kind of literal, the
		// values a representation could confuse with "absent" (empty text, zero, blank) included
		{"2=2", "tautology", true, func() sqlgen.X { return sqlgen.Bin("=", sqlgen.Int("2"), sqlgen.Int("2")) }, security.PatternTautology, security.SeverityCritical},
		{"0=0", "tautology", true, func() sqlgen.X { return sqlgen.Bin("=", sqlgen.Int("0"), sqlgen.Int("0")) }, security.PatternTautology, security.SeverityCritical},
		{"''=''", "tautology", true, func() sqlgen.X { return sqlgen.Bin("=", sqlgen.Str(""), sqlgen.Str("")) }, security.PatternTautology, security.SeverityCritical},
		{"' '=' '", "tautology", true, func() sqlgen.X { return sqlgen.Bin("=", sqlgen.Str(" "), sqlgen.Str(" ")) }, security.PatternTautology, security.SeverityCritical},
		{"'1'='1'", "tautology", true, func() sqlgen.X { return sqlgen.Bin("=", sqlgen.Str("1"), sqlgen.Str("1")) }, security.PatternTautology, security.SeverityCritical},
		{"1.5=1.5", "tautology", true, func() sqlgen.X { return sqlgen.Bin("=", sqlgen.Float("1.5"), sqlgen.Float("1.5")) }, security.PatternTautology, security.SeverityCritical},
		{"'admin'='admin'", "tautology", true, func() sqlgen.X { return sqlgen.Bin("=", sqlgen.Str("admin"), sqlgen.Str("admin")) }, security.PatternTautology, security.SeverityCritical},
		{"c=c", "tautology", true, func() sqlgen.X { return sqlgen.Bin("=", sqlgen.Col("c5"), sqlgen.Col("c5")) }, security.PatternTautology, security.SeverityCritical},
		{"x OR 1=1", "tautology", true, func() sqlgen.X {
			return sqlgen.Bin("OR", sqlgen.Bin("=", sqlgen.Col("c5"), sqlgen.Int("7")), sqlgen.Bin("=", sqlgen.Int("1"), sqlgen.Int("1")))
		}, security.PatternTautology, security.SeverityCritical},
		{"SLEEP", "time", false, call("SLEEP", sqlgen.Int("5")), security.PatternTimeBased, security.SeverityHigh},
		{"pg_sleep", "time", false, call("pg_sleep", sqlgen.Int("5")), security.PatternTimeBased, security.SeverityHigh},
		{"BENCHMARK", "time", false, call("BENCHMARK", sqlgen.Int("1000000"), sqlgen.Func("MD5", []sqlgen.X{sqlgen.Str("x")}, sqlgen.FuncOpts{})), security.PatternTimeBased, security.SeverityHigh},
		{"LOAD_FILE", "oob", false, call("LOAD_FILE", sqlgen.Str("/etc/passwd")), security.PatternOutOfBand, security.SeverityCritical},
		{"xp_cmdshell", "oob", false, call("xp_cmdshell", sqlgen.Str("dir")), security.PatternOutOfBand, security.SeverityCritical},
		{"sp_executesql", "oob", false, call("sp_executesql", sqlgen.Str("q")), security.PatternOutOfBand, security.SeverityCritical},
		// other spellings of the documented names
		{"sleep", "time", false, call("sleep", sqlgen.Int("5")), security.PatternTimeBased, security.SeverityHigh},
		{"Pg_Sleep", "time", false, call("Pg_Sleep", sqlgen.Int("5")), security.PatternTimeBased, security.SeverityHigh},
		{"load_file", "oob", false, call("load_file", sqlgen.Str("/etc/passwd")), security.PatternOutOfBand, security.SeverityCritical},
		{"XP_CmdShell", "oob", false, call("XP_CmdShell", sqlgen.Str("dir")), security.PatternOutOfBand, security.SeverityCritical},
		// payloads nested in one another's arguments: findings of different severities from one expression
		{"BENCHMARK(LOAD_FILE)", "oob", false, call("BENCHMARK", sqlgen.Int("1000000"), sqlgen.Func("LOAD_FILE", []sqlgen.X{sqlgen.Str("/etc/passwd")}, sqlgen.FuncOpts{})), security.PatternOutOfBand, security.SeverityCritical},
		{"SLEEP((xp_cmdshell))", "oob", false, call("SLEEP", sqlgen.Extra(sqlgen.Func("xp_cmdshell", []sqlgen.X{sqlgen.Str("dir")}, sqlgen.FuncOpts{}), 1)), security.PatternOutOfBand, security.SeverityCritical},
		{"LOAD_FILE(SLEEP)", "time", false, call("LOAD_FILE", sqlgen.Func("SLEEP", []sqlgen.X{sqlgen.Int("5")}, sqlgen.FuncOpts{})), security.PatternTimeBased, security.SeverityHigh},
		{"f(g(pg_sleep))", "time", false, call("f1", call("f2", sqlgen.Func("pg_sleep", []sqlgen.X{sqlgen.Int("5")}, sqlgen.FuncOpts{}))()), security.PatternTimeBased, security.SeverityHigh},
	}
}

// condition positions among sqlgen.Holes()
var condHole = map[string]bool{"select.where": true, "select.having": true, "select.join-on": true, "select.join2-on": true, "call.filter": true, "case.condition": true,
	"subquery.where": true, "derived.where": true, "cte.where": true, "setop.right.where": true, "insert.select.where": true, "insert.on-conflict.where": true,
	"update.where": true, "delete.where": true, "merge.on": true, "merge.when-condition": true, "create-view.where": true}

// wrappers embed a condition payload as an operand of AND / OR / NOT / parentheses.
type wrapper struct {
	name string
	f    func(p sqlgen.X) sqlgen.X
	// plain is set for the members of the unary-operator family only: the same host without the unary operators.  The
	// family's oracle is "reported in the plain host => reported under the operators" (one signature per API and class).
	plain func(p sqlgen.X) sqlgen.X
}

// unaryOps are the unary operators the parser accepts in an expression.  ast.UnaryOperator lists seven more (~ |/ ||/ !! @
// postfix ! and Hive's !): the unchanged parser rejects every one of them in front of a call or a parenthesised condition
// (probed with cmd/probe), so no host can be built for them.
var unaryOps = []string{"-", "+", "NOT"}

// unaryChains returns every sequence (outermost first) of 1..maxLen unary operators that has at least one sign; the pure NOT
// chains belong to the boolean wrappers above.
func unaryChains(maxLen int) [][]string {
	var out [][]string
	var rec func(cur []string)
	rec = func(cur []string) {
		if len(cur) > 0 {
			for _, o := range cur {
				if o != "NOT" {
					out = append(out, append([]string{}, cur...))
					break
				}
			}
		}
		if len(cur) == maxLen {
			return
		}
		for _, o := range unaryOps {
			rec(append(cur, o))
		}
	}
	rec(nil)
	return out
}

func underChain(chain []string, x sqlgen.X) sqlgen.X {
	for i := len(chain) - 1; i >= 0; i-- {
		if chain[i] == "NOT" {
			x = sqlgen.Not(x)
		} else {
			x = sqlgen.Neg(chain[i], x)
		}
	}
	return x
}

// unaryWrappers is the unary-operator family: every chain of unaryChains(maxLen) x the payload directly under it / inside
// redundant parentheses x three places of the signed operand in the condition (the whole condition, the right operand of a
// comparison, the right operand of AND).  sqlgen writes a sign above a sign as -(-x), never as the comment opener '--'.
func unaryWrappers(maxLen int, placed bool) []wrapper {
	places := []wrapper{
		{name: "whole", f: func(x sqlgen.X) sqlgen.X { return x }},
		{name: "cmp-right", f: func(x sqlgen.X) sqlgen.X { return sqlgen.Bin("=", sqlgen.Col("c9"), x) }},
		{name: "and-right", f: func(x sqlgen.X) sqlgen.X {
			return sqlgen.Bin("AND", sqlgen.Bin("=", sqlgen.Col("c8"), sqlgen.Int("3")), x)
		}},
	}
	if !placed {
		places = places[:1]
	}
	var out []wrapper
	for _, chain := range unaryChains(maxLen) {
		for _, par := range []int{0, 1} {
			for _, pl := range places {
				chain, par, pl := chain, par, pl
				inner := func(p sqlgen.X) sqlgen.X {
					if par > 0 {
						return sqlgen.Extra(p, par)
					}
					return p
				}
				out = append(out, wrapper{
					name:  fmt.Sprintf("unary:%s/parens=%d/%s", strings.Join(chain, ""), par, pl.name),
					f:     func(p sqlgen.X) sqlgen.X { return pl.f(underChain(chain, inner(p))) },
					plain: func(p sqlgen.X) sqlgen.X { return pl.f(inner(p)) },
				})
			}
		}
	}
	return out
}

var wrappers = []wrapper{
	{name: "bare", f: func(p sqlgen.X) sqlgen.X { return p }},
	{name: "and-right", f: func(p sqlgen.X) sqlgen.X {
		return sqlgen.Bin("AND", sqlgen.Bin("=", sqlgen.Col("c8"), sqlgen.Int("3")), p)
	}},
	{name: "and-left", f: func(p sqlgen.X) sqlgen.X {
		return sqlgen.Bin("AND", p, sqlgen.Bin("=", sqlgen.Col("c8"), sqlgen.Int("3")))
	}},
	{name: "or-right", f: func(p sqlgen.X) sqlgen.X {
		return sqlgen.Bin("OR", sqlgen.Bin("=", sqlgen.Col("c8"), sqlgen.Int("3")), p)
	}},
	{name: "not", f: func(p sqlgen.X) sqlgen.X { return sqlgen.Not(p) }},
	{name: "parens", f: func(p sqlgen.X) sqlgen.X { return sqlgen.Extra(p, 1) }},
	{name: "and-parens", f: func(p sqlgen.X) sqlgen.X { return sqlgen.Bin("AND", sqlgen.Col("c8"), sqlgen.Extra(p, 2)) }},
	{name: "or-left", f: func(p sqlgen.X) sqlgen.X {
		return sqlgen.Bin("OR", p, sqlgen.Bin("=", sqlgen.Col("c8"), sqlgen.Int("3")))
	}},
	{name: "not-or-left", f: func(p sqlgen.X) sqlgen.X {
		return sqlgen.Bin("OR", sqlgen.Not(sqlgen.Extra(p, 1)), sqlgen.Bin("=", sqlgen.Col("c8"), sqlgen.Int("3")))
	}},
	{name: "chain-leftmost", f: func(p sqlgen.X) sqlgen.X {
		return sqlgen.Bin("AND", sqlgen.Bin("AND", p, sqlgen.Col("c7")), sqlgen.Bin("=", sqlgen.Col("c8"), sqlgen.Int("3")))
	}},
	{name: "deep", f: func(p sqlgen.X) sqlgen.X {
		return sqlgen.Bin("AND", sqlgen.Col("c8"), sqlgen.Bin("OR", sqlgen.Col("c7"), sqlgen.Bin("AND", sqlgen.Not(sqlgen.Col("c6")), p)))
	}},
	{name: "deep-left", f: func(p sqlgen.X) sqlgen.X {
		return sqlgen.Bin("OR", sqlgen.Bin("AND", sqlgen.Bin("OR", p, sqlgen.Col("c6")), sqlgen.Col("c7")), sqlgen.Col("c8"))
	}},
}

type key struct{ pat, sev string }

func multiset(ks []key) map[key]int {
	m := map[key]int{}
	for _, k := range ks {
		m[k]++
	}
	return m
}

func show(m map[key]int) string {
	var out []string
	for k, n := range m {
		out = append(out, fmt.Sprintf("%s/%s x%d", k.pat, k.sev, n))
	}
	sort.Strings(out)
	return "[" + strings.Join(out, ", ") + "]"
}

func superset(got, want map[key]int) bool {
	for k, n := range want {
		if got[k] < n {
			return false
		}
	}
	return true
}

func equal(a, b map[key]int) bool { return superset(a, b) && superset(b, a) }

// api is one scanner API.
type api struct {
	name string
	scan func(sql string, min security.Severity) ([]key, *security.ScanResult, error)
}

var thresholds = []security.Severity{security.SeverityLow, security.SeverityMedium, security.SeverityHigh, security.SeverityCritical}

var sevRank = map[string]int{"LOW": 1, "MEDIUM": 2, "HIGH": 3, "CRITICAL": 4}

func apis() []api {
	return []api{
		{"tree", func(sql string, min security.Severity) ([]key, *security.ScanResult, error) {
			tree, err := gosqlx.Parse(sql)
			if err != nil {
				return nil, nil, err
			}
			before := sqlgen.Dump(tree.Statements)
			sc, err := security.NewScannerWithSeverity(min)
			if err != nil {
				return nil, nil, err
			}
			r := sc.Scan(tree)
			if sqlgen.Dump(tree.Statements) != before {
				return nil, r, fmt.Errorf("scan-modified-tree")
			}
			var ks []key
			for _, f := range r.Findings {
				ks = append(ks, key{string(f.Pattern), string(f.Severity)})
			}
			return ks, r, nil
		}},
		{"text", func(sql string, min security.Severity) ([]key, *security.ScanResult, error) {
			sc, err := security.NewScannerWithSeverity(min)
			if err != nil {
				return nil, nil, err
			}
			r := sc.ScanSQL(sql)
			var ks []key
			for _, f := range r.Findings {
				ks = append(ks, key{string(f.Pattern), string(f.Severity)})
			}
			return ks, r, nil
		}},
		{"cli-text", func(sql string, min security.Severity) ([]key, *security.ScanResult, error) {
			var ks []key
			for _, f := range textsec.NewScanner().Scan(sql) {
				if sevRank[strings.ToUpper(f.Severity.String())] >= sevRank[string(min)] || sevRank[strings.ToUpper(f.Severity.String())] == 0 {
					ks = append(ks, key{f.RuleID, strings.ToUpper(f.Severity.String())})
				}
			}
			return ks, nil, nil
		}},
	}
}

func safeScan(a api, sql string, min security.Severity) (ks []key, r *security.ScanResult, err error, pan string) {
	defer func() {
		if p := recover(); p != nil {
			pan = fmt.Sprint(p)
		}
	}()
	ks, r, err = a.scan(sql, min)
	return
}

func counts(r *security.ScanResult) string {
	c := map[security.Severity]int{}
	for _, f := range r.Findings {
		c[f.Severity]++
	}
	if r.TotalCount != len(r.Findings) || r.CriticalCount != c[security.SeverityCritical] || r.HighCount != c[security.SeverityHigh] ||
		r.MediumCount != c[security.SeverityMedium] || r.LowCount != c[security.SeverityLow] {
		return fmt.Sprintf("total=%d critical=%d high=%d medium=%d low=%d but the list has %d findings %v", r.TotalCount, r.CriticalCount, r.HighCount, r.MediumCount, r.LowCount, len(r.Findings), c)
	}
	return ""
}

var allAPIs = apis()

// enumerateScripts: a payload in a statement of a script is a position like any other.  Every ordered script of 2 and 3
// statements over the payload statements (each payload as the WHERE condition of a SELECT, an UPDATE and a DELETE) and two
// clean statements: counts equal the findings listed (every API, every threshold), and for the tree scanner the findings of
// the script are exactly the findings of its statements scanned one by one.
func enumerateScripts(e *common.Enum) {
	var stmts []string
	names := map[string]string{}
	add := func(name string, st sqlgen.S) {
		sql := st.SQL()
		if _, ok := names[sql]; !ok {
			names[sql] = name
			stmts = append(stmts, sql)
		}
	}
	xp := func(v sqlgen.X) *sqlgen.X { return &v }
	add("clean-select", sqlgen.Sel{Items: []sqlgen.SelItem{{X: sqlgen.Col("c1")}}, From: []sqlgen.TableRef{{Name: "t1"}}, Where: xp(sqlgen.Bin("=", sqlgen.Col("c1"), sqlgen.Int("7")))}.Build())
	add("clean-insert", sqlgen.Ins{Table: "t1", Cols: []string{"c1"}, Rows: [][]sqlgen.X{{sqlgen.Int("1")}}}.Build())
	for _, p := range payloads()[:12] {
		x := p.x()
		if !p.cond {
			x = sqlgen.Bin("=", sqlgen.Col("c9"), x)
		}
		add("select:"+p.name, sqlgen.Sel{Items: []sqlgen.SelItem{{X: sqlgen.Col("c1")}}, From: []sqlgen.TableRef{{Name: "t1"}}, Where: xp(x)}.Build())
		add("delete:"+p.name, sqlgen.Del{Table: "t1", Where: xp(x)}.Build())
	}
	run := func(script []string) {
		text := strings.Join(script, "; ")
		var ns []string
		for _, s := range script {
			ns = append(ns, names[s])
		}
		e.Do("script|"+text, func(c *common.Ctx) {
			c.Input(text)
			for _, a := range allAPIs {
				for _, min := range thresholds {
					ks, r, err, pan := safeScan(a, text, min)
					if pan != "" {
						c.Fail("panic:"+a.name, pan)
						return
					}
					if err != nil {
						if err.Error() == "scan-modified-tree" {
							c.Fail("scan-modified-tree:"+a.name+":script", "the scan changed the tree of a script")
						}
						continue
					}
					if r != nil {
						if msg := counts(r); msg != "" {
							c.Fail("counts-mismatch:"+a.name+":script", fmt.Sprintf("threshold %s, script of %d statements (%s): %s", min, len(script), strings.Join(ns, "; "), msg))
							return
						}
					}
					if a.name != "tree" {
						continue
					}
					var sum []key
					ok := true
					for _, s := range script {
						k1, _, e1, p1 := safeScan(a, s, min)
						if e1 != nil || p1 != "" {
							ok = false
							break
						}
						sum = append(sum, k1...)
					}
					if ok && show(multiset(ks)) != show(multiset(sum)) {
						c.Fail("script-not-compositional:tree", fmt.Sprintf("threshold %s: the script (%s) gives %s, its statements one by one give %s", min, strings.Join(ns, "; "), show(multiset(ks)), show(multiset(sum))))
						return
					}
				}
			}
			c.Outcome("script")
			c.NonTrivial()
		})
	}
	for _, a := range stmts {
		for _, b := range stmts {
			run([]string{a, b})
		}
	}
	// three statements: a reduced set (two clean, the first four payload statements)
	small := stmts
	if len(small) > 6 {
		small = small[:6]
	}
	for _, a := range small {
		for _, b := range small {
			for _, c3 := range small {
				run([]string{a, b, c3})
			}
		}
	}
}

// enumerateUnion covers the statement-level payloads: UNION probing with NULL columns and with system tables.
// The canonical position is the right operand of a top-level 'SELECT c1 FROM t1 UNION <probe>'; the other positions
// put the same set operation wherever a query can stand.  Letter case of the table name, of NULL and of the keywords,
// the ALL modifier and the layouts must not matter.
func enumerateUnion(e *common.Enum) {
	type probe struct {
		name, class string
		right       func(spell func(string) string) sqlgen.S
		sev         security.Severity
	}
	sel := func(items []sqlgen.X, schema, table string) sqlgen.S {
		var its []sqlgen.SelItem
		for _, x := range items {
			its = append(its, sqlgen.SelItem{X: x})
		}
		return sqlgen.Sel{Items: its, From: []sqlgen.TableRef{{Schema: schema, Name: table}}}.Build()
	}
	var probes []probe
	for _, n := range []int{2, 3, 5} {
		n := n
		probes = append(probes, probe{fmt.Sprintf("null-x%d", n), "null", func(spell func(string) string) sqlgen.S {
			var xs []sqlgen.X
			for i := 0; i < n; i++ {
				xs = append(xs, sqlgen.Null())
			}
			return sel(xs, "", "t2")
		}, security.SeverityHigh})
	}
	// arms that mix NULL placeholders with other columns and with call payloads, NULLs before and after them
	for _, mx := range []struct {
		name string
		xs   func() []sqlgen.X
	}{
		{"col,NULL", func() []sqlgen.X { return []sqlgen.X{sqlgen.Col("c2"), sqlgen.Null()} }},
		{"col,NULL,NULL", func() []sqlgen.X { return []sqlgen.X{sqlgen.Col("c2"), sqlgen.Null(), sqlgen.Null()} }},
		{"NULL,NULL,col", func() []sqlgen.X { return []sqlgen.X{sqlgen.Null(), sqlgen.Null(), sqlgen.Col("c2")} }},
		{"1,NULL,col", func() []sqlgen.X { return []sqlgen.X{sqlgen.Int("1"), sqlgen.Null(), sqlgen.Col("c2")} }},
		{"LOAD_FILE,NULL,NULL", func() []sqlgen.X {
			return []sqlgen.X{sqlgen.Func("LOAD_FILE", []sqlgen.X{sqlgen.Str("/etc/passwd")}, sqlgen.FuncOpts{}), sqlgen.Null(), sqlgen.Null()}
		}},
		{"NULL,SLEEP,NULL", func() []sqlgen.X {
			return []sqlgen.X{sqlgen.Null(), sqlgen.Func("SLEEP", []sqlgen.X{sqlgen.Int("5")}, sqlgen.FuncOpts{}), sqlgen.Null()}
		}},
	} {
		mx := mx
		probes = append(probes, probe{"mixed:" + mx.name, "mixed", func(spell func(string) string) sqlgen.S { return sel(mx.xs(), "", "t2") }, ""})
	}
	for _, st := range [][2]string{{"information_schema", "columns"}, {"information_schema", "schemata"}, {"pg_catalog", "pg_class"}, {"", "pg_shadow"}, {"sys", "objects"},
		{"mysql", "user"}, {"", "sqlite_master"}, {"msdb", "backupset"}, {"tempdb", "sysobjects"}} {
		st := st
		probes = append(probes, probe{"systable:" + strings.Trim(st[0]+"."+st[1], "."), "systable", func(spell func(string) string) sqlgen.S {
			return sel([]sqlgen.X{sqlgen.Col("c2")}, spell(st[0]), spell(st[1]))
		}, security.SeverityCritical})
	}
	spellings := []struct {
		name string
		f    func(string) string
	}{
		{"lower", strings.ToLower}, {"upper", strings.ToUpper},
		{"mixed", func(s string) string {
			b := []byte(strings.ToLower(s))
			for i := 0; i < len(b); i += 2 {
				if b[i] >= 'a' && b[i] <= 'z' {
					b[i] -= 32
				}
			}
			return string(b)
		}},
	}
	left := sqlgen.Sel{Items: []sqlgen.SelItem{{X: sqlgen.Col("c1")}}, From: []sqlgen.TableRef{{Name: "t1"}}}.Build()
	xp := func(v sqlgen.X) *sqlgen.X { return &v }
	hosts := []struct {
		name string
		f    func(u sqlgen.S) sqlgen.S
	}{
		{"top", func(u sqlgen.S) sqlgen.S { return u }},
		{"chain-last", nil}, // built below: L UNION M UNION probe
		{"in-subquery", func(u sqlgen.S) sqlgen.S {
			return sqlgen.Sel{Items: []sqlgen.SelItem{{X: sqlgen.Col("c0")}}, From: []sqlgen.TableRef{{Name: "t0"}}, Where: xp(sqlgen.InSub(sqlgen.Col("c0"), false, u))}.Build()
		}},
		{"exists", func(u sqlgen.S) sqlgen.S {
			return sqlgen.Sel{Items: []sqlgen.SelItem{{X: sqlgen.Col("c0")}}, From: []sqlgen.TableRef{{Name: "t0"}}, Where: xp(sqlgen.Exists(false, u))}.Build()
		}},
		{"cte-body", func(u sqlgen.S) sqlgen.S {
			return sqlgen.Sel{With: &sqlgen.With{CTEs: []sqlgen.CTE{{Name: "w1", Body: u}}}, Items: []sqlgen.SelItem{{X: sqlgen.Star()}}, From: []sqlgen.TableRef{{Name: "w1"}}}.Build()
		}},
		{"insert-select", func(u sqlgen.S) sqlgen.S { return sqlgen.Ins{Table: "t0", Cols: []string{"c1"}, Query: &u}.Build() }},
		{"create-view", func(u sqlgen.S) sqlgen.S { return sqlgen.CreateView{Name: "v1", Query: u}.Build() }},
		{"script-second", func(u sqlgen.S) sqlgen.S {
			toks := append(append(append([]sqlgen.Tok{}, left.Toks...), sqlgen.Tok{S: ";"}), u.Toks...)
			return sqlgen.S{Toks: toks, Kind: "script"}
		}},
	}
	for _, pr := range probes {
		for _, all := range []bool{false, true} {
			for _, h := range hosts {
				pr, all, h := pr, all, h
				ckey := fmt.Sprintf("union|%s|all=%v|%s", pr.name, all, h.name)
				e.Do(ckey, func(c *common.Ctx) {
					build := func(spell func(string) string) sqlgen.S {
						u := sqlgen.SetOp(left, "UNION", all, pr.right(spell))
						if h.name == "chain-last" {
							mid := sqlgen.Sel{Items: []sqlgen.SelItem{{X: sqlgen.Col("c3")}}, From: []sqlgen.TableRef{{Name: "t3"}}}.Build()
							return sqlgen.SetOp(sqlgen.SetOp(left, "UNION", false, mid), "UNION", all, pr.right(spell))
						}
						return h.f(u)
					}
					canonSQL := sqlgen.SetOp(left, "UNION", false, pr.right(strings.ToLower)).SQL()
					c.Input(build(strings.ToLower).SQL())
					ok := true
					for _, a := range apis() {
						cks, _, cerr, cpan := safeScan(a, canonSQL, security.SeverityLow)
						if cerr != nil && cerr.Error() == "scan-modified-tree" {
							ok = false
							c.Fail("scan-modified-tree:"+a.name+":union:"+pr.class, "scanning changed the tree of "+canonSQL)
							continue
						}
						if cpan != "" || cerr != nil {
							continue // C01's / C03's business
						}
						cm := multiset(cks)
						// scanning the same tree twice gives the same findings (a scan that edits the tree shows here too)
						if a.name == "tree" {
							if t, err := gosqlx.Parse(canonSQL); err == nil {
								sc := security.NewScanner()
								r1 := fmt.Sprint(sc.Scan(t).Findings)
								r2 := fmt.Sprint(security.NewScanner().Scan(t).Findings)
								if r1 != r2 {
									ok = false
									c.Fail("rescan-differs:tree:union:"+pr.class, fmt.Sprintf("two scans of one tree differ for %s\n first:  %s\n second: %s", canonSQL, common.Trim(r1, 300), common.Trim(r2, 300)))
								}
							}
						}
						if a.name == "tree" && pr.sev != "" {
							if cm[key{string(security.PatternUnionBased), string(pr.sev)}] == 0 {
								ok = false
								c.Fail("canonical-missing:tree:union:"+pr.class, fmt.Sprintf("the documented UNION probe is not reported as %s/%s in the canonical position: %s gives %s", security.PatternUnionBased, pr.sev, canonSQL, show(cm)))
							} else {
								c.NonTrivial()
							}
						}
						var base map[key]int
						for _, sp := range spellings {
							st := build(sp.f)
							for l := 0; l < 3; l++ {
								sql := sqlgen.Render(st.Toks, l)
								ks, res, err, pan := safeScan(a, sql, security.SeverityLow)
								if err != nil && err.Error() == "scan-modified-tree" {
									ok = false
									c.Fail("scan-modified-tree:"+a.name+":union:"+pr.class, "scanning changed the tree of "+sql)
									continue
								}
								if pan != "" || err != nil {
									continue
								}
								m := multiset(ks)
								if sp.name == "lower" && l == 0 {
									base = m
									if !superset(m, cm) {
										ok = false
										c.Fail("not-closed:"+a.name+":union:"+pr.class+"@union-host:"+h.name, fmt.Sprintf("UNION probe reported as %s in the canonical position but only %s here:\n %s", show(cm), show(m), sql))
									}
									for _, min := range thresholds[1:] {
										tks, _, terr, _ := safeScan(a, sql, min)
										if terr != nil {
											continue
										}
										want := map[key]int{}
										for k, n := range m {
											if sevRank[k.sev] >= sevRank[string(min)] {
												want[k] = n
											}
										}
										if !equal(multiset(tks), want) {
											ok = false
											c.Fail("threshold:"+a.name+":"+string(min), fmt.Sprintf("threshold %s gives %s, the LOW-threshold findings of that severity or above are %s\n %s", min, show(multiset(tks)), show(want), sql))
										}
									}
									if res != nil {
										if msg := counts(res); msg != "" {
											ok = false
											c.Fail("counts:"+a.name, msg)
										}
									}
								} else if base != nil && !equal(m, base) {
									ok = false
									what := "layout-variance"
									if sp.name != "lower" {
										what = "case-variance"
									}
									feat := fmt.Sprintf("layout:%d", l)
									if sp.name != "lower" {
										feat = "spelling:" + sp.name
									}
									c.Fail(what+":"+a.name+":union:"+pr.class+"@"+feat, fmt.Sprintf("spelling %s / layout %d gives %s, the lower-case natural text %s:\n %s", sp.name, l, show(m), show(base), sql))
								}
							}
						}
					}
					if ok {
						c.Outcome("ok:union:" + pr.class)
					} else {
						c.Outcome("fails:union:" + pr.class)
					}
				})
			}
		}
	}
}

// Check returns the C16 check.
func Check() *common.Check {
	return &common.Check{
		ID:    "C16",
		Level: "exploration",
		// every case is recorded before it runs: a fatal error or a hang of the worker is attributed to it
		CrashSafe: true,
		Rule: "scripts: every ordered script of 2 statements over 26 statements (two clean ones, 12 payloads as the WHERE condition of a SELECT and of a DELETE) and of 3 statements over six of them - counts equal the findings listed for every API and threshold, and the tree scanner reports for a script exactly what it reports for its statements one by one; 18 payloads built from the documented ones (4 tautologies, 3 time-delay calls, 3 dangerous calls, 4 other spellings of those names, 4 nestings of one call inside the arguments of another) x every expression hole of the model grammar (condition payloads only in the 17 condition holes, each also as operand of AND / OR / NOT and inside redundant parentheses; call payloads in all 49 holes); unary-operator family: every chain (outermost first) of 1..2 (thorough 1..3) of the unary operators the parser accepts (-, +, NOT) holding at least one sign (10 / 36 chains) x payload directly under it / inside redundant parentheses x 3 places (whole condition, right operand of =, right operand of AND) = 60 (216) hosts for every payload in every condition position, and -x / +x / -(x) / +(x) for call payloads in every other expression position; oracle: reported in the same host without the operators => reported under them " +
			"x 3 layouts (natural, one space everywhere, one lexeme per line with lower-case keywords and CRLF) x 4 severity thresholds x 3 scanner APIs (tree Scan, ScanSQL, the CLI text scanner); thorough adds every payload inside a second level of nesting (hole in hole). " +
			"UNION probes (2/3/5 NULL columns; 9 system tables; 6 arms mixing NULLs with columns and call payloads) x UNION / UNION ALL x 8 hosts (top level, end of a chain, IN / EXISTS sub-query, CTE body, INSERT..SELECT, CREATE VIEW, second statement) x 3 spellings of the names (lower, upper, mixed) x 3 layouts x 4 thresholds x 3 APIs. " +
			"Per API the canonical answer is that API's answer for 'SELECT c0 FROM t0 WHERE <payload>'. distinct = distinct (payload, position, wrapper); non-trivial = the tree API reports the payload in the canonical position",
		Assume: []string{"closure and layout invariance are judged per API against that API's own canonical answer; the documented (class, severity) is demanded from the tree API only (ScanSQL documents no tautology detection)",
			"a position whose statement the parser rejects is skipped for the tree API (C03's business)"},
		Enumerate: func(e *common.Enum) {
			holes := sqlgen.Holes()
			type pos struct {
				name string
				fill func(x sqlgen.X) sqlgen.S
			}
			var positions []pos
			for _, h := range holes {
				h := h
				if h.Arith {
					continue
				}
				positions = append(positions, pos{h.Name, h.Fill})
			}
			// compound hosts: the payload next to sibling clauses, in set operations and in the second statement of a script
			xp := func(v sqlgen.X) *sqlgen.X { return &v }
			plain := func(t string) sqlgen.S {
				return sqlgen.Sel{Items: []sqlgen.SelItem{{X: sqlgen.Col("c7")}}, From: []sqlgen.TableRef{{Name: t}}}.Build()
			}
			positions = append(positions,
				pos{"select.having+where-present", func(x sqlgen.X) sqlgen.S {
					return sqlgen.Sel{Items: []sqlgen.SelItem{{X: sqlgen.Col("c0")}}, From: []sqlgen.TableRef{{Name: "t0"}}, Where: xp(sqlgen.Bin("=", sqlgen.Col("c1"), sqlgen.Int("2"))),
						GroupBy: []sqlgen.X{sqlgen.Col("c0")}, Having: xp(x)}.Build()
				}},
				pos{"select.where+having-present", func(x sqlgen.X) sqlgen.S {
					return sqlgen.Sel{Items: []sqlgen.SelItem{{X: sqlgen.Col("c0")}}, From: []sqlgen.TableRef{{Name: "t0"}}, Where: xp(x),
						GroupBy: []sqlgen.X{sqlgen.Col("c0")}, Having: xp(sqlgen.Bin(">", sqlgen.Func("COUNT", nil, sqlgen.FuncOpts{Star: true}), sqlgen.Int("1"))),
						OrderBy: []sqlgen.OrderItem{{X: sqlgen.Col("c0")}}, Limit: func() *int { i := 5; return &i }()}.Build()
				}},
				pos{"select.where+joins-present", func(x sqlgen.X) sqlgen.S {
					return sqlgen.Sel{Items: []sqlgen.SelItem{{X: sqlgen.Star()}}, From: []sqlgen.TableRef{{Name: "t0"}},
						Joins: []sqlgen.Join{{Kw: "LEFT JOIN", Right: sqlgen.TableRef{Name: "t1"}, Using: []string{"c1"}}}, Where: xp(x)}.Build()
				}},
				pos{"setop.left.where", func(x sqlgen.X) sqlgen.S {
					return sqlgen.SetOp(sqlgen.Sel{Items: []sqlgen.SelItem{{X: sqlgen.Col("c0")}}, From: []sqlgen.TableRef{{Name: "t0"}}, Where: xp(x)}.Build(), "UNION", false, plain("t1"))
				}},
				pos{"setop.middle.where", func(x sqlgen.X) sqlgen.S {
					return sqlgen.SetOp(sqlgen.SetOp(plain("t1"), "UNION", true, sqlgen.Sel{Items: []sqlgen.SelItem{{X: sqlgen.Col("c0")}}, From: []sqlgen.TableRef{{Name: "t0"}}, Where: xp(x)}.Build()), "EXCEPT", false, plain("t2"))
				}},
				pos{"script.second.where", func(x sqlgen.X) sqlgen.S {
					a := plain("t1")
					b := sqlgen.Sel{Items: []sqlgen.SelItem{{X: sqlgen.Col("c0")}}, From: []sqlgen.TableRef{{Name: "t0"}}, Where: xp(x)}.Build()
					toks := append(append(append([]sqlgen.Tok{}, a.Toks...), sqlgen.Tok{S: ";"}), b.Toks...)
					return sqlgen.S{Toks: toks, Kind: "script"}
				}},
				pos{"script.second.update-where", func(x sqlgen.X) sqlgen.S {
					a := plain("t1")
					b := sqlgen.Upd{Table: "t0", Set: []sqlgen.Assign{{Col: "c1", Val: sqlgen.Int("1")}, {Col: "c2", Val: sqlgen.Int("2")}}, Where: xp(x)}.Build()
					toks := append(append(append([]sqlgen.Tok{}, a.Toks...), sqlgen.Tok{S: ";"}), b.Toks...)
					return sqlgen.S{Toks: toks, Kind: "script"}
				}},
			)
			for _, n := range []string{"select.having+where-present", "select.where+having-present", "select.where+joins-present", "setop.left.where", "setop.middle.where", "script.second.where", "script.second.update-where"} {
				condHole[n] = true
			}
			if e.Thorough() {
				// second level: the payload's statement nested inside each statement-valued position
				for _, h := range holes {
					h := h
					if h.Arith || !condHole[h.Name] {
						continue
					}
					if k := h.Fill(sqlgen.Col("c1")).Kind; k != "select" && k != "setop" {
						continue // only queries can be nested in EXISTS
					}
					positions = append(positions, pos{"nested:exists+" + h.Name, func(x sqlgen.X) sqlgen.S {
						inner := h.Fill(x)
						return sqlgen.Sel{Items: []sqlgen.SelItem{{X: sqlgen.Col("c0")}}, From: []sqlgen.TableRef{{Name: "t9"}},
							Where: func() *sqlgen.X { v := sqlgen.Exists(false, inner); return &v }()}.Build()
					}})
				}
			}
			enumerateUnion(e)
			enumerateScripts(e)
			canonical := func(p payload) sqlgen.S {
				return sqlgen.Sel{Items: []sqlgen.SelItem{{X: sqlgen.Col("c0")}}, From: []sqlgen.TableRef{{Name: "t0"}}, Where: func() *sqlgen.X { v := p.x(); return &v }()}.Build()
			}
			for _, p := range payloads() {
				p := p
				ws := wrappers
				// the unary-operator family: chains of up to 2 (thorough: 3) operators in every condition host; in the
				// other expression positions a call payload directly under one operator
				maxChain := 2
				if e.Thorough() {
					maxChain = 3
				}
				uws := unaryWrappers(maxChain, true)
				uwsExpr := unaryWrappers(1, false)
				for _, ps := range positions {
					ps := ps
					isCond := condHole[ps.name] || strings.HasPrefix(ps.name, "nested:")
					if p.cond && !isCond {
						continue
					}
					pws := append(append([]wrapper{}, ws...), uws...)
					if !p.cond {
						if isCond {
							// a call used as (part of) a condition: every boolean wrapper plus comparison operands
							pws = append(pws,
								wrapper{name: "cmp-left", f: func(q sqlgen.X) sqlgen.X { return sqlgen.Bin("=", q, sqlgen.Int("0")) }},
								wrapper{name: "cmp-right", f: func(q sqlgen.X) sqlgen.X { return sqlgen.Bin("=", sqlgen.Int("0"), q) }})
						} else {
							pws = append(append([]wrapper{}, ws[:1]...), uwsExpr...)
						}
					}
					for _, w := range pws {
						w := w
						k := fmt.Sprintf("%s|%s|%s", p.name, ps.name, w.name)
						e.Do(k, func(c *common.Ctx) {
							canon := canonical(p)
							stmt := ps.fill(w.f(p.x()))
							c.Input(stmt.SQL())
							c.Sample(stmt.SQL())
							ok := true
							for _, a := range allAPIs {
								// canonical answer of this API
								cks, cres, cerr, cpan := safeScan(a, canon.SQL(), security.SeverityLow)
								if cpan != "" {
									c.Fail("panic:"+a.name, cpan)
									continue
								}
								if cerr != nil {
									continue
								}
								cm := multiset(cks)
								if a.name == "tree" {
									if cm[key{string(p.pattern), string(p.severity)}] == 0 {
										ok = false
										c.Fail("canonical-missed:"+a.name+":"+p.name, fmt.Sprintf("payload %s as the top-level WHERE condition is not reported as %s/%s: %s", p.name, p.pattern, p.severity, show(cm)))
									} else {
										c.NonTrivial()
									}
									if cres != nil {
										if msg := counts(cres); msg != "" {
											c.Fail("counts:"+a.name, msg)
										}
									}
								}
								// the payload's own findings: canonical minus what the empty statement yields
								var natural map[key]int
								for _, l := range []int{sqlgen.LNatural, sqlgen.LSpaced, sqlgen.LLines} { // comments are not among the layout changes the property lists
									sql := sqlgen.Render(stmt.Toks, l)
									ks, res, err, pan := safeScan(a, sql, security.SeverityLow)
									if pan != "" {
										ok = false
										c.Fail("panic:"+a.name, pan+"\n"+sql)
										continue
									}
									if err != nil {
										if err.Error() == "scan-modified-tree" {
											c.Fail("scan-modified-tree", sql)
										}
										c.Outcome(a.name + ":position-rejected")
										continue
									}
									m := multiset(ks)
									if res != nil {
										if msg := counts(res); msg != "" {
											ok = false
											c.Fail("counts:"+a.name, msg+"\n"+sql)
										}
									}
									if l == sqlgen.LNatural {
										natural = m
										underUnary := false
										if w.plain != nil && !superset(m, cm) {
											// unary-operator family: the payload is reported in the same host without the operators
											plainSQL := ps.fill(w.plain(p.x())).SQL()
											if pks, _, perr, ppan := safeScan(a, plainSQL, security.SeverityLow); perr == nil && ppan == "" && superset(multiset(pks), cm) {
												underUnary = true
												ok = false
												c.Fail("not-closed:"+a.name+":"+p.class+"@under-unary-operator", fmt.Sprintf("payload %s is reported (%s) in %s\n but under the unary operator(s) only %s:\n %s", p.name, show(cm), plainSQL, show(m), sql))
											}
										}
										if !superset(m, cm) && !underUnary {
											ok = false
											c.FailFeat("C16", "not-closed:"+a.name+":"+p.class, append(strings.Split(ps.name, "+"), "wrap:"+w.name), fmt.Sprintf("payload %s reported as %s in the canonical position but only %s here:\n %s", p.name, show(cm), show(m), sql))
										}
										// thresholds
										for _, min := range []security.Severity{security.SeverityMedium, security.SeverityHigh, security.SeverityCritical} {
											tks, tres, terr, _ := safeScan(a, sql, min)
											if terr != nil {
												continue
											}
											want := map[key]int{}
											for k, n := range m {
												if sevRank[k.sev] >= sevRank[string(min)] {
													want[k] = n
												}
											}
											if !equal(multiset(tks), want) {
												ok = false
												c.Fail("threshold:"+a.name+":"+string(min), fmt.Sprintf("threshold %s gives %s, the LOW-threshold findings of that severity or above are %s\n %s", min, show(multiset(tks)), show(want), sql))
											}
											if tres != nil {
												if msg := counts(tres); msg != "" {
													ok = false
													c.Fail("counts:"+a.name, msg)
												}
											}
										}
									} else if natural != nil && !equal(m, natural) {
										ok = false
										c.FailFeat("C16", "layout-variance:"+a.name+":"+p.class, []string{fmt.Sprintf("layout:%d", l), ps.name}, fmt.Sprintf("layout %d gives %s, the natural layout %s:\n %s", l, show(m), show(natural), sql))
									}
								}
							}
							// a reused scanner answers like a new one
							sc := security.NewScanner()
							if t1, err := gosqlx.Parse(canon.SQL()); err == nil {
								sc.Scan(t1)
								sc.ScanSQL(canon.SQL())
							}
							if t2, err := gosqlx.Parse(stmt.SQL()); err == nil {
								r1 := sc.Scan(t2)
								r2 := security.NewScanner().Scan(t2)
								if fmt.Sprint(r1) != fmt.Sprint(r2) {
									ok = false
									c.Fail("reuse-differs:tree", fmt.Sprintf("a scanner used before answers %v, a new one %v", r1, r2))
								}
							}
							// a result handed to the caller is the caller's: later scans (same or other scanner, tree or text) leave it alone
							if t1, err := gosqlx.Parse(canon.SQL()); err == nil {
								if t2, err := gosqlx.Parse(stmt.SQL()); err == nil {
									kept := []*security.ScanResult{security.NewScanner().Scan(t1), security.NewScanner().ScanSQL(canon.SQL()), security.NewScanner().Scan(t2)}
									var snaps []string
									for _, r := range kept {
										snaps = append(snaps, fmt.Sprintf("%+v", *r))
									}
									later := security.NewScanner()
									later.Scan(t2)
									later.ScanSQL(stmt.SQL())
									later.Scan(t1)
									later.ScanSQL(canon.SQL() + " OR 2=2 UNION SELECT NULL, NULL FROM t9; DROP TABLE t9 --")
									for i, r := range kept {
										if now := fmt.Sprintf("%+v", *r); now != snaps[i] {
											ok = false
											c.Fail("result-modified-by-later-scan", fmt.Sprintf("a ScanResult kept by the caller changed when other scans ran\n before: %s\n after:  %s", common.Trim(snaps[i], 500), common.Trim(now, 500)))
											break
										}
										if msg := counts(r); msg != "" {
											ok = false
											c.Fail("counts:kept-result", msg)
											break
										}
									}
								}
							}
							// ... also when its threshold field is re-assigned between scans: every ordered pair of thresholds
							if t1, err := gosqlx.Parse(canon.SQL()); err == nil {
								if t2, err := gosqlx.Parse(stmt.SQL()); err == nil {
									for _, a := range thresholds {
										for _, b := range thresholds {
											sc, err := security.NewScannerWithSeverity(a)
											if err != nil {
												continue
											}
											sc.Scan(t1)
											sc.ScanSQL(canon.SQL())
											sc.MinSeverity = b
											fresh, err := security.NewScannerWithSeverity(b)
											if err != nil {
												continue
											}
											if r1, r2 := sc.Scan(t2), fresh.Scan(t2); fmt.Sprint(r1) != fmt.Sprint(r2) {
												ok = false
												c.Fail("reuse-differs:tree:threshold-reassigned", fmt.Sprintf("a scanner used at %s and then set to %s answers %v, a new one at %s %v", a, b, r1, b, r2))
											}
											if r1, r2 := sc.ScanSQL(stmt.SQL()), fresh.ScanSQL(stmt.SQL()); fmt.Sprint(r1) != fmt.Sprint(r2) {
												ok = false
												c.Fail("reuse-differs:text:threshold-reassigned", fmt.Sprintf("a scanner used at %s and then set to %s answers %v, a new one at %s %v", a, b, r1, b, r2))
											}
										}
									}
								}
							}
							if ok {
								c.Outcome("ok:" + p.class)
							} else {
								c.Outcome("fails:" + p.class)
							}
						})
					}
				}
			}
		},
	}
}
