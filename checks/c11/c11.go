// Package c11 checks property C11: cancellation is honoured promptly, reported
// as the context's error, and leaves the tokenizer / parser fit for reuse.
//
// Engine: fault enumeration with a counting context (DESIGN §2.6).  The library
// learns about cancellation only by polling ctx.Err(); for every input and
// every context-taking entry point the number P of polls of an undisturbed run
// is measured, and then the context is made to turn done at every poll
// k = 0..P (k = P: it never reports done during the call), once with Canceled
// and once with DeadlineExceeded.  One case = one (entry point, input, k, kind).
package c11

import (
	"context"
	"errors"
	"fmt"
	"github.com/ajitpratap0/GoSQLX/pkg/sql/tokenizer"
	"regexp"
	"strings"
	"time"

	"github.com/ajitpratap0/GoSQLX/pkg/gosqlx"
	"github.com/ajitpratap0/GoSQLX/pkg/sql/parser"

	"verif/checks/c08/probe"
	"verif/engine/common"
	"verif/sqlgen"
)

// maxAfter is the "bounded amount of further work" after the context has
// reported done once: the number of further polls the call may make before it
// returns.  Every poll site of the library returns at once, so 0 is what the
// code does; 2 leaves room for one layer that checks again while unwinding.
const maxAfter = 2

type input struct {
	fam string
	sql string
}

func colList(n int) string {
	var sb strings.Builder
	sb.WriteString("SELECT ")
	for i := 0; i < n; i++ {
		if i > 0 {
			sb.WriteString(", ")
		}
		if i%10 == 9 {
			sb.WriteString("\n  ") // short lines: position conversion is per-line work
		}
		fmt.Fprintf(&sb, "c%d", i)
	}
	sb.WriteString(" FROM t")
	return sb.String()
}

func inputs(thorough bool) []input {
	in := []input{
		{"plain", "SELECT a, b FROM t WHERE a = 1 AND b > 2 ORDER BY a"},
		{"cte", "WITH w AS (SELECT a FROM t WHERE a > 1) SELECT a FROM w WHERE a < 5"},
		{"cte-nested", "WITH w1 AS (WITH w2 AS (SELECT a FROM t WHERE a = 1) SELECT a FROM w2 WHERE a = 2), w3 AS (SELECT b FROM u WHERE b = 3) SELECT a FROM w1 WHERE a = 4"},
		{"case", "SELECT CASE a WHEN 1 THEN b + 1 WHEN 2 THEN c ELSE d * 2 END, CASE WHEN e > 1 THEN f ELSE g END FROM t"},
		{"subquery-scalar", "SELECT (SELECT MAX(b) FROM u WHERE u.a = t.a) FROM t WHERE c = (SELECT d FROM v WHERE e = 1)"},
		{"subquery-in", "SELECT a FROM t WHERE a IN (SELECT b FROM u WHERE b > 1) AND c NOT IN (SELECT d FROM v WHERE d = 2)"},
		{"subquery-exists", "SELECT a FROM t WHERE EXISTS (SELECT 1 FROM u WHERE u.a = t.a) AND NOT EXISTS (SELECT 1 FROM v WHERE v.a = 1)"},
		{"subquery-quantified", "SELECT a FROM t WHERE a > ANY (SELECT b FROM u WHERE b = 1) AND c = ALL (SELECT d FROM v WHERE d = 2)"},
		{"derived-table", "SELECT x FROM (SELECT a AS x FROM t WHERE a = 1) AS s WHERE x > 2"},
		{"join-on", "SELECT a FROM t JOIN u ON t.a = u.a LEFT JOIN v ON u.b = v.b AND v.c > 1"},
		{"set-operation", "SELECT a FROM t WHERE a = 1 UNION ALL SELECT b FROM u WHERE b = 2 EXCEPT SELECT c FROM v WHERE c = 3"},
		{"function-argument", "SELECT f(a + 1, g(b, c * 2)), COUNT(*) FILTER (WHERE d > 1), SUM(e) OVER (PARTITION BY h ORDER BY i) FROM t"},
		{"between-in-like", "SELECT a FROM t WHERE a BETWEEN b + 1 AND c * 2 AND d IN (1, e + 2, 3) AND f LIKE g || '%' AND h NOT BETWEEN 1 AND 2"},
		{"array-index", "SELECT a[i + 1], b[1:j], ARRAY[k, l + 1] FROM t"},
		{"insert-select", "INSERT INTO t (a, b) SELECT c, d + 1 FROM u WHERE e = 2"},
		{"dml", "UPDATE t SET a = a + 1, b = (SELECT MAX(c) FROM u) WHERE d = 2"},
		{"script", "SELECT a FROM t WHERE a = 1; UPDATE t SET a = a + 1 WHERE b = 2;; DELETE FROM t WHERE c = 3"},
		{"invalid", "SELECT a FROM t WHERE (b = 1 AND (c <"},
		{"tokens-250", colList(125)},
		{"tokens-1000", colList(500)},
	}
	// lexical layouts: the context-aware tokenizer loop is a copy of the context-free one, so every way an input can
	// begin and end (comments, blanks, nothing at all) and every literal form goes through both
	for i, sql := range []string{
		"-- only a line comment", "-- line comment and newline\n", "/* only a block comment */", "/* a */ /* b */", " \t\r\n ", "",
		"SELECT 1 -- trailing", "SELECT 1 -- trailing\n", "SELECT 1 /* trailing */", "SELECT 1 /* a */ /* b */", "SELECT 1 /* a */ -- b", "SELECT 1 -- a\n-- b\n-- c",
		"-- leading\nSELECT 1", "/* leading */ SELECT 1", "/* a */ -- b\n/* c */ SELECT 1", "SELECT 1 ; -- after semicolon", "SELECT 1 \n\t ", "\n\nSELECT 1\r\n",
		"SELECT 'a''b', \"q\", $$d$$, $t$e$t$, 1.5e3, 2E+4, .5, x'ff', N'n', `b`, [k], a::int, b->>'k', c #> '{a}', @v, :p, $1 -- literals",
		"SELECT a /* in */ , /* between */ b FROM /* c */ t -- end",
	} {
		in = append(in, input{fmt.Sprintf("layout-%d", i), sql})
	}
	base := sqlgen.Sel{Items: []sqlgen.SelItem{{X: sqlgen.Col("c1")}, {X: sqlgen.Func("f1", []sqlgen.X{sqlgen.Col("c2")}, sqlgen.FuncOpts{})}}, From: []sqlgen.TableRef{{Name: "t1"}},
		Where: &[]sqlgen.X{sqlgen.Bin("=", sqlgen.Col("c3"), sqlgen.Str("s1"))}[0], OrderBy: []sqlgen.OrderItem{{X: sqlgen.Col("c1")}}}.Build()
	for l := 0; l <= sqlgen.NLayouts; l++ {
		in = append(in, input{fmt.Sprintf("sqlgen-layout-%d", l), sqlgen.Render(base.Toks, l)})
	}
	// big inputs (sparse polls like the limit violations below): what an entry point does per block of tokens (buffers, batches,
	// periodic polls) only shows beyond the block size; two-word keywords, signs and commas all along the text
	for _, n := range []int{300, 1030, 2060, 5000} {
		in = append(in, input{fmt.Sprintf("over-big-in-list-%d", n),
			"SELECT t.a FROM t LEFT JOIN u ON t.a = u.a INNER JOIN v ON u.b = v.b WHERE t.v IN (" + strings.TrimSuffix(strings.Repeat("-7, ", n), ", ") + ") GROUP BY t.k ORDER BY t.k DESC"})
		in = append(in, input{fmt.Sprintf("over-big-script-%d", n),
			strings.Repeat("SELECT a, -b FROM t LEFT JOIN u ON t.a = u.a WHERE c IS NOT NULL GROUP BY a, b ORDER BY a DESC;\n", n/24+1)})
	}
	// the token limit at the boundary (MaxTokens-1 .. MaxTokens+2 tokens): the context-aware tokenizing loop is a copy of the
	// context-free one and carries its own copy of the limit test; only the entry poll and the never-firing context are run
	for _, d := range []int{-1, 0, 1, 2} {
		n := tokenizer.MaxTokens + d
		sql := "SELECT 1" + strings.Repeat(",1", n/2-1)
		if n%2 == 1 {
			sql += " x"
		}
		in = append(in, input{fmt.Sprintf("over-token-boundary%+d", d), sql})
	}
	// the bulk of the input below one level of nesting: a derived table, a CTE body, a function call, a parenthesised sum
	for _, n := range []int{1030, 5000} {
		cols := strings.TrimSuffix(strings.Repeat("c1, ", n), ", ")
		in = append(in, input{fmt.Sprintf("over-big-derived-%d", n), "SELECT * FROM (SELECT " + cols + " FROM t) d"})
		in = append(in, input{fmt.Sprintf("over-big-cte-%d", n), "WITH w AS (SELECT " + cols + " FROM t) SELECT * FROM w"})
		in = append(in, input{fmt.Sprintf("over-big-call-%d", n), "SELECT f(" + cols + ") FROM t"})
		in = append(in, input{fmt.Sprintf("over-big-paren-sum-%d", n), "SELECT (" + strings.TrimSuffix(strings.Repeat("1 + ", n), " + ") + ") FROM t"})
	}
	// limit violations (huge inputs: only the polls 0, 1, 2, P/2, P-2, P-1, P are fired): the dedicated limit error must not take precedence over a context that is already done
	in = append(in, input{"over-size-limit", "SELECT 1 " + strings.Repeat(" ", tokenizer.MaxInputSize)})
	if thorough {
		in = append(in, input{"over-token-limit", "SELECT 1" + strings.Repeat(",1", tokenizer.MaxTokens/2+1)})
	}
	// every clause form of the model grammar (join kinds, derived tables on either side of a join, LATERAL,
	// grouping sets, CTE forms, window frames ...): each has its own poll sites and hand-maintained depth accounting
	seen := map[string]bool{}
	sqlgen.ClauseOptions(func(name string, s sqlgen.S) {
		if strings.HasPrefix(name, "fetch") || strings.HasPrefix(name, "for") || strings.HasPrefix(name, "order:") || (strings.HasPrefix(name, "frame") && !thorough) {
			return
		}
		if sql := s.SQL(); !seen[sql] {
			seen[sql] = true
			in = append(in, input{"clause:" + name, sql})
		}
	})
	if !thorough {
		return in
	}
	in = append(in,
		input{"comments", "SELECT a -- c1\n, b /* c2 */ FROM t -- c3\nWHERE a = 1"},
		input{"empty", ""},
		input{"semicolons", ";;"},
		input{"tokenizer-error", "SELECT a FROM t WHERE b = 'unterminated"},
		input{"merge", "MERGE INTO t USING u ON t.a = u.a WHEN MATCHED AND u.b > 1 THEN UPDATE SET b = u.b + 1 WHEN NOT MATCHED THEN INSERT (a, b) VALUES (u.a, u.b * 2)"},
		input{"create-table", "CREATE TABLE t (a INT DEFAULT 1 + 2, b INT CHECK (b > 0 AND b < 10), CHECK (a < b))"},
		input{"window-frame", "SELECT SUM(a) OVER (PARTITION BY b + 1 ORDER BY c ROWS BETWEEN 1 PRECEDING AND 2 FOLLOWING) FROM t"},
		input{"tokens-2500", colList(1250)},
	)
	// every expression hole of every statement production, filled with a nested expression
	nested := sqlgen.Bin("AND", sqlgen.Bin(">", sqlgen.Bin("+", sqlgen.Col("c1"), sqlgen.Int("1")), sqlgen.Int("2")), sqlgen.Col("c3"))
	arith := sqlgen.Bin("+", sqlgen.Col("c1"), sqlgen.Bin("*", sqlgen.Int("2"), sqlgen.Int("3")))
	for _, h := range sqlgen.Holes() {
		x := nested
		if h.Arith {
			x = arith
		}
		in = append(in, input{"hole:" + h.Name, h.Fill(x).SQL()})
	}
	return in
}

// ---------------------------------------------------------------- entry points

// entry is one context-taking entry point.  run makes the call with ctx and
// returns the rendered result, the error, whether a tree / token list was
// returned, and a function that runs residue probe i on whatever the call used
// and returns (name, got, want); plain is the context-free counterpart.
type entry struct {
	name   string
	applic func(in input) bool
	run    func(ctx context.Context, sql string) (res string, err error, hasValue bool, residue func(i int) (string, string, string), nres int)
	plain  func(sql string) string
}

var gosqlxProbeSQL = []string{
	probe.SQLValid,
	probe.SQLErrOne,
	probe.TSQLComments,
	probe.SQLLimit,
}

var gosqlxWant = map[string]string{}

func entries() []entry {
	pprobes := probe.ParserProbes()
	tprobes := probe.TokenizerProbes()
	// expectations for the pooled facade are taken before any cancelled call has touched the pools
	for _, q := range gosqlxProbeSQL {
		if _, ok := gosqlxWant[q]; !ok {
			gosqlxWant[q] = probe.Tree(gosqlx.Parse(q))
		}
	}
	tokenizes := func(in input) bool {
		_, err := probe.TCfg{}.New().Tokenize([]byte(in.sql))
		return err == nil
	}
	return []entry{
		{
			name:   "gosqlx.ParseWithContext",
			applic: func(input) bool { return true },
			run: func(ctx context.Context, sql string) (string, error, bool, func(int) (string, string, string), int) {
				t, err := gosqlx.ParseWithContext(ctx, sql)
				return probe.Tree(t, err), err, t != nil, func(i int) (string, string, string) {
					q := gosqlxProbeSQL[i]
					return fmt.Sprintf("parse-%d", i), probe.Tree(gosqlx.Parse(q)), gosqlxWant[q]
				}, len(gosqlxProbeSQL)
			},
			plain: func(sql string) string { return probe.Tree(gosqlx.Parse(sql)) },
		},
		{
			name:   "Tokenizer.TokenizeContext",
			applic: func(input) bool { return true },
			run: func(ctx context.Context, sql string) (string, error, bool, func(int) (string, string, string), int) {
				tk := probe.TCfg{}.New()
				toks, err := tk.TokenizeContext(ctx, []byte(sql))
				res := "error " + probe.Err(err)
				if err == nil {
					res = "tokens " + probe.Tokens(toks) + " comments " + probe.Comments(tk.Comments)
				}
				return res, err, toks != nil, func(i int) (string, string, string) {
					return tprobes[i].Name, tprobes[i].Run(tk), probe.TWant(probe.TCfg{}, tprobes[i])
				}, len(tprobes)
			},
			plain: func(sql string) string {
				tk := probe.TCfg{}.New()
				toks, err := tk.Tokenize([]byte(sql))
				if err != nil {
					return "error " + probe.Err(err)
				}
				return "tokens " + probe.Tokens(toks) + " comments " + probe.Comments(tk.Comments)
			},
		},
		{
			name:   "Parser.ParseContext",
			applic: tokenizes,
			run: func(ctx context.Context, sql string) (string, error, bool, func(int) (string, string, string), int) {
				toks := probe.MustTokenize(sql)
				p := parser.NewParser()
				t, err := p.ParseContextFromModelTokens(ctx, toks)
				return probe.Tree(t, err), err, t != nil, func(i int) (string, string, string) {
					return pprobes[i].Name, pprobes[i].Run(p), probe.PWant(probe.PCfg{}, pprobes[i])
				}, len(pprobes)
			},
			plain: func(sql string) string {
				return probe.Tree(parser.NewParser().ParseFromModelTokens(probe.MustTokenize(sql)))
			},
		},
		{
			// a parser its holder configured: what the holder configured is not per-call state, a cancelled call leaves it alone
			name:   "Parser.ParseContext(strict,mysql)",
			applic: tokenizes,
			run: func(ctx context.Context, sql string) (string, error, bool, func(int) (string, string, string), int) {
				toks := probe.MustTokenize(sql)
				p := cfgStrictMySQL.New()
				t, err := p.ParseContextFromModelTokens(ctx, toks)
				return probe.Tree(t, err), err, t != nil, func(i int) (string, string, string) {
					return pprobes[i].Name, pprobes[i].Run(p), probe.PWant(cfgStrictMySQL, pprobes[i])
				}, len(pprobes)
			},
			plain: func(sql string) string {
				return probe.Tree(cfgStrictMySQL.New().ParseFromModelTokens(probe.MustTokenize(sql)))
			},
		},
	}
}

var cfgStrictMySQL = probe.PCfg{Strict: true, Dialect: "mysql"}

// ---------------------------------------------------------------- poll-site class of a lost context error

var wrapClasses = []struct{ phrase, class string }{
	{"CTE definition", "cte"}, {"statement after WITH clause", "cte"}, {"CTE subquery", "cte"},
	{"BETWEEN lower bound", "between"}, {"BETWEEN upper bound", "between"},
	{"LIKE pattern", "like"}, {"REGEXP pattern", "like"},
	{"IN subquery", "in"}, {"IN value", "in"},
	{"NOT EXISTS subquery", "exists"}, {"EXISTS subquery", "exists"},
	{"ANY subquery", "quantified-subquery"}, {"ALL subquery", "quantified-subquery"}, {"SOME subquery", "quantified-subquery"},
	{"failed to parse subquery", "subquery"},
	{"CASE value", "case"}, {"WHEN condition", "case"}, {"THEN result", "case"}, {"ELSE result", "case"},
	{"array slice end", "array"}, {"array index/slice", "array"},
	{"ON condition for", "join-on"},
	{"right SELECT", "set-operation"},
	{"failed to convert token", "token-conversion"},
}

var nonWord = regexp.MustCompile(`[^a-z0-9]+`)

// siteClass names the innermost production that re-wrapped (or dropped) the
// context's error: the wrapper text that stands closest before the context
// error's own text in the returned error.
func siteClass(err error, kind error) string {
	s := err.Error()
	cut := strings.Index(s, "parsing cancelled")
	if cut < 0 {
		cut = strings.Index(s, kind.Error())
	}
	if cut < 0 {
		return "context-error-text-gone"
	}
	pre := s[:cut]
	best, bestAt := "", -1
	for _, w := range wrapClasses {
		if i := strings.LastIndex(pre, w.phrase); i > bestAt {
			best, bestAt = w.class, i
		}
	}
	if bestAt >= 0 {
		return best
	}
	// unknown wrapper: the last segment before the context error, sanitised
	seg := strings.TrimRight(pre, ": ")
	if i := strings.LastIndex(seg, ": "); i >= 0 {
		seg = seg[i+2:]
	}
	seg = strings.Trim(nonWord.ReplaceAllString(strings.ToLower(seg), "-"), "-")
	if len(seg) > 40 {
		seg = seg[:40]
	}
	if seg == "" {
		seg = "unwrapped"
	}
	return "other-" + seg
}

// Check returns the C11 check.
func Check() *common.Check {
	return &common.Check{
		ID:    "C11",
		Level: "fault_enumeration",
		// every case is recorded before it runs: a fatal error or a hang of the worker is attributed to it
		CrashSafe: true,
		MemLimit:  8 << 30, // the token-limit boundary inputs are trees of a million tokens
		Rule: "(every fault point also with two other kinds of context - one cancelled with a cause of the caller's own, one hand-written around a live standard context - except for the clause-option inputs) for each input (one statement per poll-site context: plain, CTE, nested CTE, CASE, scalar/IN/EXISTS/quantified sub-query, derived table, JOIN ON, set operation, function argument, BETWEEN/IN/LIKE, array index, INSERT…SELECT, DML, script, invalid, 250- and 1000-token lists, statements and scripts of about 300 / 1030 / 2060 / 5000 tokens with two-word keywords all along and with their bulk below one level of nesting (sparse polls; at least one poll per 128 tokens in the undisturbed run), 26 lexical layouts, every clause option of sqlgen, inputs of MaxTokens-1 .. MaxTokens+2 tokens (entry poll and never-firing context only), an input one byte over the size limit (thorough: one over the token limit; polls 0-2, P/2, P-2..P only); " +
			"thorough adds comments, empty input, tokenizer error, MERGE, CREATE TABLE, window frame, 2500 tokens and every expression hole of sqlgen.Holes() filled with a nested expression) and each of gosqlx.ParseWithContext, Tokenizer.TokenizeContext, Parser.ParseContextFromModelTokens: " +
			"gosqlx.ParseWithTimeout with timeouts 0, -1ns, -1ms, -1h (expired at entry) and 1h (never fires) on every input; " +
			"P = polls of ctx.Err() in an undisturbed run is measured, then one case per k in 0..P and per kind in {Canceled, DeadlineExceeded} with a context that reports done from its (k+1)-th poll on; " +
			"distinct = (entry point, input, k, kind); non-trivial = the context turned done during the call after at least one poll had seen it live (0 < k < P)",
		Assume: []string{
			"the library observes a context only through Err() (checked by grep: no Done()/Deadline() use in pkg/sql/parser, pkg/sql/tokenizer, pkg/gosqlx); the counting context keeps Done() and Deadline() consistent anyway",
			"'the context becomes done at a moment during the call' is modelled at poll granularity: between two polls the library cannot tell",
			fmt.Sprintf("'bounded further work' = at most %d further polls after the first one that reported done", maxAfter),
			"never-fired comparison: gosqlx.ParseWithContext vs gosqlx.Parse, TokenizeContext vs Tokenize, ParseContext vs Parse, each on new instances; rendered tree / tokens+comments / error code, location and text",
			"residue: C08 probe set on the same Parser / Tokenizer instance, a few gosqlx.Parse calls after gosqlx.ParseWithContext (which uses the tokenizer pool), each probe on its own re-execution of the cancelled call",
		},
		Enumerate: func(e *common.Enum) {
			// the timeout front end: a deadline that has already passed when the call starts (zero or negative timeout: the
			// context is done synchronously, no timer involved) and a deadline that cannot fire (one hour)
			for _, in := range inputs(e.Thorough()) {
				if strings.HasPrefix(in.fam, "over-") || strings.HasPrefix(in.fam, "tokens-") {
					continue
				}
				for _, d := range []time.Duration{0, -1, -time.Millisecond, -time.Hour, time.Hour} {
					in, d := in, d
					e.Do(fmt.Sprintf("timeout|%s|%v", in.fam, d), func(c *common.Ctx) {
						c.Input(fmt.Sprintf("gosqlx.ParseWithTimeout(%v) on: %s", d, common.Trim(in.sql, 300)))
						t, err := gosqlx.ParseWithTimeout(in.sql, d)
						if d <= 0 {
							if t != nil {
								c.Fail("tree-returned-after-cancel:gosqlx.ParseWithTimeout", fmt.Sprintf("timeout %v has passed before the call starts, yet a tree is returned", d))
							}
							if err == nil || !errors.Is(err, context.DeadlineExceeded) {
								c.Fail("not-ctx-error:gosqlx.ParseWithTimeout:expired-at-entry", fmt.Sprintf("timeout %v has passed before the call starts; errors.Is(err, DeadlineExceeded) is false for %v", d, err))
							}
							c.Outcome("timeout:expired-at-entry")
						} else {
							if got, want := probe.Tree(t, err), probe.Tree(gosqlx.Parse(in.sql)); got != want {
								c.Fail("nofire-differs:gosqlx.ParseWithTimeout", fmt.Sprintf("a one-hour timeout gives another result than gosqlx.Parse\n got: %s\nwant: %s", common.Trim(got, 400), common.Trim(want, 400)))
							}
							c.Outcome("timeout:never-fires")
						}
						c.NonTrivial()
					})
				}
			}
			ents := entries()
			kinds := []error{context.Canceled, context.DeadlineExceeded}
			for _, in := range inputs(e.Thorough()) {
				for _, en := range ents {
					in, en := in, en
					if !en.applic(in) {
						continue
					}
					// undisturbed run: number of polls and the reference result
					c0 := probe.NewCountCtx(-1, nil)
					en.run(c0, in.sql)
					P := c0.Calls
					// "after a bounded amount of further work": between two polls the call may only do a bounded amount of work,
					// whatever the shape of the input - the number of polls of the undisturbed run grows with the input
					// (at least one poll per 128 tokens; the tokenizer polls every 100 tokens, the parser at every expression)
					if strings.HasPrefix(in.fam, "over-big-") || strings.HasPrefix(in.fam, "tokens-") {
						P := P
						e.Do(fmt.Sprintf("%s|%s|poll-density", en.name, in.fam), func(c *common.Ctx) {
							c.Input(fmt.Sprintf("%s, polls of the undisturbed run on: %s", en.name, common.Trim(in.sql, 200)))
							tk, terr := tokenizer.New()
							if terr != nil {
								return
							}
							toks, terr := tk.Tokenize([]byte(in.sql))
							if terr != nil {
								c.Outcome("poll-density:not-tokenizable")
								return
							}
							c.Count("fault_points", 1)
							if P*128 < len(toks) {
								c.Fail("poll-starvation:"+famClass(in.fam), fmt.Sprintf(en.name+": "+"the undisturbed run polls the context %d times for %d tokens (less than one poll per 128 tokens): a context that turns done in between is not seen for an input-proportional amount of work", P, len(toks)))
							}
							c.Outcome("poll-density")
							c.NonTrivial()
						})
					}
					for k := 0; k <= P; k++ {
						if strings.HasPrefix(in.fam, "over-") && !(k <= 2 || k >= P-2 || k == P/2) {
							continue
						}
						if strings.HasPrefix(in.fam, "over-token-boundary") && !(k == 0 || k == P) {
							continue
						}
						for _, kind := range kinds {
							k, kind := k, kind
							key := fmt.Sprintf("%s|%s|k=%d/%d|%s", en.name, in.fam, k, P, kindName(kind))
							e.Do(key, func(c *common.Ctx) {
								c.Input(fmt.Sprintf("%s with %s at poll %d of %d on: %s", en.name, kindName(kind), k, P, common.Trim(in.sql, 300)))
								if k > 0 && k < P {
									c.NonTrivial()
									c.Sample(map[string]any{"entry": en.name, "family": in.fam, "fire_at_poll": k, "polls": P, "kind": kindName(kind), "sql": common.Trim(in.sql, 120)})
								}
								c.Count("fault_points", 1)
								runCase(c, en, in, k, P, kind, "")
							})
						}
						// other kinds of context: what counts is what Err() says - a context cancelled with a cause of the
						// caller's own still answers Canceled, and a hand-written context may wrap a standard one that is live
						if strings.HasPrefix(in.fam, "clause:") || strings.HasPrefix(in.fam, "hole:") || strings.HasPrefix(in.fam, "over-token-boundary") {
							continue
						}
						for _, fl := range []struct {
							name string
							kind error
						}{{"cause", context.Canceled}, {"live-parent", context.Canceled}, {"live-parent", context.DeadlineExceeded}} {
							k, fl := k, fl
							key := fmt.Sprintf("%s|%s|k=%d/%d|%s|%s", en.name, in.fam, k, P, kindName(fl.kind), fl.name)
							e.Do(key, func(c *common.Ctx) {
								c.Input(fmt.Sprintf("%s with %s (%s context) at poll %d of %d on: %s", en.name, kindName(fl.kind), fl.name, k, P, common.Trim(in.sql, 300)))
								if k > 0 && k < P {
									c.NonTrivial()
								}
								c.Count("fault_points", 1)
								runCase(c, en, in, k, P, fl.kind, fl.name)
							})
						}
					}
				}
			}
		},
	}
}

// famClass is the input family without its size: over-big-paren-sum-1030 -> over-big-paren-sum.
func famClass(fam string) string {
	i := len(fam)
	for i > 0 && fam[i-1] >= '0' && fam[i-1] <= '9' {
		i--
	}
	return strings.TrimRight(fam[:i], "-")
}

func kindName(k error) string {
	if k == context.Canceled {
		return "Canceled"
	}
	return "DeadlineExceeded"
}

func runCase(c *common.Ctx, en entry, in input, k, P int, kind error, flavour string) {
	ctx := probe.NewCountCtxFlavour(k, kind, flavour)
	res, err, hasValue, residue, nres := en.run(ctx, in.sql)
	if ctx.Fired {
		// the call has seen the context done
		if hasValue {
			c.Fail("tree-returned-after-cancel:"+en.name, fmt.Sprintf("the context reported %v at poll %d of %d, yet the call returned a value: %s", kind, k+1, P, common.Trim(res, 500)))
		}
		switch {
		case err == nil:
			c.Fail("no-error-after-cancel:"+en.name, fmt.Sprintf("the context reported %v at poll %d of %d, yet the call returned a nil error (%s)", kind, k+1, P, common.Trim(res, 300)))
			c.Outcome("fired:nil-error")
		case !errors.Is(err, kind):
			c.Fail("not-ctx-error:"+en.name+":"+siteClass(err, kind), fmt.Sprintf("the context reported %v at poll %d of %d; errors.Is(err, %v) is false for the returned error: %s", kind, k+1, P, kind, common.Trim(err.Error(), 600)))
			c.Outcome("fired:error-not-matching")
		default:
			c.Outcome("fired:" + kindName(kind))
		}
		if ctx.After > maxAfter {
			c.Fail("late-return:"+en.name, fmt.Sprintf("the call polled the context %d more times after it had reported %v (poll %d of %d) before returning", ctx.After, kind, k+1, P))
		}
	} else if k == 0 {
		// the context was done before the call started and the call never looked at it
		if err == nil || !errors.Is(err, kind) {
			c.Fail("done-context-ignored:"+en.name, fmt.Sprintf("the context was already done (%v) when the call started; the call never polled it and returned %s", kind, common.Trim(res, 300)))
		}
		c.Outcome("done-at-entry:never-polled")
	} else {
		// the context stayed live for the whole call: exactly the context-free result
		want := en.plain(in.sql)
		if res != want {
			c.Fail("nofire-differs:"+en.name, fmt.Sprintf("the context never reported done (it was polled %d times), yet the result differs from the context-free call\n got: %s\nwant: %s", ctx.Calls, common.Trim(res, 600), common.Trim(want, 600)))
			c.Outcome("live:differs")
		} else if err != nil {
			c.Outcome("live:same-error")
		} else {
			c.Outcome("live:same-result")
		}
		if ctx.Calls != P {
			c.Fail("polls-not-deterministic:"+en.name, fmt.Sprintf("undisturbed run polled %d times, this run %d times", P, ctx.Calls))
		}
	}
	// residue: what the call used must answer like new (each probe on its own re-execution)
	if strings.HasPrefix(in.fam, "over-token-boundary") && nres > 1 {
		nres = 1 // a million-token input: one probe, no re-executions
	}
	for i := 0; i < nres; i++ {
		var name, got, want string
		if i == 0 {
			name, got, want = residue(0)
		} else {
			_, _, _, r2, _ := en.run(probe.NewCountCtxFlavour(k, kind, flavour), in.sql)
			name, got, want = r2(i)
		}
		c.Count("residue_probes", 1)
		if got != want {
			c.Fail("residue:"+en.name+":"+name, fmt.Sprintf("after the call (context %v at poll %d of %d) probe %q on the instance it used answers differently from a new one\n got: %s\nwant: %s", kind, k+1, P, name, common.Trim(got, 600), common.Trim(want, 600)))
		}
	}
}
