package c09

import (
	"github.com/ajitpratap0/GoSQLX/pkg/sql/security"
	"reflect"
	"strings"

	"github.com/ajitpratap0/GoSQLX/pkg/formatter"
	"github.com/ajitpratap0/GoSQLX/pkg/gosqlx"
	sqlast "github.com/ajitpratap0/GoSQLX/pkg/sql/ast"
	"github.com/ajitpratap0/GoSQLX/pkg/sql/parser"

	"verif/engine/common"
	"verif/sqlgen"
)

// enumerateReleaseAudit runs, for every statement of the sqlgen space, the two-step histories
// "parse S, release it" (through ast.ReleaseAST, formatter.Format and parser.ValidateBytes, which
// release internally) from empty pools and then drains every pool through the public Get functions:
// no object may come out twice.  After that, two trees of the same statement are parsed and held
// together: their pooled-node pointer sets must be disjoint and their dumps must equal the dump of
// the first parse.  This closes the gap the fixed six-statement history alphabet leaves: a release
// path that puts one node twice only for a particular statement shape (e.g. a derived table that is
// also the left side of the first JOIN, or an aliased pooled expression) is met here.
// (added after two independently seeded double-put bugs, seeded/C09 and seeded/C10, passed the six-statement alphabet)
func enumerateReleaseAudit(e *common.Enum, targets []*cleanTarget, pooled map[reflect.Type]bool) {
	extra := []string{
		"SELECT tags[1] AS first_tag, arr[1:2] AS sl, (a, b) AS tp, ARRAY[1, 2] AS ar FROM posts",
		"SELECT x.a FROM (SELECT a FROM t) x JOIN u ON x.a = u.a LEFT JOIN (SELECT b FROM v) y ON y.b = x.a",
		"SELECT a FROM t JOIN (SELECT arr[1] AS e FROM w) z ON z.e = t.a WHERE (a, b) IN ((1, 2))",
		"WITH w AS (SELECT (a, b) AS p FROM t) SELECT ARRAY[p] FROM w UNION ALL SELECT ARRAY[(1, 2)] FROM (SELECT 1) q JOIN r ON TRUE",
	}
	run := func(sql string) {
		e.Do("release-audit|"+sql, func(c *common.Ctx) {
			c.Input(sql)
			clearPools()
			tree, err := gosqlx.Parse(sql)
			if err != nil {
				c.Outcome("audit:rejected")
				return
			}
			ref := deepDump(tree)
			bound := nodeCounts(tree, pooled)
			for _, tg := range targets {
				if tg.Pool.Elem == "AST" {
					bound[tg.Type] += 4
				}
			}
			for t := range bound {
				bound[t] *= 4
			}
			sqlast.ReleaseAST(tree)
			_, _ = formatter.New(formatter.Options{}).Format(sql)
			_ = parser.ValidateBytes([]byte(sql))
			h := &histState{c: c, pooled: pooled, released: map[uintptr]bool{}}
			h.audit(targets, bound)
			c.Count("transitions", 4)
			// two holders at the same time, after the releases above refilled the pools
			clearPools()
			if t0, err := gosqlx.Parse(sql); err == nil {
				sqlast.ReleaseAST(t0)
			}
			a, errA := gosqlx.Parse(sql)
			b, errB := gosqlx.Parse(sql)
			if errA == nil && errB == nil {
				pa, pb := map[uintptr]reflect.Type{}, map[uintptr]reflect.Type{}
				collectPointers(a, pooled, pa)
				collectPointers(b, pooled, pb)
				for addr, t := range pa {
					if _, dup := pb[addr]; dup {
						c.Fail("shared-node:"+t.Name()+":Parse", "two trees held at the same time share a pooled "+t.Name()+" node after an earlier tree of the same statement was released")
						break
					}
				}
				if da := deepDump(a); da != ref {
					c.Fail("tree-differs-from-fresh:Parse", "a tree parsed after a release differs from the tree parsed from empty pools "+sqlgen.FirstDiff(ref, da))
				}
				if db := deepDump(b); db != ref {
					c.Fail("tree-differs-from-fresh:Parse", "the second of two trees held together differs from the tree parsed from empty pools "+sqlgen.FirstDiff(ref, db))
				}
				c.Count("transitions", 3)
				// read-only consumers of a held tree: serialisers, traversal, every extractor, the scanner - the tree is the
				// caller's, and looking at it must leave every field of every node as it was
				consumers := []struct {
					name string
					run  func(t *sqlast.AST)
				}{
					{"AST.SQL", func(t *sqlast.AST) { _ = t.SQL() }},
					{"AST.Format", func(t *sqlast.AST) { _ = t.Format(sqlast.ReadableStyle()) }},
					{"ast.Inspect", func(t *sqlast.AST) { sqlast.Inspect(t, func(sqlast.Node) bool { return true }) }},
					{"ExtractTables", func(t *sqlast.AST) { _ = gosqlx.ExtractTables(t) }},
					{"ExtractTablesQualified", func(t *sqlast.AST) { _ = gosqlx.ExtractTablesQualified(t) }},
					{"ExtractColumns", func(t *sqlast.AST) { _ = gosqlx.ExtractColumns(t) }},
					{"ExtractColumnsQualified", func(t *sqlast.AST) { _ = gosqlx.ExtractColumnsQualified(t) }},
					{"ExtractFunctions", func(t *sqlast.AST) { _ = gosqlx.ExtractFunctions(t) }},
					{"ExtractMetadata", func(t *sqlast.AST) { _ = gosqlx.ExtractMetadata(t) }},
					{"Scanner.Scan", func(t *sqlast.AST) { _ = security.NewScanner().Scan(t) }},
				}
				for _, cons := range consumers {
					func() {
						defer func() {
							if r := recover(); r != nil {
								c.Outcome("audit:consumer-panicked") // C01's business
							}
						}()
						cons.run(a)
					}()
					c.Count("transitions", 1)
					if da := deepDump(a); da != ref {
						c.Fail("held-modified:tree:"+cons.name, "a held tree changed during "+cons.name+" (a read-only consumer): "+sqlgen.FirstDiff(ref, da))
						break
					}
				}
			}
			c.State(common.Hash64("audit|" + sql))
			if c.Failed() {
				c.Outcome("audit:violated")
			} else {
				c.Outcome("audit:ok")
				if len(bound) > 0 {
					c.NonTrivial()
				}
			}
		})
	}
	for _, q := range extra {
		run(q)
	}
	sqlgen.All(e.Thorough(), func(name string, s sqlgen.S) {
		if !e.Thorough() && (strings.HasPrefix(name, "shape") || strings.HasPrefix(name, "holeshape") || strings.HasPrefix(name, "subsets")) {
			return
		}
		if strings.HasPrefix(name, "shape3") || strings.HasPrefix(name, "shape4") || strings.HasPrefix(name, "nest2") {
			return
		}
		run(s.SQL())
	})
}
