// Package c09 checks property C09: values handed to the caller are never modified by later
// library activity, releasing one tree never changes another live tree, and every object taken
// from the node pools is indistinguishable from a freshly constructed one.
//
// Two spaces are enumerated completely:
//
//  1. cleanliness: every pooled type (read from pkg/sql/ast/*.go at check time) x every field of
//     that type (by reflection) x every release path that accepts the type (its Put function, the
//     PutExpression arm, ReleaseAST / ReleaseStatements) x {all fields filled, only this field
//     filled}.  The object is filled with non-zero content, released, taken back from the same pool
//     (single P, collector off: pointer identity is asserted, never assumed) and compared with what
//     the pool's New constructs.
//  2. ownership: every history of 1..4 (quick) / 1..5 (thorough) operations over a 23-letter
//     alphabet (parse-and-hold of six statements, release of a held tree, two syntax-error paths,
//     gosqlx.Format, formatter.Format, ValidateBytes, LintString, Extract*, Scan,
//     ParseWithRecovery, Tokenize-and-hold, PutTokenizer, a failing and a cancelled tokenizer call through the pool, Tokenize-hold-and-put), each run from empty pools, with the
//     invariants evaluated after every step.
//
// Not checked here: the cross-goroutine clause of the property (C10's scheduler harness).
package c09

import (
	"reflect"
	"runtime"
	"runtime/debug"

	"verif/engine/common"
)

// Check returns the C09 check.
func Check() *common.Check {
	return &common.Check{
		ID:    "C09",
		Level: "model_checking",
		// every case is recorded before it runs: a fatal error or a hang of the worker is attributed to it
		CrashSafe: true,
		MemLimit:  8 << 30,
		Rule: "cleanliness: one case per (pooled type found in pkg/sql/ast/*.go, field, release path, fill variation); non-trivial = the field was non-zero before release and the very same object (pointer identity) was obtained back from the pool. " +
			"ownership: one case per operation history of length 1..4 (quick) / 1..5 (thorough) over 24 operations, executed from empty pools with the collector off; distinct = distinct operation sequence; " +
			"non-trivial = a pooled node released earlier in the history is part of a tree handed out later in the same history (the pools really recycled). " +
			"release audit: one case per statement of the sqlgen space (quick: clause / DML / DDL / hole / nesting sections; thorough: all but the 3/4-operator shapes): parse, release through ReleaseAST / formatter.Format / parser.ValidateBytes, drain every pool (no object twice, every drained object indistinguishable from a new one, no two pooled objects or retained backing arrays sharing memory), then hold two trees of the statement together (disjoint pooled nodes, equal to the tree from empty pools) and run ten read-only consumers over one of them (serialisers, traversal, the six extractors, the scanner: the tree is unchanged after each). " +
			"token hand-back: one case per (contiguous sub-slice [i:j] of the token list of a four-statement script with a failing and an unfinished statement, cut with spare capacity or with cap == len) x 7 parser-token and 4 tokenizer-token entry points (Parse, ParseContext, ParseWithPositions, ParseWithRecovery, ParseMultiWithRecovery, pooled parser, configured parser; the FromModelTokens family): every element of the caller's backing array, the spare capacity included, is the same afterwards. " +
			"big-tree release: one case per (shape wide / deep / wide-of-deep) x (container: call arguments, IN list, list, tuple, array, CASE whens, subscript indices) x (13 child kinds) x (widths and depths at limit-1, limit, limit+1 of ast.MaxCleanupDepth / ast.MaxWorkQueueSize; thorough adds limit/2 and 2*limit) x (PutExpression, ReleaseAST): the tree is released by ONE call from empty pools and every pool is drained with the history audit (what the bounded release loop does put into a pool is indistinguishable from new). " +
			"states = distinct (held values, per-tree node count and recycled-node count) tuples observed after a step",
		Assume: []string{
			"sync.Pool on a single P (GOMAXPROCS=1) with the collector off returns the objects that were put; two runtime.GC() calls empty every pool",
			"a retained backing array whose elements are all zero is not distinguishable from a fresh one by content; one with non-zero elements is (reported as stale-backing)",
			"name -> function tables for Get*/Put* are written by hand; anything in the source they do not cover is reported as unmapped-pool",
			"cross-goroutine interference is decided by C10, not here",
			"small-scope hypothesis above history depth 4/5 and above the six statements of the alphabet",
		},
		Enumerate: func(e *common.Enum) {
			// One P and no automatic collection: a sync.Pool then hands back exactly what was put (the
			// per-P private slot and LIFO chain), which the cleanliness cases assert by pointer identity
			// rather than assume.  (The goroutine is not locked to its thread: with a single P that adds
			// nothing, and it makes every explicit collection hand the P back and forth between threads.)
			runtime.GOMAXPROCS(1)
			debug.SetGCPercent(-1)
			reg, err := loadRegistry()
			if err != nil {
				e.Do("registry", func(c *common.Ctx) {
					c.Fail("unmapped-pool:source-unreadable", err.Error())
				})
				e.Cap("pool source could not be read: " + err.Error())
				return
			}
			targets, unmapped := buildTargets(reg)
			enumerateClean(e, reg, targets, unmapped)
			pooled := map[reflect.Type]bool{}
			for _, tg := range targets {
				if tg.Type.Kind() == reflect.Struct {
					pooled[tg.Type] = true
				}
			}
			clearPools()
			primeFresh(targets)
			depth := 4
			if e.Thorough() {
				depth = 5
			}
			enumerateHistories(e, targets, pooled, depth)
			enumerateReleaseAudit(e, targets, pooled)
			enumerateBigTrees(e, targets, pooled)
			enumerateTokenHandBack(e)
		},
	}
}
