package c09

import (
	"context"
	"fmt"
	"reflect"
	"runtime"
	"sort"
	"strconv"
	"strings"

	"github.com/ajitpratap0/GoSQLX/pkg/formatter"
	"github.com/ajitpratap0/GoSQLX/pkg/gosqlx"
	"github.com/ajitpratap0/GoSQLX/pkg/linter"
	"github.com/ajitpratap0/GoSQLX/pkg/linter/rules/keywords"
	"github.com/ajitpratap0/GoSQLX/pkg/linter/rules/style"
	"github.com/ajitpratap0/GoSQLX/pkg/linter/rules/whitespace"
	"github.com/ajitpratap0/GoSQLX/pkg/models"
	sqlast "github.com/ajitpratap0/GoSQLX/pkg/sql/ast"
	"github.com/ajitpratap0/GoSQLX/pkg/sql/parser"
	"github.com/ajitpratap0/GoSQLX/pkg/sql/security"
	"github.com/ajitpratap0/GoSQLX/pkg/sql/tokenizer"

	"verif/engine/common"
	"verif/sqlgen"
)

// The six statements share the shapes the parser takes from the node pools (tuples, ARRAY[...],
// subscripts, slices) and the shapes ReleaseAST returns to them (every statement arm, IN lists,
// function calls, nested selects), so that a node released by one history step is the node the
// next step receives.
var queries = []string{
	/*0*/ "SELECT a FROM t WHERE (a, b) IN ((1, 2), (3, 4))",
	/*1*/ "SELECT ARRAY[1, 2, 3], ARRAY[a, (b, c)] FROM t",
	/*2*/ "SELECT arr[1], arr[2:3], m[1][2], (a, b) FROM t",
	/*3*/ "SELECT a FROM t WHERE a IN (SELECT b FROM u WHERE (b, c) IN ((1, 2))) OR 1 = 1",
	/*4*/ "SELECT f(a, ARRAY[b]), COUNT(*) FROM t JOIN u ON t.id = u.id WHERE x IN (1, 2, 3) GROUP BY a HAVING (a, c) IN ((1, 2)) ORDER BY a",
	/*5*/ "UPDATE t SET a = ARRAY[1, 2] WHERE (a, b) IN ((1, 2)); INSERT INTO t (a, b) VALUES (ARRAY[1, 2], arr[1:2]); DELETE FROM t WHERE (a, b) IN ((1, 2)) AND c = arr[3]",
}

const (
	// text used by the operations that parse and release internally
	workQuery = "SELECT (a, b), ARRAY[1, (2, 3)], arr[1], arr[1:2], f(x) FROM t WHERE (a, b) IN ((1, 2)) -- c\n"
	// syntax errors after pooled nodes have been taken
	badQuery1 = "SELECT (a, b), ARRAY[1, 2], arr[1:2], arr[3] FROM"
	badQuery2 = "SELECT (a, ARRAY[1, (2, 3)], arr[1], ) FROM t"
	// recovery: the second statement fails after taking pooled nodes, the first and third succeed
	recoverQuery  = "SELECT (a, b), ARRAY[1] FROM t; SELECT (c, d), ARRAY[2] FROM WHERE; SELECT ARRAY[1, 2], (e, f), arr[1] FROM t"
	tokenQuery2   = "UPDATE u SET x = 'other', y = 2.5 WHERE \"z\" IN (7, 8, 9) -- two\n"
	tokenErrQuery = "SELECT a1, a2, a3, a4, a5, a6, a7, a8, a9, a10, a11, a12, a13, a14, a15, a16, a17, a18, a19, a20, a21, a22, a23, a24, a25, a26, a27, a28, a29, a30, a31, a32, a33, a34, a35, a36, a37, a38, a39, a40 FROM t WHERE b = 'unterminated"
	tokenQuery    = "SELECT a, 'str', \"q\", 1.5 /* block */ FROM t -- line\nWHERE (a, b) IN ((1, 2))"
)

// held is a value the library handed to the harness and the harness has not released.
type held struct {
	kind    string // tree | stmts | tokens | comments | scan | extract
	desc    string
	val     any
	snap    string
	release func() // tree, stmts; tokenizer for comments
	owner   *tokenizer.Tokenizer
	ptrs    map[uintptr]reflect.Type
	reused  int
}

type histState struct {
	ranges    []memRange
	dirtySeen map[reflect.Type]bool
	c         *common.Ctx
	pooled    map[reflect.Type]bool
	held      []*held
	released  map[uintptr]bool // addresses of pooled nodes of trees released in this history
	lint      *linter.Linter
	scanner   *security.Scanner
	reuse     int
	failed    bool
	acted     bool // the current step found something to act on
	ref       *reference
}

// reference holds the strict dumps of what the parse operations return when every pool is empty.
// "Indistinguishable from a freshly constructed one" means in particular that the tree built for a
// statement does not depend on what the pools contained.
type reference struct {
	trees     []string
	recovered string
	// number of pooled nodes per type in the tree of each statement (bounds what a step can release)
	treeNodes []map[reflect.Type]int
	workNodes map[reflect.Type]int
	recNodes  map[reflect.Type]int
	recOK     bool // ParseWithRecovery returned at least one statement
	tokOK     bool // Tokenize(tokenQuery) succeeded
}

func nodeCounts(x any, pooled map[reflect.Type]bool) map[reflect.Type]int {
	ptrs := map[uintptr]reflect.Type{}
	collectPointers(x, pooled, ptrs)
	out := map[reflect.Type]int{}
	for _, t := range ptrs {
		out[t]++
	}
	return out
}

func buildReference(pooled map[reflect.Type]bool) *reference {
	r := &reference{}
	for _, q := range queries {
		clearPools()
		tree, err := gosqlx.Parse(q)
		if err != nil {
			r.trees = append(r.trees, "")
			r.treeNodes = append(r.treeNodes, nil)
			continue
		}
		r.trees = append(r.trees, deepDump(tree)) // never released: the pools stay empty
		r.treeNodes = append(r.treeNodes, nodeCounts(tree, pooled))
	}
	clearPools()
	stmts, _ := gosqlx.ParseWithRecovery(recoverQuery)
	r.recovered = deepDump(stmts)
	r.recNodes = nodeCounts(stmts, pooled)
	r.recOK = len(stmts) > 0
	tkz := tokenizer.GetTokenizer()
	_, terr := tkz.Tokenize([]byte(tokenQuery))
	r.tokOK = terr == nil
	tokenizer.PutTokenizer(tkz)
	r.workNodes = map[reflect.Type]int{}
	for _, q := range []string{workQuery, badQuery1, badQuery2} {
		// the failing statements are counted through their longest valid relatives: every node the
		// parser can have built before the error is a node of a tree of this size
		if tree, err := gosqlx.Parse(q); err == nil {
			for t, n := range nodeCounts(tree, pooled) {
				if n > r.workNodes[t] {
					r.workNodes[t] = n
				}
			}
		}
	}
	for t := range r.workNodes {
		r.workNodes[t] += 4
	}
	return r
}

func (h *histState) sameAsFresh(o string, got, want string) {
	if got != want {
		h.failed = true
		h.c.Fail("tree-differs-from-fresh:"+o,
			"the tree returned by "+o+" differs from the tree the same call returns when the pools are empty (content of recycled nodes leaked into it): "+sqlgen.FirstDiff(want, got))
	}
}

type op struct {
	name  string // key text, e.g. P3
	class string // signature text, e.g. Parse
	run   func(h *histState)
	// nodes bounds, per pooled type, how many nodes this operation can create (and so how many a
	// history containing it can release)
	nodes func(r *reference) map[reflect.Type]int
}

func (h *histState) hold(x *held) {
	h.acted = true
	x.snap = deepDump(x.val)
	if x.kind == "tree" || x.kind == "stmts" {
		x.ptrs = map[uintptr]reflect.Type{}
		collectPointers(x.val, h.pooled, x.ptrs)
		for a := range x.ptrs {
			if h.released[a] {
				x.reused++
			}
		}
		h.reuse += x.reused
	}
	h.held = append(h.held, x)
}

// liveTrees returns the indices of held trees, oldest first.
func (h *histState) liveTrees() []int {
	var out []int
	for i, x := range h.held {
		if x.kind == "tree" || x.kind == "stmts" {
			out = append(out, i)
		}
	}
	return out
}

// releaseTree releases the j-th oldest live tree (j = -1: the newest) and forgets it.
func (h *histState) releaseTree(j int) {
	lt := h.liveTrees()
	if len(lt) == 0 {
		return
	}
	var idx int
	switch {
	case j < 0:
		idx = lt[len(lt)-1]
	case j < len(lt):
		idx = lt[j]
	default:
		return
	}
	if j < 0 && len(lt) < 3 {
		return // "newest" is R0's or R1's tree: not a step of its own
	}
	h.acted = true
	x := h.held[idx]
	// from here on the harness never looks at x again
	for a := range x.ptrs {
		h.released[a] = true
	}
	h.held = append(h.held[:idx:idx], h.held[idx+1:]...)
	x.release()
}

func (h *histState) newestTree() *sqlast.AST {
	for i := len(h.held) - 1; i >= 0; i-- {
		if h.held[i].kind == "tree" {
			return h.held[i].val.(*sqlast.AST)
		}
	}
	return nil
}

func buildOps() []op {
	var ops []op
	for i := range queries {
		i := i
		ops = append(ops, op{"P" + strconv.Itoa(i), "Parse", func(h *histState) {
			tree, err := gosqlx.Parse(queries[i])
			if err != nil {
				h.c.Outcome("parse-rejected")
				return
			}
			h.hold(&held{kind: "tree", desc: "q" + strconv.Itoa(i), val: tree, release: func() { sqlast.ReleaseAST(tree) }})
			h.sameAsFresh("Parse", h.held[len(h.held)-1].snap, h.ref.trees[i])
		}, func(r *reference) map[reflect.Type]int { return r.treeNodes[i] }})
	}
	ops = append(ops,
		op{name: "R0", class: "ReleaseAST", run: func(h *histState) { h.releaseTree(0) }},
		op{name: "R1", class: "ReleaseAST", run: func(h *histState) { h.releaseTree(1) }},
		op{name: "Rn", class: "ReleaseAST", run: func(h *histState) { h.releaseTree(-1) }},
		op{name: "E1", class: "ParseError", run: func(h *histState) {
			if _, err := gosqlx.Parse(badQuery1); err == nil {
				h.c.Outcome("bad-query-accepted")
			}
		}},
		op{name: "E2", class: "ParseError", run: func(h *histState) {
			if _, err := gosqlx.Parse(badQuery2); err == nil {
				h.c.Outcome("bad-query-accepted")
			}
		}},
		op{name: "F", class: "gosqlx.Format", run: func(h *histState) {
			_, _ = gosqlx.Format(workQuery, gosqlx.DefaultFormatOptions())
		}},
		op{name: "FF", class: "formatter.Format", run: func(h *histState) {
			_, _ = formatter.New(formatter.Options{Uppercase: true}).Format(workQuery)
		}},
		op{name: "V", class: "ValidateBytes", run: func(h *histState) {
			_ = parser.ValidateBytes([]byte(workQuery))
		}},
		op{name: "L", class: "LintString", run: func(h *histState) {
			_ = h.lint.LintString(workQuery, "<c09>")
		}},
		op{name: "X", class: "Extract", run: func(h *histState) {
			t := h.newestTree()
			if t == nil {
				return
			}
			lists := []any{gosqlx.ExtractTables(t), gosqlx.ExtractTablesQualified(t), gosqlx.ExtractColumns(t),
				gosqlx.ExtractColumnsQualified(t), gosqlx.ExtractFunctions(t), gosqlx.ExtractMetadata(t)}
			h.hold(&held{kind: "extract", desc: "lists", val: lists})
		}},
		op{name: "S", class: "Scan", run: func(h *histState) {
			t := h.newestTree()
			if t == nil {
				return
			}
			h.hold(&held{kind: "scan", desc: "result", val: h.scanner.Scan(t)})
		}},
		op{name: "W", class: "ParseWithRecovery", run: func(h *histState) {
			stmts, _ := gosqlx.ParseWithRecovery(recoverQuery)
			if len(stmts) == 0 {
				return
			}
			h.hold(&held{kind: "stmts", desc: "recovered", val: stmts, release: func() { sqlast.ReleaseStatements(stmts) }})
			h.sameAsFresh("ParseWithRecovery", h.held[len(h.held)-1].snap, h.ref.recovered)
		}},
		// a batch: every tree of the result belongs to the caller on its own, also when texts repeat within the batch
		op{name: "PM", class: "ParseMultiple", run: func(h *histState) {
			batch := []int{0, 3, 0}
			qs := make([]string, len(batch))
			for i, k := range batch {
				qs[i] = queries[k]
			}
			trees, err := gosqlx.ParseMultiple(qs)
			if err != nil || len(trees) != len(batch) {
				h.c.Outcome("batch-rejected")
				return
			}
			for i, tree := range trees {
				tree := tree
				h.hold(&held{kind: "tree", desc: fmt.Sprintf("batch[%d]=q%d", i, batch[i]), val: tree, release: func() { sqlast.ReleaseAST(tree) }})
				h.sameAsFresh("ParseMultiple", h.held[len(h.held)-1].snap, h.ref.trees[batch[i]])
			}
		}, nodes: func(r *reference) map[reflect.Type]int {
			out := map[reflect.Type]int{}
			for _, k := range []int{0, 3, 0} {
				for t, n := range r.treeNodes[k] {
					out[t] += n
				}
			}
			return out
		}},
		op{name: "T", class: "Tokenize", run: func(h *histState) {
			tkz := tokenizer.GetTokenizer()
			toks, err := tkz.Tokenize([]byte(tokenQuery))
			if err != nil {
				tokenizer.PutTokenizer(tkz)
				return
			}
			h.hold(&held{kind: "tokens", desc: "tokens", val: toks})
			// the comments live in the tokenizer: they are the caller's for as long as the caller keeps the tokenizer
			var cm []models.Comment = tkz.Comments
			h.hold(&held{kind: "comments", desc: "comments", val: cm, owner: tkz})
		}},
		// failing tokenizer calls through the pool (lexical error at the very end of a long input; cancelled context):
		// whatever a failed call keeps in the instance must never become part of a later caller's result
		op{name: "TE", class: "TokenizeError", run: func(h *histState) {
			tkz := tokenizer.GetTokenizer()
			if _, err := tkz.Tokenize([]byte(tokenErrQuery)); err == nil {
				h.c.Outcome("bad-text-tokenized")
			}
			tokenizer.PutTokenizer(tkz)
		}},
		op{name: "TC", class: "TokenizeCancelled", run: func(h *histState) {
			ctx, cancel := context.WithCancel(context.Background())
			cancel()
			tkz := tokenizer.GetTokenizer()
			_, _ = tkz.TokenizeContext(ctx, []byte(tokenErrQuery))
			tokenizer.PutTokenizer(tkz)
		}},
		// a complete borrow: tokens kept by the caller, tokenizer handed back at once
		op{name: "T2", class: "TokenizeAndPut", run: func(h *histState) {
			tkz := tokenizer.GetTokenizer()
			toks, err := tkz.Tokenize([]byte(tokenQuery2))
			tokenizer.PutTokenizer(tkz)
			if err == nil {
				h.hold(&held{kind: "tokens", desc: "tokens2", val: toks})
			}
		}},
		op{name: "TP", class: "PutTokenizer", run: func(h *histState) {
			for i, x := range h.held {
				if x.kind == "comments" {
					h.acted = true
					h.held = append(h.held[:i:i], h.held[i+1:]...)
					tokenizer.PutTokenizer(x.owner) // the tokens stay held: Tokenize returned a slice of its own
					return
				}
			}
		}},
	)
	for i := range ops {
		switch ops[i].name {
		case "E1", "E2", "F", "FF", "V", "L":
			ops[i].nodes = func(r *reference) map[reflect.Type]int { return r.workNodes }
		case "W":
			ops[i].nodes = func(r *reference) map[reflect.Type]int { return r.recNodes }
		}
	}
	return ops
}

// check evaluates the two invariants after a step.
func (h *histState) check(o op) {
	for _, x := range h.held {
		cur := deepDump(x.val)
		if cur != x.snap {
			h.failed = true
			h.c.Fail("held-modified:"+x.kind+":"+o.class,
				fmt.Sprintf("a held %s (%s) changed during %s (op %s): %s", x.kind, x.desc, o.class, o.name, sqlgen.FirstDiff(x.snap, cur)))
			x.snap = cur
		}
	}
	lt := h.liveTrees()
	for a := 0; a < len(lt); a++ {
		for b := a + 1; b < len(lt); b++ {
			pa, pb := h.held[lt[a]].ptrs, h.held[lt[b]].ptrs
			var shared []string
			for addr, t := range pb {
				if _, ok := pa[addr]; ok {
					shared = append(shared, t.Name())
				}
			}
			if len(shared) > 0 {
				sort.Strings(shared)
				h.failed = true
				h.c.Fail("shared-node:"+shared[0]+":"+o.class,
					fmt.Sprintf("two live trees (%s, %s) share %d pooled node(s) (%s) after %s (op %s): releasing either one resets nodes of the other",
						h.held[lt[a]].desc, h.held[lt[b]].desc, len(shared), strings.Join(uniq(shared), ","), o.class, o.name))
			}
		}
	}
}

func uniq(s []string) []string {
	var out []string
	for i, x := range s {
		if i == 0 || x != s[i-1] {
			out = append(out, x)
		}
	}
	return out
}

// stateText is the canonical text of the harness-visible state: what is held, and how many nodes of
// each live tree came out of the pools after another tree of this history went in.
func (h *histState) stateText() string {
	var sb strings.Builder
	for _, x := range h.held {
		sb.WriteString(x.kind)
		sb.WriteByte(':')
		sb.WriteString(x.desc)
		if x.ptrs != nil {
			sb.WriteString(fmt.Sprintf("/n%d/r%d", len(x.ptrs), x.reused))
		}
		sb.WriteByte(' ')
	}
	return sb.String()
}

func newLinter() *linter.Linter {
	return linter.New(
		whitespace.NewTrailingWhitespaceRule(),
		whitespace.NewMixedIndentationRule(),
		whitespace.NewConsecutiveBlankLinesRule(1),
		whitespace.NewIndentationDepthRule(4, 4),
		whitespace.NewLongLinesRule(100),
		whitespace.NewRedundantWhitespaceRule(),
		style.NewColumnAlignmentRule(),
		style.NewCommaPlacementRule(style.CommaTrailing),
		style.NewAliasingConsistencyRule(true),
		keywords.NewKeywordCaseRule(keywords.CaseUpper),
	)
}

// enumerateHistories registers every history over the alphabet with 1..depth steps.
func enumerateHistories(e *common.Enum, targets []*cleanTarget, pooled map[reflect.Type]bool, depth int) {
	ops := buildOps()
	lint := newLinter()
	scanner := security.NewScanner()
	ref := buildReference(pooled)
	idx := make([]int, 0, depth)
	var rec func()
	run := func(seq []int) {
		names := make([]string, len(seq))
		for i, k := range seq {
			names[i] = ops[k].name
		}
		key := "hist|" + strings.Join(names, ">")
		if !e.Mine(key) {
			return
		}
		seq = append([]int(nil), seq...)
		e.Do(key, func(c *common.Ctx) {
			c.Input(strings.Join(names, " > "))
			runHistory(c, ops, seq, targets, pooled, lint, scanner, ref)
		})
	}
	// A step that has nothing to act on (release with no tree held, Extract / Scan with no tree,
	// PutTokenizer with no tokenizer, "release the newest" when the newest is also R0's or R1's tree)
	// leaves every object untouched, so a history containing it behaves exactly like the shorter
	// history without it - which is enumerated in its own right.  Such histories are not generated.
	// The abstract bookkeeping used for that (which kinds of values are held) is re-validated against
	// the real run: a step that turns out to have nothing to act on sets a cap.
	var trees []byte // 't' = *AST from Parse, 's' = []Statement from ParseWithRecovery; oldest first
	toks := 0
	rec = func() {
		if len(idx) > 0 {
			run(idx)
		}
		if len(idx) == depth {
			return
		}
		for k := range ops {
			saveTrees, saveToks := append([]byte(nil), trees...), toks
			ok := true
			switch n := ops[k].name; {
			case n[0] == 'P' && n != "PM":
				if ref.trees[k] == "" {
					ok = false
				}
				trees = append(trees, 't')
			case n == "PM":
				ok = ref.trees[0] != "" && ref.trees[3] != ""
				trees = append(trees, 't', 't', 't')
			case n == "W":
				ok = ref.recOK
				trees = append(trees, 's')
			case n == "R0":
				if ok = len(trees) >= 1; ok {
					trees = trees[1:]
				}
			case n == "R1":
				if ok = len(trees) >= 2; ok {
					trees = append(append([]byte(nil), trees[0]), trees[2:]...)
				}
			case n == "Rn":
				if ok = len(trees) >= 3; ok {
					trees = trees[:len(trees)-1]
				}
			case n == "X" || n == "S":
				ok = strings.IndexByte(string(trees), 't') >= 0
			case n == "T":
				ok = ref.tokOK
				toks++
			case n == "TP":
				ok = toks >= 1
				toks--
			}
			if ok {
				idx = append(idx, k)
				rec()
				idx = idx[:len(idx)-1]
			}
			trees, toks = saveTrees, saveToks
		}
	}
	rec()
}

func runHistory(c *common.Ctx, ops []op, seq []int, targets []*cleanTarget, pooled map[reflect.Type]bool, lint *linter.Linter, scanner *security.Scanner, ref *reference) {
	// empty pools at the start of every history: the same history gives the same pool traffic in a
	// batch and in a fresh replay process, and residue of one history cannot surface in the next
	clearPools()
	h := &histState{c: c, pooled: pooled, released: map[uintptr]bool{}, lint: lint, scanner: scanner, ref: ref}
	for _, k := range seq {
		h.acted = false
		ops[k].run(h)
		switch ops[k].name {
		case "E1", "E2", "F", "FF", "V", "L", "TE", "TC":
			h.acted = true // library-internal work, nothing for the harness to hold
		}
		if !h.acted && !c.Enum().Replaying() {
			c.Outcome("model-diverged")
			c.Enum().Cap("enabledness bookkeeping diverged from the run at step " + ops[k].name + " of " + c.Key)
		}
		c.Count("transitions", 1)
		h.check(ops[k])
		c.State(common.Hash64("hist|" + h.stateText()))
		if h.failed {
			break
		}
	}
	if !h.failed {
		bound := map[reflect.Type]int{}
		for _, k := range seq {
			if ops[k].nodes != nil {
				for t, n := range ops[k].nodes(ref) {
					bound[t] += n
				}
			}
			for _, tg := range targets {
				if tg.Pool.Elem == "AST" {
					bound[tg.Type]++
				}
			}
		}
		h.audit(targets, bound)
	}
	if len(seq) <= 2 {
		c.Sample(map[string]any{"history": c.Key, "final_state": h.stateText()})
	}
	switch {
	case h.failed:
		c.Outcome("violated")
	case h.reuse > 0:
		// a node released into a pool earlier in this history is part of a tree handed out later
		c.Outcome(fmt.Sprintf("ok:held=%d:pool-reuse", len(h.held)))
		c.NonTrivial()
	default:
		c.Outcome(fmt.Sprintf("ok:held=%d:no-reuse", len(h.held)))
	}
	// Trees still held are simply dropped (never released twice, never used after release).
}

// auditDepth bounds how many objects the audit takes from each pool: more than the number of nodes
// of one type that the longest history can release (about a dozen per statement, at most five
// statements held or parsed internally per step).
const auditSlack = 6

var freshRes = map[reflect.Type]map[string]bool{}

// freshResidues is what a newly constructed object of the target's type looks like to residues() (pre-sized
// slices and the like); computed once per type from a zero value run through the pool's constructor when the
// pools are empty, see primeFresh.
func freshResidues(tg *cleanTarget) map[string]bool {
	return freshRes[tg.Type]
}

// primeFresh must run while the pools are empty.
func primeFresh(targets []*cleanTarget) {
	for _, tg := range targets {
		if tg.Get == nil || freshRes[tg.Type] != nil {
			continue
		}
		m := map[string]bool{}
		if rv := reflect.ValueOf(tg.Get()); rv.Kind() == reflect.Ptr && rv.Elem().Kind() == reflect.Struct {
			var ref []residue
			residues(rv.Elem(), tg.Pool.Elem, false, &ref)
			for _, r := range ref {
				m[r.Path+"|"+r.What] = true
			}
		}
		freshRes[tg.Type] = m
	}
}

// audit empties the pools at the end of a history through the public Get functions.  The pools were
// empty when the history started, so everything they hold was released during it.  An object that
// comes out twice was put twice (two later holders would own the same node); an object that is part
// of a tree the harness still holds was released while referenced by a returned value.  Every
// prefix of a history is itself an enumerated history, so auditing at the end audits every step.
func (h *histState) audit(targets []*cleanTarget, bound map[reflect.Type]int) {
	live := map[uintptr]string{}
	for _, i := range h.liveTrees() {
		for a := range h.held[i].ptrs {
			live[a] = h.held[i].desc
		}
	}
	for _, tg := range targets {
		if tg.Get == nil {
			continue
		}
		// twice the number of nodes of this type the history can have created, plus slack: an object put
		// twice sits in the pool between the others, so it comes out twice within this many Gets
		depth := 2*bound[tg.Type] + auditSlack
		seen := make(map[uintptr]bool, depth)
		keep := make([]any, 0, depth)
		for i := 0; i < depth; i++ {
			g := tg.Get()
			keep = append(keep, g)
			a := reflect.ValueOf(g).Pointer()
			if seen[a] {
				h.failed = true
				h.c.Fail("double-put:"+tg.Pool.Elem,
					fmt.Sprintf("%s returned the same %s twice at the end of the history: the object was put into %s twice, two later holders would own one node", tg.GetBy, tg.Pool.Elem, tg.Pool.Var))
				break
			}
			seen[a] = true
			// whatever release path brought it here (its own Put function, or as a child of any other node), a
			// pooled object must look like a newly constructed one
			if rv := reflect.ValueOf(g); rv.Kind() == reflect.Ptr && rv.Elem().Kind() == reflect.Struct && !h.dirtySeen[tg.Type] {
				var got []residue
				residues(rv.Elem(), tg.Pool.Elem, false, &got)
				ref := freshResidues(tg)
				for _, r := range got {
					if !ref[r.Path+"|"+r.What] && !r.Stale {
						if h.dirtySeen == nil {
							h.dirtySeen = map[reflect.Type]bool{}
						}
						h.dirtySeen[tg.Type] = true
						h.failed = true
						h.c.Fail("dirty-in-pool:"+r.Path, fmt.Sprintf("at the end of the history %s returned a %s that still carries a previous holder's content: %s = %s", tg.GetBy, tg.Pool.Elem, r.Path, r.What))
						break
					}
				}
			}
			if d, ok := live[a]; ok {
				h.failed = true
				h.c.Fail("live-node-in-pool:"+tg.Pool.Elem,
					fmt.Sprintf("%s returned a %s that is still part of the held tree %s: the library released a node that a value it handed out still references", tg.GetBy, tg.Pool.Elem, d))
				break
			}
		}
		for _, g := range keep {
			h.noteStorage(g, tg)
		}
		runtime.KeepAlive(keep)
	}
	h.checkStorageOverlap()
}

// storage ranges of everything the pools hold at the end of a history: the objects themselves and the backing arrays
// their slice fields retain.  Two pooled things must never share memory: the next two holders would write into each other.
type memRange struct {
	lo, hi uintptr
	what   string
	owner  uintptr
}

func (h *histState) noteStorage(g any, tg *cleanTarget) {
	rv := reflect.ValueOf(g)
	if rv.Kind() != reflect.Ptr || rv.IsNil() || rv.Elem().Kind() != reflect.Struct {
		return
	}
	base := rv.Pointer()
	h.ranges = append(h.ranges, memRange{base, base + rv.Elem().Type().Size(), "a pooled " + tg.Pool.Elem, base})
	ev := rv.Elem()
	for i := 0; i < ev.NumField(); i++ {
		f := ev.Field(i)
		if f.Kind() == reflect.Slice && f.Cap() > 0 && f.Type().Elem().Size() > 0 {
			lo := f.Pointer()
			h.ranges = append(h.ranges, memRange{lo, lo + uintptr(f.Cap())*f.Type().Elem().Size(),
				"the backing array retained by a pooled " + tg.Pool.Elem + "." + ev.Type().Field(i).Name, base})
		}
	}
}

func (h *histState) checkStorageOverlap() {
	rs := h.ranges
	h.ranges = nil
	sort.Slice(rs, func(i, j int) bool { return rs[i].lo < rs[j].lo })
	for i := 1; i < len(rs); i++ {
		a, b := rs[i-1], rs[i]
		if b.lo < a.hi && a.owner != b.owner && a.lo != 0 {
			h.failed = true
			h.c.Fail("pooled-storage-overlap", fmt.Sprintf("at the end of the history %s and %s occupy the same memory (%d bytes shared): two later holders would write into each other", a.what, b.what, minPtr(a.hi, b.hi)-b.lo))
			return
		}
	}
}

func minPtr(a, b uintptr) uintptr {
	if a < b {
		return a
	}
	return b
}
