package c09

import (
	"fmt"
	"reflect"
	"sort"
	"strconv"
	"strings"
	"unsafe"

	sqlast "github.com/ajitpratap0/GoSQLX/pkg/sql/ast"
)

// settable returns v as a settable value even when it is an unexported field.
func settable(v reflect.Value) reflect.Value {
	if v.CanSet() {
		return v
	}
	if v.CanAddr() {
		return reflect.NewAt(v.Type(), unsafe.Pointer(v.UnsafeAddr())).Elem()
	}
	return v
}

// leaf candidates used to fill interface-typed fields; all fresh, never pooled objects.
func ifaceCandidates() []any {
	return []any{
		&sqlast.Identifier{Name: "x", Table: "y"},
		&sqlast.SelectStatement{TableName: "t", Columns: []sqlast.Expression{&sqlast.LiteralValue{Value: "1", Type: "int"}}},
		&sqlast.LiteralValue{Value: "1", Type: "int"},
	}
}

// fill sets v (and everything below it) to non-zero content: true, 1, "x", non-nil pointers to
// filled structs, slices with n non-nil / non-zero elements, interfaces holding a fresh node.
// Recursion through pointers is cut at depth maxDepth (the pointer is still non-nil, the struct
// behind it has its scalar fields set).  It reports what it could not fill.
type filler struct {
	unfilled []string
}

const maxDepth = 3

func (f *filler) fill(v reflect.Value, depth int, path string) {
	v = settable(v)
	if !v.CanSet() {
		f.unfilled = append(f.unfilled, path)
		return
	}
	n := 1
	if depth <= 1 {
		n = 2 // the pooled object's own containers get two elements (a reset that clears only element 0 is seen)
	}
	switch v.Kind() {
	case reflect.Bool:
		v.SetBool(true)
	case reflect.Int, reflect.Int8, reflect.Int16, reflect.Int32, reflect.Int64:
		v.SetInt(1)
	case reflect.Uint, reflect.Uint8, reflect.Uint16, reflect.Uint32, reflect.Uint64, reflect.Uintptr:
		v.SetUint(1)
	case reflect.Float32, reflect.Float64:
		v.SetFloat(1.5)
	case reflect.Complex64, reflect.Complex128:
		v.SetComplex(complex(1, 1))
	case reflect.String:
		v.SetString("x")
	case reflect.Ptr:
		p := reflect.New(v.Type().Elem())
		if depth < maxDepth {
			f.fill(p.Elem(), depth+1, path)
		} else {
			f.fillScalars(p.Elem())
		}
		v.Set(p)
	case reflect.Interface:
		if v.Type().NumMethod() == 0 {
			v.Set(reflect.ValueOf("x"))
			return
		}
		for _, c := range ifaceCandidates() {
			cv := reflect.ValueOf(c)
			if cv.Type().Implements(v.Type()) {
				v.Set(cv)
				return
			}
		}
		f.unfilled = append(f.unfilled, path+" (no known implementation of "+v.Type().String()+")")
	case reflect.Slice:
		s := reflect.MakeSlice(v.Type(), n, n+1)
		for i := 0; i < n; i++ {
			if depth < maxDepth {
				f.fill(s.Index(i), depth+1, path+"[]")
			} else {
				f.fillScalars(s.Index(i))
			}
		}
		v.Set(s)
	case reflect.Array:
		for i := 0; i < v.Len(); i++ {
			f.fill(v.Index(i), depth+1, path+"[]")
		}
	case reflect.Map:
		m := reflect.MakeMap(v.Type())
		k := reflect.New(v.Type().Key()).Elem()
		f.fillScalars(k)
		e := reflect.New(v.Type().Elem()).Elem()
		if depth < maxDepth {
			f.fill(e, depth+1, path+"{}")
		} else {
			f.fillScalars(e)
		}
		m.SetMapIndex(k, e)
		v.Set(m)
	case reflect.Struct:
		for i := 0; i < v.NumField(); i++ {
			f.fill(v.Field(i), depth+1, path+"."+v.Type().Field(i).Name)
		}
	default:
		f.unfilled = append(f.unfilled, path+" (kind "+v.Kind().String()+")")
	}
}

// fillScalars sets only the scalar fields (used at the recursion cut so that the value is still non-zero).
func (f *filler) fillScalars(v reflect.Value) {
	v = settable(v)
	if !v.CanSet() {
		return
	}
	switch v.Kind() {
	case reflect.Bool:
		v.SetBool(true)
	case reflect.Int, reflect.Int8, reflect.Int16, reflect.Int32, reflect.Int64:
		v.SetInt(1)
	case reflect.Uint, reflect.Uint8, reflect.Uint16, reflect.Uint32, reflect.Uint64, reflect.Uintptr:
		v.SetUint(1)
	case reflect.Float32, reflect.Float64:
		v.SetFloat(1.5)
	case reflect.String:
		v.SetString("x")
	case reflect.Struct:
		for i := 0; i < v.NumField(); i++ {
			f.fillScalars(v.Field(i))
		}
	case reflect.Interface:
		if v.Type().NumMethod() == 0 {
			v.Set(reflect.ValueOf("x"))
			return
		}
		for _, c := range ifaceCandidates() {
			cv := reflect.ValueOf(c)
			if cv.Type().Implements(v.Type()) {
				v.Set(cv)
				return
			}
		}
	}
}

// residue is one place where a value differs from "zero by content".
type residue struct {
	Path  string // Columns.backing[1], Where, OrderBy.backing[0].Ascending
	What  string
	Stale bool // only reachable by re-slicing beyond len (retained backing array with non-zero elements)
}

// residues lists every place of v that is not zero BY CONTENT: scalars must be zero, pointers,
// interfaces and funcs nil, maps empty, slices of length 0 whose backing array is zero by content up
// to capacity (nil and empty slices are the same thing; a retained, zeroed backing array is not
// observable as content of another query).
func residues(v reflect.Value, path string, stale bool, out *[]residue) {
	switch v.Kind() {
	case reflect.Slice:
		if v.IsNil() {
			return
		}
		if v.Len() > 0 {
			*out = append(*out, residue{path, "len " + strconv.Itoa(v.Len()), stale})
		}
		full := v.Slice(0, v.Cap())
		for i := 0; i < full.Len(); i++ {
			if i < v.Len() {
				residues(full.Index(i), path+"["+strconv.Itoa(i)+"]", stale, out)
			} else {
				residues(full.Index(i), path+".backing["+strconv.Itoa(i)+"]", true, out)
			}
		}
	case reflect.Ptr, reflect.Interface, reflect.Func, reflect.Chan, reflect.UnsafePointer:
		if !v.IsNil() {
			w := "non-nil " + v.Type().String()
			if v.Kind() == reflect.Interface {
				w += " holding " + v.Elem().Type().String()
			}
			*out = append(*out, residue{path, w, stale})
		}
	case reflect.Map:
		if v.Len() > 0 {
			*out = append(*out, residue{path, "map with " + strconv.Itoa(v.Len()) + " entries", stale})
		}
	case reflect.Struct:
		for i := 0; i < v.NumField(); i++ {
			residues(v.Field(i), path+"."+v.Type().Field(i).Name, stale, out)
		}
	case reflect.Array:
		for i := 0; i < v.Len(); i++ {
			residues(v.Index(i), path+"["+strconv.Itoa(i)+"]", stale, out)
		}
	default:
		if !v.IsZero() {
			*out = append(*out, residue{path, fmt.Sprintf("%s %s", v.Kind(), scalarText(v)), stale})
		}
	}
}

func scalarText(v reflect.Value) string {
	switch v.Kind() {
	case reflect.Bool:
		return strconv.FormatBool(v.Bool())
	case reflect.Int, reflect.Int8, reflect.Int16, reflect.Int32, reflect.Int64:
		return strconv.FormatInt(v.Int(), 10)
	case reflect.Uint, reflect.Uint8, reflect.Uint16, reflect.Uint32, reflect.Uint64, reflect.Uintptr:
		return strconv.FormatUint(v.Uint(), 10)
	case reflect.Float32, reflect.Float64:
		return strconv.FormatFloat(v.Float(), 'g', -1, 64)
	case reflect.String:
		return strconv.Quote(v.String())
	case reflect.Complex64, reflect.Complex128:
		return fmt.Sprint(v.Complex())
	}
	return "?"
}

// deepDump is a strict canonical text of a value: every field (exported or not), pointers followed,
// interfaces with their dynamic type, nil and empty slices identified, no address ever printed.
func deepDump(x any) string {
	var sb strings.Builder
	dumpValue(&sb, reflect.ValueOf(x), 0)
	return sb.String()
}

func dumpValue(sb *strings.Builder, v reflect.Value, depth int) {
	if !v.IsValid() {
		sb.WriteString("nil")
		return
	}
	if depth > 200 {
		sb.WriteString("<deep>")
		return
	}
	switch v.Kind() {
	case reflect.Ptr:
		if v.IsNil() {
			sb.WriteString("nil")
			return
		}
		sb.WriteByte('&')
		dumpValue(sb, v.Elem(), depth+1)
	case reflect.Interface:
		if v.IsNil() {
			sb.WriteString("nil")
			return
		}
		dumpValue(sb, v.Elem(), depth+1)
	case reflect.Struct:
		sb.WriteString(v.Type().Name())
		sb.WriteByte('{')
		first := true
		for i := 0; i < v.NumField(); i++ {
			f := v.Field(i)
			if isZeroContent(f) {
				continue
			}
			if !first {
				sb.WriteString(", ")
			}
			first = false
			sb.WriteString(v.Type().Field(i).Name)
			sb.WriteByte(':')
			dumpValue(sb, f, depth+1)
		}
		sb.WriteByte('}')
	case reflect.Slice, reflect.Array:
		sb.WriteByte('[')
		for i := 0; i < v.Len(); i++ {
			if i > 0 {
				sb.WriteString(", ")
			}
			dumpValue(sb, v.Index(i), depth+1)
		}
		sb.WriteByte(']')
	case reflect.Map:
		keys := v.MapKeys()
		ks := make([]string, len(keys))
		m := map[string]reflect.Value{}
		for i, k := range keys {
			var kb strings.Builder
			dumpValue(&kb, k, depth+1)
			ks[i] = kb.String()
			m[ks[i]] = v.MapIndex(k)
		}
		sort.Strings(ks)
		sb.WriteString("map{")
		for i, k := range ks {
			if i > 0 {
				sb.WriteString(", ")
			}
			sb.WriteString(k)
			sb.WriteByte(':')
			dumpValue(sb, m[k], depth+1)
		}
		sb.WriteByte('}')
	case reflect.Func, reflect.Chan, reflect.UnsafePointer:
		if v.IsNil() {
			sb.WriteString("nil")
		} else {
			sb.WriteString("<" + v.Kind().String() + ">")
		}
	default:
		sb.WriteString(scalarText(v))
	}
}

// isZeroContent: zero value, or an empty slice / map (used only to keep dumps short).
func isZeroContent(v reflect.Value) bool {
	switch v.Kind() {
	case reflect.Slice, reflect.Map:
		return v.Len() == 0
	case reflect.Ptr, reflect.Interface, reflect.Func, reflect.Chan:
		return v.IsNil()
	}
	return v.IsZero()
}

// collectPointers walks a tree and records the address of every node whose type is in `pooled`
// (pointer-to-struct types that live in the node pools).  A node reached twice is recorded once.
func collectPointers(x any, pooled map[reflect.Type]bool, out map[uintptr]reflect.Type) {
	walkPointers(reflect.ValueOf(x), pooled, out, map[uintptr]bool{}, 0)
}

func walkPointers(v reflect.Value, pooled map[reflect.Type]bool, out map[uintptr]reflect.Type, seen map[uintptr]bool, depth int) {
	if !v.IsValid() || depth > 400 {
		return
	}
	switch v.Kind() {
	case reflect.Ptr:
		if v.IsNil() {
			return
		}
		a := v.Pointer()
		if v.Type().Elem().Kind() == reflect.Struct {
			if seen[a] {
				return
			}
			seen[a] = true
			if pooled[v.Type().Elem()] {
				out[a] = v.Type().Elem()
			}
		}
		walkPointers(v.Elem(), pooled, out, seen, depth+1)
	case reflect.Interface:
		if !v.IsNil() {
			walkPointers(v.Elem(), pooled, out, seen, depth+1)
		}
	case reflect.Struct:
		for i := 0; i < v.NumField(); i++ {
			walkPointers(v.Field(i), pooled, out, seen, depth+1)
		}
	case reflect.Slice, reflect.Array:
		for i := 0; i < v.Len(); i++ {
			walkPointers(v.Index(i), pooled, out, seen, depth+1)
		}
	case reflect.Map:
		it := v.MapRange()
		for it.Next() {
			walkPointers(it.Value(), pooled, out, seen, depth+1)
		}
	}
}
