package c09

// The pool registry is read from the library source AT CHECK TIME (go/parser on
// pkg/sql/ast/*.go of the tree the binary was built from, overlay included):
// every sync.Pool composite literal and the type its New returns, every exported
// Get/Put function that uses the pool, every `case *T` arm of PutExpression and
// of the statement switches of ReleaseAST / ReleaseStatements.  Only the mapping
// from *names* to callable functions and reflect.Types is written by hand (Go has
// no call-by-name); a name found in the source that the tables below do not know
// is reported as `unmapped-pool:<Type>` so that additions are noticed.

import (
	"encoding/json"
	"fmt"
	"go/ast"
	"go/parser"
	"go/token"
	"os"
	"path/filepath"
	"reflect"
	"runtime"
	"sort"
	"strings"

	sqlast "github.com/ajitpratap0/GoSQLX/pkg/sql/ast"
)

// poolInfo is what the source says about one sync.Pool variable.
type poolInfo struct {
	Var       string   // selectStmtPool
	Elem      string   // "SelectStatement", "[]Expression" (the pool holds *Elem); "" if not understood
	Local     bool     // Elem is declared in package ast (builderPool holds *strings.Builder: not a node pool)
	Gets      []string // exported functions without parameters whose body calls Var.Get()
	Puts      []string // exported one-parameter functions whose body calls Var.Put(...)
	InPutExpr bool     // PutExpression has a `case *Elem` arm that puts into Var
	InRelease []string // ReleaseAST / ReleaseStatements: statement switch has a `case *Elem` arm
}

type registry struct {
	Dir   string
	Files []string
	Pools []*poolInfo // sorted by Elem, Var
	// PutExprCases are all `case *T` arms of PutExpression (pooled or not).
	PutExprCases []string
	Problems     []string // things in the source the parser of this file did not understand
}

// astDir finds the directory of package ast's source as compiled into this binary.
func astDir() string {
	f := runtime.FuncForPC(reflect.ValueOf(sqlast.NewAST).Pointer())
	file, _ := f.FileLine(f.Entry())
	return filepath.Dir(file)
}

// overlayMap returns the file replacements of $VERIF_OVERLAY (mutation demonstrations build
// the binary with `go build -overlay`; the source must be read through the same mapping).
func overlayMap() map[string]string {
	p := os.Getenv("VERIF_OVERLAY")
	if p == "" {
		return nil
	}
	b, err := os.ReadFile(p)
	if err != nil {
		return nil
	}
	var o struct{ Replace map[string]string }
	if json.Unmarshal(b, &o) != nil {
		return nil
	}
	return o.Replace
}

func typeText(e ast.Expr) (string, bool) {
	switch t := e.(type) {
	case *ast.Ident:
		return t.Name, true
	case *ast.StarExpr:
		s, l := typeText(t.X)
		return "*" + s, l
	case *ast.ArrayType:
		if t.Len != nil {
			return "", false
		}
		s, l := typeText(t.Elt)
		return "[]" + s, l
	case *ast.SelectorExpr:
		s, _ := typeText(t.X)
		return s + "." + t.Sel.Name, false
	}
	return "", false
}

// newResultType finds the element type of a pool from the body of its New function:
// `return &T{...}`, `return new(T)`, or `x := make(T, ...); return &x`.
func newResultType(fl *ast.FuncLit) (string, bool) {
	made := map[string]ast.Expr{}
	var res string
	var local bool
	ast.Inspect(fl.Body, func(n ast.Node) bool {
		switch s := n.(type) {
		case *ast.AssignStmt:
			if len(s.Lhs) == 1 && len(s.Rhs) == 1 {
				if id, ok := s.Lhs[0].(*ast.Ident); ok {
					if call, ok := s.Rhs[0].(*ast.CallExpr); ok {
						if fn, ok := call.Fun.(*ast.Ident); ok && fn.Name == "make" && len(call.Args) > 0 {
							made[id.Name] = call.Args[0]
						}
					}
					if cl, ok := s.Rhs[0].(*ast.CompositeLit); ok {
						made[id.Name] = cl.Type
					}
				}
			}
		case *ast.ReturnStmt:
			if len(s.Results) != 1 {
				return true
			}
			switch r := s.Results[0].(type) {
			case *ast.UnaryExpr:
				if r.Op != token.AND {
					return true
				}
				switch x := r.X.(type) {
				case *ast.CompositeLit:
					res, local = typeText(x.Type)
				case *ast.Ident:
					if t, ok := made[x.Name]; ok {
						res, local = typeText(t)
					}
				}
			case *ast.CallExpr:
				if fn, ok := r.Fun.(*ast.Ident); ok && fn.Name == "new" && len(r.Args) == 1 {
					res, local = typeText(r.Args[0])
				}
			}
		}
		return true
	})
	return res, local
}

// poolCalls lists the pool variables on which the body calls .Get() / .Put().
func poolCalls(body *ast.BlockStmt, method string, pools map[string]*poolInfo) []string {
	var out []string
	ast.Inspect(body, func(n ast.Node) bool {
		if call, ok := n.(*ast.CallExpr); ok {
			if sel, ok := call.Fun.(*ast.SelectorExpr); ok && sel.Sel.Name == method {
				if id, ok := sel.X.(*ast.Ident); ok && pools[id.Name] != nil {
					out = append(out, id.Name)
				}
			}
		}
		return true
	})
	return out
}

// typeSwitchArms returns, for every `case *T` arm of the type switches in body, T and the arm's body.
func typeSwitchArms(body *ast.BlockStmt) map[string]*ast.BlockStmt {
	out := map[string]*ast.BlockStmt{}
	ast.Inspect(body, func(n ast.Node) bool {
		ts, ok := n.(*ast.TypeSwitchStmt)
		if !ok {
			return true
		}
		for _, st := range ts.Body.List {
			cc := st.(*ast.CaseClause)
			for _, e := range cc.List {
				if s, ok := e.(*ast.StarExpr); ok {
					if name, _ := typeText(s.X); name != "" {
						out[name] = &ast.BlockStmt{List: cc.Body}
					}
				}
			}
		}
		return true
	})
	return out
}

func loadRegistry() (*registry, error) {
	dir := astDir()
	ov := overlayMap()
	ents, err := os.ReadDir(dir)
	if err != nil {
		return nil, fmt.Errorf("cannot read %s: %v", dir, err)
	}
	reg := &registry{Dir: dir}
	fset := token.NewFileSet()
	var files []*ast.File
	for _, e := range ents {
		n := e.Name()
		if !strings.HasSuffix(n, ".go") || strings.HasSuffix(n, "_test.go") {
			continue
		}
		p := filepath.Join(dir, n)
		src := p
		if r, ok := ov[p]; ok {
			src = r
		}
		f, err := parser.ParseFile(fset, src, nil, 0)
		if err != nil {
			return nil, fmt.Errorf("cannot parse %s: %v", src, err)
		}
		reg.Files = append(reg.Files, src)
		files = append(files, f)
	}
	pools := map[string]*poolInfo{}
	// pass 1: pool variables
	for _, f := range files {
		for _, d := range f.Decls {
			gd, ok := d.(*ast.GenDecl)
			if !ok || gd.Tok != token.VAR {
				continue
			}
			for _, sp := range gd.Specs {
				vs := sp.(*ast.ValueSpec)
				for i, name := range vs.Names {
					if i >= len(vs.Values) {
						continue
					}
					var cl *ast.CompositeLit
					switch v := vs.Values[i].(type) {
					case *ast.CompositeLit:
						cl = v
					case *ast.UnaryExpr:
						cl, _ = v.X.(*ast.CompositeLit)
					}
					if cl == nil {
						continue
					}
					if tt, _ := typeText(cl.Type); tt != "sync.Pool" {
						continue
					}
					pi := &poolInfo{Var: name.Name}
					for _, el := range cl.Elts {
						kv, ok := el.(*ast.KeyValueExpr)
						if !ok {
							continue
						}
						if k, ok := kv.Key.(*ast.Ident); ok && k.Name == "New" {
							if fl, ok := kv.Value.(*ast.FuncLit); ok {
								pi.Elem, pi.Local = newResultType(fl)
							}
						}
					}
					pools[pi.Var] = pi
				}
			}
		}
	}
	// pass 2: functions
	for _, f := range files {
		for _, d := range f.Decls {
			fd, ok := d.(*ast.FuncDecl)
			if !ok || fd.Recv != nil || fd.Body == nil || !fd.Name.IsExported() {
				continue
			}
			name := fd.Name.Name
			nparams := 0
			for _, p := range fd.Type.Params.List {
				if len(p.Names) == 0 {
					nparams++
				}
				nparams += len(p.Names)
			}
			if name == "PutExpression" {
				arms := typeSwitchArms(fd.Body)
				for t, body := range arms {
					reg.PutExprCases = append(reg.PutExprCases, t)
					for _, pv := range poolCalls(body, "Put", pools) {
						if pools[pv].Elem == t {
							pools[pv].InPutExpr = true
						}
					}
				}
				sort.Strings(reg.PutExprCases)
				continue
			}
			if name == "ReleaseAST" || name == "ReleaseStatements" {
				for t := range typeSwitchArms(fd.Body) {
					for _, pi := range pools {
						if pi.Elem == t {
							pi.InRelease = append(pi.InRelease, name)
						}
					}
				}
			}
			if nparams == 0 {
				for _, pv := range poolCalls(fd.Body, "Get", pools) {
					pools[pv].Gets = append(pools[pv].Gets, name)
				}
			}
			if nparams == 1 {
				for _, pv := range poolCalls(fd.Body, "Put", pools) {
					pools[pv].Puts = append(pools[pv].Puts, name)
				}
			}
		}
	}
	for _, pi := range pools {
		if pi.Elem == "" {
			reg.Problems = append(reg.Problems, "element type of pool "+pi.Var+" not understood")
			pi.Elem = "?" + pi.Var
			pi.Local = true
		}
		sort.Strings(pi.Gets)
		sort.Strings(pi.Puts)
		sort.Strings(pi.InRelease)
		reg.Pools = append(reg.Pools, pi)
	}
	sort.Slice(reg.Pools, func(a, b int) bool {
		if reg.Pools[a].Elem != reg.Pools[b].Elem {
			return reg.Pools[a].Elem < reg.Pools[b].Elem
		}
		return reg.Pools[a].Var < reg.Pools[b].Var
	})
	return reg, nil
}

// ---------------------------------------------------------------- hand-written name tables

// getters: exported functions that take an object out of a pool.
var getters = map[string]func() any{
	"NewAST":                      func() any { return sqlast.NewAST() },
	"GetSelectStatement":          func() any { return sqlast.GetSelectStatement() },
	"GetInsertStatement":          func() any { return sqlast.GetInsertStatement() },
	"GetUpdateStatement":          func() any { return sqlast.GetUpdateStatement() },
	"GetDeleteStatement":          func() any { return sqlast.GetDeleteStatement() },
	"GetUpdateExpression":         func() any { return sqlast.GetUpdateExpression() },
	"GetIdentifier":               func() any { return sqlast.GetIdentifier() },
	"GetBinaryExpression":         func() any { return sqlast.GetBinaryExpression() },
	"GetExpressionSlice":          func() any { return sqlast.GetExpressionSlice() },
	"GetLiteralValue":             func() any { return sqlast.GetLiteralValue() },
	"GetFunctionCall":             func() any { return sqlast.GetFunctionCall() },
	"GetCaseExpression":           func() any { return sqlast.GetCaseExpression() },
	"GetBetweenExpression":        func() any { return sqlast.GetBetweenExpression() },
	"GetInExpression":             func() any { return sqlast.GetInExpression() },
	"GetTupleExpression":          func() any { return sqlast.GetTupleExpression() },
	"GetArrayConstructor":         func() any { return sqlast.GetArrayConstructor() },
	"GetSubqueryExpression":       func() any { return sqlast.GetSubqueryExpression() },
	"GetCastExpression":           func() any { return sqlast.GetCastExpression() },
	"GetIntervalExpression":       func() any { return sqlast.GetIntervalExpression() },
	"GetAliasedExpression":        func() any { return sqlast.GetAliasedExpression() },
	"GetArraySubscriptExpression": func() any { return sqlast.GetArraySubscriptExpression() },
	"GetArraySliceExpression":     func() any { return sqlast.GetArraySliceExpression() },
}

// putters: exported functions that return one object to a pool.
var putters = map[string]func(any){
	"ReleaseAST":                  func(x any) { sqlast.ReleaseAST(x.(*sqlast.AST)) },
	"PutSelectStatement":          func(x any) { sqlast.PutSelectStatement(x.(*sqlast.SelectStatement)) },
	"PutInsertStatement":          func(x any) { sqlast.PutInsertStatement(x.(*sqlast.InsertStatement)) },
	"PutUpdateStatement":          func(x any) { sqlast.PutUpdateStatement(x.(*sqlast.UpdateStatement)) },
	"PutDeleteStatement":          func(x any) { sqlast.PutDeleteStatement(x.(*sqlast.DeleteStatement)) },
	"PutUpdateExpression":         func(x any) { sqlast.PutUpdateExpression(x.(*sqlast.UpdateExpression)) },
	"PutIdentifier":               func(x any) { sqlast.PutIdentifier(x.(*sqlast.Identifier)) },
	"PutBinaryExpression":         func(x any) { sqlast.PutBinaryExpression(x.(*sqlast.BinaryExpression)) },
	"PutExpressionSlice":          func(x any) { sqlast.PutExpressionSlice(x.(*[]sqlast.Expression)) },
	"PutLiteralValue":             func(x any) { sqlast.PutLiteralValue(x.(*sqlast.LiteralValue)) },
	"PutFunctionCall":             func(x any) { sqlast.PutFunctionCall(x.(*sqlast.FunctionCall)) },
	"PutCaseExpression":           func(x any) { sqlast.PutCaseExpression(x.(*sqlast.CaseExpression)) },
	"PutBetweenExpression":        func(x any) { sqlast.PutBetweenExpression(x.(*sqlast.BetweenExpression)) },
	"PutInExpression":             func(x any) { sqlast.PutInExpression(x.(*sqlast.InExpression)) },
	"PutTupleExpression":          func(x any) { sqlast.PutTupleExpression(x.(*sqlast.TupleExpression)) },
	"PutArrayConstructor":         func(x any) { sqlast.PutArrayConstructor(x.(*sqlast.ArrayConstructorExpression)) },
	"PutSubqueryExpression":       func(x any) { sqlast.PutSubqueryExpression(x.(*sqlast.SubqueryExpression)) },
	"PutCastExpression":           func(x any) { sqlast.PutCastExpression(x.(*sqlast.CastExpression)) },
	"PutIntervalExpression":       func(x any) { sqlast.PutIntervalExpression(x.(*sqlast.IntervalExpression)) },
	"PutAliasedExpression":        func(x any) { sqlast.PutAliasedExpression(x.(*sqlast.AliasedExpression)) },
	"PutArraySubscriptExpression": func(x any) { sqlast.PutArraySubscriptExpression(x.(*sqlast.ArraySubscriptExpression)) },
	"PutArraySliceExpression":     func(x any) { sqlast.PutArraySliceExpression(x.(*sqlast.ArraySliceExpression)) },
}

// knownValues: one value of every node type of package ast this harness can name; the
// name -> reflect.Type table is built from it by reflection (together with the results of the getters).
var knownValues = []any{
	&sqlast.AST{}, &sqlast.SelectStatement{}, &sqlast.InsertStatement{}, &sqlast.UpdateStatement{}, &sqlast.DeleteStatement{},
	&sqlast.Identifier{}, &sqlast.BinaryExpression{}, &sqlast.LiteralValue{}, &sqlast.UpdateExpression{}, &sqlast.FunctionCall{},
	&sqlast.CaseExpression{}, &sqlast.BetweenExpression{}, &sqlast.InExpression{}, &sqlast.TupleExpression{},
	&sqlast.ArrayConstructorExpression{}, &sqlast.SubqueryExpression{}, &sqlast.CastExpression{}, &sqlast.IntervalExpression{},
	&sqlast.ArraySubscriptExpression{}, &sqlast.ArraySliceExpression{}, &sqlast.ExistsExpression{}, &sqlast.AnyExpression{},
	&sqlast.AllExpression{}, &sqlast.ListExpression{}, &sqlast.UnaryExpression{}, &sqlast.ExtractExpression{},
	&sqlast.PositionExpression{}, &sqlast.SubstringExpression{}, &sqlast.AliasedExpression{}, &[]sqlast.Expression{},
	&sqlast.SetOperation{}, &sqlast.WithClause{}, &sqlast.CommonTableExpr{}, &sqlast.TableReference{}, &sqlast.JoinClause{},
	&sqlast.WindowSpec{}, &sqlast.WindowFrame{}, &sqlast.OrderByExpression{}, &sqlast.WhenClause{}, &sqlast.FetchClause{},
	&sqlast.ForClause{}, &sqlast.OnConflict{}, &sqlast.UpsertClause{}, &sqlast.MergeStatement{}, &sqlast.CreateTableStatement{},
	&sqlast.CreateIndexStatement{}, &sqlast.CreateViewStatement{}, &sqlast.AlterTableStatement{}, &sqlast.DropStatement{},
	&sqlast.TruncateStatement{},
}

func elemName(t reflect.Type) string {
	if t.Kind() == reflect.Slice {
		return "[]" + elemName(t.Elem())
	}
	return t.Name()
}

// typeTable maps the element-type text used in the source ("SelectStatement", "[]Expression") to reflect.Types.
func typeTable() map[string]reflect.Type {
	m := map[string]reflect.Type{}
	for _, v := range knownValues {
		t := reflect.TypeOf(v).Elem()
		m[elemName(t)] = t
	}
	return m
}
