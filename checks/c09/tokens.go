package c09

// Token lists handed back to the library.  A caller that holds a token list (from the tokenizer,
// from ParseBytesWithTokens, or built by itself) and passes a part of it to a parsing entry point
// still owns the whole list: every element of the backing array - the part passed, what precedes
// it, what follows it up to the capacity - must be the same afterwards.  Exhaustive over every
// contiguous sub-slice [i:j] of a fixed script's list x every token-consuming entry point x the
// two ways a sub-slice can be cut (capacity reaching to the end of the list, capacity == length).

import (
	"context"
	"fmt"
	"reflect"

	"github.com/ajitpratap0/GoSQLX/pkg/models"
	"github.com/ajitpratap0/GoSQLX/pkg/sql/parser"
	"github.com/ajitpratap0/GoSQLX/pkg/sql/token"
	"github.com/ajitpratap0/GoSQLX/pkg/sql/tokenizer"

	"verif/engine/common"
)

// statements that succeed, fail in the middle, fail at the end, and an unfinished one: every cut
// lands in every kind of parser state
const handBackScript = "SELECT a, f(b) FROM t WHERE c = 1; UPDATE t SET a = 2 WHERE; DELETE FROM t WHERE c IN (1, 2); SELECT (a"

type parserTokAPI struct {
	name string
	run  func(seg []token.Token)
}

type modelTokAPI struct {
	name string
	run  func(seg []models.TokenWithSpan)
}

func parserTokAPIs() []parserTokAPI {
	return []parserTokAPI{
		{"Parser.Parse", func(seg []token.Token) {
			p := parser.NewParser()
			_, _ = p.Parse(seg)
		}},
		{"Parser.ParseContext", func(seg []token.Token) {
			p := parser.NewParser()
			_, _ = p.ParseContext(context.Background(), seg)
		}},
		{"Parser.ParseWithPositions", func(seg []token.Token) {
			p := parser.NewParser()
			_, _ = p.ParseWithPositions(&parser.ConversionResult{Tokens: seg})
		}},
		{"Parser.ParseWithRecovery", func(seg []token.Token) {
			p := parser.NewParser()
			_, _ = p.ParseWithRecovery(seg)
		}},
		{"ParseMultiWithRecovery", func(seg []token.Token) {
			r := parser.ParseMultiWithRecovery(seg)
			if r != nil {
				r.Release()
			}
		}},
		{"Parser.Parse+Release", func(seg []token.Token) {
			p := parser.GetParser()
			_, _ = p.Parse(seg)
			p.Release()
			parser.PutParser(p)
		}},
		{"Parser.Parse(strict,mysql)", func(seg []token.Token) {
			p := parser.NewParser(parser.WithStrictMode(), parser.WithDialect("mysql"))
			_, _ = p.Parse(seg)
		}},
	}
}

func modelTokAPIs() []modelTokAPI {
	return []modelTokAPI{
		{"Parser.ParseFromModelTokens", func(seg []models.TokenWithSpan) {
			p := parser.NewParser()
			_, _ = p.ParseFromModelTokens(seg)
		}},
		{"Parser.ParseFromModelTokensWithPositions", func(seg []models.TokenWithSpan) {
			p := parser.NewParser()
			_, _ = p.ParseFromModelTokensWithPositions(seg)
		}},
		{"Parser.ParseContextFromModelTokens", func(seg []models.TokenWithSpan) {
			p := parser.NewParser()
			_, _ = p.ParseContextFromModelTokens(context.Background(), seg)
		}},
		{"Parser.ParseWithRecoveryFromModelTokens", func(seg []models.TokenWithSpan) {
			p := parser.NewParser()
			_, _ = p.ParseWithRecoveryFromModelTokens(seg)
		}},
	}
}

func handBackModelTokens() []models.TokenWithSpan {
	tkz := tokenizer.GetTokenizer()
	mtoks, _ := tkz.Tokenize([]byte(handBackScript))
	mtoks = append([]models.TokenWithSpan(nil), mtoks...)
	tokenizer.PutTokenizer(tkz)
	return mtoks
}

// parserTokensOf converts through the exported route that yields parser tokens for any text.
func parserTokensOf(sql string) []token.Token {
	var out []token.Token
	for _, part := range splitStatements(sql) {
		_, toks, _ := parser.ParseBytesWithTokens([]byte(part))
		for _, t := range toks {
			if t.Type == models.TokenTypeEOF {
				continue
			}
			out = append(out, t)
		}
	}
	return append(out, token.Token{Type: models.TokenTypeEOF})
}

func splitStatements(sql string) []string {
	var out []string
	cur := ""
	for _, r := range sql {
		cur += string(r)
		if r == ';' {
			out = append(out, cur)
			cur = ""
		}
	}
	if cur != "" {
		out = append(out, cur)
	}
	return out
}

func enumerateTokenHandBack(e *common.Enum) {
	ptoks := parserTokensOf(handBackScript)
	mtoks := handBackModelTokens()
	np, nm := len(ptoks), len(mtoks)
	if np < 10 || nm < 10 {
		e.Cap(fmt.Sprintf("token hand-back: the script gives only %d parser / %d tokenizer tokens", np, nm))
		return
	}
	for _, api := range parserTokAPIs() {
		for i := 0; i < np; i++ {
			for j := i + 1; j <= np; j++ {
				for _, tight := range []bool{false, true} {
					i, j, tight, api := i, j, tight, api
					key := fmt.Sprintf("handback|P|%s|%d:%d|tight=%v", api.name, i, j, tight)
					e.Do(key, func(c *common.Ctx) {
						// the list is built anew for every case: spare capacity beyond the list as well
						full := make([]token.Token, np, np+4)
						copy(full, parserTokensOf(handBackScript))
						spare := full[:cap(full)]
						before := append([]token.Token(nil), spare...)
						seg := full[i:j]
						if tight {
							seg = full[i:j:j]
						}
						c.Input(fmt.Sprintf("%s(list[%d:%d] of the %d tokens of %q, cap %d)", api.name, i, j, np, handBackScript, cap(seg)))
						api.run(seg)
						c.Count("transitions", 1)
						if k := firstTokDiff(before, spare); k >= 0 {
							where := "inside the slice passed"
							if k < i {
								where = "before the slice passed"
							} else if k >= j {
								where = fmt.Sprintf("%d element(s) after the slice passed", k-j+1)
							}
							c.Fail("caller-tokens-modified:"+api.name,
								fmt.Sprintf("%s changed element %d of the caller's token list (%s): %+v -> %+v", api.name, k, where, before[k], spare[k]))
							c.Outcome("handback:modified")
							return
						}
						c.Outcome("handback:untouched")
						if j < np && !tight {
							c.NonTrivial()
						}
					})
				}
			}
		}
	}
	for _, api := range modelTokAPIs() {
		for i := 0; i < nm; i++ {
			for j := i + 1; j <= nm; j++ {
				for _, tight := range []bool{false, true} {
					i, j, tight, api := i, j, tight, api
					key := fmt.Sprintf("handback|M|%s|%d:%d|tight=%v", api.name, i, j, tight)
					e.Do(key, func(c *common.Ctx) {
						fresh := handBackModelTokens()
						full := make([]models.TokenWithSpan, nm, nm+4)
						copy(full, fresh)
						spare := full[:cap(full)]
						before := append([]models.TokenWithSpan(nil), spare...)
						seg := full[i:j]
						if tight {
							seg = full[i:j:j]
						}
						c.Input(fmt.Sprintf("%s(list[%d:%d] of the %d tokens of %q, cap %d)", api.name, i, j, nm, handBackScript, cap(seg)))
						api.run(seg)
						c.Count("transitions", 1)
						for k := range before {
							if !reflect.DeepEqual(before[k], spare[k]) {
								c.Fail("caller-tokens-modified:"+api.name,
									fmt.Sprintf("%s changed element %d of the caller's token list (slice passed: [%d:%d]): %+v -> %+v", api.name, k, i, j, before[k], spare[k]))
								c.Outcome("handback:modified")
								return
							}
						}
						c.Outcome("handback:untouched")
						if j < nm && !tight {
							c.NonTrivial()
						}
					})
				}
			}
		}
	}
}

func firstTokDiff(a, b []token.Token) int {
	for k := range a {
		if !reflect.DeepEqual(a[k], b[k]) {
			return k
		}
	}
	return -1
}
