package c09

import (
	"os"
	"runtime/pprof"
	"testing"

	"verif/engine/common"
)

func TestProfile(t *testing.T) {
	f, _ := os.Create("/verif/.work/c09.prof")
	pprof.StartCPUProfile(f)
	defer pprof.StopCPUProfile()
	common.Main(Check(), []string{"quick", "--worker", "0/64"})
}
