package c09

import (
	"fmt"
	"reflect"
	"strconv"

	sqlast "github.com/ajitpratap0/GoSQLX/pkg/sql/ast"

	"verif/engine/common"
)

// Big-tree release family.
//
// PutExpression releases a tree with a work queue and gives up after ast.MaxWorkQueueSize nodes; the
// clean / history / release-audit families only release trees far below that limit, so every arm of the
// release loop is only ever seen with an almost empty queue and an unspent budget.  This family releases
// ONE tree per case whose size straddles the loop's limits and then audits every pool with the same
// oracle as the histories (histState.audit: nothing comes out twice, everything that comes out is
// indistinguishable from a newly constructed object, no two pooled things share memory).  What the loop
// does not get to may be left to the collector; what it does put into a pool must be clean.
//
// The space is the full product
//
//	shape      wide (one container node with W children), deep (D nested wrappers around one leaf),
//	           wide-of-deep (one container with W children that are each d wrappers deep)
//	container  FunctionCall.Arguments, InExpression.List, ListExpression.Values, TupleExpression.Expressions,
//	           ArrayConstructorExpression.Elements, CaseExpression.WhenClauses, ArraySubscriptExpression.Indices
//	kind       what the children / wrappers are: identifier, literal, binary, call, case, cast, between, unary,
//	           in-list, subquery, list, tuple, extract
//	size       W and D around ast.MaxCleanupDepth and ast.MaxWorkQueueSize (limit-1, limit, limit+1; thorough
//	           adds limit/2 and 2*limit); (W, d) pairs whose product straddles MaxWorkQueueSize
//	path       ast.PutExpression(root), ast.ReleaseAST of a tree with the root as select-list item
//
// Every node is a new allocation filled with non-zero content in every field the release loop is
// responsible for, so whatever sits in a pool afterwards was put there by the one release call.

type bigBuilder struct {
	counts map[reflect.Type]int
	seq    int
	total  int
}

func (b *bigBuilder) n(x sqlast.Expression) sqlast.Expression {
	b.counts[reflect.TypeOf(x).Elem()]++
	b.total++
	return x
}

func (b *bigBuilder) id() sqlast.Expression {
	b.seq++
	return b.n(&sqlast.Identifier{Name: "c" + strconv.Itoa(b.seq), Table: "t"})
}

func (b *bigBuilder) lit() sqlast.Expression {
	b.seq++
	return b.n(&sqlast.LiteralValue{Value: int64(b.seq), Type: "INTEGER"})
}

// bigKind is one kind of expression: as a leaf (a small complete expression of that kind) and, where the
// release loop walks into it, as a wrapper around a given child.
type bigKind struct {
	Name string
	Leaf func(b *bigBuilder) sqlast.Expression
	Wrap func(b *bigBuilder, child sqlast.Expression) sqlast.Expression // nil: the kind has no walked child
}

func bigKinds() []bigKind {
	return []bigKind{
		{"identifier", func(b *bigBuilder) sqlast.Expression { return b.id() }, nil},
		{"literal", func(b *bigBuilder) sqlast.Expression { return b.lit() }, nil},
		{"binary",
			func(b *bigBuilder) sqlast.Expression {
				return b.n(&sqlast.BinaryExpression{Left: b.id(), Operator: "+", Right: b.id(), Not: true})
			},
			func(b *bigBuilder, ch sqlast.Expression) sqlast.Expression {
				return b.n(&sqlast.BinaryExpression{Left: ch, Operator: "AND", Right: b.id(), Not: true})
			}},
		{"binary-right",
			func(b *bigBuilder) sqlast.Expression {
				return b.n(&sqlast.BinaryExpression{Left: b.lit(), Operator: "*", Right: b.id()})
			},
			func(b *bigBuilder, ch sqlast.Expression) sqlast.Expression {
				return b.n(&sqlast.BinaryExpression{Left: b.id(), Operator: "OR", Right: ch})
			}},
		{"call",
			func(b *bigBuilder) sqlast.Expression {
				return b.n(&sqlast.FunctionCall{Name: "f", Arguments: []sqlast.Expression{b.id()}, Distinct: true})
			},
			func(b *bigBuilder, ch sqlast.Expression) sqlast.Expression {
				return b.n(&sqlast.FunctionCall{Name: "g", Arguments: []sqlast.Expression{ch, b.lit()}, Distinct: true})
			}},
		{"case",
			func(b *bigBuilder) sqlast.Expression {
				return b.n(&sqlast.CaseExpression{WhenClauses: []sqlast.WhenClause{{Condition: b.id(), Result: b.lit()}}, ElseClause: b.lit()})
			},
			func(b *bigBuilder, ch sqlast.Expression) sqlast.Expression {
				return b.n(&sqlast.CaseExpression{Value: b.id(), WhenClauses: []sqlast.WhenClause{{Condition: b.lit(), Result: ch}}, ElseClause: b.lit()})
			}},
		{"cast",
			func(b *bigBuilder) sqlast.Expression {
				return b.n(&sqlast.CastExpression{Expr: b.id(), Type: "INT"})
			},
			func(b *bigBuilder, ch sqlast.Expression) sqlast.Expression {
				return b.n(&sqlast.CastExpression{Expr: ch, Type: "TEXT"})
			}},
		{"between",
			func(b *bigBuilder) sqlast.Expression {
				return b.n(&sqlast.BetweenExpression{Expr: b.id(), Lower: b.lit(), Upper: b.lit(), Not: true})
			},
			func(b *bigBuilder, ch sqlast.Expression) sqlast.Expression {
				return b.n(&sqlast.BetweenExpression{Expr: ch, Lower: b.lit(), Upper: b.lit(), Not: true})
			}},
		{"unary",
			func(b *bigBuilder) sqlast.Expression {
				return b.n(&sqlast.UnaryExpression{Operator: sqlast.Minus, Expr: b.id()})
			},
			func(b *bigBuilder, ch sqlast.Expression) sqlast.Expression {
				return b.n(&sqlast.UnaryExpression{Operator: sqlast.Not, Expr: ch})
			}},
		{"in-list",
			func(b *bigBuilder) sqlast.Expression {
				return b.n(&sqlast.InExpression{Expr: b.id(), List: []sqlast.Expression{b.lit(), b.lit()}, Not: true})
			},
			func(b *bigBuilder, ch sqlast.Expression) sqlast.Expression {
				return b.n(&sqlast.InExpression{Expr: ch, List: []sqlast.Expression{b.lit()}, Not: true})
			}},
		{"subquery",
			func(b *bigBuilder) sqlast.Expression {
				return b.n(&sqlast.SubqueryExpression{Subquery: &sqlast.SelectStatement{Columns: []sqlast.Expression{&sqlast.Identifier{Name: "s"}}, TableName: "u"}})
			}, nil},
		{"list",
			func(b *bigBuilder) sqlast.Expression {
				return b.n(&sqlast.ListExpression{Values: []sqlast.Expression{b.id(), b.lit()}})
			},
			func(b *bigBuilder, ch sqlast.Expression) sqlast.Expression {
				return b.n(&sqlast.ListExpression{Values: []sqlast.Expression{b.lit(), ch}})
			}},
		{"tuple",
			func(b *bigBuilder) sqlast.Expression {
				return b.n(&sqlast.TupleExpression{Expressions: []sqlast.Expression{b.id(), b.id()}})
			},
			func(b *bigBuilder, ch sqlast.Expression) sqlast.Expression {
				return b.n(&sqlast.TupleExpression{Expressions: []sqlast.Expression{ch, b.id()}})
			}},
		{"extract",
			func(b *bigBuilder) sqlast.Expression {
				return b.n(&sqlast.ExtractExpression{Field: "YEAR", Source: b.id()})
			},
			func(b *bigBuilder, ch sqlast.Expression) sqlast.Expression {
				return b.n(&sqlast.ExtractExpression{Field: "DAY", Source: ch})
			}},
	}
}

// bigContainer is one node type with an unbounded child list.
type bigContainer struct {
	Name string
	Make func(b *bigBuilder, children []sqlast.Expression) sqlast.Expression
}

func bigContainers() []bigContainer {
	return []bigContainer{
		{"call", func(b *bigBuilder, ch []sqlast.Expression) sqlast.Expression {
			return b.n(&sqlast.FunctionCall{Name: "COALESCE", Arguments: ch})
		}},
		{"in", func(b *bigBuilder, ch []sqlast.Expression) sqlast.Expression {
			return b.n(&sqlast.InExpression{Expr: b.id(), List: ch})
		}},
		{"list", func(b *bigBuilder, ch []sqlast.Expression) sqlast.Expression {
			return b.n(&sqlast.ListExpression{Values: ch})
		}},
		{"tuple", func(b *bigBuilder, ch []sqlast.Expression) sqlast.Expression {
			return b.n(&sqlast.TupleExpression{Expressions: ch})
		}},
		{"array", func(b *bigBuilder, ch []sqlast.Expression) sqlast.Expression {
			return b.n(&sqlast.ArrayConstructorExpression{Elements: ch})
		}},
		{"case-whens", func(b *bigBuilder, ch []sqlast.Expression) sqlast.Expression {
			// children alternate between the condition and the result position
			ws := make([]sqlast.WhenClause, 0, len(ch))
			for i, x := range ch {
				if i%2 == 0 {
					ws = append(ws, sqlast.WhenClause{Condition: x, Result: b.lit()})
				} else {
					ws = append(ws, sqlast.WhenClause{Condition: b.id(), Result: x})
				}
			}
			return b.n(&sqlast.CaseExpression{WhenClauses: ws, ElseClause: b.lit()})
		}},
		{"subscript", func(b *bigBuilder, ch []sqlast.Expression) sqlast.Expression {
			return b.n(&sqlast.ArraySubscriptExpression{Array: b.id(), Indices: ch})
		}},
	}
}

func bigDeep(b *bigBuilder, k bigKind, depth int) sqlast.Expression {
	x := k.Leaf(b)
	for i := 0; i < depth; i++ {
		x = k.Wrap(b, x)
	}
	return x
}

type bigPath struct {
	Name    string
	Release func(root sqlast.Expression)
}

func bigPaths() []bigPath {
	return []bigPath{
		{"PutExpression", func(root sqlast.Expression) { sqlast.PutExpression(root) }},
		{"ReleaseAST", func(root sqlast.Expression) {
			sqlast.ReleaseAST(&sqlast.AST{Statements: []sqlast.Statement{&sqlast.SelectStatement{Columns: []sqlast.Expression{root}, TableName: "t"}}})
		}},
	}
}

// bigSizes: the neighbourhood of both limits of the release code.
func bigSizes(thorough bool) []int {
	q, d := sqlast.MaxWorkQueueSize, sqlast.MaxCleanupDepth
	if thorough {
		return uniqInts([]int{d - 1, d, d + 1, 2 * d, q / 2, q - 1, q, q + 1, 2 * q})
	}
	return uniqInts([]int{d, q - 1, q, q + 1})
}

// bigPairs: (width, depth) pairs whose product lies below, at and above the work queue limit.
func bigPairs(thorough bool) [][2]int {
	q, d := sqlast.MaxWorkQueueSize, sqlast.MaxCleanupDepth
	ps := [][2]int{{d, q/d - 1}, {d, q / d}, {q / d, d}, {q / 2, 3}}
	if thorough {
		ps = append(ps, [2]int{d + 1, q/d + 1}, [2]int{q/d + 1, d + 1}, [2]int{q, 2}, [2]int{q + 1, 1}, [2]int{2, q}, [2]int{32, 32})
	}
	return ps
}

func uniqInts(in []int) []int {
	seen := map[int]bool{}
	var out []int
	for _, x := range in {
		if x > 0 && !seen[x] {
			seen[x] = true
			out = append(out, x)
		}
	}
	return out
}

func enumerateBigTrees(e *common.Enum, targets []*cleanTarget, pooled map[reflect.Type]bool) {
	kinds, conts, paths := bigKinds(), bigContainers(), bigPaths()
	run := func(key, desc string, path bigPath, build func(b *bigBuilder) sqlast.Expression) {
		e.Do(key+"|"+path.Name, func(c *common.Ctx) {
			clearPools()
			b := &bigBuilder{counts: map[reflect.Type]int{}}
			root := build(b)
			c.Input(fmt.Sprintf("%s (%d pooled-type nodes under one root), released through one %s call, then every pool drained", desc, b.total, path.Name))
			bound := map[reflect.Type]int{}
			for t, n := range b.counts {
				if pooled[t] {
					bound[t] = n
				}
			}
			for _, tg := range targets {
				if tg.Pool.Elem == "AST" || tg.Pool.Elem == "SelectStatement" {
					bound[tg.Type] += 2
				}
			}
			path.Release(root)
			h := &histState{c: c, pooled: pooled, released: map[uintptr]bool{}}
			h.audit(targets, bound)
			c.Count("transitions", 2)
			c.State(common.Hash64(key + "|" + path.Name))
			class := "within-budget"
			if b.total >= sqlast.MaxWorkQueueSize {
				class = "over-budget"
			}
			if c.Failed() {
				c.Outcome("bigtree:" + class + ":violated")
			} else {
				c.Outcome("bigtree:" + class + ":ok")
			}
			c.NonTrivial()
		})
	}
	for _, path := range paths {
		path := path
		for _, k := range kinds {
			k := k
			// wide
			for _, ct := range conts {
				ct := ct
				for _, w := range bigSizes(e.Thorough()) {
					w := w
					run(fmt.Sprintf("bigtree|wide|%s|%s|%d", ct.Name, k.Name, w),
						fmt.Sprintf("a %s node with %d children of kind %s", ct.Name, w, k.Name), path,
						func(b *bigBuilder) sqlast.Expression {
							ch := make([]sqlast.Expression, w)
							for i := range ch {
								ch[i] = k.Leaf(b)
							}
							return ct.Make(b, ch)
						})
				}
			}
			if k.Wrap == nil {
				continue
			}
			// deep
			for _, d := range bigSizes(e.Thorough()) {
				d := d
				run(fmt.Sprintf("bigtree|deep|%s|%d", k.Name, d),
					fmt.Sprintf("%d nested %s nodes around one %s leaf", d, k.Name, k.Name), path,
					func(b *bigBuilder) sqlast.Expression { return bigDeep(b, k, d) })
			}
			// wide of deep
			for _, ct := range conts {
				ct := ct
				for _, p := range bigPairs(e.Thorough()) {
					p := p
					run(fmt.Sprintf("bigtree|wide-of-deep|%s|%s|%dx%d", ct.Name, k.Name, p[0], p[1]),
						fmt.Sprintf("a %s node with %d children that are each %d nested %s nodes", ct.Name, p[0], p[1], k.Name), path,
						func(b *bigBuilder) sqlast.Expression {
							ch := make([]sqlast.Expression, p[0])
							for i := range ch {
								ch[i] = bigDeep(b, k, p[1])
							}
							return ct.Make(b, ch)
						})
				}
			}
		}
	}
}
