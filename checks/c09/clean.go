package c09

import (
	"fmt"
	"reflect"
	"runtime"
	"sort"
	"strings"

	sqlast "github.com/ajitpratap0/GoSQLX/pkg/sql/ast"

	"verif/engine/common"
)

// releasePath is one way an object of a pooled type can reach its pool.
type releasePath struct {
	Name    string
	Release func(obj any)
}

// cleanTarget is one pooled type with everything needed to exercise it.
type cleanTarget struct {
	Pool   *poolInfo
	Type   reflect.Type // element type (struct or slice); the pool holds *Type
	Get    func() any   // nil: no exported function takes objects out of this pool
	GetBy  string
	Paths  []releasePath
	Fields []string // struct field names, or "*" for a pooled container
}

// clearPools empties every sync.Pool of the process: the first collection moves the primary
// caches to the victim caches, the second drops the victims.  The automatic collector is off
// (debug.SetGCPercent(-1)), so between two calls of clearPools a pool never loses an object.
func clearPools() {
	runtime.GC()
	runtime.GC()
}

// buildTargets turns the registry into executable targets; names the tables do not know are
// returned as unmapped.
func buildTargets(reg *registry) (targets []*cleanTarget, unmapped []string) {
	types := typeTable()
	seenUn := map[string]bool{}
	un := func(s string) {
		if !seenUn[s] {
			seenUn[s] = true
			unmapped = append(unmapped, s)
		}
	}
	hasSelectRelease := false
	for _, pi := range reg.Pools {
		if pi.Elem == "SelectStatement" {
			for _, r := range pi.InRelease {
				if r == "ReleaseAST" {
					hasSelectRelease = true
				}
			}
		}
	}
	for _, pi := range reg.Pools {
		if !pi.Local {
			continue // e.g. builderPool of *strings.Builder: not a node pool
		}
		t, ok := types[pi.Elem]
		if !ok {
			un(strings.TrimPrefix(pi.Elem, "?"))
			continue
		}
		tg := &cleanTarget{Pool: pi, Type: t}
		for _, g := range pi.Gets {
			fn, ok := getters[g]
			if !ok {
				un(pi.Elem)
				continue
			}
			if tg.Get == nil {
				tg.Get, tg.GetBy = fn, g
			}
		}
		for _, p := range pi.Puts {
			fn, ok := putters[p]
			if !ok {
				un(pi.Elem)
				continue
			}
			tg.Paths = append(tg.Paths, releasePath{p, fn})
		}
		isExpr := reflect.PointerTo(t).Implements(reflect.TypeOf((*sqlast.Expression)(nil)).Elem())
		isStmt := reflect.PointerTo(t).Implements(reflect.TypeOf((*sqlast.Statement)(nil)).Elem())
		if pi.InPutExpr && isExpr {
			tg.Paths = append(tg.Paths, releasePath{"PutExpression", func(x any) { sqlast.PutExpression(x.(sqlast.Expression)) }})
			if hasSelectRelease {
				// reachable from an AST: a select-list item of a statement of the tree
				tg.Paths = append(tg.Paths, releasePath{"ReleaseAST", func(x any) {
					sqlast.ReleaseAST(&sqlast.AST{Statements: []sqlast.Statement{&sqlast.SelectStatement{Columns: []sqlast.Expression{x.(sqlast.Expression)}}}})
				}})
			}
		}
		if isStmt {
			for _, r := range pi.InRelease {
				switch r {
				case "ReleaseAST":
					tg.Paths = append(tg.Paths, releasePath{"ReleaseAST", func(x any) {
						sqlast.ReleaseAST(&sqlast.AST{Statements: []sqlast.Statement{x.(sqlast.Statement)}})
					}})
				case "ReleaseStatements":
					tg.Paths = append(tg.Paths, releasePath{"ReleaseStatements", func(x any) {
						sqlast.ReleaseStatements([]sqlast.Statement{x.(sqlast.Statement)})
					}})
				}
			}
		}
		if t.Kind() == reflect.Struct {
			for i := 0; i < t.NumField(); i++ {
				tg.Fields = append(tg.Fields, t.Field(i).Name)
			}
		} else {
			tg.Fields = []string{"*"}
		}
		targets = append(targets, tg)
	}
	sort.Strings(unmapped)
	return
}

func fieldOf(obj reflect.Value, field string) reflect.Value {
	if field == "*" {
		return obj
	}
	return obj.FieldByName(field)
}

// enumerateClean registers one case per (pooled type, field, release path, fill variation).
func enumerateClean(e *common.Enum, reg *registry, targets []*cleanTarget, unmapped []string) {
	e.Do("registry", func(c *common.Ctx) {
		var lines []string
		for _, pi := range reg.Pools {
			lines = append(lines, fmt.Sprintf("%s:*%s get=%v put=%v putexpr=%v release=%v", pi.Var, pi.Elem, pi.Gets, pi.Puts, pi.InPutExpr, pi.InRelease))
		}
		c.Input("pool registry read from " + reg.Dir + "\n" + strings.Join(lines, "\n"))
		c.Sample(map[string]any{"pools_found": len(reg.Pools), "files": len(reg.Files), "put_expression_cases": len(reg.PutExprCases)})
		c.Outcome(fmt.Sprintf("registry:%d-pools", len(reg.Pools)))
		for _, u := range unmapped {
			c.Fail("unmapped-pool:"+u, "the source declares a pool / Get / Put for "+u+" that the harness's name tables do not know; add it to checks/c09/registry.go")
		}
		for _, p := range reg.Problems {
			c.Fail("unmapped-pool:source-not-understood", p)
		}
		if len(reg.Pools) > 0 {
			c.NonTrivial()
		}
	})
	for _, tg := range targets {
		tg := tg
		for _, field := range tg.Fields {
			field := field
			for _, path := range tg.Paths {
				path := path
				for _, variation := range []string{"all-fields", "this-field-only"} {
					variation := variation
					key := fmt.Sprintf("clean|%s.%s|%s|%s", tg.Pool.Elem, field, path.Name, variation)
					e.Do(key, func(c *common.Ctx) { runClean(c, tg, field, path, variation) })
				}
			}
		}
	}
}

func runClean(c *common.Ctx, tg *cleanTarget, field string, path releasePath, variation string) {
	tname := tg.Pool.Elem
	c.Input(fmt.Sprintf("%s.%s filled (%s), released through %s, taken back with %s", tname, field, variation, path.Name, orStr(tg.GetBy, "(no Get function: inspected in the pool)")))
	c.Count("transitions", 2)
	clearPools()
	newObj := func() any {
		if tg.Get != nil {
			return tg.Get()
		}
		return reflect.New(tg.Type).Interface()
	}
	// pools are empty: both objects are what the pool's New constructs
	fresh := newObj()
	obj := newObj()
	ov := reflect.ValueOf(obj).Elem()
	fl := &filler{}
	if variation == "all-fields" {
		fl.fill(ov, 0, tname)
	} else {
		fl.fill(fieldOf(ov, field), 1, tname+"."+field)
	}
	if len(fl.unfilled) > 0 {
		c.Enum().Cap("fields that could not be filled reflectively: " + strings.Join(fl.unfilled, ", "))
		c.Outcome("unfillable")
	}
	var before []residue
	residues(fieldOf(ov, field), field, false, &before)
	if len(before) == 0 {
		c.Outcome("field-not-filled")
		c.Enum().Cap("field " + tname + "." + field + " is zero after filling")
		return
	}
	path.Release(obj)
	back := obj
	if tg.Get != nil {
		// single P, no collection since clearPools: the pool hands the object back; children of the
		// same type released by the path may come out first
		var others []any
		found := false
		for i := 0; i < 64; i++ {
			g := tg.Get()
			if reflect.ValueOf(g).Pointer() == reflect.ValueOf(obj).Pointer() {
				back, found = g, true
				break
			}
			others = append(others, g)
		}
		runtime.KeepAlive(others)
		if !found {
			c.Enum().Cap("pointer identity not obtained for " + tname + " via " + path.Name)
			c.Outcome("no-identity")
			return
		}
	}
	c.State(common.Hash64("clean|" + tname + "|" + path.Name + "|" + variation))
	var got, ref []residue
	residues(fieldOf(reflect.ValueOf(back).Elem(), field), field, false, &got)
	residues(fieldOf(reflect.ValueOf(fresh).Elem(), field), field, false, &ref)
	inFresh := map[string]bool{}
	for _, r := range ref {
		inFresh[r.Path+"|"+r.What] = true
	}
	var dirty, stale []string
	for _, r := range got {
		if inFresh[r.Path+"|"+r.What] {
			continue
		}
		if r.Stale {
			stale = append(stale, r.Path+" = "+r.What)
		} else {
			dirty = append(dirty, r.Path+" = "+r.What)
		}
	}
	c.NonTrivial()
	how := "taken back with " + tg.GetBy
	if tg.Get == nil {
		how = "as it sits in " + tg.Pool.Var
	}
	if len(dirty) > 0 {
		c.Outcome("dirty")
		c.Fail(fmt.Sprintf("dirty-after-put:%s.%s:%s", tname, field, path.Name),
			fmt.Sprintf("%s released through %s and %s still carries the previous holder's content: %s", tname, path.Name, how, strings.Join(dirty, "; ")))
	}
	if len(stale) > 0 {
		c.Outcome("stale-backing")
		c.Fail(fmt.Sprintf("stale-backing:%s.%s:%s", tname, field, path.Name),
			fmt.Sprintf("%s released through %s and %s has length 0 in %s but its retained backing array still holds the previous holder's elements (visible by re-slicing, kept alive by the pool): %s", tname, path.Name, how, field, strings.Join(stale, "; ")))
	}
	if len(dirty) == 0 && len(stale) == 0 {
		c.Outcome("clean")
	}
}

func orStr(a, b string) string {
	if a != "" {
		return a
	}
	return b
}
