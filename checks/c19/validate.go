package c19

import (
	"encoding/json"
	"fmt"
	"os"
	"path/filepath"
	"strings"

	"github.com/ajitpratap0/GoSQLX/pkg/sql/ast"
	"github.com/ajitpratap0/GoSQLX/pkg/sql/parser"
	"github.com/ajitpratap0/GoSQLX/pkg/sql/tokenizer"

	"verif/engine/common"
)

var validateMods = [][]string{
	{},
	{"--strict"},
	{"--quiet"},
	{"--dialect", "mysql"},
	{"--output-file", "report.out"},
	{"--stats"},
	{"--check"}, // documented alias of --quiet
}

func validateFlagSets(thorough bool) [][]string {
	var out [][]string
	for _, f := range []string{"text", "json", "sarif"} {
		for _, m := range validateMods {
			out = append(out, cat([]string{"--output-format", f}, m...))
		}
		if thorough {
			for i := 1; i < len(validateMods); i++ {
				for j := i + 1; j < len(validateMods); j++ {
					out = append(out, cat(cat([]string{"--output-format", f}, validateMods[i]...), validateMods[j]...))
				}
			}
		}
	}
	out = append(out, []string{}) // no flag at all (default text)
	return out
}

type vflags struct {
	format  string
	dialect string
	strict  bool
	outFile string
	key     string
}

func parseVFlags(fl []string) vflags {
	v := vflags{format: "text", key: strings.Join(fl, " ")}
	if v.key == "" {
		v.key = "no-flags"
	}
	for i := 0; i < len(fl); i++ {
		switch fl[i] {
		case "--output-format":
			v.format = fl[i+1]
			i++
		case "--dialect":
			v.dialect = fl[i+1]
			i++
		case "--output-file":
			v.outFile = fl[i+1]
			i++
		case "--strict":
			v.strict = true
		}
	}
	return v
}

// strictVerdict: the parser in strict mode (rejects empty statements).
func strictVerdict(sql, dialect string) (v verdict) {
	defer func() {
		if r := recover(); r != nil {
			v = either
		}
	}()
	tkz := tokenizer.GetTokenizer()
	defer tokenizer.PutTokenizer(tkz)
	toks, err := tkz.Tokenize([]byte(sql))
	if err != nil {
		return reject
	}
	opts := []parser.ParserOption{parser.WithStrictMode()}
	if dialect != "" {
		opts = append(opts, parser.WithDialect(dialect))
	}
	p := parser.NewParser(opts...)
	defer p.Release()
	tree, err := p.ParseFromModelTokens(toks)
	if err != nil {
		return reject
	}
	ast.ReleaseAST(tree)
	return accept
}

// validateVerdict: the library's answer under the options of the run.  The CLI
// documents --strict only as "enable strict validation mode"; whether that means
// the parser's strict mode is not stated, so an input on which strict and
// non-strict parsing disagree yields "either" under --strict.
func validateVerdict(sql string, vf vflags) verdict {
	v := libVerdict(sql, vf.dialect)
	if vf.strict && v != either && strictVerdict(sql, vf.dialect) != v {
		return either
	}
	return v
}

// validatePaths: the same failing inputs named on the command line in other spellings of their path.  A report must
// name the failing inputs - whatever it does to the spelling, the name has to lead to the same file.
func validatePaths(c *common.Ctx, format string, spell string) {
	sb := newSandbox()
	defer sb.close()
	files := []file{baseClasses[3], baseClasses[0], validateClasses[4]} // i.sql (rejected), v.sql (accepted), sub/n.sql (rejected)
	sb.put(files)
	base := "w" // the working directory of every run is <sandbox>/w
	sp := func(name string) string {
		switch spell {
		case "dot":
			return "./" + name
		case "sub-dotdot":
			return "sub/../" + name
		case "dot-sub-dotdot":
			return "./sub/../" + name
		case "dotdot-base":
			return "../" + base + "/" + name
		case "inner-dot":
			if i := strings.LastIndex(name, "/"); i >= 0 {
				return name[:i] + "/./" + name[i+1:]
			}
			return "./././" + name
		case "double-slash":
			return "sub//../" + name
		}
		return name
	}
	var args []string
	for _, f := range files {
		args = append(args, sp(f.Name))
	}
	args = cat([]string{"validate", "--output-format", format}, args...)
	d := describe(args, files, nil)
	c.Input(d)
	r := sb.run(nil, nil, args...)
	if r.TimedOut {
		return
	}
	if r.Exit == 0 {
		c.Fail("exit-mismatch:validate:"+format+":path-spelling", "exit status 0 although two inputs are rejected by the library\n"+d)
		return
	}
	named, err := reportNames(format, r.Stdout)
	if err != nil {
		if strings.Contains(r.Stderr, "path") || strings.Contains(r.Stderr, "traversal") {
			c.Outcome("validate-paths:refused-by-path-policy")
			return
		}
		c.Fail("bad-json:validate:"+format, fmt.Sprintf("the %s report is not well-formed: %v\n%sreport: %s", format, err, d, common.Trim(r.Stdout, 300)))
		return
	}
	resolve := func(n string) string {
		n = strings.TrimPrefix(n, "file://")
		if !filepath.IsAbs(n) {
			n = filepath.Join(sb.root, "w", n)
		}
		return filepath.Clean(n)
	}
	got := map[string]bool{}
	for n := range named {
		got[resolve(n)] = true
	}
	want := map[string]bool{resolve(files[0].Name): true, resolve(files[2].Name): true}
	if fmt.Sprint(sortedKeys(got)) != fmt.Sprint(sortedKeys(want)) {
		c.Fail("report-names:validate:"+format+":path-spelling", fmt.Sprintf("with the inputs spelled %q the %s report names %v, which resolve to %v; the rejected inputs are %v\n%s\nreport: %s", spell, format, sortedKeys(named), sortedKeys(got), sortedKeys(want), d, common.Trim(r.Stdout, 1500)))
	}
	c.Outcome("validate-paths:" + format)
	c.NonTrivial()
}

// validateArgForms: the ways of naming inputs on the validate command line - explicit paths, quoted glob patterns (the
// CLI expands them itself), directories with -r - alone and in ordered pairs.  The set of files an argument list stands
// for is computed here from the documented expansion (directory under -r: every *.sql below it; pattern: its matches;
// anything else: itself).  Whatever the CLI does with a directory it does not walk, two clauses hold under every reading:
// a rejected file in that set means a non-zero exit and a report that names it; a set of accepted files only means exit 0.
var argFormTree = []file{
	{Name: "v.sql", Content: "SELECT a FROM t;\n", Class: "valid"},
	{Name: "i.sql", Content: "SELECT FROM WHERE;\n", Class: "invalid"},
	{Name: "sub/n.sql", Content: "SELEC 1;\n", Class: "invalid"},
	{Name: "sub/ok.sql", Content: "SELECT 2;\n", Class: "valid"},
	{Name: "sub/deep/z.sql", Content: "SELECT 3;\n", Class: "valid"},
	{Name: "good/a.sql", Content: "SELECT 4;\n", Class: "valid"},
	{Name: "good/b.sql", Content: "SELECT b FROM u;\n", Class: "valid"},
	{Name: "good/inner/c.sql", Content: "SELECT 5;\n", Class: "valid"},
}

var argFormAtoms = []string{"v.sql", "i.sql", "sub/n.sql", "good/a.sql", "*.sql", "sub/*.sql", "sub/*", "good/*", "g*", "s*", "good", "sub"}

func validateArgForms(c *common.Ctx, format string, recursive bool, atoms []string) {
	sb := newSandbox()
	defer sb.close()
	sb.put(argFormTree)
	content := map[string]string{}
	for _, f := range argFormTree {
		content[filepath.Clean(f.Name)] = f.Content
	}
	// the documented expansion, relative to the working directory
	var set []string
	hasDir := false
	for _, a := range atoms {
		abs := sb.path(a)
		st, err := os.Stat(abs)
		switch {
		case recursive && err == nil && st.IsDir():
			filepath.Walk(abs, func(p string, info os.FileInfo, err error) error {
				if err == nil && !info.IsDir() && strings.HasSuffix(p, ".sql") {
					rel, _ := filepath.Rel(sb.path("."), p)
					set = append(set, rel)
				}
				return nil
			})
		case strings.ContainsAny(a, "*?["):
			ms, _ := filepath.Glob(abs)
			for _, m := range ms {
				rel, _ := filepath.Rel(sb.path("."), m)
				if mi, err := os.Stat(m); err == nil && mi.IsDir() {
					hasDir = true
					continue
				}
				set = append(set, rel)
			}
		case err == nil && st.IsDir():
			hasDir = true
		default:
			set = append(set, a)
		}
	}
	rejected := map[string]bool{}
	for _, f := range set {
		if libVerdict(content[filepath.Clean(f)], "") == reject {
			rejected[filepath.Clean(f)] = true
		}
	}
	args := []string{"validate", "--output-format", format}
	if recursive {
		args = append(args, "-r")
	}
	args = cat(args, atoms...)
	d := describe(args, argFormTree, nil) + fmt.Sprintf("  the arguments stand for %v; rejected by the library: %v\n", set, sortedKeys(rejected))
	c.Input(d)
	r := sb.run(nil, nil, args...)
	if r.TimedOut {
		c.Fail("hang:validate", d)
		return
	}
	cls := "files"
	if recursive {
		cls = "recursive"
	}
	switch {
	case len(rejected) > 0 && r.Exit == 0:
		c.Fail("exit-mismatch:validate:"+format+":arg-forms:"+cls, "exit status 0 although an input the arguments stand for is rejected by the library\n"+d)
		return
	case len(rejected) == 0 && !hasDir && len(set) > 0 && r.Exit != 0:
		c.Fail("exit-mismatch:validate:"+format+":arg-forms:"+cls+":accepted", fmt.Sprintf("exit status %d although the library accepts every input the arguments stand for\n%s", r.Exit, d))
		return
	}
	if format != "text" {
		named, err := reportNames(format, r.Stdout)
		if err != nil {
			c.Fail("bad-json:validate:"+format, fmt.Sprintf("the %s report is not well-formed: %v\n%sreport: %s", format, err, d, common.Trim(r.Stdout, 300)))
			return
		}
		got := map[string]bool{}
		for n := range named {
			n = strings.TrimPrefix(n, "file://")
			if filepath.IsAbs(n) {
				if rel, err := filepath.Rel(sb.path("."), n); err == nil {
					n = rel
				}
			}
			got[filepath.Clean(n)] = true
		}
		for f := range rejected {
			if !got[f] {
				c.Fail("report-names:validate:"+format+":arg-forms:"+cls, fmt.Sprintf("the %s report does not name %s, which the library rejects (named: %v)\n%s", format, f, sortedKeys(got), d))
				return
			}
		}
		for f := range got {
			if _, known := content[f]; known && !rejected[f] {
				c.Fail("report-names:validate:"+format+":arg-forms:"+cls, fmt.Sprintf("the %s report names %s, which the library accepts\n%s", format, f, d))
				return
			}
		}
	}
	c.Outcome("validate-arg-forms:" + format + ":" + cls)
	if len(rejected) > 0 {
		c.NonTrivial()
	}
}

// stdinBoundary: standard input at and beyond the documented 10 MiB limit of the CLI, which is also the library's input
// limit.  The verdict is the library's on the very bytes that were piped in: an input the library rejects (too large, or
// broken behind the 10 MiB mark) must not come back as accepted because the CLI looked at a prefix of it.
func stdinBoundary(c *common.Ctx, args []string, shape string) {
	const limit = 10 * 1024 * 1024
	head := "SELECT c1 FROM t1;"
	var in string
	switch shape {
	case "at-limit":
		in = head + strings.Repeat(" ", limit-len(head)-1) + "\n"
	case "over-by-one":
		in = head + strings.Repeat(" ", limit-len(head)) + "\n"
	case "over-valid-tail":
		in = head + strings.Repeat(" ", limit-len(head)-1) + "\nSELECT c2 FROM t2;\n"
	case "over-broken-tail":
		in = head + strings.Repeat(" ", limit-len(head)-1) + "\nSELEC c2 FROM;\n"
	case "over-comment-tail":
		in = head + " --" + strings.Repeat("x", limit-len(head)-4) + "\n'unterminated"
	}
	v := libVerdict(in, "")
	d := fmt.Sprintf("gosqlx %s  with %d bytes on standard input (%s: a statement, padding up to the 10 MiB mark, then the tail); library verdict: %s\n", strings.Join(args, " "), len(in), shape, v)
	c.Input(d)
	sb := newSandbox()
	defer sb.close()
	r := sb.run(nil, &in, args...)
	exitOracle(c, args[0], "stdin-boundary:"+shape, "stdin", v, r, d)
	if len(args) > 2 && args[2] == "json" && v == reject && r.Exit != 0 {
		// nothing more is asserted about the report of an oversized input
	}
	c.Outcome("stdin-boundary:" + v.String())
	c.NonTrivial()
}

// outputFileReused: what a command writes to its output file must not depend on what the file held before (an
// earlier, longer report; an earlier formatting result).  Every command x input channel that has an output-file option.
func outputFileReused(c *common.Ctx, name string, args []string, stdin *string, files []file) {
	sb := newSandbox()
	defer sb.close()
	run := func(prefill string) (string, bool, result) {
		sb.put(files)
		os.Remove(sb.path("out.txt"))
		if prefill != "" {
			sb.putOne("out.txt", prefill)
		}
		r := sb.run(nil, stdin, args...)
		got, ok := sb.read("out.txt")
		return got, ok, r
	}
	c.Input(describe(args, files, stdin))
	fresh, ok1, r1 := run("")
	junk := strings.Repeat("{\"earlier\": \"report\", \"files\": [\"old.sql\"]}\n", 200)
	reused, ok2, r2 := run(junk)
	if r1.TimedOut || r2.TimedOut {
		return
	}
	if r1.Exit != r2.Exit {
		c.Fail("output-file-reused:exit:"+name, fmt.Sprintf("exit status %d with a fresh output file, %d when the file existed before\n%s", r1.Exit, r2.Exit, describe(args, files, stdin)))
	}
	if !ok1 {
		// the command does not write its output file for this input (a failed run): an earlier file then stays as it was
		if !ok2 || reused != junk {
			c.Fail("output-file-reused:touched-by-failed-run:"+name, fmt.Sprintf("the run writes no output file when none exists, but changes an existing one to %q\n%s", common.Trim(reused, 200), describe(args, files, stdin)))
		}
		c.Outcome("output-file-reused:not-written:" + name)
		return
	}
	// reports carry run times, so two runs need not be byte-identical: the file must be the new output alone - nothing
	// of the earlier content, and (for the JSON formats) one well-formed document
	same := fresh == reused
	if !same && ok2 && !strings.Contains(reused, "\"earlier\"") && !strings.Contains(reused, "old.sql") && len(reused) < len(fresh)+256 {
		same = true
		if strings.Contains(name, "json") || strings.Contains(name, "sarif") {
			var doc any
			dec := json.NewDecoder(strings.NewReader(reused))
			if dec.Decode(&doc) != nil || strings.TrimSpace(reused[dec.InputOffset():]) != "" {
				same = false
			}
		}
	}
	if ok1 != ok2 || !same {
		c.Fail("output-file-reused:content:"+name, fmt.Sprintf("the output file holds %q when it did not exist before (exists=%v) and %q when it held an earlier, longer report (exists=%v)\n%s",
			common.Trim(fresh, 200), ok1, common.Trim(reused, 200), ok2, describe(args, files, stdin)))
	}
	c.Outcome("output-file-reused:" + name)
	if ok1 {
		c.NonTrivial()
	}
}

func enumValidate(e *common.Enum) {
	for _, f := range []file{baseClasses[0], baseClasses[1], baseClasses[3]} {
		f := f
		in := f.Content
		for _, v := range []struct {
			name  string
			args  []string
			stdin *string
			files []file
		}{
			{"format:file", []string{"format", "-o", "out.txt", f.Name}, nil, []file{f}},
			{"format:stdin", []string{"format", "-o", "out.txt"}, &in, nil},
			{"format:inline", []string{"format", "-o", "out.txt", strings.TrimSpace(f.Content)}, nil, nil},
			{"validate-json:file", []string{"validate", "--output-format", "json", "--output-file", "out.txt", f.Name}, nil, []file{f}},
			{"validate-json:stdin", []string{"validate", "--output-format", "json", "--output-file", "out.txt"}, &in, nil},
			{"validate-json:inline", []string{"validate", "--output-format", "json", "--output-file", "out.txt", strings.TrimSpace(f.Content)}, nil, nil},
			{"validate-sarif:file", []string{"validate", "--output-format", "sarif", "--output-file", "out.txt", f.Name}, nil, []file{f}},
			{"validate-sarif:stdin", []string{"validate", "--output-format", "sarif", "--output-file", "out.txt"}, &in, nil},
			{"lint:file", []string{"lint", "-o", "out.txt", f.Name}, nil, []file{f}},
			{"parse:file", []string{"parse", "-o", "out.txt", f.Name}, nil, []file{f}},
		} {
			v := v
			if strings.Contains(v.name, "inline") && !looksLikeSQL(f.Content) {
				continue
			}
			do(e, "output-file-reused|"+v.name+"|"+f.Class, func(c *common.Ctx) { outputFileReused(c, v.name, v.args, v.stdin, v.files) })
		}
	}
	for _, format := range []string{"json", "sarif"} {
		for _, spell := range []string{"plain", "dot", "sub-dotdot", "dot-sub-dotdot", "dotdot-base", "inner-dot", "double-slash"} {
			format, spell := format, spell
			do(e, "validate-paths|"+format+"|"+spell, func(c *common.Ctx) { validatePaths(c, format, spell) })
		}
	}
	for _, args := range [][]string{{"validate"}, {"validate", "--output-format", "json"}, {"format"}, {"parse"}, {"lint"}} {
		for _, shape := range []string{"at-limit", "over-by-one", "over-valid-tail", "over-broken-tail", "over-comment-tail"} {
			args, shape := args, shape
			if args[0] == "lint" && shape == "at-limit" {
				continue // the linter's verdict on ten megabytes of blanks (trailing white space) is not the library parser's
			}
			do(e, "stdin-boundary|"+strings.Join(args, " ")+"|"+shape, func(c *common.Ctx) { stdinBoundary(c, args, shape) })
		}
	}
	for _, format := range []string{"text", "json", "sarif"} {
		for _, rec := range []bool{false, true} {
			for i, a1 := range argFormAtoms {
				format, rec, a1 := format, rec, a1
				do(e, fmt.Sprintf("validate-arg-forms|%s|r=%v|%s", format, rec, a1), func(c *common.Ctx) { validateArgForms(c, format, rec, []string{a1}) })
				for j, a2 := range argFormAtoms {
					if i == j {
						continue
					}
					a2 := a2
					do(e, fmt.Sprintf("validate-arg-forms|%s|r=%v|%s|%s", format, rec, a1, a2), func(c *common.Ctx) { validateArgForms(c, format, rec, []string{a1, a2}) })
				}
			}
		}
	}
	b, x := baseClasses, validateClasses
	all := append(append([]file{}, b...), x...)
	var extra [][]file
	for _, f := range x {
		extra = append(extra, []file{f}, []file{b[0], f}, []file{f, b[3]})
	}
	extra = append(extra, []file{x[0], x[1], x[4]}, []file{missingFile}, []file{b[0], missingFile}, []file{missingFile, b[3]})
	for _, fl := range validateFlagSets(e.Thorough()) {
		vf := parseVFlags(fl)
		var sets [][]file
		var streamed []file
		switch {
		case e.Thorough():
			sets = append(subsets(b, 3, true), extra...)
			streamed = all
		case len(fl) <= 2:
			// quick, output format only: every set of <=2 base classes, the 3-sets for json, the extra classes
			sets = append(subsets(b, 2, false), extra...)
			if vf.format == "json" {
				for _, s := range subsets(b, 3, false) {
					if len(s) == 3 {
						sets = append(sets, s)
					}
				}
			}
			streamed = all
		default:
			// quick, format + one modifier: every single class and four mixed pairs
			sets = append(subsets(all, 1, false), []file{b[0], b[3]}, []file{b[3], b[0]}, []file{x[0], b[5]}, []file{b[4], x[2]})
			streamed = []file{b[0], b[3], x[0], x[2]}
		}
		for _, fs := range sets {
			fl, fs := fl, fs
			do(e, "validate-files|"+vf.key+"|"+setKey(fs), func(c *common.Ctx) { validateFiles(c, fl, fs) })
		}
		for _, f := range streamed {
			fl, f := fl, f
			do(e, "validate-stdin|"+vf.key+"|"+f.Class, func(c *common.Ctx) { validateStream(c, fl, f, true) })
			if looksLikeSQL(f.Content) {
				do(e, "validate-inline|"+vf.key+"|"+f.Class, func(c *common.Ctx) { validateStream(c, fl, f, false) })
			}
		}
	}
}

// reportNames extracts the set of inputs a JSON or SARIF report names as failing.
func reportNames(format, text string) (map[string]bool, error) {
	var doc map[string]any
	dec := json.NewDecoder(strings.NewReader(text))
	if err := dec.Decode(&doc); err != nil {
		return nil, fmt.Errorf("not JSON: %v", err)
	}
	if rest := strings.TrimSpace(text[dec.InputOffset():]); rest != "" {
		return nil, fmt.Errorf("trailing data after the JSON document: %q", common.Trim(rest, 80))
	}
	named := map[string]bool{}
	if format == "json" {
		errs, present := doc["errors"]
		if !present || errs == nil {
			return named, nil
		}
		list, ok := errs.([]any)
		if !ok {
			return nil, fmt.Errorf(`"errors" is not an array`)
		}
		for _, it := range list {
			m, _ := it.(map[string]any)
			fn, ok := m["file"].(string)
			if !ok {
				return nil, fmt.Errorf(`an entry of "errors" has no "file" string`)
			}
			named[fn] = true
		}
		return named, nil
	}
	// SARIF 2.1.0: version, runs[].results[].locations[].physicalLocation.artifactLocation.uri
	if v, _ := doc["version"].(string); v != "2.1.0" {
		return nil, fmt.Errorf(`SARIF "version" is %v, want "2.1.0"`, doc["version"])
	}
	runs, ok := doc["runs"].([]any)
	if !ok || len(runs) == 0 {
		return nil, fmt.Errorf(`SARIF has no "runs" array`)
	}
	for _, r := range runs {
		rm, _ := r.(map[string]any)
		res, ok := rm["results"].([]any)
		if !ok {
			return nil, fmt.Errorf(`SARIF run has no "results" array`)
		}
		for _, x := range res {
			xm, _ := x.(map[string]any)
			locs, _ := xm["locations"].([]any)
			if len(locs) == 0 {
				return nil, fmt.Errorf("SARIF result without a location")
			}
			for _, l := range locs {
				lm, _ := l.(map[string]any)
				pl, _ := lm["physicalLocation"].(map[string]any)
				al, _ := pl["artifactLocation"].(map[string]any)
				uri, ok := al["uri"].(string)
				if !ok {
					return nil, fmt.Errorf("SARIF location without artifactLocation.uri")
				}
				named[uri] = true
			}
		}
	}
	return named, nil
}

func validateFiles(c *common.Ctx, fl []string, files []file) {
	sb := newSandbox()
	defer sb.close()
	vf := parseVFlags(fl)
	var vs []verdict
	for _, f := range files {
		if f.missing() {
			vs = append(vs, reject)
			continue
		}
		vs = append(vs, validateVerdict(f.Content, vf))
	}
	ov := overall(vs)
	args := cat(cat([]string{"validate"}, fl...), names(files)...)
	d := describe(args, files, nil)
	c.Input(d)
	c.Sample(map[string]any{"cmd": "validate", "flags": vf.key, "files": classes(files), "library": ov.String()})
	if ov == reject {
		c.NonTrivial()
	}
	sb.put(files)
	r := sb.run(nil, nil, args...)
	okExit := exitOracle(c, "validate", vf.format, "files", ov, r, d)
	untouched(c, sb, files, "modified-by-check-mode:validate", d)
	if vf.format != "text" && okExit && !r.TimedOut {
		text := r.Stdout
		if vf.outFile != "" {
			var ok bool
			text, ok = sb.read(vf.outFile)
			if !ok {
				c.Fail("bad-json:validate:"+vf.format+":output-file", "the report file was not written\n"+d)
				return
			}
		}
		named, err := reportNames(vf.format, text)
		if err != nil {
			c.Fail("bad-json:validate:"+vf.format, fmt.Sprintf("the %s report is not well-formed: %v\n%sreport: %s", vf.format, err, d, common.Trim(text, 300)))
			return
		}
		// exactly the failing inputs: every rejected file is named, nothing the library accepts is named
		want := map[string]bool{}
		may := map[string]bool{}
		for i, f := range files {
			switch vs[i] {
			case reject:
				want[f.Name] = true
			case either:
				may[f.Name] = true
			}
		}
		for n := range want {
			if !named[n] {
				c.Fail("report-names:validate:"+vf.format, fmt.Sprintf("the %s report does not name the failing input %s; it names %v\n%s", vf.format, n, sortedKeys(named), d))
			}
		}
		for n := range named {
			if !want[n] && !may[n] {
				c.Fail("report-names:validate:"+vf.format, fmt.Sprintf("the %s report names %q, which is not an input the library rejects (rejected: %v)\n%s", vf.format, n, sortedKeys(want), d))
			}
		}
	}
	c.Outcome("validate-files:" + vf.format + ":" + ov.String())
}

// validateStream: the same through stdin or as inline SQL.
func validateStream(c *common.Ctx, fl []string, f file, stdin bool) {
	sb := newSandbox()
	defer sb.close()
	vf := parseVFlags(fl)
	v := validateVerdict(f.Content, vf)
	mode := "inline"
	args := cat([]string{"validate"}, fl...)
	var in *string
	if stdin {
		mode = "stdin"
		s := f.Content
		in = &s
		if f.Content == "" {
			v = either // documented: empty stdin is an error
		}
	} else {
		args = append(args, f.Content)
	}
	d := describe(args, nil, in)
	c.Input(d)
	c.Sample(map[string]any{"cmd": "validate", "flags": vf.key, mode: f.Class, "library": v.String()})
	if v == reject {
		c.NonTrivial()
	}
	r := sb.run(nil, in, args...)
	okExit := exitOracle(c, "validate", vf.format, mode, v, r, d)
	if vf.format != "text" && okExit && !r.TimedOut && v != either {
		text := r.Stdout
		if vf.outFile != "" {
			var ok bool
			text, ok = sb.read(vf.outFile)
			if !ok {
				c.Fail("bad-json:validate:"+vf.format+":"+mode, "the report file was not written\n"+d)
				return
			}
		}
		named, err := reportNames(vf.format, text)
		if err != nil {
			c.Fail("bad-json:validate:"+vf.format+":"+mode, fmt.Sprintf("the %s report is not well-formed: %v\n%sreport: %s", vf.format, err, d, common.Trim(text, 300)))
			return
		}
		// one input: it is named iff it fails.  (Under which name a stream is reported
		// is not stated by the property; only the number of named inputs is compared.)
		wantN := 0
		if v == reject {
			wantN = 1
		}
		if len(named) != wantN {
			c.Fail("report-names:validate:"+vf.format+":"+mode, fmt.Sprintf("the %s report names %d failing input(s) %v, the library rejects %d\n%s", vf.format, len(named), sortedKeys(named), wantN, d))
		}
	}
	c.Outcome("validate-" + mode + ":" + vf.format + ":" + v.String())
}
