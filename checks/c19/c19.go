// Package c19 checks property C19: the gosqlx CLI's exit status agrees with the
// library, check-only modes never modify files, format's stdout / -i / --check are
// mutually consistent, JSON and SARIF reports are well-formed and name exactly the
// failing inputs, and an in-place rewrite interrupted or failed after any number
// of bytes leaves the complete original or the complete new content.
//
// Everything is observed on the real binary (cmd/gosqlx built from /repo's
// working tree by cmd/c19/build.sh) run as a process in a fresh scratch directory.
package c19

import (
	"fmt"
	"os"
	"strings"

	"verif/engine/common"
)

// Check returns the C19 check.
func Check() *common.Check {
	return &common.Check{
		ID:    "C19",
		Level: "fault_enumeration",
		Rule: "verdict space: file sets = every non-empty set of <=3 files of the six classes {valid, unformatted, formatted, invalid, empty, comment-only} " +
			"(+ a named-but-missing file; + mysql-only / tokenizer-error / empty-statement / blank / sub-directory classes for validate; + warning / error / info / clean severity classes for lint), " +
			"each also as stdin and as inline SQL; format: styles {none, --compact, --no-uppercase, --uppercase=false, --indent 0, --indent 4, --max-line 20} and all 13 compatible pairs, every (style, set) run five times " +
			"(stdout, --check, -i, --check after -i, -o file) and compared, plus mode pairs {-i --check, -i -o, --check -o, -i -v, --check -v, -v}; validate: {text,json,sarif} x {none,--strict,--quiet,--check,--dialect mysql,--output-file,--stats}; " +
			"lint: {none,--auto-fix,--fail-on-warn,--max-length 20,-o file} and pairs; parse: {-f json,-f yaml,-f table,--tree,--ast,none,--tokens}. " +
			"quick: all 41 canonical sets (+ reversed pairs) under the default style and --compact, single classes and two triples under the other styles, style pairs on two classes, sets of <=2 for modes/validate/lint; " +
			"thorough: every arrangement (156) of every set under all 20 styles and 6 mode pairs, validate with all modifier pairs on all arrangements, lint on every set of <=3 of 12 classes. " +
			"crash-point space: for each in-place scenario (format -i and lint --auto-fix on a small and a large file; thorough also multi-file with a rejected file in the middle, --compact, --indent 4 --uppercase=false) " +
			"RLIMIT_FSIZE=k for EVERY k in [0,n], n = size of the complete new content, once as short write + EFBIG and once as SIGKILL at the moment byte k+1 is refused (tools/fsize); " +
			"thorough: strace inject error=EIO and signal=KILL at the 1st, 2nd, ... occurrence (until one is not reached) of each of 17 system calls (openat, read, write, fsync, rename*, close, chmod*, unlink*, ...) of the run. " +
			"One case = one CLI scenario (1..8 process runs; counters.process_runs). Non-trivial = the scenario contains an input the library rejects / a failing lint finding, " +
			"or a file that formatting or fixing changes, or (crash points) the fault actually fired.",
		Assume: []string{
			"RLIMIT_FSIZE semantics of this kernel (short write at the limit, then EFBIG+SIGXFSZ), ptrace signal interception by tools/fsize, strace syscall injection",
			"library verdict = parser.Validate[WithDialect] and gosqlx.Validate agreeing; where the library's own entry points disagree (empty/blank input) or strict and non-strict parsing disagree under --strict, no exit-status clause is evaluated",
			"lint verdict = pkg/linter with the rule set and defaults documented by `gosqlx lint` (L001-L010, --max-length -> L005)",
			"with --auto-fix the exit status is only compared when the verdict before and after fixing is the same (the property does not say which one counts)",
			"stray temporary files after an interrupted rewrite are not a violation (the property does not mention them)",
			"small-scope hypothesis: file sets of <=3 files, outputs of <=400 bytes",
		},
		// CrashSafe makes every case record itself before it runs: progress stays visible to the parent
		// (hang detection) however slow process runs get on a loaded machine.
		CrashSafe: true,
		Enumerate: enumerate,
	}
}

func enumerate(e *common.Enum) {
	if _, err := os.Stat(cliPath()); err != nil {
		e.Do("harness|cli-binary", func(c *common.Ctx) {
			c.Fail("harness:cli-binary-missing", "the gosqlx binary was not built: "+err.Error()+" (cmd/c19/build.sh)")
		})
		return
	}
	initWorker()
	defer doneWorker()
	enumFormat(e)
	enumValidate(e)
	enumLint(e)
	enumParse(e)
	enumCrash(e)
	enumStrace(e)
}

// ---------------------------------------------------------------- shared oracles

// exitOracle: exit status zero <=> the library accepts every input.
func exitOracle(c *common.Ctx, cmd, flagClass, mode string, ov verdict, r result, desc string) bool {
	if r.TimedOut {
		c.Fail("hang:"+cmd, "the CLI did not finish within 60 s\n"+desc)
		return false
	}
	switch ov {
	case accept:
		if r.Exit != 0 {
			c.Fail(fmt.Sprintf("exit-mismatch:%s:%s:%s-accepted", cmd, flagClass, mode),
				fmt.Sprintf("the library accepts every input and there is no failing finding, but the CLI exits with status %d\n%sstderr: %s", r.Exit, desc, common.Trim(r.Stderr, 300)))
			return false
		}
	case reject:
		if r.Exit == 0 {
			c.Fail(fmt.Sprintf("exit-mismatch:%s:%s:%s-rejected", cmd, flagClass, mode),
				fmt.Sprintf("the library rejects an input (or reports a failing finding), but the CLI exits with status 0\n%sstdout: %s", desc, common.Trim(r.Stdout, 300)))
			return false
		}
	}
	return true
}

// untouched: every input file still has its original bytes and mtime.
func untouched(c *common.Ctx, sb *sandbox, files []file, sig, desc string) bool {
	ok := true
	for _, f := range files {
		if d := sb.touchedFile(f); d != "" {
			c.Fail(sig, fmt.Sprintf("a mode that must not modify files modified %s (%s): %s\n%s", f.Name, f.Class, d, desc))
			ok = false
		}
	}
	return ok
}

// eqNL: equal up to one trailing newline.
func eqNL(a, b string) bool { return a == b || a == b+"\n" || a+"\n" == b }

// concatMatches: s is the concatenation of the parts, each taken up to one trailing newline.
func concatMatches(s string, parts []string) bool {
	if len(parts) == 0 {
		return s == ""
	}
	p := parts[0]
	cands := []string{p, p + "\n"}
	if strings.HasSuffix(p, "\n") {
		cands = append(cands, p[:len(p)-1])
	}
	for _, cnd := range cands {
		if strings.HasPrefix(s, cnd) && concatMatches(s[len(cnd):], parts[1:]) {
			return true
		}
	}
	return false
}

// fileVerdict is libVerdict for an input file.
func fileVerdict(f file, dialect string) verdict {
	if f.missing() {
		return reject
	}
	return libVerdict(f.Content, dialect)
}

func verdicts(files []file, dialect string) ([]verdict, verdict) {
	var vs []verdict
	for _, f := range files {
		vs = append(vs, fileVerdict(f, dialect))
	}
	return vs, overall(vs)
}

func setKey(files []file) string { return strings.Join(names(files), ",") }

func cat(a []string, b ...string) []string { return append(append([]string{}, a...), b...) }
