package c19

import (
	"bytes"
	"crypto/sha256"
	"encoding/hex"
	"fmt"
	"os"
	"os/exec"
	"path/filepath"
	"sort"
	"strings"
	"syscall"
	"time"

	"verif/engine/common"
)

// Binaries built by cmd/c19/build.sh from /repo's working tree (honouring -overlay).
func cliPath() string   { return filepath.Join(common.Root(), ".work", "bin", "gosqlx-cli") }
func fsizePath() string { return filepath.Join(common.Root(), ".work", "bin", "fsize") }

// oldTime is the mtime every input file gets before a run.  It is far in the past
// and has a zero nanosecond part, so any write at all (even of identical bytes)
// is visible as an mtime change regardless of the kernel's timestamp granularity.
var oldTime = time.Date(2001, 2, 3, 4, 5, 6, 0, time.UTC)

// file is one input file of a scenario.
type file struct {
	Name    string
	Content string
	Class   string
}

// sandbox is a fresh scratch directory for one CLI scenario:
//
//	<root>/w     working directory of the CLI, holds the input files
//	<root>/home  HOME and XDG_CONFIG_HOME/.. (empty: no ~/.gosqlx.yml)
//	<root>/tmp   TMPDIR (validate-from-stdin creates its temp file here)
type sandbox struct {
	root string
	runs int
}

var (
	workerDir string
	sbSeq     int
	runCount  int64 // process runs started by this worker
)

// do is e.Do plus bookkeeping of the number of process runs of the case.
func do(e *common.Enum, key string, fn func(c *common.Ctx)) {
	e.Do(key, func(c *common.Ctx) {
		s := runCount
		fn(c)
		c.Count("process_runs", runCount-s)
	})
}

// initWorker creates the per-process scratch root /verif/.work/c19/p<pid>.
func initWorker() {
	workerDir = common.Work("c19", fmt.Sprintf("p%d", os.Getpid()), "x")
	workerDir = filepath.Dir(workerDir)
	os.RemoveAll(workerDir)
	// scratch roots of workers that were killed before they could clean up
	if ents, err := os.ReadDir(filepath.Dir(workerDir)); err == nil {
		for _, en := range ents {
			if pid := strings.TrimPrefix(en.Name(), "p"); pid != en.Name() {
				if _, err := os.Stat("/proc/" + pid); err != nil {
					os.RemoveAll(filepath.Join(filepath.Dir(workerDir), en.Name()))
				}
			}
		}
	}
	os.MkdirAll(workerDir, 0o755)
}

func doneWorker() {
	if workerDir != "" {
		os.RemoveAll(workerDir)
	}
}

func newSandbox() *sandbox {
	sbSeq++
	s := &sandbox{root: filepath.Join(workerDir, fmt.Sprintf("s%d", sbSeq))}
	os.RemoveAll(s.root)
	for _, d := range []string{"w", "home", "tmp"} {
		if err := os.MkdirAll(filepath.Join(s.root, d), 0o755); err != nil {
			panic("c19 harness: cannot create scratch dir: " + err.Error())
		}
	}
	return s
}

func (s *sandbox) close() { os.RemoveAll(s.root) }

func (s *sandbox) path(name string) string { return filepath.Join(s.root, "w", name) }

// put (re)creates the input files with their original content, mode 0644 and the old mtime.
func (s *sandbox) put(files []file) {
	for _, f := range files {
		if f.missing() {
			os.Remove(s.path(f.Name))
			continue
		}
		s.putOne(f.Name, f.Content)
	}
}

func (s *sandbox) putOne(name, content string) {
	p := s.path(name)
	os.MkdirAll(filepath.Dir(p), 0o755)
	os.Remove(p)
	if err := os.WriteFile(p, []byte(content), 0o644); err != nil {
		panic("c19 harness: cannot write input file: " + err.Error())
	}
	os.Chmod(p, 0o644)
	if err := os.Chtimes(p, oldTime, oldTime); err != nil {
		panic("c19 harness: chtimes: " + err.Error())
	}
}

// age resets the mtime of a file to oldTime without touching its content.
func (s *sandbox) age(name string) { os.Chtimes(s.path(name), oldTime, oldTime) }

func (s *sandbox) read(name string) (string, bool) {
	b, err := os.ReadFile(s.path(name))
	if err != nil {
		return "", false
	}
	return string(b), true
}

// touchedFile is touched for an input file; a missing input has nothing to compare.
func (s *sandbox) touchedFile(f file) string {
	if f.missing() {
		return ""
	}
	return s.touched(f.Name, f.Content)
}

// touched reports how the file differs from (content, oldTime): "" if untouched.
func (s *sandbox) touched(name, content string) string {
	fi, err := os.Lstat(s.path(name))
	if err != nil {
		return "file is gone (" + err.Error() + ")"
	}
	if !fi.Mode().IsRegular() {
		return "no longer a regular file"
	}
	got, _ := s.read(name)
	if got != content {
		return fmt.Sprintf("content changed: %q -> %q", common.Trim(content, 80), common.Trim(got, 80))
	}
	if !fi.ModTime().Equal(oldTime) {
		return "content identical but the file was rewritten (mtime changed)"
	}
	return ""
}

// result of one process run.
type result struct {
	Exit     int    // exit status; 128+n when killed by signal n
	Killed   bool   // terminated by a signal
	Stdout   string //
	Stderr   string //
	TimedOut bool
}

func (r result) ok() bool { return r.Exit == 0 && !r.Killed }

// run executes the CLI (optionally behind a launcher prefix) in the sandbox.
// stdin == nil means /dev/null.  stdout/stderr are pipes, so RLIMIT_FSIZE of the
// launcher never applies to them.
func (s *sandbox) run(wrap []string, stdin *string, args ...string) result {
	s.runs++
	runCount++
	argv := append(append([]string{}, wrap...), cliPath())
	argv = append(argv, args...)
	cmd := exec.Command(argv[0], argv[1:]...)
	cmd.Dir = filepath.Join(s.root, "w")
	home := filepath.Join(s.root, "home")
	cmd.Env = []string{
		"HOME=" + home,
		"XDG_CONFIG_HOME=" + filepath.Join(home, ".config"),
		"TMPDIR=" + filepath.Join(s.root, "tmp"),
		"PATH=/usr/local/bin:/usr/bin:/bin",
		"LANG=C", "LC_ALL=C", "NO_COLOR=1", "TERM=dumb",
		"GOMAXPROCS=2", "GOTRACEBACK=single",
	}
	if stdin != nil {
		cmd.Stdin = strings.NewReader(*stdin)
	}
	var out, errb bytes.Buffer
	cmd.Stdout, cmd.Stderr = &out, &errb
	if err := cmd.Start(); err != nil {
		panic("c19 harness: cannot start " + argv[0] + ": " + err.Error())
	}
	done := make(chan error, 1)
	go func() { done <- cmd.Wait() }()
	var err error
	var res result
	select {
	case err = <-done:
	case <-time.After(60 * time.Second): // "no progress for a minute": a ~10 ms process hangs
		cmd.Process.Kill()
		err = <-done
		res.TimedOut = true
	}
	res.Stdout, res.Stderr = out.String(), errb.String()
	// heartbeat: the framework reads progress off the mtime of the worker's "current
	// case" file; a case made of many (slow, on a loaded machine) process runs stays visible
	if p := os.Getenv("VERIF_CURFILE"); p != "" {
		now := time.Now()
		os.Chtimes(p, now, now)
	}
	if err != nil {
		if ee, ok := err.(*exec.ExitError); ok {
			ws := ee.Sys().(syscall.WaitStatus)
			if ws.Signaled() {
				res.Killed = true
				res.Exit = 128 + int(ws.Signal())
			} else {
				res.Exit = ws.ExitStatus()
			}
		} else {
			res.Exit = 126
		}
	}
	if res.Exit >= 128 && len(wrap) > 0 { // launcher reports "killed by signal" as 128+n
		res.Killed = true
	}
	return res
}

func sha(s string) string {
	h := sha256.Sum256([]byte(s))
	return hex.EncodeToString(h[:6])
}

func names(files []file) []string {
	var n []string
	for _, f := range files {
		n = append(n, f.Name)
	}
	return n
}

func classes(files []file) string {
	var n []string
	for _, f := range files {
		n = append(n, f.Class)
	}
	return strings.Join(n, "+")
}

func sortedKeys(m map[string]bool) []string {
	var k []string
	for s := range m {
		k = append(k, s)
	}
	sort.Strings(k)
	return k
}

func describe(args []string, files []file, stdin *string) string {
	var sb strings.Builder
	fmt.Fprintf(&sb, "gosqlx %s\n", strings.Join(quoteAll(args), " "))
	for _, f := range files {
		fmt.Fprintf(&sb, "  file %s = %q\n", f.Name, f.Content)
	}
	if stdin != nil {
		fmt.Fprintf(&sb, "  stdin = %q\n", *stdin)
	}
	return sb.String()
}

func quoteAll(a []string) []string {
	var o []string
	for _, s := range a {
		if strings.ContainsAny(s, " \n\t'\"") || s == "" {
			o = append(o, fmt.Sprintf("%q", s))
		} else {
			o = append(o, s)
		}
	}
	return o
}
