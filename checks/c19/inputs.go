package c19

import "strings"

// The six input classes of the verdict space (DESIGN.md §3 C19).  "formatted" is
// the text `format -i` produces for "unformatted" under default options on the
// pinned tree; whether it still is a fixed point is observed, never assumed (the
// relation oracles only compare runs with each other).
var baseClasses = []file{
	{"v.sql", "SELECT id, 'from x' FROM users WHERE id IN (1, 2);\nSELECT 2;\n", "valid"},
	{"u.sql", "select   a,b from t\n  where a=1\n", "unformatted"},
	{"f.sql", "SELECT\na,\n  b\nFROM t\nWHERE a = 1", "formatted"},
	{"i.sql", "SELECT FROM WHERE\n", "invalid"},
	{"e.sql", "", "empty"},
	{"c.sql", "-- just a comment\n", "comment"},
}

// missingFile is named on the command line but does not exist.  No library call
// can accept an input that is not there, so its verdict is "reject"; it is never
// created by the harness and not part of the "untouched" comparisons.
var missingFile = file{"nofile.sql", "", "missing"}

func (f file) missing() bool { return f.Class == "missing" }

// Inputs that make the validate options matter.
var validateClasses = []file{
	{"m.sql", "SELECT a FROM t LIMIT 1, 2\n", "mysql-only"},     // accepted only with --dialect mysql
	{"q.sql", "SELECT 'abc FROM t\n", "tokenizer-error"},        // fails in the tokenizer, not the parser
	{"s.sql", "SELECT 1;;\n", "empty-statement"},                // strict and non-strict library verdicts differ
	{"b.sql", "  \n", "blank"},                                  // library entry points disagree (like empty)
	{"sub/n.sql", "SELECT x FROM\n", "invalid-in-subdirectory"}, // path with a separator in the reports
}

// Inputs that make the lint severities matter.
var lintClasses = []file{
	{"tw.sql", "SELECT a  \nFROM t\n", "lint-warning"},                            // L001 trailing whitespace: warning, fixable
	{"mi.sql", "SELECT a\nFROM t\nWHERE\n \tb = 1\n", "lint-error"},               // L002 mixed indentation: error, fixable
	{"ll.sql", "SELECT aaaaaaaaaa, bbbbbbbbbb FROM tttttttttt\n", "lint-long"},    // L005 with --max-length 20: info
	{"cl.sql", "SELECT a\nFROM t\n", "lint-clean"},                                // no finding at all
	{"tw2.sql", "SELECT a\t\nFROM t  \nWHERE b = 1 \n", "lint-warning-multiline"}, // several fixable lines
}

// Larger files for the crash-point space (every byte offset of the new content).
var bigFormat = file{"big.sql", "select o.id, o.total, c.name from orders o join customers c on o.cid = c.id " +
	"where o.total > 100 and c.region in ('eu', 'us') order by o.total desc limit 10;\n", "unformatted-large"}

var bigLint = file{"bigl.sql", "SELECT o.id,   \n       o.total, \t\n       c.name  \nFROM orders o  \nJOIN customers c ON o.cid = c.id \n" +
	"WHERE o.total > 100   \n  AND c.region IN ('eu', 'us')\t\nORDER BY o.total DESC \nLIMIT 10;  \n", "lint-warning-large"}

// subsets returns all non-empty subsets of at most max elements in canonical
// order; with ordered=true every arrangement (permutation) of each subset.
func subsets(list []file, max int, ordered bool) [][]file {
	var out [][]file
	var rec func(start int, cur []file)
	rec = func(start int, cur []file) {
		if len(cur) > 0 {
			if ordered {
				permute(cur, func(p []file) { out = append(out, append([]file{}, p...)) })
			} else {
				out = append(out, append([]file{}, cur...))
			}
		}
		if len(cur) == max {
			return
		}
		for i := start; i < len(list); i++ {
			rec(i+1, append(cur, list[i]))
		}
	}
	rec(0, nil)
	return out
}

func permute(a []file, f func([]file)) {
	b := append([]file{}, a...)
	var rec func(k int)
	rec = func(k int) {
		if k == len(b) {
			f(b)
			return
		}
		for i := k; i < len(b); i++ {
			b[k], b[i] = b[i], b[k]
			rec(k + 1)
			b[k], b[i] = b[i], b[k]
		}
	}
	rec(0)
}

// looksLikeSQL mirrors the CLI's documented heuristic for "this argument is
// inline SQL, not a file name" closely enough to select inline-capable classes:
// only inputs starting with a statement keyword are offered inline.
func looksLikeSQL(s string) bool {
	u := strings.ToUpper(strings.TrimSpace(s))
	for _, kw := range []string{"SELECT", "INSERT", "UPDATE", "DELETE", "CREATE", "WITH"} {
		if strings.HasPrefix(u, kw+" ") || strings.HasPrefix(u, kw+"\n") {
			return true
		}
	}
	return false
}
