package c19

import (
	"encoding/json"
	"fmt"
	"strings"

	"github.com/ajitpratap0/GoSQLX/pkg/linter"

	"verif/engine/common"
)

var lintSingles = [][]string{
	{},
	{"--auto-fix"},
	{"--fail-on-warn"},
	{"--max-length", "20"},
	{"-o", "lint.out"},
}

func lintFlagSets() [][]string {
	out := append([][]string{}, lintSingles...)
	for i := 1; i < len(lintSingles); i++ {
		for j := i + 1; j < len(lintSingles); j++ {
			out = append(out, cat(lintSingles[i], lintSingles[j]...))
		}
	}
	out = append(out, []string{"--auto-fix", "--fail-on-warn", "--max-length", "20"})
	return out
}

type lflags struct {
	autofix, failOnWarn bool
	maxLen              int
	key, class          string
}

func parseLFlags(fl []string) lflags {
	l := lflags{maxLen: 100, key: strings.Join(fl, " "), class: "plain"}
	if l.key == "" {
		l.key = "no-flags"
	}
	for _, f := range fl {
		switch f {
		case "--auto-fix":
			l.autofix = true
		case "--fail-on-warn":
			l.failOnWarn = true
		case "20":
			l.maxLen = 20
		}
	}
	switch {
	case l.autofix && l.failOnWarn:
		l.class = "auto-fix+fail-on-warn"
	case l.autofix:
		l.class = "auto-fix"
	case l.failOnWarn:
		l.class = "fail-on-warn"
	}
	return l
}

func enumLint(e *common.Enum) {
	for _, fl := range [][]string{nil, {"--fail-on-warn"}} {
		for _, pattern := range []string{"", "[", "*.txt"} {
			for i, a1 := range lintArgAtoms {
				fl, pattern, a1 := fl, pattern, a1
				do(e, fmt.Sprintf("lint-arg-forms|%v|%q|%s", fl, pattern, a1), func(c *common.Ctx) { lintArgForms(c, fl, pattern, []string{a1}) })
				for j, a2 := range lintArgAtoms {
					if i == j {
						continue
					}
					a2 := a2
					do(e, fmt.Sprintf("lint-arg-forms|%v|%q|%s|%s", fl, pattern, a1, a2), func(c *common.Ctx) { lintArgForms(c, fl, pattern, []string{a1, a2}) })
				}
			}
		}
	}
	all := append(append(append([]file{}, baseClasses...), lintClasses...), missingFile)
	for i, fl := range lintFlagSets() {
		lf := parseLFlags(fl)
		isSingle := i < len(lintSingles)
		var sets [][]file
		switch {
		case e.Thorough():
			// every set of <=3 of the 12 classes, pairs in both orders
			sets = subsets(all, 3, false)
			for _, s := range subsets(all, 2, false) {
				if len(s) == 2 {
					sets = append(sets, []file{s[1], s[0]})
				}
			}
		case isSingle:
			sets = subsets(all, 2, false) // quick, single flags: every set of <=2 of the 11 classes
		default:
			sets = subsets(all, 1, false) // quick, flag pairs: every single class
		}
		for _, fs := range sets {
			fl, fs := fl, fs
			do(e, "lint-files|"+lf.key+"|"+setKey(fs), func(c *common.Ctx) { lintFiles(c, fl, fs) })
		}
		if !e.Thorough() && !isSingle {
			continue
		}
		for _, f := range all {
			if f.missing() {
				continue
			}
			fl, f := fl, f
			do(e, "lint-stdin|"+lf.key+"|"+f.Class, func(c *common.Ctx) { lintStream(c, fl, f, true) })
			if looksLikeSQL(f.Content) {
				do(e, "lint-inline|"+lf.key+"|"+f.Class, func(c *common.Ctx) { lintStream(c, fl, f, false) })
			}
		}
	}
}

// lintArgForms: lint -r over directories (existing with clean files, existing with a file that cannot be linted, missing),
// alone and in ordered pairs, with the default and with a malformed file pattern.  The verdict is the library's:
// linter.LintDirectory per argument - a result that carries an error, or a finding of failing severity, means non-zero.
var lintArgTree = []file{
	{Name: "good/a.sql", Content: "SELECT a FROM t;\n", Class: "clean"},
	{Name: "good/inner/b.sql", Content: "SELECT b FROM u;\n", Class: "clean"},
	{Name: "warn/w.sql", Content: "select a from t;\n", Class: "lower-case keywords"},
	{Name: "plain.sql", Content: "SELECT c FROM v;\n", Class: "clean"},
}

var lintArgAtoms = []string{"good", "warn", "nope", "good/inner", "also-missing/deeper", "."}

func lintArgForms(c *common.Ctx, fl []string, pattern string, atoms []string) {
	sb := newSandbox()
	defer sb.close()
	sb.put(lintArgTree)
	lf := parseLFlags(fl)
	pat := pattern
	if pat == "" {
		pat = "*.sql"
	}
	v := accept
	var notes []string
	func() {
		defer func() {
			if r := recover(); r != nil {
				v = either
				notes = append(notes, fmt.Sprint("library panicked: ", r))
			}
		}()
		for _, a := range atoms {
			res := newLinter(lf.maxLen).LintDirectory(sb.path(a), pat)
			for _, fr := range res.Files {
				if fr.Error != nil {
					v = reject
					notes = append(notes, a+": library error: "+fr.Error.Error())
				}
				for _, vi := range fr.Violations {
					if vi.Severity == linter.SeverityError || (lf.failOnWarn && vi.Severity == linter.SeverityWarning) {
						v = reject
						notes = append(notes, a+": finding of failing severity in "+fr.Filename)
					}
				}
			}
		}
	}()
	args := cat([]string{"lint", "-r"}, fl...)
	if pattern != "" {
		args = append(args, "--pattern", pattern)
	}
	args = cat(args, atoms...)
	d := describe(args, lintArgTree, nil) + "  " + strings.Join(notes, "\n  ") + "\n"
	c.Input(describe(args, lintArgTree, nil))
	r := sb.run(nil, nil, args...)
	exitOracle(c, "lint", "recursive:"+lf.class, "dirs", v, r, d)
	untouched(c, sb, lintArgTree, "modified-by-check-mode:lint", d)
	c.Outcome("lint-arg-forms:" + lf.class + ":" + v.String())
	if v == reject {
		c.NonTrivial()
	}
}

func lintFiles(c *common.Ctx, fl []string, files []file) {
	sb := newSandbox()
	defer sb.close()
	lf := parseLFlags(fl)
	var vs []verdict
	var notes []string
	for _, f := range files {
		v, det := lintVerdict(f.Content, f.Name, lf.maxLen, lf.failOnWarn)
		if f.missing() {
			v, det = reject, "the file does not exist"
		}
		vs = append(vs, v)
		notes = append(notes, f.Name+": "+det)
	}
	ov := overall(vs)
	args := cat(cat([]string{"lint"}, fl...), names(files)...)
	d := describe(args, files, nil) + "  " + strings.Join(notes, "\n  ") + "\n"
	c.Input(describe(args, files, nil))
	c.Sample(map[string]any{"cmd": "lint", "flags": lf.key, "files": classes(files), "library": ov.String()})
	if ov == reject {
		c.NonTrivial()
	}
	sb.put(files)
	r := sb.run(nil, nil, args...)
	if !lf.autofix {
		exitOracle(c, "lint", lf.class, "files", ov, r, d)
		untouched(c, sb, files, "modified-by-check-mode:lint", d)
		c.Outcome("lint-files:" + lf.class + ":" + ov.String())
		return
	}
	// --auto-fix: the property does not say whether the findings before or after the
	// fix decide the exit status; it is compared only when both give the same verdict.
	var after []verdict
	changed := false
	for _, f := range files {
		now, _ := sb.read(f.Name)
		if now != f.Content {
			changed = true
		}
		v, _ := lintVerdict(now, f.Name, lf.maxLen, lf.failOnWarn)
		if f.missing() {
			v = reject
		}
		after = append(after, v)
	}
	if changed {
		c.NonTrivial()
	}
	if oa := overall(after); oa == ov {
		exitOracle(c, "lint", lf.class, "files", ov, r, d)
		c.Outcome("lint-files:" + lf.class + ":" + ov.String())
	} else {
		c.Outcome("lint-files:" + lf.class + ":verdict-changed-by-fix")
	}
}

func lintStream(c *common.Ctx, fl []string, f file, stdin bool) {
	sb := newSandbox()
	defer sb.close()
	lf := parseLFlags(fl)
	mode := "inline"
	name := "inline"
	args := cat([]string{"lint"}, fl...)
	var in *string
	if stdin {
		mode, name = "stdin", "stdin"
		s := f.Content
		in = &s
	} else {
		args = append(args, f.Content)
	}
	v, det := lintVerdict(f.Content, name, lf.maxLen, lf.failOnWarn)
	if stdin && f.Content == "" {
		v = either // documented: empty stdin is an error
	}
	d := describe(args, nil, in) + "  " + det + "\n"
	c.Input(describe(args, nil, in))
	c.Sample(map[string]any{"cmd": "lint", "flags": lf.key, mode: f.Class, "library": v.String()})
	if v == reject {
		c.NonTrivial()
	}
	r := sb.run(nil, in, args...)
	// A stream cannot be fixed in place: the findings of the given input decide.
	exitOracle(c, "lint", lf.class, mode, v, r, d)
	c.Outcome("lint-" + mode + ":" + lf.class + ":" + v.String())
}

// ---------------------------------------------------------------- parse

var parseFlagSets = [][]string{
	{"-f", "json"},
	{"-f", "yaml"},
	{"-f", "table"},
	{"--tree"},
	{"--ast"},
	{},
	{"--tokens", "-f", "json"},
}

func enumParse(e *common.Enum) {
	all := append(append([]file{}, baseClasses...), validateClasses[1], validateClasses[3], missingFile)
	for _, fl := range parseFlagSets {
		key := strings.Join(fl, " ")
		if key == "" {
			key = "no-flags"
		}
		for _, f := range all {
			for _, mode := range []string{"file", "stdin", "inline"} {
				if mode == "inline" && !looksLikeSQL(f.Content) || mode != "file" && f.missing() {
					continue
				}
				fl, f, mode := fl, f, mode
				do(e, "parse-"+mode+"|"+key+"|"+f.Class, func(c *common.Ctx) { parseOne(c, fl, key, f, mode) })
			}
		}
	}
}

func parseOne(c *common.Ctx, fl []string, key string, f file, mode string) {
	sb := newSandbox()
	defer sb.close()
	v := fileVerdict(f, "")
	tokensOnly := len(fl) > 0 && fl[0] == "--tokens"
	args := cat([]string{"parse"}, fl...)
	var in *string
	var files []file
	switch mode {
	case "file":
		files = []file{f}
		args = append(args, f.Name)
	case "stdin":
		s := f.Content
		in = &s
		if s == "" {
			v = either
		}
	case "inline":
		args = append(args, f.Content)
	}
	d := describe(args, files, in)
	c.Input(d)
	c.Sample(map[string]any{"cmd": "parse", "flags": key, mode: f.Class, "library": v.String()})
	if v == reject {
		c.NonTrivial()
	}
	sb.put(files)
	r := sb.run(nil, in, args...)
	cls := strings.TrimLeft(strings.Join(fl, ""), "-")
	if cls == "" {
		cls = "default"
	}
	if tokensOnly {
		// --tokens stops after the tokenizer; "the library accepts" has no stated meaning for it
		if r.TimedOut {
			c.Fail("hang:parse", d)
		}
	} else {
		exitOracle(c, "parse", cls, mode, v, r, d)
	}
	untouched(c, sb, files, "modified-by-check-mode:parse", d)
	if len(fl) >= 2 && fl[len(fl)-1] == "json" && r.Exit == 0 && !r.TimedOut {
		var doc any
		dec := json.NewDecoder(strings.NewReader(r.Stdout))
		err := dec.Decode(&doc)
		if err == nil {
			if rest := strings.TrimSpace(r.Stdout[dec.InputOffset():]); rest != "" {
				err = fmt.Errorf("trailing data %q", common.Trim(rest, 80))
			}
		}
		if err != nil {
			c.Fail("bad-json:parse:"+mode, fmt.Sprintf("parse -f json exits 0 but its output is not a JSON document: %v\n%sstdout: %s", err, d, common.Trim(r.Stdout, 300)))
		}
	}
	c.Outcome("parse-" + mode + ":" + v.String())
}
