package c19

import (
	"fmt"
	"os"
	"os/exec"
	"path/filepath"
	"strconv"
	"strings"

	"verif/engine/common"
)

// scenario is one in-place rewrite whose crash points are enumerated.
type scenario struct {
	Name  string
	Cmd   string   // signature class: format-i | lint-fix
	Args  []string // without the file names
	Files []file
	quick bool
}

func scenarios() []scenario {
	u, v, i, f := baseClasses[1], baseClasses[0], baseClasses[3], baseClasses[2]
	tw, mi, tw2 := lintClasses[0], lintClasses[1], lintClasses[4]
	return []scenario{
		{"format-i:small", "format-i", []string{"format", "-i"}, []file{u}, true},
		{"format-i:large", "format-i", []string{"format", "-i"}, []file{bigFormat}, true},
		{"lint-fix:small", "lint-fix", []string{"lint", "--auto-fix"}, []file{tw}, true},
		{"lint-fix:large", "lint-fix", []string{"lint", "--auto-fix"}, []file{bigLint}, true},
		{"format-i:multi", "format-i", []string{"format", "-i"}, []file{u, i, v, f}, false},
		{"format-i:compact", "format-i", []string{"format", "--compact", "-i"}, []file{bigFormat}, false},
		{"format-i:indent4-lower", "format-i", []string{"format", "--indent", "4", "--uppercase=false", "-i"}, []file{v}, false},
		{"lint-fix:multi", "lint-fix", []string{"lint", "--auto-fix"}, []file{tw, i, mi, tw2}, false},
		{"lint-fix:error-file", "lint-fix", []string{"lint", "--auto-fix", "--fail-on-warn"}, []file{mi}, false},
	}
}

// reference: the complete new content of every file, from an un-faulted run on a copy.
var refNew = map[string]map[string]string{}

func (s scenario) reference() map[string]string {
	if m, ok := refNew[s.Name]; ok {
		return m
	}
	sb := newSandbox()
	defer sb.close()
	sb.put(s.Files)
	sb.run(nil, nil, cat(s.Args, names(s.Files)...)...)
	m := map[string]string{}
	for _, f := range s.Files {
		m[f.Name], _ = sb.read(f.Name)
	}
	refNew[s.Name] = m
	return m
}

func (s scenario) maxNew() int {
	n := 0
	for _, c := range s.reference() {
		if len(c) > n {
			n = len(c)
		}
	}
	return n
}

// afterFault evaluates the crash oracle: every file holds exactly its original or
// exactly its complete new bytes; a file whose processing failed holds the original.
func (s scenario) afterFault(c *common.Ctx, sb *sandbox, sigKind, how string) (state string) {
	ref := s.reference()
	state = "all-original"
	anyNew := false
	for _, f := range s.Files {
		got, exists := sb.read(f.Name)
		isOrig := exists && got == f.Content
		isNew := exists && got == ref[f.Name]
		mustStay := s.Cmd == "format-i" && libVerdict(f.Content, "") == reject
		switch {
		case mustStay && !isOrig:
			c.Fail("inplace-touched-failed-file:"+s.Cmd+":"+sigKind, fmt.Sprintf("%s is rejected by the library, yet after `%s` %s it holds %q (exists=%v), original %q",
				f.Name, strings.Join(s.Args, " "), how, common.Trim(got, 200), exists, common.Trim(f.Content, 200)))
			state = "torn"
		case !isOrig && !isNew:
			c.Fail("torn-write:"+s.Cmd+":"+sigKind, fmt.Sprintf("after `%s %s` %s, %s holds neither the original nor the new content: %d bytes %q (exists=%v); original %d bytes, new %d bytes %q",
				strings.Join(s.Args, " "), strings.Join(names(s.Files), " "), how, f.Name, len(got), common.Trim(got, 120), exists, len(f.Content), len(ref[f.Name]), common.Trim(ref[f.Name], 120)))
			state = "torn"
		case isNew && !isOrig:
			anyNew = true
		}
	}
	if state != "torn" && anyNew {
		state = "new-complete"
	}
	return state
}

func enumCrash(e *common.Enum) {
	if _, err := os.Stat(fsizePath()); err != nil {
		do(e, "harness|fsize-binary", func(c *common.Ctx) {
			c.Fail("harness:fsize-binary-missing", "tools/fsize was not built: "+err.Error())
		})
		return
	}
	for _, s := range scenarios() {
		if !s.quick && !e.Thorough() {
			continue
		}
		s := s
		n := s.maxNew()
		if n > 400 {
			e.Cap(fmt.Sprintf("crash scenario %s: new content has %d > 400 bytes; offsets above 400 not enumerated", s.Name, n))
			n = 400
		}
		for k := 0; k <= n; k++ {
			for _, mode := range []string{"err", "kill"} {
				k, mode := k, mode
				do(e, fmt.Sprintf("crash|%s|%s|k=%d", s.Name, mode, k), func(c *common.Ctx) { crashAt(c, s, k, mode) })
			}
		}
	}
}

func crashAt(c *common.Ctx, s scenario, k int, mode string) {
	sb := newSandbox()
	defer sb.close()
	args := cat(s.Args, names(s.Files)...)
	kind, how := "short-write", fmt.Sprintf("with every file write failing (EFBIG) after %d bytes", k)
	if mode == "kill" {
		kind, how = "killed", fmt.Sprintf("killed at the moment byte %d of a file is refused", k+1)
	}
	c.Input(fmt.Sprintf("RLIMIT_FSIZE=%d (%s) %s", k, mode, describe(args, s.Files, nil)))
	c.Sample(map[string]any{"scenario": s.Name, "fault": kind, "k": k})
	sb.put(s.Files)
	r := sb.run([]string{fsizePath(), strconv.Itoa(k), mode}, nil, args...)
	if r.TimedOut {
		c.Fail("hang:"+s.Cmd, "the CLI did not finish within 60 s\n"+describe(args, s.Files, nil))
		return
	}
	if r.Exit == 125 {
		c.Fail("harness:fsize-launcher", "launcher failed: "+r.Stderr)
		return
	}
	st := s.afterFault(c, sb, kind, how)
	// lint --auto-fix reports a failed write on stderr and still exits 0, so "the
	// fault fired" is also read off the result: not every file reached its new content
	fired := r.Killed || r.Exit != 0 || st != "new-complete"
	c.Count("rlimit_crash_points", 1)
	if fired {
		c.NonTrivial()
		c.Count("rlimit_faults_fired", 1)
		c.Outcome("crash:" + s.Cmd + ":" + kind + ":" + st)
	} else {
		c.Outcome("crash:" + s.Cmd + ":limit-not-reached:" + st)
	}
}

// ---------------------------------------------------------------- strace injection (thorough)

var straceSyscalls = []string{"openat", "write", "pwrite64", "fsync", "fdatasync", "rename", "renameat", "renameat2",
	"close", "fchmod", "fchmodat", "chmod", "unlink", "unlinkat", "ftruncate", "newfstatat", "read"}

// straceWorks probes that strace can inject a fault in this sandbox.
func straceWorks() (bool, string) {
	p, err := exec.LookPath("strace")
	if err != nil {
		return false, "strace not installed"
	}
	out, err := exec.Command(p, "-f", "-qq", "-o", "/dev/null", "-e", "trace=getpid", "-e", "inject=getpid:error=EIO:when=1", "/bin/true").CombinedOutput()
	if err != nil {
		return false, "strace injection probe failed: " + err.Error() + " " + common.Trim(string(out), 200)
	}
	return true, ""
}

func enumStrace(e *common.Enum) {
	if !e.Thorough() {
		return
	}
	if ok, why := straceWorks(); !ok {
		e.Cap("strace crash points skipped: " + why)
		return
	}
	for _, s := range scenarios() {
		if !strings.HasSuffix(s.Name, ":small") && !strings.HasSuffix(s.Name, ":multi") {
			continue
		}
		for _, sc := range straceSyscalls {
			for _, mode := range []string{"error", "kill"} {
				s, sc, mode := s, sc, mode
				do(e, fmt.Sprintf("strace|%s|%s|%s", s.Name, sc, mode), func(c *common.Ctx) { straceAll(c, s, sc, mode) })
			}
		}
	}
}

// straceAll injects the fault at the 1st, 2nd, ... occurrence of the system call
// until an occurrence number is reached that the run never gets to.
func straceAll(c *common.Ctx, s scenario, sc, mode string) {
	args := cat(s.Args, names(s.Files)...)
	c.Input(fmt.Sprintf("strace inject=%s:%s:when=1.. %s", sc, mode, describe(args, s.Files, nil)))
	c.Sample(map[string]any{"scenario": s.Name, "fault": "strace " + sc + " " + mode})
	kind := "syscall-error"
	if mode == "kill" {
		kind = "syscall-kill"
	}
	const limit = 300
	for n := 1; ; n++ {
		if n > limit {
			c.Enum().Cap(fmt.Sprintf("strace %s %s: more than %d occurrences of %s", s.Name, mode, limit, sc))
			return
		}
		sb := newSandbox()
		sb.put(s.Files)
		log := filepath.Join(sb.root, "strace.log")
		inj := fmt.Sprintf("inject=%s:error=EIO:when=%d", sc, n)
		if mode == "kill" {
			inj = fmt.Sprintf("inject=%s:signal=KILL:when=%d", sc, n)
		}
		r := sb.run([]string{"strace", "-f", "-qq", "-o", log, "-e", "trace=" + sc, "-e", inj}, nil, args...)
		lb, _ := os.ReadFile(log)
		lg := string(lb)
		if strings.Contains(r.Stderr, "invalid system call") || strings.Contains(r.Stderr, "strace: ") && lg == "" {
			sb.close()
			c.Outcome("strace:" + sc + ":not-a-syscall-here")
			return
		}
		fired := strings.Contains(lg, "(INJECTED)") || strings.Contains(lg, "killed by SIGKILL") || (mode == "kill" && r.Killed)
		if !fired {
			sb.close()
			if n == 1 {
				c.Outcome("strace:" + sc + ":never-called")
			}
			return
		}
		c.NonTrivial()
		c.Count("strace_faults_injected", 1)
		how := fmt.Sprintf("with occurrence %d of %s failing with EIO", n, sc)
		if mode == "kill" {
			how = fmt.Sprintf("killed on entry to occurrence %d of %s", n, sc)
		}
		st := s.afterFault(c, sb, kind, how)
		c.Outcome("strace:" + s.Cmd + ":" + kind + ":" + st)
		sb.close()
		if r.TimedOut {
			c.Fail("hang:"+s.Cmd, "the CLI did not finish within 60 s under strace")
			return
		}
	}
}
