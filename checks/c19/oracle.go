package c19

import (
	"fmt"
	"strings"

	"github.com/ajitpratap0/GoSQLX/pkg/gosqlx"
	"github.com/ajitpratap0/GoSQLX/pkg/linter"
	kwrules "github.com/ajitpratap0/GoSQLX/pkg/linter/rules/keywords"
	"github.com/ajitpratap0/GoSQLX/pkg/linter/rules/style"
	"github.com/ajitpratap0/GoSQLX/pkg/linter/rules/whitespace"
	"github.com/ajitpratap0/GoSQLX/pkg/sql/keywords"
	"github.com/ajitpratap0/GoSQLX/pkg/sql/parser"
)

// verdict of the library on one input.
type verdict int

const (
	accept verdict = iota
	reject
	// either: the library's own entry points disagree on this input (the empty and
	// the blank input: parser.Validate accepts them, gosqlx.Validate / gosqlx.Parse
	// reject them), or the library panicked.  Both CLI answers are defensible, so
	// no exit-status clause is evaluated for a scenario that hinges on such an input.
	either
)

func (v verdict) String() string { return [...]string{"accept", "reject", "either"}[v] }

// libVerdict asks the library, in-process, whether it accepts the SQL text.
// The call the CLI documents for `validate` is parser.Validate /
// parser.ValidateWithDialect (cmd/validate.go, validateInlineSQL); format and
// parse run the same tokenizer+parser pipeline that gosqlx.Validate wraps.  The
// verdict is "accept"/"reject" only when those entry points agree (their mutual
// agreement in general is property C07, not this one).
func libVerdict(sql, dialect string) (v verdict) {
	defer func() {
		if r := recover(); r != nil {
			v = either
		}
	}()
	if strings.TrimSpace(sql) == "" {
		return either
	}
	if dialect != "" {
		if parser.ValidateWithDialect(sql, keywords.SQLDialect(dialect)) == nil {
			return accept
		}
		return reject
	}
	a := parser.Validate(sql) == nil
	b := gosqlx.Validate(sql) == nil
	if a != b {
		return either
	}
	if a {
		return accept
	}
	return reject
}

// overall combines per-input verdicts: reject if any input is rejected, accept if
// all are accepted, either otherwise.
func overall(vs []verdict) verdict {
	r := accept
	for _, v := range vs {
		if v == reject {
			return reject
		}
		if v == either {
			r = either
		}
	}
	return r
}

// newLinter mirrors the rule set the CLI documents for `gosqlx lint`
// (L001..L010 with the defaults shown in cmd/lint.go createLinter; --max-length
// feeds L005).
func newLinter(maxLength int) *linter.Linter {
	return linter.New(
		whitespace.NewTrailingWhitespaceRule(),
		whitespace.NewMixedIndentationRule(),
		whitespace.NewConsecutiveBlankLinesRule(1),
		whitespace.NewIndentationDepthRule(4, 4),
		whitespace.NewLongLinesRule(maxLength),
		whitespace.NewRedundantWhitespaceRule(),
		style.NewColumnAlignmentRule(),
		style.NewCommaPlacementRule(style.CommaTrailing),
		style.NewAliasingConsistencyRule(true),
		kwrules.NewKeywordCaseRule(kwrules.CaseUpper),
	)
}

// lintVerdict: reject when the library linter fails on the input or reports a
// finding of failing severity (error always; warning with --fail-on-warn).
func lintVerdict(sql, name string, maxLength int, failOnWarn bool) (v verdict, detail string) {
	defer func() {
		if r := recover(); r != nil {
			v, detail = either, fmt.Sprint("library linter panicked: ", r)
		}
	}()
	fr := newLinter(maxLength).LintString(sql, name)
	if fr.Error != nil {
		return reject, "linter error: " + fr.Error.Error()
	}
	ne, nw, ni := 0, 0, 0
	for _, vi := range fr.Violations {
		switch vi.Severity {
		case linter.SeverityError:
			ne++
		case linter.SeverityWarning:
			nw++
		default:
			ni++
		}
	}
	detail = fmt.Sprintf("library linter: %d error(s), %d warning(s), %d info", ne, nw, ni)
	if ne > 0 || (failOnWarn && nw > 0) {
		return reject, detail
	}
	return accept, detail
}
