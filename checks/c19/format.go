package c19

import (
	"fmt"
	"strings"

	"verif/engine/common"
)

// format style flag sets: singles and every compatible pair.
var styleSingles = [][]string{
	{},
	{"--compact"},
	{"--no-uppercase"},
	{"--uppercase=false"},
	{"--indent", "0"},
	{"--indent", "4"},
	{"--max-line", "20"},
}

func stylePairs() [][]string {
	var out [][]string
	for i := 1; i < len(styleSingles); i++ {
		for j := i + 1; j < len(styleSingles); j++ {
			a, b := styleSingles[i], styleSingles[j]
			if a[0] == b[0] { // --indent 0 with --indent 4
				continue
			}
			if strings.Contains(a[0], "uppercase") && strings.Contains(b[0], "uppercase") {
				continue
			}
			out = append(out, cat(a, b...))
		}
	}
	return out
}

func styleKey(st []string) string {
	if len(st) == 0 {
		return "default"
	}
	return strings.Join(st, " ")
}

// refCache: content of a file after an un-faulted `format <style> -i` of a
// single-file copy, keyed by style and content (a deterministic function of both).
var refCache = map[string]string{}

func inplaceRef(st []string, content string) string {
	k := styleKey(st) + "\x00" + content
	if v, ok := refCache[k]; ok {
		return v
	}
	sb := newSandbox()
	defer sb.close()
	sb.putOne("ref.sql", content)
	sb.run(nil, nil, cat(cat([]string{"format"}, st...), "-i", "ref.sql")...)
	v, _ := sb.read("ref.sql")
	refCache[k] = v
	return v
}

func enumFormat(e *common.Enum) {
	b := baseClasses
	canon := subsets(b, 3, false)
	single := subsets(b, 1, false)
	type job struct {
		st   []string
		sets [][]file
	}
	var jobs []job
	var styles [][]string // for the stdin / inline variants
	var modeSets [][]file
	if e.Thorough() {
		all := subsets(b, 3, true)
		for _, st := range append(append([][]string{}, styleSingles...), stylePairs()...) {
			jobs = append(jobs, job{st, all})
		}
		styles = append(append(styles, styleSingles...), stylePairs()...)
		modeSets = all
	} else {
		// quick: all 41 sets (plus the pairs in reverse order) under the default style and
		// all sets under --compact; the other single styles on every single class and two
		// mixed triples; style pairs on the two classes that formatting changes.
		var rev [][]file
		for _, s := range canon {
			if len(s) == 2 {
				rev = append(rev, []file{s[1], s[0]})
			}
		}
		small := append(append([][]file{}, single...), []file{b[1], b[3], b[0]}, []file{b[2], b[4], b[5]})
		for i, st := range styleSingles {
			switch i {
			case 0:
				jobs = append(jobs, job{st, append(append([][]file{}, canon...), rev...)})
			case 1:
				jobs = append(jobs, job{st, canon})
			default:
				jobs = append(jobs, job{st, small})
			}
		}
		for _, st := range stylePairs() {
			jobs = append(jobs, job{st, [][]file{{b[1]}, {b[0]}}})
		}
		styles = styleSingles
		modeSets = subsets(b, 2, false)
	}
	// a file that is named but does not exist, alone and mixed (default style)
	jobs = append(jobs, job{styleSingles[0], [][]file{{missingFile}, {b[1], missingFile}, {missingFile, b[0], b[3]}}})
	for _, j := range jobs {
		for _, fs := range j.sets {
			st, fs := j.st, fs
			do(e, "format-files|"+styleKey(st)+"|"+setKey(fs), func(c *common.Ctx) { formatRelation(c, st, fs) })
		}
	}
	// per-file independence: what a multi-file run writes for (prints for) one file is what a run on that file alone
	// writes - whatever happened to the files before it, including files the library accepts but the formatter cannot
	// render (statement kinds it does not support, alone and after other statements)
	ind := append(append([]file{}, baseClasses[:4]...), unformattable...)
	indSets := subsets(ind, 2, true)
	if e.Thorough() {
		indSets = subsets(ind, 3, true)
	}
	for _, fs := range indSets {
		if len(fs) < 2 {
			continue
		}
		fs := fs
		do(e, "format-independence|"+setKey(fs), func(c *common.Ctx) { formatIndependence(c, fs) })
	}
	// stdin and inline variants: every class x style set
	for _, st := range styles {
		for _, f := range baseClasses {
			st, f := st, f
			do(e, "format-stdin|"+styleKey(st)+"|"+f.Class, func(c *common.Ctx) { formatStdin(c, st, f) })
			if looksLikeSQL(f.Content) {
				do(e, "format-inline|"+styleKey(st)+"|"+f.Class, func(c *common.Ctx) { formatInline(c, st, f) })
			}
		}
	}
	// mode flag pairs (and -v)
	modes := [][]string{{"-i", "--check"}, {"--check", "-i"}, {"--check", "--compact", "-i"}, {"-i", "--check", "-o", "out.txt"}, {"-i", "-o", "out.txt"}, {"--check", "-o", "out.txt"}, {"-i", "-v"}, {"--check", "-v"}, {"-v"}}
	for _, m := range modes {
		for _, fs := range modeSets {
			m, fs := m, fs
			do(e, "format-modes|"+strings.Join(m, " ")+"|"+setKey(fs), func(c *common.Ctx) { formatModes(c, m, fs) })
		}
	}
}

// formatRelation runs one file set under one style as stdout / --check / -i /
// --check again / -o and evaluates every clause of the property about format.
func formatRelation(c *common.Ctx, st []string, files []file) {
	sb := newSandbox()
	defer sb.close()
	vs, ov := verdicts(files, "")
	base := cat([]string{"format"}, st...)
	nm := names(files)
	c.Input(describe(cat(base, nm...), files, nil))
	c.Sample(map[string]any{"cmd": "format", "style": styleKey(st), "files": classes(files), "library": ov.String()})
	if ov == reject {
		c.NonTrivial()
	}

	// 1. to stdout
	sb.put(files)
	args := cat(base, nm...)
	r1 := sb.run(nil, nil, args...)
	d1 := describe(args, files, nil)
	ok1 := exitOracle(c, "format", "stdout", "files", ov, r1, d1)
	// Not listed as "check-only" in the property, but the comparisons below are about
	// "the same input": a plain format that rewrote its input would confound them.
	untouched(c, sb, files, "modified-by-check-mode:format-stdout", d1)

	// 2. --check
	sb.put(files)
	args = cat(cat(base, "--check"), nm...)
	r2 := sb.run(nil, nil, args...)
	d2 := describe(args, files, nil)
	untouched(c, sb, files, "modified-by-check-mode:format-check", d2)

	// 3. -i
	sb.put(files)
	args = cat(cat(base, "-i"), nm...)
	r3 := sb.run(nil, nil, args...)
	d3 := describe(args, files, nil)
	ok3 := exitOracle(c, "format", "inplace", "files", ov, r3, d3)
	newc := map[string]string{}
	would := false
	for i, f := range files {
		n, _ := sb.read(f.Name)
		newc[f.Name] = n
		if vs[i] == reject {
			if d := sb.touchedFile(f); d != "" {
				c.Fail("inplace-touched-failed-file:format", fmt.Sprintf("format -i modified %s (%s) although the library rejects it: %s\n%s", f.Name, f.Class, d, d3))
			}
			continue
		}
		if n != f.Content {
			would = true
			c.NonTrivial()
		}
	}
	if would {
		c.Outcome("format:inplace-changed")
	} else {
		c.Outcome("format:inplace-unchanged")
	}

	// stdout == what -i writes (per successfully processed file, up to one trailing newline)
	if ok1 && ok3 && !r1.TimedOut {
		var parts []string
		for i, f := range files {
			if vs[i] != reject {
				parts = append(parts, newc[f.Name])
			}
		}
		if !concatMatches(r1.Stdout, parts) {
			c.Fail("stdout-vs-inplace:files", fmt.Sprintf("format prints %q but format -i writes %q (files the library accepts, in order)\n%s", common.Trim(r1.Stdout, 300), parts, d1))
		}
	}

	// --check verdict <=> -i would change a file
	if !r2.TimedOut {
		switch {
		case ov == reject:
			exitOracle(c, "format", "check", "files", ov, r2, d2)
		case would && r2.Exit == 0:
			c.Fail("check-vs-inplace:files", fmt.Sprintf("format --check exits 0 although format -i changes a file\n%s", d2))
		case !would && r2.Exit != 0 && ov == accept:
			c.Fail("check-vs-inplace:files", fmt.Sprintf("format --check exits %d although format -i changes no file and the library accepts every input\n%sstderr: %s", r2.Exit, d2, common.Trim(r2.Stderr, 300)))
		}
	}

	// 4. --check after -i exits 0 and still modifies nothing
	if ov != reject {
		var after []file
		for _, f := range files {
			sb.age(f.Name)
			after = append(after, file{f.Name, newc[f.Name], f.Class})
		}
		args = cat(cat(base, "--check"), nm...)
		r4 := sb.run(nil, nil, args...)
		d4 := "after format -i:\n" + describe(args, after, nil)
		if r4.Exit != 0 && ov == accept {
			c.Fail("check-after-inplace", fmt.Sprintf("format --check exits %d right after format -i with the same options\n%sstderr: %s", r4.Exit, d4, common.Trim(r4.Stderr, 300)))
		}
		untouched(c, sb, after, "modified-by-check-mode:format-check", d4)
	}

	// 5. -o file
	sb.put(files)
	args = cat(cat(base, "-o", "out.txt"), nm...)
	r5 := sb.run(nil, nil, args...)
	d5 := describe(args, files, nil)
	ok5 := exitOracle(c, "format", "output-file", "files", ov, r5, d5)
	untouched(c, sb, files, "modified-by-check-mode:format-output-file", d5)
	if ok5 && len(files) == 1 && vs[0] == accept {
		got, exists := sb.read("out.txt")
		if !exists || !eqNL(got, newc[files[0].Name]) {
			c.Fail("stdout-vs-inplace:output-file", fmt.Sprintf("format -o writes %q (exists=%v) but format -i writes %q\n%s", common.Trim(got, 300), exists, common.Trim(newc[files[0].Name], 300), d5))
		}
	}
	c.Outcome("format-files:" + ov.String())
}

// unformattable: inputs every library entry point accepts but the CLI formatter gives up on.
var unformattable = []file{
	{"t1.sql", "TRUNCATE TABLE t;\n", "unformattable"},
	{"t2.sql", "delete from sessions where id = 1;\nTRUNCATE TABLE t;\n", "unformattable-after-output"},
	{"t3.sql", "with x as (select 1) select a from x where a in (select 2);\nSHOW TABLES;\n", "unformattable-after-nesting"},
}

func formatIndependence(c *common.Ctx, files []file) {
	sb := newSandbox()
	defer sb.close()
	nm := names(files)
	c.Input(describe(cat([]string{"format", "-i"}, nm...), files, nil))
	// reference: each file alone
	alone := map[string]string{}
	aloneOut := map[string]string{}
	for _, f := range files {
		sb.put([]file{f})
		sb.run(nil, nil, "format", "-i", f.Name)
		n, _ := sb.read(f.Name)
		alone[f.Name] = n
		sb.put([]file{f})
		aloneOut[f.Name] = sb.run(nil, nil, "format", f.Name).Stdout
	}
	sb.put(files)
	args := cat([]string{"format", "-i"}, nm...)
	sb.run(nil, nil, args...)
	d := describe(args, files, nil)
	for _, f := range files {
		n, _ := sb.read(f.Name)
		if n != alone[f.Name] {
			c.Fail("inplace-depends-on-other-files", fmt.Sprintf("format -i on several files writes %q into %s (%s), format -i on that file alone writes %q\n%s", common.Trim(n, 300), f.Name, f.Class, common.Trim(alone[f.Name], 300), d))
		}
		if n != f.Content {
			c.NonTrivial()
		}
	}
	sb.put(files)
	args = cat([]string{"format"}, nm...)
	r := sb.run(nil, nil, args...)
	var parts []string
	for _, f := range files {
		if aloneOut[f.Name] != "" {
			parts = append(parts, aloneOut[f.Name])
		}
	}
	if !r.TimedOut && !concatMatches(r.Stdout, parts) {
		c.Fail("stdout-depends-on-other-files", fmt.Sprintf("format on several files prints %q, the single-file runs print %q in turn\n%s", common.Trim(r.Stdout, 400), parts, describe(args, files, nil)))
	}
	// --check: a file is reported iff it is reported alone (exit status only: 0 iff every single run exits 0)
	want := 0
	for _, f := range files {
		sb.put([]file{f})
		if sb.run(nil, nil, "format", "--check", f.Name).Exit != 0 {
			want = 1
		}
	}
	sb.put(files)
	rc := sb.run(nil, nil, cat([]string{"format", "--check"}, nm...)...)
	if (rc.Exit != 0) != (want != 0) {
		c.Fail("check-depends-on-other-files", fmt.Sprintf("format --check on several files exits %d, the single-file runs say %d\n%s", rc.Exit, want, d))
	}
	c.Outcome("format-independence")
}

func formatStdin(c *common.Ctx, st []string, f file) {
	sb := newSandbox()
	defer sb.close()
	v := libVerdict(f.Content, "")
	base := cat([]string{"format"}, st...)
	in := f.Content
	c.Input(describe(base, nil, &in))
	c.Sample(map[string]any{"cmd": "format", "style": styleKey(st), "stdin": f.Class, "library": v.String()})
	ref := inplaceRef(st, f.Content)
	if v == reject || ref != f.Content {
		c.NonTrivial()
	}
	if f.Content == "" {
		// the CLI documents that empty stdin is an error; the library's entry points disagree on ""
		v = either
	}
	r := sb.run(nil, &in, base...)
	d := describe(base, nil, &in)
	if exitOracle(c, "format", "stdout", "stdin", v, r, d) && v == accept && !eqNL(r.Stdout, ref) {
		c.Fail("stdout-vs-inplace:stdin", fmt.Sprintf("format of stdin prints %q but format -i of a file with the same bytes writes %q\n%s", common.Trim(r.Stdout, 300), common.Trim(ref, 300), d))
	}
	args := cat(base, "--check")
	r = sb.run(nil, &in, args...)
	d = describe(args, nil, &in)
	switch {
	case r.TimedOut:
		c.Fail("hang:format", d)
	case v == reject:
		exitOracle(c, "format", "check", "stdin", v, r, d)
	case v == accept && (ref != f.Content) != (r.Exit != 0):
		c.Fail("check-vs-inplace:stdin", fmt.Sprintf("format --check of stdin exits %d; format -i of a file with the same bytes changes it: %v\n%s", r.Exit, ref != f.Content, d))
	}
	args = cat(base, "-o", "out.txt")
	r = sb.run(nil, &in, args...)
	d = describe(args, nil, &in)
	if exitOracle(c, "format", "output-file", "stdin", v, r, d) && v == accept {
		got, exists := sb.read("out.txt")
		if !exists || !eqNL(got, ref) {
			c.Fail("stdout-vs-inplace:stdin-output-file", fmt.Sprintf("format -o of stdin writes %q (exists=%v) but format -i writes %q\n%s", common.Trim(got, 300), exists, common.Trim(ref, 300), d))
		}
	}
	c.Outcome("format-stdin:" + v.String())
}

func formatInline(c *common.Ctx, st []string, f file) {
	sb := newSandbox()
	defer sb.close()
	v := libVerdict(f.Content, "")
	base := cat([]string{"format"}, st...)
	args := cat(base, f.Content)
	c.Input(describe(args, nil, nil))
	c.Sample(map[string]any{"cmd": "format", "style": styleKey(st), "inline": f.Class, "library": v.String()})
	ref := inplaceRef(st, f.Content)
	if v == reject || ref != f.Content {
		c.NonTrivial()
	}
	r := sb.run(nil, nil, args...)
	d := describe(args, nil, nil)
	if exitOracle(c, "format", "stdout", "inline", v, r, d) && v == accept && !eqNL(r.Stdout, ref) {
		c.Fail("stdout-vs-inplace:inline", fmt.Sprintf("format of inline SQL prints %q but format -i of a file with the same bytes writes %q\n%s", common.Trim(r.Stdout, 300), common.Trim(ref, 300), d))
	}
	args = cat(cat(base, "--check"), f.Content)
	r = sb.run(nil, nil, args...)
	d = describe(args, nil, nil)
	switch {
	case r.TimedOut:
		c.Fail("hang:format", d)
	case v == reject:
		exitOracle(c, "format", "check", "inline", v, r, d)
	case v == accept && (ref != f.Content) != (r.Exit != 0):
		c.Fail("check-vs-inplace:inline", fmt.Sprintf("format --check of inline SQL exits %d; format -i of a file with the same bytes changes it: %v\n%s", r.Exit, ref != f.Content, d))
	}
	c.Outcome("format-inline:" + v.String())
}

// formatModes: combinations of the mode flags.  Whether -i or -o wins is not
// stated by the property, so for that pair only clauses that hold under either
// reading are evaluated (a rejected input means a non-zero exit; with -i a rejected
// file is untouched).  A run given --check is a check-only run ("--check only
// reports"): nothing is modified and the verdict is the --check verdict, whatever
// other mode flag accompanies it.
func formatModes(c *common.Ctx, mode []string, files []file) {
	sb := newSandbox()
	defer sb.close()
	vs, ov := verdicts(files, "")
	args := cat(cat([]string{"format"}, mode...), names(files)...)
	d := describe(args, files, nil)
	c.Input(d)
	c.Sample(map[string]any{"cmd": "format", "modes": strings.Join(mode, " "), "files": classes(files), "library": ov.String()})
	has := func(s string) bool {
		for _, m := range mode {
			if m == s {
				return true
			}
		}
		return false
	}
	would := false
	var style []string // style flags among the mode flags: the reference -i run uses the same ones
	for _, m := range mode {
		if m == "--compact" {
			style = append(style, m)
		}
	}
	for i, f := range files {
		if vs[i] != reject && inplaceRef(style, f.Content) != f.Content {
			would = true
		}
	}
	if ov == reject || would {
		c.NonTrivial()
	}
	sb.put(files)
	r := sb.run(nil, nil, args...)
	var fl []string
	for _, m := range mode {
		if strings.HasPrefix(m, "-") {
			fl = append(fl, strings.TrimLeft(m, "-"))
		}
	}
	cls := strings.Join(fl, "+") // e.g. "i+check", "check+o"
	switch {
	case has("--check") && !has("-i"):
		untouched(c, sb, files, "modified-by-check-mode:format-check", d)
		switch {
		case r.TimedOut:
			c.Fail("hang:format", d)
		case ov == reject:
			exitOracle(c, "format", cls, "files", ov, r, d)
		case ov == accept && would != (r.Exit != 0):
			c.Fail("check-vs-inplace:files", fmt.Sprintf("format %s exits %d; format -i changes a file: %v\n%s", strings.Join(mode, " "), r.Exit, would, d))
		}
	case has("--check") && has("-i"):
		// --check "only reports" (CI mode): a run that was asked to check is a check-only run whatever else it was asked,
		// so nothing is modified and the verdict is the --check verdict
		untouched(c, sb, files, "modified-by-check-mode:format-check+i", d)
		switch {
		case r.TimedOut:
			c.Fail("hang:format", d)
		case ov == reject:
			exitOracle(c, "format", cls, "files", ov, r, d)
		case ov == accept && would != (r.Exit != 0):
			c.Fail("check-vs-inplace:files", fmt.Sprintf("format %s exits %d; format -i changes a file: %v\n%s", strings.Join(mode, " "), r.Exit, would, d))
		}
	default:
		exitOracle(c, "format", cls, "files", ov, r, d)
	}
	if has("-i") && !has("--check") {
		for i, f := range files {
			if vs[i] == reject {
				if t := sb.touchedFile(f); t != "" {
					c.Fail("inplace-touched-failed-file:format", fmt.Sprintf("format %s modified %s (%s) although the library rejects it: %s\n%s", strings.Join(mode, " "), f.Name, f.Class, t, d))
				}
			}
		}
	} else if !has("-i") {
		untouched(c, sb, files, "modified-by-check-mode:format-"+strings.TrimLeft(mode[0], "-"), d)
	}
	c.Outcome("format-modes:" + ov.String())
}
