// Package c10 decides property C10 — "Concurrent use gives the sequential results,
// race-free, with exact metrics" — by stateless exploration of goroutine schedules
// of the REAL library code under a controlled scheduler (engine/sched), plus a
// supplementary free-running pass under the race detector.
//
// Space.  Four harness families (checks/c10/harness): H1 metrics recordings (2–3
// threads), H2 every unordered pair of 10 public pipeline operations, H3 hold vs
// release, H4 first use of lazily initialised state.  For each instance EVERY
// schedule — sequence of decisions "which thread performs its next synchronisation
// operation" at every sync/atomic operation of the library, and "which pooled object
// does sync.Pool.Get return" — within the instance's cost bound is executed exactly
// once, cheapest first (iterative preemption bounding).  The cost of a schedule is
// (#preemptions = switches away from a thread that could have continued,
// #pool deviations = Get answers other than "most recently put object").
//
// Oracle (exactly the property text): every operation returns what it returns when
// run alone (sequential table computed beforehand); no deadlock; no panic; after all
// threads have finished GetStats() totals equal the true values (operations, errors,
// bytes, smallest and largest query, per-error-type counts); a tree held by one
// goroutine is not changed by another goroutine's parse/release; the race detector
// reports nothing in the free-running pass.  Durations and timestamps are never
// compared.
//
// Sharding.  The schedule tree of an instance is partitioned into single schedules
// (case key "<instance>/<bound>/node=<non-default choices>") and complete subtrees
// ("…/subtree=<non-default choices>": that schedule and every schedule extending its
// list of non-default choices at later positions).  Early — large — subtrees are split
// one or two levels deeper so that no case dominates.  Replaying a key re-explores
// exactly that part, deterministically; a failure message contains the failing
// schedule (choice list) and a trace with call sites.
package c10

import (
	"encoding/json"
	"fmt"
	"os"
	"sort"
	"strings"

	"verif/engine/common"
)

// caseStat is what a case appends to the per-run statistics file (aggregated by the
// parent into the evidence: counters of engine/common can only be summed).
type caseStat struct {
	Family    string           `json:"f"`
	Instance  string           `json:"i"`
	Schedules int64            `json:"s"`
	MaxPoints int              `json:"p"`
	MaxChoice int              `json:"c"`
	Outcomes  map[string]int64 `json:"o"`
	ByCost    map[string]int64 `json:"b"`
	Diverged  int64            `json:"d,omitempty"`
	Unstable  int64            `json:"u,omitempty"`
}

func statPath(tier string) string { return common.Work("run", "c10-stats-"+tier+".jsonl") }

func isParent() bool {
	for _, a := range os.Args {
		if a == "--worker" || a == "--replay" || a == "--replay-key" {
			return false
		}
	}
	return true
}

func appendStat(tier string, s caseStat) {
	b, _ := json.Marshal(s)
	f, err := os.OpenFile(statPath(tier), os.O_APPEND|os.O_CREATE|os.O_WRONLY, 0o644)
	if err != nil {
		return
	}
	f.Write(append(b, '\n'))
	f.Close()
}

// Check returns the C10 check.
func Check() *common.Check {
	if isParent() {
		os.Remove(statPath("quick"))
		os.Remove(statPath("thorough"))
	}
	return &common.Check{
		ID:    "C10",
		Level: "exploration",
		Rule: "one case = one part of the schedule tree of one harness instance: a single schedule (key …/node=<choices>) or the complete subtree below it (…/subtree=<choices>); " +
			"the parts partition the space, and inside a subtree every schedule within the instance's bound is executed exactly once on the real code, cheapest first. " +
			"Bounds (preemptions p, pool deviations d; the bound of each instance is part of its case keys, e.g. p2d0+p1d1 = (p≤2,d=0) ∪ (p≤1,d≤1), pinf = complete interleaving space): " +
			"quick: H1/2thr/tok3|tok9 complete, other H1 p≤2…4; H2 (55 unordered pairs of 10 operations) and H3: p2d0+p1d1; H4: p2d1. " +
			"thorough: all H1 two-thread single-recording instances complete, other H1 p≤3…4; H2/H3: p3d0+p2d1+p1d2; H4: p3d2. " +
			"Scheduling points = every sync / sync/atomic operation of the library (overlay-instrumented at build time from the current tree). " +
			"non-trivial = the part's root schedule has cost ≥ 1 (at least one real preemption or non-default pool answer). " +
			"race/<family> cases are the free-running -race pass (real sync package, 32 goroutines × ≥150 rounds): supplementary sampling, not coverage",
		Assume: []string{
			"Go atomics are sequentially consistent, so interleaving at sync/atomic operations is an exact model of their behaviour; plain-memory races are only sampled by the -race pass",
			"sync.Pool is modelled by its contract (Get returns any pooled object or a new one), which over-approximates the real per-P caches",
			"2–3 goroutines per instance, not 4×cores; schedules above the stated preemption / deviation bounds are not explored",
			"the shim packages (engine/shim) faithfully model Mutex, RWMutex (writer preference), Once, WaitGroup",
			"standard-library internals (regexp, fmt, strings.Builder) are not instrumented",
			"ast.SetSpan's unguarded map (pkg/sql/ast/span.go) is not written by any explored operation and is not covered",
		},
		CrashSafe: true,
		Enumerate: enumerate,
		Extra:     extra,
	}
}

// extra aggregates the per-case statistics file into the evidence.
func extra(tier string) map[string]any {
	b, err := os.ReadFile(statPath(tier))
	if err != nil {
		return map[string]any{"schedule_statistics": "not available"}
	}
	type agg struct {
		Instances       map[string]bool  `json:"-"`
		NInstances      int              `json:"instances"`
		Schedules       int64            `json:"schedules"`
		MaxPoints       int              `json:"max_points_per_execution"`
		MaxChoicePoints int              `json:"max_choice_points_per_execution"`
		Outcomes        map[string]int64 `json:"final_outcomes"`
		NOutcomes       int              `json:"distinct_final_outcomes"`
		ByCost          map[string]int64 `json:"schedules_by_cost"`
		Diverged        int64            `json:"replay_divergences"`
		Unstable        int64            `json:"unstable_observations"`
	}
	fam := map[string]*agg{}
	perInst := map[string]int64{}
	for _, line := range strings.Split(string(b), "\n") {
		var s caseStat
		if json.Unmarshal([]byte(line), &s) != nil || s.Family == "" {
			continue
		}
		a := fam[s.Family]
		if a == nil {
			a = &agg{Instances: map[string]bool{}, Outcomes: map[string]int64{}, ByCost: map[string]int64{}}
			fam[s.Family] = a
		}
		a.Instances[s.Instance] = true
		a.Schedules += s.Schedules
		perInst[s.Instance] += s.Schedules
		if s.MaxPoints > a.MaxPoints {
			a.MaxPoints = s.MaxPoints
		}
		if s.MaxChoice > a.MaxChoicePoints {
			a.MaxChoicePoints = s.MaxChoice
		}
		for k, v := range s.Outcomes {
			a.Outcomes[k] += v
		}
		for k, v := range s.ByCost {
			a.ByCost[k] += v
		}
		a.Diverged += s.Diverged
		a.Unstable += s.Unstable
	}
	out := map[string]any{}
	var total int64
	for f, a := range fam {
		a.NInstances = len(a.Instances)
		a.NOutcomes = len(a.Outcomes)
		if len(a.Outcomes) > 24 {
			// keep the evidence readable: largest classes only
			type kv struct {
				k string
				v int64
			}
			var l []kv
			for k, v := range a.Outcomes {
				l = append(l, kv{k, v})
			}
			sort.Slice(l, func(i, j int) bool { return l[i].v > l[j].v || (l[i].v == l[j].v && l[i].k < l[j].k) })
			a.Outcomes = map[string]int64{}
			for _, e := range l[:24] {
				a.Outcomes[e.k] = e.v
			}
		}
		out[f] = a
		total += a.Schedules
	}
	var h1 []string
	for i, n := range perInst {
		if strings.HasPrefix(i, "H1/") {
			h1 = append(h1, fmt.Sprintf("%s=%d", i, n))
		}
	}
	sort.Strings(h1)
	return map[string]any{"schedule_exploration": out, "schedules_total": total, "h1_schedules_per_instance": h1}
}
