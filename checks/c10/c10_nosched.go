//go:build !verifsched

package c10

import "verif/engine/common"

// Without the scheduler overlay (plain `go build ./...`) the check cannot run; the
// real implementation is in c10_sched.go and is built by cmd/c10/build.sh.
func enumerate(e *common.Enum) {
	e.Cap("built without the verifsched overlay: use ./check C10 (cmd/c10/build.sh)")
}
