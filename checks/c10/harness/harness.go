// Package harness holds the thread bodies and oracles of the C10 harnesses.  It
// knows nothing about the scheduler: the same bodies run under the controlled
// scheduler (checks/c10, overlay build) and free on real goroutines with the real
// sync package under the race detector (cmd/c10/race).
package harness

import (
	"encoding/json"
	"errors"
	"fmt"
	"github.com/ajitpratap0/GoSQLX/pkg/formatter"
	"os"
	"path/filepath"
	"runtime/debug"
	"sort"
	"strings"

	"github.com/ajitpratap0/GoSQLX/pkg/config"
	gerrors "github.com/ajitpratap0/GoSQLX/pkg/errors"
	"github.com/ajitpratap0/GoSQLX/pkg/gosqlx"
	"github.com/ajitpratap0/GoSQLX/pkg/linter"
	"github.com/ajitpratap0/GoSQLX/pkg/linter/rules/keywords"
	"github.com/ajitpratap0/GoSQLX/pkg/linter/rules/style"
	"github.com/ajitpratap0/GoSQLX/pkg/linter/rules/whitespace"
	"github.com/ajitpratap0/GoSQLX/pkg/metrics"
	"github.com/ajitpratap0/GoSQLX/pkg/sql/ast"
	"github.com/ajitpratap0/GoSQLX/pkg/sql/parser"
	"github.com/ajitpratap0/GoSQLX/pkg/sql/security"
	"github.com/ajitpratap0/GoSQLX/pkg/sql/tokenizer"

	"verif/sqlgen"
)

// Fail is one oracle failure.
type Fail struct{ Sig, Msg string }

// Run is one instantiation of a harness: fresh result slots, bodies that fill them.
type Run struct {
	Bodies []func()
	// Check evaluates the oracle once every body has returned.  totals says whether
	// this run was the only activity since Reset (then the metrics totals are compared).
	Check func(totals bool) (outcome string, fails []Fail)
}

// Instance is one harness configuration.
type Instance struct {
	Name   string
	Family string // H1 H2 H3 H4
	Desc   string
	// FirstUse: the instance is about lazily initialised state; Reset puts the
	// sync.Once values back to "not done" (shim hook) / the race pass uses one
	// process per trial.
	FirstUse bool
	New      func() *Run
	// Quick and Thorough are the cost bounds of the explored schedule space: a
	// schedule is explored iff preemptions ≤ P and pool deviations ≤ D for one entry.
	Quick, Thorough []Bound
	ops             []string
}

// Bound is one admissible (preemptions, pool deviations) pair; P < 0 = unbounded.
type Bound struct{ P, D int }

// Hooks are set by the controlled-scheduler build (shim test hooks); nil otherwise.
var Hooks struct {
	DrainPools func()
	ResetOnces func()
}

// Reset puts all library state shared between executions back to a fixed state.
func (in *Instance) Reset() {
	metrics.Disable()
	metrics.Reset()
	gerrors.ClearSuggestionCache()
	gerrors.ResetSuggestionCacheStats()
	config.ClearConfigCache()
	config.ResetConfigCacheStats()
	if Hooks.DrainPools != nil {
		Hooks.DrainPools()
	}
	if in.FirstUse {
		if Hooks.ResetOnces != nil {
			Hooks.ResetOnces()
		}
	} else {
		// make sure the lazily initialised tables exist, so that H1–H3 never see first use
		security.NewScanner()
	}
	metrics.Enable()
}

// guard runs f and converts a panic into a result string "PANIC …" plus a failure.
func guard(name string, f func() string) (res string, fl *Fail) {
	defer func() {
		if r := recover(); r != nil {
			st := string(debug.Stack())
			site := panicSite(st)
			res = "PANIC: " + fmt.Sprint(r)
			fl = &Fail{Sig: "panic:" + site, Msg: fmt.Sprintf("op %s panicked: %v\n%s", name, r, trim(st, 1500))}
		}
	}()
	return f(), nil
}

func panicSite(st string) string {
	for _, l := range strings.Split(st, "\n") {
		l = strings.TrimSpace(l)
		if strings.HasPrefix(l, "github.com/ajitpratap0/GoSQLX/") && !strings.Contains(l, "/verifshim/") {
			if i := strings.LastIndex(l, "("); i > 0 {
				l = l[:i]
			}
			return strings.TrimPrefix(l, "github.com/ajitpratap0/GoSQLX/")
		}
	}
	return "unknown"
}

func trim(s string, n int) string {
	if len(s) > n {
		return s[:n] + "…"
	}
	return s
}

// ------------------------------------------------------------------ H1 metrics

// mop is one metrics recording; the reference model is a plain counter/min/max.
type mop struct {
	kind string // tok parse poolget poolput astget astput stmtget stmtput exprget exprput stats
	size int    // tok: query size; parse: statement count
	err  string // "" = success
	miss bool   // poolget: not from pool
}

func (o mop) String() string {
	switch o.kind {
	case "tok", "parse":
		if o.err != "" {
			return fmt.Sprintf("%s(%d,%s)", o.kind, o.size, o.err)
		}
		return fmt.Sprintf("%s(%d)", o.kind, o.size)
	case "poolget":
		if o.miss {
			return "poolget(miss)"
		}
	}
	return o.kind
}

func (o mop) do() {
	var err error
	if o.err != "" {
		err = errors.New(o.err)
	}
	switch o.kind {
	case "tok":
		metrics.RecordTokenization(0, o.size, err)
	case "parse":
		metrics.RecordParse(0, o.size, err)
	case "poolget":
		metrics.RecordPoolGet(!o.miss)
	case "poolput":
		metrics.RecordPoolPut()
	case "astget":
		metrics.RecordASTPoolGet()
	case "astput":
		metrics.RecordASTPoolPut()
	case "stmtget":
		metrics.RecordStatementPoolGet()
	case "stmtput":
		metrics.RecordStatementPoolPut()
	case "exprget":
		metrics.RecordExpressionPoolGet()
	case "exprput":
		metrics.RecordExpressionPoolPut()
	case "stats":
		_ = metrics.GetStats()
	}
}

// model: the true totals of a multiset of recordings, starting from Reset.
type totals struct {
	tokOps, tokErrs, parseOps, parseErrs, stmts    int64
	poolGets, poolPuts, poolMiss                   int64
	astGets, astPuts, stGets, stPuts, exGet, exPut int64
	bytes, min, max                                int64
	errs                                           map[string]int64
}

func model(threads [][]mop) totals {
	t := totals{min: -1, errs: map[string]int64{}}
	for _, th := range threads {
		for _, o := range th {
			switch o.kind {
			case "tok":
				t.tokOps++
				t.bytes += int64(o.size)
				if t.min == -1 || int64(o.size) < t.min {
					t.min = int64(o.size)
				}
				if int64(o.size) > t.max {
					t.max = int64(o.size)
				}
				if o.err != "" {
					t.tokErrs++
					t.errs[o.err]++
				}
			case "parse":
				t.parseOps++
				t.stmts += int64(o.size)
				if o.err != "" {
					t.parseErrs++
					t.errs["parse:"+o.err]++
				}
			case "poolget":
				t.poolGets++
				if o.miss {
					t.poolMiss++
				}
			case "poolput":
				t.poolPuts++
			case "astget":
				t.astGets++
			case "astput":
				t.astPuts++
			case "stmtget":
				t.stGets++
			case "stmtput":
				t.stPuts++
			case "exprget":
				t.exGet++
			case "exprput":
				t.exPut++
			}
		}
	}
	return t
}

// compareTotals checks GetStats() against the model.  Durations, rates derived from
// the clock, uptime and timestamps are never compared.
func compareTotals(want totals, desc string) (string, []Fail) {
	s := metrics.GetStats()
	var fails []Fail
	var bad []string
	cmp := func(class, field string, got, w int64) {
		if got != w {
			bad = append(bad, field)
			fails = append(fails, Fail{Sig: class + ":" + field, Msg: fmt.Sprintf("after all goroutines finished, GetStats().%s = %d, true value %d (recordings: %s)", field, got, w, desc)})
		}
	}
	cmp("metrics-total", "TokenizeOperations", s.TokenizeOperations, want.tokOps)
	cmp("metrics-total", "TokenizeErrors", s.TokenizeErrors, want.tokErrs)
	cmp("metrics-total", "ParseOperations", s.ParseOperations, want.parseOps)
	cmp("metrics-total", "ParseErrors", s.ParseErrors, want.parseErrs)
	cmp("metrics-total", "StatementsCreated", s.StatementsCreated, want.stmts)
	cmp("metrics-total", "PoolGets", s.PoolGets, want.poolGets)
	cmp("metrics-total", "PoolPuts", s.PoolPuts, want.poolPuts)
	cmp("metrics-total", "ASTPoolGets", s.ASTPoolGets, want.astGets)
	cmp("metrics-total", "ASTPoolPuts", s.ASTPoolPuts, want.astPuts)
	cmp("metrics-total", "StmtPoolGets", s.StmtPoolGets, want.stGets)
	cmp("metrics-total", "StmtPoolPuts", s.StmtPoolPuts, want.stPuts)
	cmp("metrics-total", "ExprPoolGets", s.ExprPoolGets, want.exGet)
	cmp("metrics-total", "ExprPoolPuts", s.ExprPoolPuts, want.exPut)
	cmp("metrics-total", "TotalBytesProcessed", s.TotalBytesProcessed, want.bytes)
	if want.poolGets > 0 {
		// misses are only visible through the rate
		if got := s.PoolMissRate * float64(want.poolGets); s.PoolGets == want.poolGets && int64(got+0.5) != want.poolMiss {
			cmp("metrics-total", "PoolMisses", int64(got+0.5), want.poolMiss)
		}
	}
	cmp("metrics-lost-update", "MinQuerySize", s.MinQuerySize, want.min)
	cmp("metrics-lost-update", "MaxQuerySize", s.MaxQuerySize, want.max)
	var keys []string
	for k := range want.errs {
		keys = append(keys, k)
	}
	for k := range s.ErrorsByType {
		if _, ok := want.errs[k]; !ok {
			keys = append(keys, k)
		}
	}
	sort.Strings(keys)
	for _, k := range keys {
		if s.ErrorsByType[k] != want.errs[k] {
			bad = append(bad, "ErrorsByType")
			fails = append(fails, Fail{Sig: "metrics-total:ErrorsByType", Msg: fmt.Sprintf("after all goroutines finished, GetStats().ErrorsByType[%q] = %d, true value %d (recordings: %s)", k, s.ErrorsByType[k], want.errs[k], desc)})
			break
		}
	}
	if len(bad) == 0 {
		return fmt.Sprintf("totals-exact min=%d max=%d", s.MinQuerySize, s.MaxQuerySize), nil
	}
	return fmt.Sprintf("totals-wrong:%s min=%d max=%d", strings.Join(bad, "+"), s.MinQuerySize, s.MaxQuerySize), fails
}

func h1(name string, threads ...[]mop) *Instance {
	var parts []string
	for _, th := range threads {
		var s []string
		for _, o := range th {
			s = append(s, o.String())
		}
		parts = append(parts, strings.Join(s, ";"))
	}
	desc := strings.Join(parts, " | ")
	want := model(threads)
	return &Instance{Name: "H1/" + name, Family: "H1", Desc: desc, New: func() *Run {
		r := &Run{}
		pf := make([]*Fail, len(threads))
		for i, th := range threads {
			i, th := i, th
			r.Bodies = append(r.Bodies, func() {
				_, pf[i] = guard(parts[i], func() string {
					for _, o := range th {
						o.do()
					}
					return ""
				})
			})
		}
		r.Check = func(tot bool) (string, []Fail) {
			var fails []Fail
			for _, f := range pf {
				if f != nil {
					fails = append(fails, *f)
				}
			}
			if len(fails) > 0 {
				return "panic", fails
			}
			if !tot {
				return "ran", nil
			}
			return compareTotals(want, desc)
		}
		return r
	}}
}

// ------------------------------------------------------------------ H2 pipeline ops

// Op is one public operation with a canonical result text.
type Op struct {
	Name string
	F    func() string
	// NoCompare: the result is a snapshot of shared counters (GetStats) and is not
	// compared with the sequential answer.
	NoCompare bool
}

const (
	// aliased pooled expressions and a derived table that is also the left side of the first JOIN:
	// shapes whose release paths were shown to matter by the independently seeded changes seeded/C09, seeded/C10
	qTuple  = "SELECT a, ARRAY[1, 2] AS ar, (p, q) AS tp FROM t WHERE (x, y) IN ((1, 2)) AND b = 'v'"
	qArr    = "SELECT arr[1] AS e1, arr[1:2] AS sl, COUNT(*) FROM (SELECT id, arr FROM t) u JOIN s ON u.id = s.id WHERE c BETWEEN 1 AND 2"
	qBad    = "SELECT FROM WHERE"
	qTypo   = "SELCT a FROM t"
	qInsert = "INSERT INTO t (a, b) VALUES (1, 'x')"
	qInj    = "SELECT * FROM users WHERE id = 1 OR 1 = 1 -- x"
	qLint   = "select a,b  from t \nWHERE a = 1   "
	qLint2  = "SELECT x\n  , y  \nfrom u\n\n\nwhere  y = 2"
	qShort  = "SELECT 1"
	qCommA  = "-- head A\nSELECT a, -- first A\n b /* second A */ FROM t -- tail A\n"
	qCommB  = "/* one B */ SELECT x -- two B\nFROM u /* three B */ WHERE y = 1 -- four B\n"
)

func dumpTree(t *ast.AST, err error) string {
	if err != nil {
		return "ERR: " + err.Error()
	}
	return sqlgen.Dump(t.Statements)
}

func opParse(name, q string, release bool) Op {
	return Op{Name: name, F: func() string {
		t, err := gosqlx.Parse(q)
		s := dumpTree(t, err)
		if release && err == nil {
			ast.ReleaseAST(t)
		}
		return s
	}}
}

func sorted(l []string) []string {
	l = append([]string{}, l...)
	sort.Strings(l)
	return l
}

func scanText(r *security.ScanResult) string {
	var sb strings.Builder
	fmt.Fprintf(&sb, "total=%d crit=%d high=%d med=%d low=%d", r.TotalCount, r.CriticalCount, r.HighCount, r.MediumCount, r.LowCount)
	for _, f := range r.Findings {
		fmt.Fprintf(&sb, " [%s %s %s]", f.Severity, f.Pattern, f.Description)
	}
	return sb.String()
}

func lintText(r linter.FileResult) string {
	var sb strings.Builder
	if r.Error != nil {
		fmt.Fprintf(&sb, "ERR: %v", r.Error)
	}
	for _, v := range r.Violations {
		fmt.Fprintf(&sb, "[%s %d:%d %s]", v.Rule, v.Location.Line, v.Location.Column, v.Message)
	}
	return sb.String()
}

// Ops is the alphabet of H2.
var Ops = []Op{
	opParse("parse-tuple+release", qTuple, true),
	opParse("parse-arr", qArr, false),
	opParse("parse-bad", qBad, false),
	{Name: "format-arr", F: func() string {
		o := gosqlx.DefaultFormatOptions()
		o.UppercaseKeywords = true
		s, err := gosqlx.Format(qArr, o)
		if err != nil {
			return "ERR: " + err.Error()
		}
		return s
	}},
	{Name: "extract-arr+release", F: func() string {
		t, err := gosqlx.Parse(qArr)
		if err != nil {
			return "ERR: " + err.Error()
		}
		// the extractors return sets in map-iteration order (also when run alone): compare as sets
		s := fmt.Sprintf("tables=%v columns=%v functions=%v", sorted(gosqlx.ExtractTables(t)), sorted(gosqlx.ExtractColumns(t)), sorted(gosqlx.ExtractFunctions(t)))
		ast.ReleaseAST(t)
		return s
	}},
	{Name: "scan-inj", F: func() string {
		sc := security.NewScanner()
		t, err := gosqlx.Parse(qInj)
		if err != nil {
			return "ERR: " + err.Error()
		}
		s := scanText(sc.Scan(t)) + " | " + scanText(sc.ScanSQL(qInj))
		ast.ReleaseAST(t)
		return s
	}},
	{Name: "lint", F: func() string {
		l := linter.New(whitespace.NewTrailingWhitespaceRule(), whitespace.NewRedundantWhitespaceRule(),
			keywords.NewKeywordCaseRule(keywords.CaseUpper), style.NewCommaPlacementRule(style.CommaTrailing))
		return lintText(l.LintString(qLint, "q.sql"))
	}},
	// a second text for the linter (other lines, other findings): whatever the linter keeps between calls is keyed by text
	{Name: "lint-other", F: func() string {
		l := linter.New(whitespace.NewTrailingWhitespaceRule(), whitespace.NewRedundantWhitespaceRule(),
			keywords.NewKeywordCaseRule(keywords.CaseUpper), style.NewCommaPlacementRule(style.CommaTrailing))
		return lintText(l.LintString(qLint2, "r.sql"))
	}},
	{Name: "validate-typo", F: func() string {
		if err := gosqlx.Validate(qTypo); err != nil {
			return "ERR: " + err.Error()
		}
		return "ok"
	}},
	{Name: "pooled-parser-insert", F: func() string {
		tkz := tokenizer.GetTokenizer()
		defer tokenizer.PutTokenizer(tkz)
		toks, err := tkz.Tokenize([]byte(qInsert))
		if err != nil {
			return "ERR: " + err.Error()
		}
		p := parser.GetParser()
		defer parser.PutParser(p)
		t, err := p.ParseFromModelTokens(toks)
		s := dumpTree(t, err)
		if err == nil {
			ast.ReleaseAST(t)
		}
		return s
	}},
	// commented texts: the tokenizer keeps the comments of its last input in a slice of its own; whoever reads them must
	// be done before the instance goes back to the pool
	{Name: "formatter-commented", F: func() string {
		s, err := formatter.New(formatter.Options{}).Format(qCommA)
		if err != nil {
			return "ERR: " + err.Error()
		}
		return s
	}},
	{Name: "tokenize-commented", F: func() string {
		tkz := tokenizer.GetTokenizer()
		toks, err := tkz.Tokenize([]byte(qCommB))
		var sb strings.Builder
		if err != nil {
			sb.WriteString("ERR: " + err.Error())
		}
		fmt.Fprintf(&sb, "%d tokens", len(toks))
		for _, c := range tkz.Comments {
			fmt.Fprintf(&sb, " [%s]", c.Text)
		}
		tokenizer.PutTokenizer(tkz)
		return sb.String()
	}},
	{Name: "stats", NoCompare: true, F: func() string {
		s := metrics.GetStats()
		return fmt.Sprint(s.TokenizeOperations >= 0)
	}},
}

// FirstUseOps lists the ops that touch lazily initialised process-wide state (every op of an H4 instance).
func FirstUseOps() []string {
	seen := map[string]bool{}
	var out []string
	for _, in := range All() {
		if in.Family != "H4" {
			continue
		}
		for _, o := range in.ops {
			if !seen[o] {
				seen[o] = true
				out = append(out, o)
			}
		}
	}
	return out
}

// RunGuarded runs one op, turning a panic into its result text.
func RunGuarded(name string) string {
	s, _ := guard(name, OpByName(name).F)
	return s
}

const qTreeRich = "SELECT a FROM t WHERE id = 1 OR 1 = 1 AND SLEEP(5) > 0 AND b = LOAD_FILE('/etc/passwd') AND c = pg_sleep(1)"

const qInjRich = "SELECT a FROM t WHERE id = 1 OR 1=1 AND SLEEP(5) > 0 UNION SELECT NULL, NULL FROM information_schema.columns; DROP TABLE t -- x\n/* y */ SELECT LOAD_FILE('/etc/passwd')"

// OpByName finds an op.
func OpByName(n string) Op {
	for _, o := range Ops {
		if o.Name == n {
			return o
		}
	}
	for _, o := range extraOps {
		if o.Name == n {
			return o
		}
	}
	panic("no op " + n)
}

// configPath is a small JSON configuration file under /verif/.work (written once).
var configPath = func() string {
	root := os.Getenv("VERIF_ROOT")
	if root == "" {
		root = "/verif"
	}
	p := filepath.Join(root, ".work", "run", "c10-config.json")
	want := []byte(`{"format":{"indent":4,"maxLineLength":80},"validation":{"dialect":"postgresql"}}`)
	if b, err := os.ReadFile(p); err != nil || string(b) != string(want) {
		os.MkdirAll(filepath.Dir(p), 0o755)
		tmp := fmt.Sprintf("%s.%d", p, os.Getpid())
		if os.WriteFile(tmp, want, 0o644) == nil {
			os.Rename(tmp, p)
		}
	}
	return p
}()

var extraOps = []Op{
	{Name: "config-cached", F: func() string {
		c, err := config.LoadFromFileCached(configPath)
		if err != nil {
			return "ERR: " + err.Error()
		}
		b, _ := json.Marshal(c)
		return string(b)
	}},
	opParse("parse-short", qShort, false),
	opParse("parse-tuple", qTuple, false),
	opParse("parse-arr+release", qArr, true),
	opParse("parse-insert+release", qInsert, true),
	{Name: "suggest-SELCT", F: func() string { return gerrors.SuggestKeyword("SELCT") }},
	{Name: "suggest-FORM", F: func() string { return gerrors.SuggestKeyword("FORM") }},
	{Name: "newscanner-scansql", F: func() string { return scanText(security.NewScanner().ScanSQL(qInj)) }},
	// a text that every lazily compiled pattern table has something to say about
	{Name: "newscanner-scansql-rich", F: func() string { return scanText(security.NewScanner().ScanSQL(qInjRich)) }},
	{Name: "literalscanner-scansql-rich", F: func() string {
		return scanText((&security.Scanner{MinSeverity: security.SeverityLow}).ScanSQL(qInjRich))
	}},
	// a scanner built as a struct literal (exported type, exported field): the detect helpers initialise the
	// lazily built tables themselves on that path
	{Name: "literalscanner-scansql", F: func() string {
		return scanText((&security.Scanner{MinSeverity: security.SeverityLow}).ScanSQL(qInj))
	}},
	{Name: "literalscanner-scan", F: func() string {
		sc := &security.Scanner{MinSeverity: security.SeverityLow}
		t, err := gosqlx.Parse(qInj)
		if err != nil {
			return "ERR: " + err.Error()
		}
		return scanText(sc.Scan(t))
	}},
	// the tree scan over call payloads (time-delay and file / command functions) besides the tautology
	{Name: "literalscanner-scan-rich", F: func() string {
		sc := &security.Scanner{MinSeverity: security.SeverityLow}
		t, err := gosqlx.Parse(qTreeRich)
		if err != nil {
			return "ERR: " + err.Error()
		}
		return scanText(sc.Scan(t))
	}},
	{Name: "newscanner-scan-rich", F: func() string {
		sc := security.NewScanner()
		t, err := gosqlx.Parse(qTreeRich)
		if err != nil {
			return "ERR: " + err.Error()
		}
		return scanText(sc.Scan(t))
	}},
	{Name: "newscanner-scan", F: func() string {
		sc := security.NewScanner()
		t, err := gosqlx.Parse(qInj)
		if err != nil {
			return "ERR: " + err.Error()
		}
		return scanText(sc.Scan(t))
	}},
}

// seq is the sequential oracle table: the result of every op run ALONE from the
// reset state.  It is filled by the controller before any concurrent execution.
var seq = map[string]string{}

// Sequential returns (computing it on first use) the answer of the op run alone.
func Sequential(in *Instance, o Op) string {
	key := fmt.Sprint(in.FirstUse) + "/" + o.Name
	if s, ok := seq[key]; ok {
		return s
	}
	in.Reset()
	s, _ := guard(o.Name, o.F)
	// the answer must not depend on what ran before in this process: run it again
	// after another op and once more from the reset state
	in.Reset()
	s2, _ := guard(o.Name, o.F)
	if s != s2 {
		panic(fmt.Sprintf("harness: op %s is not deterministic when run alone:\n%s\n%s", o.Name, s, s2))
	}
	seq[key] = s
	return s
}

// opsRun builds a run in which thread i executes seqs[i] (a list of ops) in order.
// If hold >= 0, thread `hold` keeps the tree of its first op (which must be a
// non-releasing parse) and the oracle checks at the end that it did not change.
func opsInstance(family, name string, firstUse bool, hold int, holdQ string, seqs ...[]string) *Instance {
	var parts []string
	for _, s := range seqs {
		parts = append(parts, strings.Join(s, ";"))
	}
	in := &Instance{Name: family + "/" + name, Family: family, FirstUse: firstUse, Desc: strings.Join(parts, " | ")}
	for _, s := range seqs {
		in.ops = append(in.ops, s...)
	}
	if hold >= 0 {
		in.Desc = fmt.Sprintf("T%d holds Parse(%q); ", hold, holdQ) + in.Desc
	}
	in.New = func() *Run {
		r := &Run{}
		res := make([][]string, len(seqs))
		pfs := make([][]*Fail, len(seqs))
		var held *ast.AST
		var heldDump string
		var heldFail *Fail
		for i, names := range seqs {
			i, names := i, names
			res[i] = make([]string, len(names))
			pfs[i] = make([]*Fail, len(names))
			r.Bodies = append(r.Bodies, func() {
				if i == hold {
					_, heldFail = guard("parse(held)", func() string {
						t, err := gosqlx.Parse(holdQ)
						if err == nil {
							held = t
							heldDump = sqlgen.Dump(t.Statements)
						}
						return ""
					})
				}
				for j, n := range names {
					res[i][j], pfs[i][j] = guard(n, OpByName(n).F)
				}
			})
		}
		r.Check = func(tot bool) (string, []Fail) {
			var fails []Fail
			if heldFail != nil {
				fails = append(fails, *heldFail)
			}
			outcome := "results-sequential"
			for i, names := range seqs {
				for j, n := range names {
					o := OpByName(n)
					if pfs[i][j] != nil {
						// an operation that panics identically when run alone is not a
						// concurrency failure (totality is property C01)
						if o.NoCompare || res[i][j] != seq[fmt.Sprint(firstUse)+"/"+n] {
							fails = append(fails, *pfs[i][j])
							outcome = "panic"
						}
						continue
					}
					if o.NoCompare {
						continue
					}
					if want := seq[fmt.Sprint(firstUse)+"/"+n]; res[i][j] != want {
						outcome = "result-differs:" + n
						fails = append(fails, Fail{Sig: "result-differs:" + n, Msg: fmt.Sprintf("T%d op %s returned\n  %s\nrun alone it returns\n  %s\n  (first difference: %s)\nother threads: %s", i, n, trim(res[i][j], 600), trim(want, 600), sqlgen.FirstDiff(want, res[i][j]), in.Desc)})
					}
				}
			}
			if hold >= 0 && held != nil {
				if now := sqlgen.Dump(held.Statements); now != heldDump {
					other := ""
					for i := range seqs {
						if i != hold {
							other = parts[i]
						}
					}
					outcome = "held-tree-modified"
					fails = append(fails, Fail{Sig: "held-tree-modified:" + other, Msg: fmt.Sprintf("tree held by T%d changed while the other thread ran [%s]\n  when parsed: %s\n  at the end:  %s\n  (first difference: %s)", hold, other, trim(heldDump, 500), trim(now, 500), sqlgen.FirstDiff(heldDump, now))})
				}
			}
			return outcome, fails
		}
		return r
	}
	return in
}

// Prepare computes the sequential answers the instance's oracle needs.
func (in *Instance) Prepare() {
	for _, n := range in.ops {
		Sequential(in, OpByName(n))
	}
}
