package harness

import "strings"

const (
	e1 = "unterminated string literal at line 1"
	e2 = "expected FROM"
)

func tok(size int, err string) mop              { return mop{kind: "tok", size: size, err: err} }
func parse(n int, err string) mop               { return mop{kind: "parse", size: n, err: err} }
func k(kind string) mop                         { return mop{kind: kind} }
func with(in *Instance, q, t []Bound) *Instance { in.Quick, in.Thorough = q, t; return in }

// All returns every harness instance of the controlled exploration.
//
// Sizes 5, 3, 9 starting from the reset state (min = -1 "unset", max = 0) are chosen
// so that every order of the min and max updates matters: 5 and 3 both lower the
// minimum, 5 and 9 (or 5 and 3, whichever stores last) both raise the maximum.
func All() []*Instance {
	var l []*Instance
	all := []Bound{{-1, 0}}
	p2 := []Bound{{2, 0}}
	p3 := []Bound{{3, 0}}
	p4 := []Bound{{4, 0}}

	// ---- H1: metrics recordings; oracle = exact totals after quiescence
	l = append(l,
		// complete interleaving space: tok3|tok9 in both tiers (≈ 2·10^5 schedules), the others in thorough
		with(h1("2thr/tok5e|tok3", []mop{tok(5, e1)}, []mop{tok(3, "")}), p4, all),
		with(h1("2thr/tok3|tok9", []mop{tok(3, "")}, []mop{tok(9, "")}), all, all),
		with(h1("2thr/rec4", []mop{tok(5, e1), parse(1, ""), mop{kind: "poolget", miss: true}, k("poolput")},
			[]mop{tok(3, ""), parse(0, e2), k("poolget"), k("poolput")}), p3, p4),
		with(h1("2thr/astpools", []mop{k("astget"), k("stmtget"), k("exprget"), k("astput"), k("exprput")},
			[]mop{k("astget"), k("stmtput"), k("exprput"), k("exprget"), k("stmtget")}), p3, all),
		with(h1("2thr/parse-errs", []mop{parse(1, e2), parse(2, "")}, []mop{parse(0, e2), parse(3, e1)}), p3, p4),
		with(h1("3thr/tok5|tok3e|tok9e", []mop{tok(5, "")}, []mop{tok(3, e1)}, []mop{tok(9, e1)}), p2, p3),
		with(h1("3thr/mixed+stats", []mop{tok(5, e1), parse(1, e2)}, []mop{tok(3, ""), tok(9, e1)}, []mop{k("stats")}), p2, p3),
	)

	// ---- H2: every unordered pair of pipeline operations; oracle = sequential answers
	h2q := []Bound{{2, 0}, {1, 1}}
	h2t := []Bound{{3, 0}, {2, 1}, {1, 2}}
	for i, a := range Ops {
		for _, b := range Ops[i:] {
			l = append(l, with(opsInstance("H2", a.Name+"|"+b.Name, false, -1, "", []string{a.Name}, []string{b.Name}), h2q, h2t))
		}
	}

	// ---- H3: T0 parses and HOLDS its tree; T1 parses, releases, parses again
	h3 := func(holdQ string, t1 ...string) *Instance {
		return with(opsInstance("H3", "hold("+short(holdQ)+")|"+strings.Join(t1, ";"), false, 0, holdQ, []string{}, t1), h2q, h2t)
	}
	l = append(l,
		h3(qTuple, "parse-tuple+release", "parse-tuple"),
		h3(qTuple, "parse-tuple+release", "parse-arr"),
		h3(qArr, "parse-arr+release", "parse-arr"),
		h3(qArr, "parse-arr+release", "format-arr"),
		h3(qInsert, "parse-insert+release", "pooled-parser-insert"),
		h3(qInj, "scan-inj", "parse-tuple+release", "parse-short"),
	)

	// ---- H4: first use of lazily initialised state (sync.Once tables, suggestion cache)
	h4 := func(seqs ...[]string) *Instance {
		var n []string
		for _, s := range seqs {
			n = append(n, strings.Join(s, ";"))
		}
		return with(opsInstance("H4", strings.Join(n, "|"), true, -1, "", seqs...), []Bound{{2, 1}}, []Bound{{3, 2}})
	}
	l = append(l,
		h4([]string{"newscanner-scansql"}, []string{"newscanner-scansql"}),
		h4([]string{"newscanner-scan"}, []string{"newscanner-scansql"}),
		h4([]string{"literalscanner-scansql-rich"}, []string{"newscanner-scansql-rich"}),
		h4([]string{"literalscanner-scansql-rich"}, []string{"literalscanner-scansql-rich"}),
		h4([]string{"newscanner-scansql-rich"}, []string{"newscanner-scansql-rich"}),
		h4([]string{"literalscanner-scansql"}, []string{"newscanner-scansql"}),
		h4([]string{"literalscanner-scansql"}, []string{"literalscanner-scansql"}),
		h4([]string{"literalscanner-scan"}, []string{"newscanner-scan"}),
		h4([]string{"literalscanner-scan-rich"}, []string{"newscanner-scan-rich"}),
		h4([]string{"literalscanner-scan-rich"}, []string{"literalscanner-scan-rich"}),
		h4([]string{"literalscanner-scansql"}, []string{"newscanner-scan", "newscanner-scansql"}),
		h4([]string{"suggest-SELCT"}, []string{"suggest-SELCT"}),
		h4([]string{"suggest-SELCT"}, []string{"suggest-FORM", "suggest-SELCT"}),
		h4([]string{"validate-typo"}, []string{"suggest-SELCT", "parse-bad"}),
		h4([]string{"newscanner-scansql"}, []string{"newscanner-scansql"}, []string{"suggest-SELCT"}),
		// two texts through the linter, each goroutine linting both: state kept between calls and keyed by text
		// (four long operations per instance: the thorough tier keeps the quick bound, a third preemption costs half an hour)
		with(h4([]string{"lint"}, []string{"lint-other", "lint"}), []Bound{{2, 1}}, []Bound{{2, 1}}),
		with(h4([]string{"lint", "lint-other"}, []string{"lint-other", "lint"}), []Bound{{2, 1}}, []Bound{{2, 1}}),
		with(h4([]string{"lint-other", "lint"}, []string{"lint-other", "lint"}), []Bound{{2, 1}}, []Bound{{2, 1}}),
		// the config file cache (RWMutex + atomics; check-then-act load/insert)
		h4([]string{"config-cached"}, []string{"config-cached"}),
		h4([]string{"config-cached", "config-cached"}, []string{"config-cached"}),
	)
	return l
}

func short(q string) string {
	switch q {
	case qTuple:
		return "tuple"
	case qArr:
		return "arr"
	case qInsert:
		return "insert"
	case qInj:
		return "inj"
	}
	return q
}

// FreeMix is the instance of the free-running (race detector) pass for a family:
// the same bodies, every op of the family as one goroutine.
func FreeMix(family string) []*Instance {
	switch family {
	case "H1":
		var l []*Instance
		for _, in := range All() {
			if in.Family == "H1" {
				l = append(l, in)
			}
		}
		return l
	case "H2":
		var seqs [][]string
		for _, o := range Ops {
			seqs = append(seqs, []string{o.Name})
		}
		return []*Instance{opsInstance("H2", "mix", false, -1, "", seqs...)}
	case "H3":
		var l []*Instance
		for _, in := range All() {
			if in.Family == "H3" {
				l = append(l, in)
			}
		}
		return l
	case "H4":
		return []*Instance{opsInstance("H4", "first-use", true, -1, "",
			[]string{"newscanner-scansql"}, []string{"newscanner-scan"}, []string{"suggest-SELCT"}, []string{"suggest-FORM"},
			[]string{"validate-typo"}, []string{"parse-bad"}, []string{"lint"}, []string{"format-arr"}, []string{"config-cached"})}
	}
	return nil
}
