//go:build verifsched

package c10

import (
	"bytes"
	"fmt"
	"os"
	"os/exec"
	"regexp"
	"runtime/debug"
	"sort"
	"strings"
	"time"

	"github.com/ajitpratap0/GoSQLX/pkg/verifshim/sched"
	"github.com/ajitpratap0/GoSQLX/pkg/verifshim/vsync"

	"verif/checks/c10/harness"
	"verif/engine/common"
)

func init() {
	harness.Hooks.DrainPools = vsync.DrainPools
	harness.Hooks.ResetOnces = vsync.ResetOnces
}

func budgets(in *harness.Instance, thorough bool) []sched.Budget {
	bs := in.Quick
	if thorough {
		bs = in.Thorough
	}
	var out []sched.Budget
	for _, b := range bs {
		p := b.P
		if p < 0 {
			p = sched.Unbounded
		}
		out = append(out, sched.Budget{P: p, D: b.D})
	}
	return out
}

// config builds the exploration of one instance.
func config(in *harness.Instance, bs []sched.Budget) sched.Config {
	var run *harness.Run
	curFile := os.Getenv("VERIF_CURFILE")
	var lastBeat time.Time
	return sched.Config{
		Budgets: bs,
		// liveness heartbeat for the framework's hang detector (a schedule that really
		// hangs never returns here, so real hangs are still detected)
		Tick: func() {
			if curFile != "" && time.Since(lastBeat) > 5*time.Second {
				lastBeat = time.Now()
				os.Chtimes(curFile, lastBeat, lastBeat)
			}
		},
		Setup: func() []func() {
			in.Reset()
			run = in.New()
			return run.Bodies
		},
		After: func(x *sched.Exec) (string, []sched.Fail) {
			var fails []sched.Fail
			for _, p := range x.Panics {
				fails = append(fails, sched.Fail{Sig: "panic:" + common.PanicSite(p.Stack), Msg: fmt.Sprintf("T%d panicked outside any operation: %s\n%s", p.Tid, p.Value, common.Trim(p.Stack, 1200))})
			}
			if x.Deadlock || x.Livelock {
				// results of unfinished operations mean nothing; keep only panics (a
				// panic that left a lock held explains the deadlock and is the finding)
				_, fs := run.Check(false)
				for _, f := range fs {
					if strings.HasPrefix(f.Sig, "panic:") {
						fails = append(fails, sched.Fail{Sig: f.Sig, Msg: f.Msg})
					}
				}
				what := "deadlock"
				if x.Livelock {
					what = "livelock"
				}
				if len(fails) == 0 {
					fails = append(fails, sched.Fail{Sig: what + ":" + in.Name, Msg: fmt.Sprintf("%s in %s [%s]: no thread can continue; pending operations: %s", what, in.Name, in.Desc, strings.Join(x.Blocked, " "))})
				}
				return what, fails
			}
			out, fs := run.Check(true)
			for _, f := range fs {
				fails = append(fails, sched.Fail{Sig: f.Sig, Msg: f.Msg})
			}
			return out, fails
		},
	}
}

var samples int

func enumerate(e *common.Enum) {
	for _, in := range harness.All() {
		in := in
		bs := budgets(in, e.Thorough())
		base := in.Name + "/" + sched.BudgetString(bs)
		// sequential oracle table + default schedule (cheap; every worker needs them to
		// enumerate the same keys)
		var def *sched.Exec
		var kids []sched.Node
		var prepErr string
		cfg := config(in, bs)
		func() {
			defer func() {
				if r := recover(); r != nil {
					prepErr = fmt.Sprintf("%v\n%s", r, common.Trim(string(debug.Stack()), 1500))
				}
			}()
			in.Prepare()
			def, kids = sched.Roots(cfg)
		}()
		if prepErr != "" {
			e.Do(base+"/prepare", func(c *common.Ctx) {
				c.Input(in.Name + ": " + in.Desc)
				c.Fail("panic:sequential:"+in.Family, "computing the sequential answers / default schedule panicked: "+prepErr)
			})
			continue
		}
		early := def.Choices() / 8
		if early < 4 {
			early = 4
		}
		doCase := func(n sched.Node, only bool) {
			key := base + "/subtree=" + n.Key()
			if only {
				key = base + "/node=" + n.Key()
			}
			e.Do(key, func(c *common.Ctx) {
				c.Input(fmt.Sprintf("%s [%s] bound %s, schedules extending non-default choices (position.value) %s", in.Name, in.Desc, sched.BudgetString(bs), n.Key()))
				rep := sched.Explore(cfg, n, only)
				if n.P+n.D > 0 {
					c.NonTrivial()
				}
				c.Count("schedules", rep.Schedules)
				c.Count("schedules_"+in.Family, rep.Schedules)
				for o := range rep.Outcomes {
					c.Outcome(in.Family + " " + o)
				}
				if rep.Divergences > 0 {
					c.Count("replay_divergences", rep.Divergences)
					e.Cap("replay divergence (library control flow not determined by the schedule) in " + in.Name + ": " + strings.Join(rep.Notes, "; "))
				}
				if rep.Unstable > 0 {
					c.Count("unstable_observations", rep.Unstable)
					fmt.Fprintf(os.Stderr, "C10: %s: %d failing schedule(s) did not reproduce identically in-process (not reported): %s\n", key, rep.Unstable, strings.Join(rep.Notes, "; "))
				}
				if rep.Capped != "" {
					e.Cap(in.Name + ": " + rep.Capped)
				}
				if !e.Replaying() {
					appendStat(e.Tier, caseStat{Family: in.Family, Instance: in.Name, Schedules: rep.Schedules, MaxPoints: rep.MaxPoints, MaxChoice: rep.MaxChoices,
						Outcomes: rep.Outcomes, ByCost: rep.ByCost, Diverged: rep.Divergences, Unstable: rep.Unstable})
				}
				var sigs []string
				for s := range rep.Fails {
					sigs = append(sigs, s)
				}
				sort.Strings(sigs)
				for _, s := range sigs {
					f := rep.Fails[s]
					c.Fail(s, fmt.Sprintf("%s\ninstance %s [%s]\nfailing schedule (non-default choices position.value): %s — %s; %d failing schedule(s) with this signature in this subtree\ntrace of the failing schedule:\n%s",
						f.Msg, in.Name, in.Desc, f.Schedule, f.Cost, f.Count, f.Trace))
				}
				if c.Key == base+"/node=default" {
					c.Sample(map[string]any{"instance": in.Name, "threads": in.Desc, "bound": sched.BudgetString(bs),
						"default_schedule_points": rep.MaxPoints, "first_level_subtrees": len(kids)})
				} else if samples < 2 && n.P >= 1 {
					// an actual explored schedule, written out
					samples++
					x := sched.Run(cfg.Setup(), n.Prefix, true)
					out, _ := cfg.After(x)
					if x.Abnormal() {
						x.ResetDirty()
					}
					c.Sample(map[string]any{"case": key, "schedule_non_default_choices": n.Key(), "preemptions": n.P, "pool_deviations": n.D,
						"points": x.Points(), "outcome": out, "trace": strings.Split(strings.TrimSpace(x.Trace(12)), "\n")})
				}
			})
		}
		depth, complete := 2, false
		for _, b := range bs {
			if b.P >= sched.Unbounded {
				depth, complete = 3, true
			}
		}
		// shard: the schedule itself is one case ("node="), the subtrees below its
		// children are split further down to the instance's split depth
		var split func(n sched.Node, kids []sched.Node, depth int)
		split = func(n sched.Node, kids []sched.Node, depth int) {
			doCase(n, true)
			for _, k := range kids {
				// bounded instances: only the early (large) subtrees are split further
				if depth <= 1 || (!complete && k.Prefix[len(k.Prefix)-1].Pos >= early) {
					doCase(k, false)
				} else {
					split(k, sched.Expand(cfg, k), depth-1)
				}
			}
		}
		split(sched.Node{}, kids, depth)
	}
	for _, fam := range []string{"H1", "H2", "H3", "H4"} {
		fam := fam
		e.Do("race/"+fam, func(c *common.Ctx) { raceCase(c, fam, e.Thorough()) })
	}
	// first use, really: the controlled executions re-arm the sync.Once values between schedules but cannot un-build
	// what an earlier execution built, so "who gets there first" is also enumerated with one new process per history:
	// every ordered pair (and every triple a,a,b) of first-use ops; the last op must answer what it answers alone.
	fu := harness.FirstUseOps()
	for _, b := range fu {
		for _, a := range fu {
			a, b := a, b
			e.Do("firstuse-order|"+a+"|"+b, func(c *common.Ctx) { firstUseCase(c, []string{a, b}) })
			e.Do("firstuse-order|"+a+"|"+a+"|"+b, func(c *common.Ctx) { firstUseCase(c, []string{a, a, b}) })
		}
	}
}

// ---------------------------------------------------------------- free-running race pass

// raceSig builds "race:<library package(s) of the two conflicting accesses>".  Which
// pair of accesses the detector reports first for one unsynchronised variable differs
// from run to run (read/write, write/write, map internals), so function names would
// make one defect look like many; the package of the first library frame of each of
// the two access stacks is stable.
func raceSig(report string) string {
	var pkgs []string
	for _, b := range strings.Split(report, "\n\n") {
		hdr := strings.TrimSpace(strings.SplitN(strings.TrimSpace(b), "\n", 2)[0])
		hdr = strings.TrimPrefix(hdr, "WARNING: DATA RACE\n")
		if strings.HasPrefix(hdr, "WARNING") {
			// the first access follows the banner line in the same block
			if parts := strings.SplitN(strings.TrimSpace(b), "\n", 2); len(parts) == 2 {
				hdr = strings.TrimSpace(strings.SplitN(parts[1], "\n", 2)[0])
			}
		}
		if !(strings.HasPrefix(hdr, "Read") || strings.HasPrefix(hdr, "Write") || strings.HasPrefix(hdr, "Previous") || strings.HasPrefix(hdr, "Atomic")) {
			continue
		}
		for _, l := range strings.Split(b, "\n") {
			l = strings.TrimSpace(l)
			if strings.HasPrefix(l, "github.com/ajitpratap0/GoSQLX/") && !strings.Contains(l, "/verifshim/") {
				l = strings.TrimPrefix(l, "github.com/ajitpratap0/GoSQLX/")
				// pkg/sql/security.NewScanner() -> pkg/sql/security
				if i := strings.LastIndex(l, "/"); i >= 0 {
					if j := strings.Index(l[i:], "."); j >= 0 {
						l = l[:i+j]
					}
				} else if j := strings.Index(l, "."); j >= 0 {
					l = l[:j]
				}
				pkgs = append(pkgs, l)
				break
			}
		}
		if len(pkgs) == 2 {
			break
		}
	}
	if len(pkgs) == 0 {
		return "race:unattributed"
	}
	sort.Strings(pkgs)
	if len(pkgs) == 2 && pkgs[0] == pkgs[1] {
		pkgs = pkgs[:1]
	}
	return "race:" + strings.Join(pkgs, "|")
}

func firstUseRun(ops []string) (string, error) {
	cmd := exec.Command(common.Work("bin", "c10race"), append([]string{"--firstuse"}, ops...)...)
	cmd.Env = append(os.Environ(), "GORACE=halt_on_error=0")
	var out, errb bytes.Buffer
	cmd.Stdout, cmd.Stderr = &out, &errb
	if err := cmd.Run(); err != nil {
		return "", fmt.Errorf("%v: %s", err, common.Trim(errb.String(), 400))
	}
	return out.String(), nil
}

func firstUseCase(c *common.Ctx, ops []string) {
	c.Input("new process: " + strings.Join(ops, " ; "))
	last := ops[len(ops)-1]
	alone, err := firstUseRun([]string{last})
	if err != nil {
		c.Fail("harness:firstuse-binary", err.Error())
		return
	}
	got, err := firstUseRun(ops)
	if err != nil {
		c.Fail("harness:firstuse-binary", err.Error())
		return
	}
	c.Count("processes", 2)
	if got != alone {
		c.Fail("first-use-order:"+last, fmt.Sprintf("in a new process %s answers\n%s\nafter %s, and\n%s\nas the first call", last, common.Trim(got, 400), strings.Join(ops[:len(ops)-1], " ; "), common.Trim(alone, 400)))
	}
	c.Outcome("firstuse-order")
	c.NonTrivial()
}

func raceCase(c *common.Ctx, fam string, thorough bool) {
	bin := common.Work("bin", "c10race")
	trials := 1
	if fam == "H4" {
		trials = 12 // first use happens once per process
		if thorough {
			trials = 60
		}
	}
	c.Input("free-running -race pass of the " + fam + " harness bodies (real sync package, 4×GOMAXPROCS goroutines); supplementary sampling, not coverage")
	tier := "quick"
	if thorough {
		tier = "thorough"
	}
	for t := 0; t < trials; t++ {
		cmd := exec.Command(bin, fam, tier)
		cmd.Env = append(os.Environ(), "GOMAXPROCS=8", "GORACE=halt_on_error=1 history_size=2", "GOTRACEBACK=single")
		var out, errb bytes.Buffer
		cmd.Stdout, cmd.Stderr = &out, &errb
		done := make(chan error, 1)
		if err := cmd.Start(); err != nil {
			c.Fail("harness:race-binary", "cannot start "+bin+": "+err.Error())
			return
		}
		go func() { done <- cmd.Wait() }()
		var err error
		deadline := time.After(300 * time.Second)
		beat := time.NewTicker(10 * time.Second)
	wait:
		for {
			select {
			case err = <-done:
				beat.Stop()
				break wait
			case <-beat.C:
				if cf := os.Getenv("VERIF_CURFILE"); cf != "" {
					now := time.Now()
					os.Chtimes(cf, now, now) // heartbeat for the framework's hang detector
				}
			case <-deadline:
				beat.Stop()
				cmd.Process.Kill()
				<-done
				c.Fail("hang:race-pass:"+fam, "free-running pass did not finish within 300 s (deadlock or livelock on real goroutines; it normally takes 1–15 s)\n"+common.Trim(errb.String(), 1500))
				return
			}
		}
		es := errb.String()
		if i := strings.Index(es, "WARNING: DATA RACE"); i >= 0 {
			rep := es[i:]
			if j := strings.Index(rep, "=================="); j > 0 {
				rep = rep[:j]
			}
			c.Outcome("race-pass " + fam + " race-reported")
			c.Fail(raceSig(rep), "race detector report in the free-running pass of "+fam+":\n"+common.Trim(rep, 3000))
			return
		}
		if err != nil {
			c.Outcome("race-pass " + fam + " failed")
			sig := "race-pass-failed:" + fam
			if strings.Contains(es, "panic:") || strings.Contains(es, "fatal error:") {
				sig = "panic:" + common.PanicSite(es)
			} else if m := regexp.MustCompile(`OBSERVED sig=(\S+)`).FindStringSubmatch(out.String()); m != nil {
				// a call returned something else than when run alone (the framework only
				// reports it if it shows up in 5 of 5 fresh processes)
				sig = m[1]
			}
			c.Fail(sig, fmt.Sprintf("free-running pass of %s exited with %v\n%s\n%s", fam, err, common.Trim(out.String(), 800), common.Trim(es, 2500)))
			return
		}
		if t == 0 {
			c.Sample(map[string]any{"race_pass": fam, "output": strings.TrimSpace(common.Trim(out.String(), 300))})
		}
	}
	c.Outcome("race-pass " + fam + " silent")
	c.Count("race_pass_processes", int64(trials))
}
