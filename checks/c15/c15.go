// Package c15 checks property C15 (extracted tables, columns and functions are exactly those referenced).
package c15

import (
	"fmt"
	"reflect"
	"runtime"
	"runtime/debug"
	"sort"
	"strings"

	"github.com/ajitpratap0/GoSQLX/pkg/gosqlx"
	"github.com/ajitpratap0/GoSQLX/pkg/sql/ast"

	"verif/engine/common"
	"verif/sqlgen"
)

func set(xs []string) map[string]bool {
	m := map[string]bool{}
	for _, x := range xs {
		m[x] = true
	}
	return m
}

func keys(m map[string]bool) []string {
	var out []string
	for k := range m {
		out = append(out, k)
	}
	sort.Strings(out)
	return out
}

func diff(want, got map[string]bool) (missing, extra []string) {
	for k := range want {
		if !got[k] {
			missing = append(missing, k)
		}
	}
	for k := range got {
		if !want[k] {
			extra = append(extra, k)
		}
	}
	sort.Strings(missing)
	sort.Strings(extra)
	return
}

func last(s string) string {
	if i := strings.LastIndex(s, "."); i >= 0 {
		return s[i+1:]
	}
	return s
}

type sets struct {
	tables, tablesQ, cols, colsQ, funcs []string
}

func extract(sql string) (*sets, *gosqlx.Metadata, *ast.AST, error) {
	tree, err := gosqlx.Parse(sql)
	if err != nil {
		return nil, nil, nil, err
	}
	s := &sets{}
	s.tables = gosqlx.ExtractTables(tree)
	for _, q := range gosqlx.ExtractTablesQualified(tree) {
		n := q.Name
		if q.Table != "" {
			n = q.Table + "." + n
		}
		if q.Schema != "" {
			n = q.Schema + "." + n
		}
		s.tablesQ = append(s.tablesQ, n)
	}
	s.cols = gosqlx.ExtractColumns(tree)
	for _, q := range gosqlx.ExtractColumnsQualified(tree) {
		n := q.Name
		if q.Table != "" {
			n = q.Table + "." + n
		}
		if q.Schema != "" {
			n = q.Schema + "." + n
		}
		s.colsQ = append(s.colsQ, n)
	}
	s.funcs = gosqlx.ExtractFunctions(tree)
	return s, gosqlx.ExtractMetadata(tree), tree, nil
}

// Check returns the C15 check.
func Check() *common.Check {
	return &common.Check{
		ID:    "C15",
		Level: "exploration",
		// every case is recorded before it runs: a fatal error or a hang of the worker is attributed to it
		CrashSafe: true,
		Rule: "recycled nodes: every ordered pair of representative expression statements - the second extracted from empty pools, then again after the first was parsed and released (one process, one P, collector off), with equal name sets; every SELECT / set operation / INSERT / UPDATE / DELETE / MERGE statement of the sqlgen space (quick: without 3-operator shapes; thorough: all) that the parser accepts; the generator records every identifier it places with its role " +
			"(table, column, function, alias, cte, string), names of different roles are drawn from disjoint families (t*, c*, f*/known functions, a*, w*, s*); each statement is also re-extracted under the one-lexeme-per-line lower-case layout; UNION ALL chains and AND / OR chains (a sub-query in the first / last operand) of 1..12, 49..51, 98..103, 140, 200, 300, 500 operands and IN sub-queries nested 1..99 deep, every branch / level with names of its own. " +
			"distinct = distinct SQL text; non-trivial = at least two names of different roles placed",
		Assume: []string{"the unqualified table variant may or may not keep a schema prefix (the property only fixes the qualified variant): compared on the last name component",
			"function names compared case-insensitively", "DDL statements are outside this property's statement list"},
		Enumerate: func(e *common.Enum) {
			enumerateDeep(e)
			enumerateRecycled(e)
			sqlgen.All(e.Thorough(), func(name string, s sqlgen.S) {
				switch s.Kind {
				case "select", "setop", "insert", "update", "delete", "merge":
				default:
					return
				}
				if !e.Thorough() && strings.HasPrefix(name, "shape3") {
					return
				}
				sql := s.SQL()
				e.Do(sql, func(c *common.Ctx) {
					c.Input(sql)
					got, md, tree, err := extract(sql)
					if err != nil {
						c.Outcome("rejected") // C03's business
						return
					}
					c.Sample(sql)
					wantT, wantTQ, wantC, wantCQ, wantF := map[string]bool{}, map[string]bool{}, map[string]bool{}, map[string]bool{}, map[string]bool{}
					roles := map[string]bool{}
					for _, n := range s.Names {
						roles[n.Role] = true
						switch n.Role {
						case "table":
							wantT[n.Name] = true
							if n.Qual != "" {
								wantTQ[n.Qual+"."+n.Name] = true
							} else {
								wantTQ[n.Name] = true
							}
						case "column":
							if n.Name == "*" {
								continue
							}
							wantC[n.Name] = true
							if n.Qual != "" {
								wantCQ[n.Qual+"."+n.Name] = true
							} else {
								wantCQ[n.Name] = true
							}
						case "function":
							wantF[strings.ToUpper(n.Name)] = true
						}
					}
					if len(roles) >= 2 {
						c.NonTrivial()
					}
					ok := true
					kn := common.LoadKnown("C15")
					_ = kn
					cmp := func(what string, want map[string]bool, gotl []string, norm func(string) string) {
						g := map[string]bool{}
						for _, x := range gotl {
							g[norm(x)] = true
						}
						if len(g) != len(gotl) && norm("a.b") == "a.b" {
							ok = false
							c.Fail(what+":duplicates", fmt.Sprintf("%s returned duplicates: %v", what, gotl))
						}
						miss, extra := diff(want, g)
						for _, m := range miss {
							ok = false
							frames := locate(tree, m)
							c.FailPath("C15", what+":missing", frames, fmt.Sprintf("%s misses %q, which the statement writes at %v (returned %v, written %v)", what, m, frames, keys(g), keys(want)))
						}
						for _, x := range extra {
							ok = false
							role := "unwritten"
							for _, n := range s.Names {
								if n.Name == last(x) || n.Name == x {
									role = n.Role
									break
								}
							}
							c.Fail(what+":extra@"+role, fmt.Sprintf("%s returns %q, which the statement writes as %s, not in that role (returned %v, written %v)", what, x, role, keys(g), keys(want)))
						}
					}
					id := func(x string) string { return x }
					cmp("tables", wantT, got.tables, last)
					cmp("tables-qualified", wantTQ, got.tablesQ, id)
					cmp("columns", wantC, got.cols, id)
					cmp("columns-qualified", wantCQ, got.colsQ, id)
					cmp("functions", wantF, got.funcs, strings.ToUpper)
					// ExtractMetadata must agree with the individual extractors
					if md != nil {
						if fmt.Sprint(keys(set(md.Tables))) != fmt.Sprint(keys(set(got.tables))) || fmt.Sprint(keys(set(md.Columns))) != fmt.Sprint(keys(set(got.cols))) ||
							fmt.Sprint(keys(set(md.Functions))) != fmt.Sprint(keys(set(got.funcs))) || len(md.TablesQualified) != len(got.tablesQ) || len(md.ColumnsQualified) != len(got.colsQ) {
							ok = false
							c.FailFeat("C15", "metadata-differs", s.Feat, fmt.Sprintf("ExtractMetadata differs from the individual extractors: %+v vs %+v", md, got))
						}
					}
					// layout independence
					if alt, _, _, err := extract(sqlgen.Render(s.Toks, sqlgen.LLines)); err == nil {
						a := fmt.Sprint(keys(set(alt.tables)), keys(set(alt.tablesQ)), keys(set(alt.cols)), keys(set(alt.colsQ)), upper(keys(set(alt.funcs))))
						b := fmt.Sprint(keys(set(got.tables)), keys(set(got.tablesQ)), keys(set(got.cols)), keys(set(got.colsQ)), upper(keys(set(got.funcs))))
						if a != b {
							ok = false
							c.FailFeat("C15", "layout-variance", s.Feat, "extraction differs between layouts:\n "+b+"\n "+a)
						}
					}
					c.Features(s.Feat, ok)
					if ok {
						c.Outcome("ok:" + s.Kind)
					} else {
						c.Outcome("differs:" + s.Kind)
					}
				})
			})
		},
	}
}

// enumerateRecycled: the tree a statement is extracted from is built from pooled nodes that an earlier, released tree went
// into.  Every ordered pair of representative expression statements: the second is extracted from empty pools first (nothing
// is released before that), then again after the first was parsed and released - in one process, one P, collector off.  The
// name sets must be the same.
func enumerateRecycled(e *common.Enum) {
	var reps []sqlgen.S
	seen := map[string]bool{}
	sqlgen.HoleCases(func(hole, rep string, st sqlgen.S) {
		if hole != "select.item" {
			return
		}
		if sql := st.SQL(); !seen[sql] {
			seen[sql] = true
			reps = append(reps, st)
		}
	})
	show := func(s *sets) string {
		return fmt.Sprint(keys(set(s.tables)), keys(set(s.tablesQ)), keys(set(s.cols)), keys(set(s.colsQ)), upper(keys(set(s.funcs))))
	}
	for _, a := range reps {
		a := a
		e.Do("recycled|"+a.SQL(), func(c *common.Ctx) {
			c.Input("parse and release, then extract every representative statement; first: " + a.SQL())
			runtime.GOMAXPROCS(1)
			defer debug.SetGCPercent(debug.SetGCPercent(-1))
			runtime.GC()
			runtime.GC()
			ref := make([]string, len(reps))
			for i, b := range reps {
				if s, _, _, err := extract(b.SQL()); err == nil {
					ref[i] = show(s)
				}
			}
			for i, b := range reps {
				if ref[i] == "" {
					continue
				}
				if first, err := gosqlx.Parse(a.SQL()); err == nil {
					ast.ReleaseAST(first)
				}
				s, _, tree, err := extract(b.SQL())
				if err != nil {
					c.Fail("recycled:rejected", fmt.Sprintf("%q is accepted from empty pools and rejected after %q was parsed and released: %v", b.SQL(), a.SQL(), err))
					return
				}
				if got := show(s); got != ref[i] {
					c.Fail("recycled:extraction-differs", fmt.Sprintf("after %q was parsed and released, %q yields\n %s\nfrom empty pools it yields\n %s", a.SQL(), b.SQL(), got, ref[i]))
					return
				}
				ast.ReleaseAST(tree)
				c.Count("recycled_pairs", 1)
			}
			c.Outcome("recycled:same")
			c.NonTrivial()
		})
	}
}

// enumerateDeep: long chains and deep nestings with a name of its own at every level / in every branch.  Set
// operations and AND / OR chains are parsed by loops (one tree level per operand, no parser recursion), sub-queries add
// two tree levels per level of nesting: trees get far deeper than the parser's nesting limit.
func enumerateDeep(e *common.Enum) {
	type gen func(n int) (sql string, tables, cols, funcs []string)
	shapes := []struct {
		name string
		ns   []int
		f    gen
	}{
		{"union-chain", nil, func(n int) (string, []string, []string, []string) {
			var parts, ts, cs, fs []string
			for i := 0; i < n; i++ {
				parts = append(parts, fmt.Sprintf("SELECT c%d, f%d(d%d) FROM t%d", i, i, i, i))
				ts, cs, fs = append(ts, fmt.Sprintf("t%d", i)), append(cs, fmt.Sprintf("c%d", i), fmt.Sprintf("d%d", i)), append(fs, fmt.Sprintf("F%d", i))
			}
			return strings.Join(parts, " UNION ALL "), ts, cs, fs
		}},
		{"and-chain-subquery-first", nil, func(n int) (string, []string, []string, []string) {
			sql := "SELECT c FROM t WHERE x0 IN (SELECT y0 FROM u0 WHERE g0(z0) > 0)"
			cs := []string{"c", "x0", "y0", "z0"}
			for i := 1; i < n; i++ {
				sql += fmt.Sprintf(" AND x%d = %d", i, i)
				cs = append(cs, fmt.Sprintf("x%d", i))
			}
			return sql, []string{"t", "u0"}, cs, []string{"G0"}
		}},
		{"or-chain-subquery-last", nil, func(n int) (string, []string, []string, []string) {
			sql := "SELECT c FROM t WHERE x0 = 0"
			cs := []string{"c", "x0", "yl", "zl"}
			for i := 1; i < n; i++ {
				sql += fmt.Sprintf(" OR x%d = %d", i, i)
				cs = append(cs, fmt.Sprintf("x%d", i))
			}
			sql += " OR EXISTS (SELECT yl FROM ul WHERE gl(zl) > 0)"
			return sql, []string{"t", "ul"}, cs, []string{"GL"}
		}},
		{"nested-in", []int{}, func(d int) (string, []string, []string, []string) {
			sql, ts, cs, fs := "SELECT c0 FROM t0 WHERE c0 IN ", []string{"t0"}, []string{"c0"}, []string{}
			for i := 1; i <= d; i++ {
				sql += fmt.Sprintf("(SELECT c%d FROM t%d WHERE f%d(d%d) > 0 AND c%d IN ", i, i, i, i, i)
				ts, cs, fs = append(ts, fmt.Sprintf("t%d", i)), append(cs, fmt.Sprintf("c%d", i), fmt.Sprintf("d%d", i)), append(fs, fmt.Sprintf("F%d", i))
			}
			return sql + "(1)" + strings.Repeat(")", d), ts, cs, fs
		}},
	}
	var chain []int
	for n := 1; n <= 12; n++ {
		chain = append(chain, n)
	}
	chain = append(chain, 49, 50, 51, 98, 99, 100, 101, 102, 103, 140, 200, 300, 500)
	var depths []int
	for d := 1; d <= 99; d++ {
		depths = append(depths, d)
	}
	for _, sh := range shapes {
		ns := chain
		if sh.name == "nested-in" {
			ns = depths
		}
		for _, n := range ns {
			sh, n := sh, n
			e.Do(fmt.Sprintf("deep|%s|%d", sh.name, n), func(c *common.Ctx) {
				sql, ts, cs, fs := sh.f(n)
				c.Input(fmt.Sprintf("%s with n = %d: %s", sh.name, n, common.Trim(sql, 200)))
				got, _, _, err := extract(sql)
				if err != nil {
					c.Outcome("deep:rejected")
					return
				}
				check := func(what string, want, gotl []string, norm func(string) string) {
					g := map[string]bool{}
					for _, x := range gotl {
						g[norm(x)] = true
					}
					var miss []string
					for _, w := range want {
						if !g[w] {
							miss = append(miss, w)
						}
					}
					if len(miss) > 0 {
						c.Fail("deep:"+what+":missing@"+sh.name, fmt.Sprintf("%s misses %d of the %d names written in the statement (first: %v)", what, len(miss), len(want), miss[:1]))
					}
					if len(g) != len(want) {
						if len(miss) == 0 {
							c.Fail("deep:"+what+":extra@"+sh.name, fmt.Sprintf("%s returns %d names, the statement writes %d", what, len(g), len(want)))
						}
					}
				}
				id := func(x string) string { return x }
				check("tables", ts, got.tables, last)
				check("tables-qualified", ts, got.tablesQ, id)
				check("columns", cs, got.cols, id)
				check("columns-qualified", cs, got.colsQ, id)
				check("functions", fs, got.funcs, strings.ToUpper)
				c.Outcome("deep:" + sh.name)
				c.NonTrivial()
			})
		}
	}
}

func upper(xs []string) []string {
	out := make([]string, len(xs))
	for i, x := range xs {
		out[i] = strings.ToUpper(x)
	}
	sort.Strings(out)
	return out
}

// locate returns the "Type.Field" frames (outermost first) of the first place in
// the parsed tree where a string field equals name (or ends in ".name"): the
// position at which the statement writes that name.
func locate(tree *ast.AST, full string) []string {
	name, qual := last(full), ""
	if i := strings.LastIndex(full, "."); i >= 0 {
		qual = full[:i]
	}
	var best []string
	var walk func(v reflect.Value, frames []string, depth int) bool
	walk = func(v reflect.Value, frames []string, depth int) bool {
		if depth > 200 {
			return false
		}
		switch v.Kind() {
		case reflect.Ptr, reflect.Interface:
			if v.IsNil() {
				return false
			}
			return walk(v.Elem(), frames, depth+1)
		case reflect.Struct:
			t := v.Type()
			for i := 0; i < v.NumField(); i++ {
				f := t.Field(i)
				if f.PkgPath != "" || (t.Name() == "JoinClause" && f.Name == "Left") || (t.Name() == "SelectStatement" && f.Name == "TableName") {
					continue
				}
				fr := append(append([]string{}, frames...), t.Name()+"."+f.Name)
				fv := v.Field(i)
				if fv.Kind() == reflect.String {
					if strings.EqualFold(fv.String(), name) || strings.HasSuffix(strings.ToLower(fv.String()), "."+strings.ToLower(name)) {
						if t.Name() == "Identifier" && f.Name == "Name" && v.FieldByName("Table").String() != qual {
							continue // a column with another qualifier
						}
						best = fr
						return true
					}
					continue
				}
				if fv.Kind() == reflect.Slice && fv.Type().Elem().Kind() == reflect.String {
					for j := 0; j < fv.Len(); j++ {
						if strings.EqualFold(fv.Index(j).String(), name) {
							best = fr
							return true
						}
					}
					continue
				}
				if walk(fv, fr, depth+1) {
					return true
				}
			}
		case reflect.Slice, reflect.Array:
			for i := 0; i < v.Len(); i++ {
				if walk(v.Index(i), frames, depth+1) {
					return true
				}
			}
		}
		return false
	}
	walk(reflect.ValueOf(tree.Statements), nil, 0)
	if len(best) == 0 {
		return []string{"not-in-tree"}
	}
	// innermost frame first, so that attribution prefers the closest listed position;
	// the last frame (the name-bearing field itself) is kept: e.g. MergeStatement.TargetTable/TableReference.Name
	out := make([]string, 0, len(best))
	for i := len(best) - 1; i >= 0; i-- {
		out = append(out, best[i])
	}
	return out
}
