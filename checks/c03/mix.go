package c03

import (
	"fmt"

	"github.com/ajitpratap0/GoSQLX/pkg/gosqlx"

	"verif/engine/common"
	"verif/sqlgen"
)

// The "ambiguous-mix" family.
//
// The model grammar (sqlgen.needParen) always parenthesises a mix of a
// dialect-dependent operator (|| or a JSON operator) with an arithmetic operator
// or with the other dialect-dependent class, so the un-parenthesised text
// "x op1 y op2 z" of such a pair never occurs in sqlgen.All.  The property still
// covers it: the statement is of the documented surface (never rejected) and the
// tree must be one a standard reading prescribes.  Because the standard readings
// differ between dialects the oracle accepts BOTH groupings
//
//	(x op1 y) op2 z      and      x op1 (y op2 z)
//
// and nothing else (every operand, operator and literal as written, nothing
// unwritten - the two model trees are built by sqlgen.Bin exactly like the rest
// of the space).
//
// Enumeration: every ordered pair (op1, op2) of the operator catalogue
// sqlgen.BinOps whose classes differ, where one class is dialect-dependent
// (concat, json) and the other is concat, json, add or mul - i.e. exactly the
// pairs for which needParen forces parentheses although the child binds tighter
// or looser by the table - x every operand triple of mixOperands x every host
// position of mixHosts x 2 layouts.

type mixHost struct {
	name  string
	build func(x sqlgen.X) sqlgen.S
}

func mixSel(items []sqlgen.SelItem, where *sqlgen.X) sqlgen.S {
	return sqlgen.Sel{Items: items, From: []sqlgen.TableRef{{Name: "t0"}}, Where: where}.Build()
}

func mixHosts(thorough bool) []mixHost {
	c0 := func() []sqlgen.SelItem { return []sqlgen.SelItem{{X: sqlgen.Col("c0")}} }
	hs := []mixHost{
		{"item", func(x sqlgen.X) sqlgen.S { return mixSel([]sqlgen.SelItem{{X: x}}, nil) }},
		{"where", func(x sqlgen.X) sqlgen.S { return mixSel(c0(), &x) }},
		{"cmp-rhs", func(x sqlgen.X) sqlgen.S {
			w := sqlgen.Bin("=", sqlgen.Col("c0"), x)
			return mixSel(c0(), &w)
		}},
	}
	if thorough {
		hs = append(hs,
			mixHost{"cmp-lhs", func(x sqlgen.X) sqlgen.S {
				w := sqlgen.Bin("=", x, sqlgen.Col("c0"))
				return mixSel(c0(), &w)
			}},
			mixHost{"and-operand", func(x sqlgen.X) sqlgen.S {
				w := sqlgen.Bin("AND", sqlgen.Bin("<", sqlgen.Col("c0"), x), sqlgen.Col("c9"))
				return mixSel(c0(), &w)
			}},
			mixHost{"item-alias", func(x sqlgen.X) sqlgen.S {
				return mixSel([]sqlgen.SelItem{{X: x, Alias: "a1", AsKw: true}, {X: sqlgen.Col("c0")}}, nil)
			}},
			mixHost{"func-arg", func(x sqlgen.X) sqlgen.S {
				return mixSel([]sqlgen.SelItem{{X: sqlgen.Func("f1", []sqlgen.X{x, sqlgen.Col("c0")}, sqlgen.FuncOpts{})}}, nil)
			}},
		)
	}
	return hs
}

// mixOperands are the operand triples (x, y, z).
func mixOperands(thorough bool) [][3]sqlgen.X {
	ts := [][3]sqlgen.X{{sqlgen.Col("c1"), sqlgen.Col("c2"), sqlgen.Int("3")}}
	if thorough {
		ts = append(ts,
			[3]sqlgen.X{sqlgen.Col("c1"), sqlgen.Str("s2"), sqlgen.Col("c3")},
			[3]sqlgen.X{sqlgen.Str("s1"), sqlgen.QCol("t0", "c2"), sqlgen.Str("s3")},
			[3]sqlgen.X{sqlgen.Int("1"), sqlgen.Int("2"), sqlgen.Int("3")},
		)
	}
	return ts
}

func mixClass(c string) bool { return c == "concat" || c == "json" }
func mixPartner(c string) bool {
	return c == "concat" || c == "json" || c == "add" || c == "mul"
}

func opTok(o sqlgen.BinOp) sqlgen.Tok { return sqlgen.Tok{S: o.Sym, Kw: o.Word} }

// flat is x op1 y op2 z without parentheses carrying the model tree n.
func mixFlat(o1, o2 sqlgen.BinOp, t [3]sqlgen.X, grouped sqlgen.X) sqlgen.X {
	var toks []sqlgen.Tok
	toks = append(toks, t[0].Toks...)
	toks = append(toks, opTok(o1))
	toks = append(toks, t[1].Toks...)
	toks = append(toks, opTok(o2))
	toks = append(toks, t[2].Toks...)
	x := grouped
	x.Toks = toks
	x.Full = toks
	return x
}

func enumerateMixes(e *common.Enum) {
	hosts := mixHosts(e.Thorough())
	operands := mixOperands(e.Thorough())
	layouts := []int{sqlgen.LNatural, sqlgen.LLines}
	for _, o1 := range sqlgen.BinOps {
		for _, o2 := range sqlgen.BinOps {
			if o1.Class == o2.Class || !mixPartner(o1.Class) || !mixPartner(o2.Class) || !(mixClass(o1.Class) || mixClass(o2.Class)) {
				continue
			}
			feat := []string{"expr.mix:" + o1.Class + "," + o2.Class}
			for ti, t := range operands {
				left := mixFlat(o1, o2, t, sqlgen.Bin(o2.Sym, sqlgen.Bin(o1.Sym, t[0], t[1]), t[2]))
				right := mixFlat(o1, o2, t, sqlgen.Bin(o1.Sym, t[0], sqlgen.Bin(o2.Sym, t[1], t[2])))
				for _, h := range hosts {
					sl, sr := h.build(left), h.build(right)
					for _, l := range layouts {
						sql := sqlgen.Render(sl.Toks, l)
						if sql != sqlgen.Render(sr.Toks, l) {
							panic("c03 mix: the two groupings render differently: " + sql)
						}
						key := fmt.Sprintf("mix|%s|%s %s|t%d|L%d|%s", h.name, o1.Sym, o2.Sym, ti, l, sql)
						if !e.Mine(key) {
							continue
						}
						e.Do(key, func(c *common.Ctx) {
							c.Input(sql)
							c.Sample(sql)
							tree, err := gosqlx.Parse(sql)
							if err != nil {
								c.Outcome("rejected:" + errCode(err))
								c.Features(feat, false)
								c.FailFeat("C03", "rejected", feat, fmt.Sprintf("un-parenthesised %s / %s mix rejected: %v", o1.Sym, o2.Sym, err))
								return
							}
							got := sqlgen.DumpNorm(tree.Statements)
							wantL := sqlgen.DumpNorm([]any{sl.N})
							wantR := sqlgen.DumpNorm([]any{sr.N})
							switch got {
							case wantL:
								c.Outcome("ok:mix-left-grouping")
							case wantR:
								c.Outcome("ok:mix-right-grouping")
							default:
								p := sqlgen.DiffPath(wantL, got)
								c.Outcome("tree-differs")
								c.Features(feat, false)
								c.FailFeat("C03", "tree", feat, "tree is neither (x "+o1.Sym+" y) "+o2.Sym+" z nor x "+o1.Sym+" (y "+o2.Sym+" z); against the first it differs at "+
									lastFrames(p, 3)+" "+sqlgen.FirstDiff(wantL, got))
								return
							}
							c.Features(feat, true)
							c.NonTrivial()
						})
					}
				}
			}
		}
	}
}
