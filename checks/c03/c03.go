// Package c03 checks property C03 (the parsed tree is the tree the grammar prescribes).
package c03

import (
	"fmt"
	"strings"

	"github.com/ajitpratap0/GoSQLX/pkg/gosqlx"

	"verif/engine/common"
	"verif/sqlgen"
)

// errCode extracts "E2001" from an error text (the structured code is checked in C13).
func errCode(err error) string {
	s := err.Error()
	i := strings.Index(s, "Error E")
	if i >= 0 && i+11 <= len(s) {
		return s[i+6 : i+11]
	}
	return "E????"
}

// Check returns the C03 check.
func Check() *common.Check {
	return &common.Check{
		ID:    "C03",
		Level: "exploration",
		// every case is recorded before it runs: a fatal error or a hang of the worker is attributed to it
		CrashSafe: true,
		Rule: "every statement of the model grammar (sqlgen.All: all expression trees with <=2 operator nodes over the full operator catalogue, " +
			"<=3 (quick) / <=4 (thorough) over one representative per precedence class, every expression hole x every representative expression, " +
			"all 2^10 SELECT clause subsets, DML/DDL clause subsets, statement-valued holes to depth 1/2), each in minimal- and full-parenthesis form " +
			"and under 4 layouts; plus the ambiguous-mix family (mix.go): every ordered operator pair of differing classes with one of ||/JSON and the other ||/JSON/+-/*/% " +
			"written WITHOUT parentheses (x op1 y op2 z) in 3 (quick) / 7 (thorough) host positions x 1 / 4 operand triples x 2 layouts, tree = either grouping; distinct = distinct (SQL text); non-trivial = accepted by the parser and containing at least one operator node, clause option or nested statement (feature count >= 3)",
		Assume: []string{"reference precedence table of sqlgen/expr.go (OR<AND<NOT<comparison<||<+-<*/%<JSON<unary<::/[]); dialect-dependent mixes are always parenthesised in sqlgen.All and accept either grouping in the ambiguous-mix family",
			"canonical dump normalises SelectStatement.TableName and JoinClause.Left (derived fields)", "small-scope hypothesis above the stated bounds"},
		Enumerate: func(e *common.Enum) {
			enumerateMixes(e)
			sqlgen.All(e.Thorough(), func(name string, s sqlgen.S) {
				sec := name
				if i := strings.Index(name, "/"); i > 0 {
					sec = name[:i]
				}
				layouts := []int{sqlgen.LNatural, sqlgen.LSpaced, sqlgen.LLines, sqlgen.LComments, sqlgen.LComments2}
				if sec == "shape3" || sec == "shape4" || sec == "nest2" {
					layouts = []int{sqlgen.LNatural, sqlgen.LLines}
				}
				want := ""
				for _, l := range layouts {
					sql := sqlgen.Render(s.Toks, l)
					key := fmt.Sprintf("L%d|%s", l, sql)
					if !e.Mine(key) {
						continue
					}
					if want == "" {
						want = sqlgen.DumpNorm([]any{s.N})
					}
					feat := s.Feat
					if l == sqlgen.LLines || l == sqlgen.LComments || l == sqlgen.LComments2 {
						// keyword letter case differs from the canonical upper case: name each keyword
						feat = append([]string{}, s.Feat...)
						seen := map[string]bool{}
						for _, t := range s.Toks {
							if t.Kw && !seen[t.S] {
								seen[t.S] = true
								feat = append(feat, "kwcase:"+t.S)
							}
						}
					}
					e.Do(key, func(c *common.Ctx) {
						s := s
						s.Feat = feat
						c.Input(sql)
						c.Sample(sql)
						tree, err := gosqlx.Parse(sql)
						if err != nil {
							c.Outcome("rejected:" + errCode(err))
							c.Features(s.Feat, false)
							c.FailFeat("C03", "rejected", s.Feat, fmt.Sprintf("statement of the model grammar rejected: %v", err))
							return
						}
						got := sqlgen.DumpNorm(tree.Statements)
						if got != want {
							p := sqlgen.DiffPath(want, got)
							c.Outcome("tree-differs")
							c.Features(s.Feat, false)
							c.FailFeat("C03", "tree", s.Feat, "tree differs from the model tree at "+lastFrames(p, 3)+" "+sqlgen.FirstDiff(want, got))
							return
						}
						c.Features(s.Feat, true)
						c.Outcome("ok:" + s.Kind)
						if len(s.Feat) >= 3 {
							c.NonTrivial()
						}
					})
				}
			})
		},
	}
}

func lastFrames(p string, n int) string {
	parts := strings.Split(p, "/")
	if len(parts) > n {
		parts = parts[len(parts)-n:]
	}
	return strings.Join(parts, "/")
}
