// Package calib holds the calibration routine of the C20 cost measure: it is instrumented like the
// library, and the harness checks on every start that the body of Loop(k) is counted exactly k times.
package calib

// Loop executes its loop body k times.
//
//go:noinline
func Loop(k int) int {
	s := 0
	for i := 0; i < k; i++ {
		s += i ^ (s >> 3)
	}
	return s
}
