// Command ovtree materialises a `go build -overlay` file for an instrumented (-cover) build.
//
// `go build -cover` hands the on-disk path of every covered source file straight to cmd/cover
// (cmd/go/internal/work/exec.go: sourceFile = filepath.Join(p.Dir, file)), so overlay
// replacements of covered files are silently ignored.  The C20 harness must honour
// VERIF_OVERLAY (detection demonstrations replace library files without touching /repo), so its
// build script calls
//
//	ovtree <overlay.json> <repo dir> <scratch dir> <go.mod of the harness>
//
// which copies the library tree to <scratch dir>/repo, applies every replacement whose key lies
// under <repo dir>, and writes <scratch dir>/go.mod (+ go.sum) in which the library is replaced
// by that copy; the build then uses -modfile=<scratch dir>/go.mod.
package main

import (
	"encoding/json"
	"fmt"
	"io"
	"io/fs"
	"os"
	"path/filepath"
	"strings"
)

func die(err error) {
	fmt.Fprintln(os.Stderr, "ovtree:", err)
	os.Exit(1)
}

func copyFile(dst, src string) error {
	in, err := os.Open(src)
	if err != nil {
		return err
	}
	defer in.Close()
	if err := os.MkdirAll(filepath.Dir(dst), 0o755); err != nil {
		return err
	}
	out, err := os.Create(dst)
	if err != nil {
		return err
	}
	if _, err := io.Copy(out, in); err != nil {
		out.Close()
		return err
	}
	return out.Close()
}

func main() {
	if len(os.Args) != 5 {
		die(fmt.Errorf("usage: ovtree <overlay.json> <repo dir> <scratch dir> <go.mod>"))
	}
	ovPath, repo, scratch, gomod := os.Args[1], filepath.Clean(os.Args[2]), os.Args[3], os.Args[4]
	b, err := os.ReadFile(ovPath)
	if err != nil {
		die(err)
	}
	var ov struct{ Replace map[string]string }
	if err := json.Unmarshal(b, &ov); err != nil {
		die(fmt.Errorf("%s: %w", ovPath, err))
	}
	dst := filepath.Join(scratch, "repo")
	if err := os.RemoveAll(scratch); err != nil {
		die(err)
	}
	// copy the Go sources and module files of the library (nothing else is needed to build it)
	err = filepath.WalkDir(repo, func(p string, d fs.DirEntry, err error) error {
		if err != nil {
			return err
		}
		rel, _ := filepath.Rel(repo, p)
		if d.IsDir() {
			if n := d.Name(); rel != "." && (n == ".git" || n == "node_modules" || n == "testdata") {
				return filepath.SkipDir
			}
			return nil
		}
		n := d.Name()
		if strings.HasSuffix(n, ".go") || strings.HasSuffix(n, ".s") || n == "go.mod" || n == "go.sum" || strings.HasSuffix(n, ".json") || strings.HasSuffix(n, ".txt") || strings.HasSuffix(n, ".sql") || strings.HasSuffix(n, ".yaml") || strings.HasSuffix(n, ".yml") {
			if !d.Type().IsRegular() {
				return nil
			}
			return copyFile(filepath.Join(dst, rel), p)
		}
		return nil
	})
	if err != nil {
		die(err)
	}
	applied := 0
	for k, v := range ov.Replace {
		k = filepath.Clean(k)
		if !strings.HasPrefix(k, repo+string(filepath.Separator)) {
			continue
		}
		rel, _ := filepath.Rel(repo, k)
		if v == "" {
			os.Remove(filepath.Join(dst, rel))
		} else if err := copyFile(filepath.Join(dst, rel), v); err != nil {
			die(err)
		}
		applied++
	}
	mb, err := os.ReadFile(gomod)
	if err != nil {
		die(err)
	}
	lines := strings.Split(string(mb), "\n")
	found := false
	for i, l := range lines {
		if strings.Contains(l, "=>") && strings.HasSuffix(strings.TrimSpace(l), repo) {
			lines[i] = strings.Replace(l, "=> "+repo, "=> "+dst, 1)
			found = true
		}
	}
	if !found {
		die(fmt.Errorf("%s has no replace directive pointing at %s", gomod, repo))
	}
	if err := os.WriteFile(filepath.Join(scratch, "go.mod"), []byte(strings.Join(lines, "\n")), 0o644); err != nil {
		die(err)
	}
	if sb, err := os.ReadFile(strings.TrimSuffix(gomod, ".mod") + ".sum"); err == nil {
		os.WriteFile(filepath.Join(scratch, "go.sum"), sb, 0o644)
	}
	fmt.Fprintf(os.Stderr, "ovtree: %d of %d overlay replacements applied to a copy of %s\n", applied, len(ov.Replace), repo)
}
