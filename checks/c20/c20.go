// Package c20 checks property C20 (processing cost grows near-linearly with input size).
//
// Space: every (input family, entry point) pair of two explicit catalogues (families.go,
// entries.go).  Each pair is one case and is measured at every size n of two ladders:
//
//	small sizes   n = 8, 10, 12 .. 64          (explosive growth is caught while it is still cheap)
//	doublings     n = 2^4, 2^5, ..             quick: up to 2^14 and 512 KiB of input
//	                                           thorough: Tokenize and Parse up to the documented limits
//	                                           (10 MiB input, 1M tokens), the other entry points up to 1 MiB
//
// Cost measure (deterministic, no clock): the harness is built with per-basic-block execution
// counters (cmd/c20/build.sh).  The cost of one call is
//
//	blocks = sum of the execution counts of all basic blocks of the library and of the standard
//	         library packages it spends time in (strings, bytes, regexp, fmt, strconv, sort, ...)
//	alloc  = bytes allocated during the call (runtime.MemStats.TotalAlloc delta; garbage collection
//	         is switched off during the call and the pools are emptied before it)
//
// Oracle ("near-linear" = exponent < 1.5): a (family, entry point) violates the property when the
// total block count, or the count of any single basic block, or the allocated bytes, is at least
// 10^5 at some size n and then grows by more than a factor 2^1.5 (2.83) from n to 2n AND again
// from 2n to 4n.  n log n growth gives factors <= 2.3 on this ladder, quadratic growth gives 4.
// On the small sizes the rule is: at least 10^5, then more than x1.5 for each of three consecutive
// steps of +2 elements (only super-quadratic, i.e. in practice exponential, growth does that).
// An input that is rejected by a limit (depth, tokens, size) simply costs little.
//
// The signature of a violation is superlinear:<entry point>:<function>, the function being the one
// that contains the hottest basic block that breaks the rule (per-block counts localise), or, when
// only the allocated bytes break it, the library function that allocates most (found by repeating
// the call in a child process with every allocation profiled).  After a first violation the ladder
// of the case goes on while one call costs less than a fixed number of block executions, so that an
// independent second culprit is reported by the same run.
//
// A third measure, user CPU time of the calling thread, is a back-stop for cost that neither
// counters nor allocation see (assembly routines of the runtime: bytes.Count, memmove ...).  It is
// only consulted where one call takes >= 200 ms, needs exponent > 1.7 over two consecutive
// doublings on the minimum of three runs, a calibration loop around every timed run that varies by
// less than 15% (otherwise the machine is too busy and the back-stop is skipped and counted in the
// evidence), and (like every violation) five reproductions in fresh processes.  It is deliberately
// weak: assembly routines are so fast that a quadratic cost hidden in them only starts to dominate
// near the size limits.
package c20

import (
	"encoding/json"
	"fmt"
	"math"
	"os"
	"os/exec"
	"path/filepath"
	"regexp"
	"runtime"
	"runtime/debug"
	"sort"
	"strconv"
	"strings"
	"syscall"
	"time"

	"github.com/ajitpratap0/GoSQLX/pkg/gosqlx"
	"github.com/ajitpratap0/GoSQLX/pkg/sql/ast"
	"github.com/ajitpratap0/GoSQLX/pkg/sql/tokenizer"

	"verif/checks/c20/calib"
	"verif/engine/common"
)

const (
	maxInputSize = tokenizer.MaxInputSize
	floorCount   = 100000 // a count / byte total takes part in the rule once it is at least this
	factor       = 2.8284271247461903
	cpuFloor     = 200 * time.Millisecond
	cpuExponent  = 1.7
)

// point is one measurement: one call of one entry point on one input.
type point struct {
	N      int     `json:"n"`
	Bytes  int     `json:"bytes"`
	Result string  `json:"result"`
	Lib    uint64  `json:"lib_blocks"`
	Std    uint64  `json:"std_blocks"`
	Alloc  uint64  `json:"alloc_bytes"`
	CPUms  float64 `json:"cpu_ms"`
	vec    []uint32
	wall   time.Duration
	cpu    time.Duration
	cpuMin time.Duration // min of 3, when taken
}

func (p *point) total() uint64 { return p.Lib + p.Std }

var (
	snapA, snapB []uint32
	selfTestErr  error
	selfTested   bool
)

func threadCPU() time.Duration {
	var ru syscall.Rusage
	if err := syscall.Getrusage(1 /* RUSAGE_THREAD */, &ru); err != nil {
		return 0
	}
	return time.Duration(ru.Utime.Sec)*time.Second + time.Duration(ru.Utime.Usec)*time.Microsecond
}

// safeCall runs the measured call; a panic is not C20's subject (C01 decides totality).
//
//go:noinline
func safeCall(call func() string) (res string) {
	defer func() {
		if r := recover(); r != nil {
			res = "panic"
		}
	}()
	return call()
}

// measure runs one call with counters, allocation and thread CPU time recorded around it.
func measure(call func() string, keepVec bool) (point, error) {
	var p point
	sink = nil
	runtime.GC()
	runtime.GC() // twice: sync.Pool keeps a victim generation; every call starts with empty pools
	old := debug.SetGCPercent(-1)
	defer debug.SetGCPercent(old)
	runtime.LockOSThread()
	defer runtime.UnlockOSThread()
	var m0, m1 runtime.MemStats
	if err := snapshot(snapA); err != nil {
		return p, err
	}
	runtime.ReadMemStats(&m0)
	t0 := time.Now()
	c0 := threadCPU()
	p.Result = safeCall(call)
	p.cpu = threadCPU() - c0
	p.wall = time.Since(t0)
	runtime.ReadMemStats(&m1)
	if err := snapshot(snapB); err != nil {
		return p, err
	}
	p.Alloc = m1.TotalAlloc - m0.TotalAlloc
	p.CPUms = float64(p.cpu.Microseconds()) / 1000
	if keepVec {
		p.vec = make([]uint32, len(snapA))
	}
	for i := range snapA {
		d := snapB[i] - snapA[i] // counters are uint32 and may wrap; the difference is right below 2^32
		if d == 0 {
			continue
		}
		fd := &meta.funcs[meta.units[i].fn]
		if fd.own {
			continue
		}
		if keepVec {
			p.vec[i] = d
		}
		if fd.lib {
			p.Lib += uint64(d)
		} else {
			p.Std += uint64(d)
		}
	}
	sink = nil
	return p, nil
}

// timeOnly measures thread CPU time of one call (no counters needed).
func timeOnly(call func() string) time.Duration {
	sink = nil
	runtime.GC()
	old := debug.SetGCPercent(-1)
	defer debug.SetGCPercent(old)
	runtime.LockOSThread()
	defer runtime.UnlockOSThread()
	c0 := threadCPU()
	safeCall(call)
	d := threadCPU() - c0
	sink = nil
	return d
}

// calibTime is the CPU time of a fixed pure-CPU workload; it tells how disturbed the machine is.
func calibTime() time.Duration {
	runtime.LockOSThread()
	defer runtime.UnlockOSThread()
	c0 := threadCPU()
	sink = calib.Loop(3_000_000)
	return threadCPU() - c0
}

func selfTest() error {
	if selfTested {
		return selfTestErr
	}
	selfTested = true
	selfTestErr = func() error {
		if err := loadMeta(); err != nil {
			return err
		}
		snapA = make([]uint32, len(meta.units))
		snapB = make([]uint32, len(meta.units))
		const k = 1000003
		if err := snapshot(snapA); err != nil {
			return err
		}
		sink = calib.Loop(k)
		if err := snapshot(snapB); err != nil {
			return err
		}
		seenK, seen1 := false, false
		for i := range meta.units {
			fd := &meta.funcs[meta.units[i].fn]
			if fd.pkg == "verif/checks/c20/calib" && fd.name == "Loop" {
				switch snapB[i] - snapA[i] {
				case k:
					seenK = true
				case 1:
					seen1 = true
				}
			}
		}
		if !seenK || !seen1 {
			return fmt.Errorf("calibration loop executed %d times is not read back as %d from the block counters", k, k)
		}
		return nil
	}()
	return selfTestErr
}

var litSuffix = regexp.MustCompile(`(\.func\d+|\.\d+|\.gowrap\d+)+$`)

// declFunc names the declared function containing a unit: "tokenizer.Tokenizer.toSQLPosition".
func declFunc(u int) string {
	return litSuffix.ReplaceAllString(funcName(u), "")
}

func exponent(n0, n1 int, x0, x1 float64) float64 {
	if x0 <= 0 || x1 <= 0 || n0 <= 0 || n1 <= n0 {
		return 0
	}
	return math.Log(x1/x0) / math.Log(float64(n1)/float64(n0))
}

// row is what one case contributes to the growth table of the evidence file.
type row struct {
	Family   string  `json:"family"`
	Entry    string  `json:"entry"`
	Sizes    int     `json:"sizes_measured"`
	NMax     int     `json:"n_max"`
	BytesMax int     `json:"bytes_max"`
	Result   string  `json:"result_at_n_max"`
	Blocks   uint64  `json:"blocks_at_n_max"`
	Alloc    uint64  `json:"alloc_at_n_max"`
	ExpB     float64 `json:"exp_blocks_last_doubling"`
	ExpBMax  float64 `json:"exp_blocks_max_over_two_doublings"`
	ExpA     float64 `json:"exp_alloc_last_doubling"`
	ExpAMax  float64 `json:"exp_alloc_max_over_two_doublings"`
	ExpCPU   float64 `json:"exp_cpu_last_doubling,omitempty"`
	Verdict  string  `json:"verdict"`
	Where    string  `json:"where,omitempty"`
	CaseSec  float64 `json:"case_cpu_s"`
}

func round2(x float64) float64 { return math.Round(x*100) / 100 }

// twoStepExp is the largest exponent sustained over two consecutive doublings (the smaller of the
// two per-doubling exponents), over all windows whose first value is at least the floor.
func twoStepExp(n []int, x []float64) float64 {
	best := 0.0
	for i := 0; i+2 < len(x); i++ {
		if x[i] < floorCount {
			continue
		}
		e := math.Min(exponent(n[i], n[i+1], x[i], x[i+1]), exponent(n[i+1], n[i+2], x[i+1], x[i+2]))
		if e > best {
			best = e
		}
	}
	return best
}

func resultsDir() string { return filepath.Join(common.Root(), ".work", "run", "c20-results") }

// Prepare is called by cmd/c20 before the framework starts: the parent process empties the
// directory in which the workers leave their rows of the growth table.
func Prepare(args []string) {
	if len(args) == 4 && args[0] == "--allocsite" {
		runtime.MemProfileRate = 1
		n, _ := strconv.Atoi(args[3])
		fmt.Println(allocSiteChild(args[1], args[2], n))
		os.Exit(0)
	}
	for _, a := range args {
		if a == "--worker" || a == "--replay-key" || a == "--replay" {
			return
		}
	}
	os.RemoveAll(resultsDir())
	os.MkdirAll(resultsDir(), 0o755)
}

func touchCur() {
	if p := os.Getenv("VERIF_CURFILE"); p != "" {
		now := time.Now()
		os.Chtimes(p, now, now)
	}
}

// Check returns the C20 check.
func Check() *common.Check {
	return &common.Check{
		ID:    "C20",
		Level: "exploration",
		Rule: "every (input family, entry point) pair of the two catalogues in checks/c20/families.go and entries.go; a case is one pair, measured at every size of " +
			"n = 8, 10 .. 64 and n = 2^4, 2^5, ... (quick: up to 2^14 elements and 512 KiB, regular-expression scanners 64 KiB; thorough: Tokenize and Parse up to the 10 MiB input / 1M token limits, other entry points up to 1 MiB, regular-expression scanners 256 KiB); " +
			"distinct = distinct (family, entry point); non-trivial = the entry point accepted the input at >= 3 sizes of the doubling ladder and executed >= 10^5 basic blocks at the largest one " +
			"(so the two-doublings rule was really evaluated on it), or the case was found super-linear. After a violation the ladder ends at the first call above 5e7 (thorough 3e8) block executions; " +
			"as a cap (exhaustive:false) it ends when one call exceeds 20 s",
		Assume: []string{
			"cost = basic-block executions (cmd/cover counters, atomic mode, read back in-process through runtime/coverage; a calibration loop of known length is checked on every start) + allocated bytes (MemStats.TotalAlloc); " +
				"work done inside runtime assembly (memmove, bytealg) is not counted by these two measures and is only seen by the CPU-time back-stop",
			"near-linear is operationalised as: no growth factor above 2^1.5 per doubling over two consecutive doublings once the count is >= 10^5; growth that only starts beyond the largest measured size is not seen",
			"an asymptotic statement is checked on a finite ladder ending at the documented limits (MaxInputSize, MaxTokens)",
			"the family catalogue is hand-written; shapes outside it are not covered",
		},
		CrashSafe: true,
		// recovery over a nest of n sub-queries far beyond the depth limit collects n errors of about 11 KB each (every one
		// wraps the texts of 100 levels): linear, but a gigabyte at the top of the thorough ladder
		MemLimit:  8 << 30,
		Enumerate: enumerate,
		Extra:     extra,
	}
}

func enumerate(e *common.Enum) {
	debug.SetMaxStack(768 << 20)  // deep expression chains are walked recursively; recursion depth is C02's subject
	debug.SetMemoryLimit(3 << 29) // 1.5 GiB: the collector is off during a call and only runs when the heap gets this large
	fams := families()
	ents := entries()
	for fi := range fams {
		f := &fams[fi]
		if f.thoroughOnly && !e.Thorough() {
			continue
		}
		for ei := range ents {
			en := &ents[ei]
			key := f.name + "|" + en.name
			e.Do(key, func(c *common.Ctx) { runCase(c, e, f, en) })
		}
	}
}

// A rule says when a series of costs grows too fast: `steps` consecutive steps, starting at a value
// of at least floorCount, each of which multiplies the cost by more than allowed(n0, n1).
type rule struct {
	name    string
	steps   int
	allowed func(n0, n1 int) float64
}

var (
	// main ladder (doublings): more than 2^1.5 per doubling, twice in a row
	doublings = rule{"two consecutive doublings", 2, func(n0, n1 int) float64 { return math.Pow(float64(n1)/float64(n0), 1.5) }}
	// small-size ladder (n = 8, 10, 12 ... 64): more than x1.5 per step of +2, three times in a row.
	// Polynomial growth of degree <= 2 stays below that from n = 8 on; the rule exists to catch
	// explosive (exponential) growth while it is still cheap to observe.
	explosive = rule{"three consecutive steps of +2 elements", 3, func(int, int) float64 { return 1.5 }}
)

func (ru rule) steep(n []int, x []float64, floor float64) bool {
	k := ru.steps
	if len(x) < k+1 {
		return false
	}
	n, x = n[len(n)-k-1:], x[len(x)-k-1:] // older windows were judged when they were the newest
	if x[0] < floor {
		return false
	}
	for i := 0; i < k; i++ {
		if !(x[i+1] > ru.allowed(n[i], n[i+1])*x[i]) {
			return false
		}
	}
	return true
}

func smallLadder() []int {
	var out []int
	for n := 8; n <= 64; n += 2 {
		out = append(out, n)
	}
	return out
}

func runCase(c *common.Ctx, e *common.Enum, f *family, en *entry) {
	if err := selfTest(); err != nil {
		c.Fail("harness:coverage-selftest", "the cost measure is not available: "+err.Error())
		return
	}
	ladder := f.ladder(e.Thorough())
	var ru0 syscall.Rusage
	syscall.Getrusage(0, &ru0)
	c.Input(fmt.Sprintf("family %s (%s), entry point %s (%s), n = 8, 10 .. 64, then %v; input at n = 8: %s",
		f.name, f.doc, en.name, en.doc, ladder, common.Trim(f.gen(8), 200)))
	c.Sample(map[string]any{"family": f.name, "entry": en.name, "input_at_n=8": common.Trim(f.gen(8), 120)})

	// warm-up: one-time initialisation (sync.Once tables, compiled patterns) stays out of the numbers
	if en.needAST {
		if t, err := gosqlx.Parse(f.gen(4)); err == nil && t != nil {
			safeCall(func() string { return en.tree(t) })
		}
	} else if call, ok := en.prepare(f.gen(4)); ok {
		safeCall(call)
	}

	caseAllocFn = ""
	r := row{Family: f.name, Entry: en.name, Verdict: "near-linear"}
	var calibs []time.Duration
	noisy := false
	cut := ""
	violated := false
	prepSteep := false
	// once a case has been found super-linear, its ladder ends at the first call above this many block executions
	budget := uint64(5e7)
	if e.Thorough() {
		budget = 3e8
	}
	var pts []point // points of the main ladder (for the table)

	type stage struct {
		sizes []int
		ru    rule
		main  bool
	}
	stages := []stage{{smallLadder(), explosive, false}, {ladder, doublings, true}}
	if f.sizes != nil {
		stages = stages[1:] // fixed-size families (token limit) have no small sizes
	}
stages:
	for _, st := range stages {
		var cur, prep []point
		rejected := 0
		for _, n := range st.sizes {
			touchCur()
			sql := f.gen(n)
			if len(sql) > maxInputSize {
				break
			}
			if !e.Thorough() && en.quickBytes > 0 && len(sql) > en.quickBytes && len(cur) >= 3 {
				break
			}
			if e.Thorough() && !en.toLimit && len(cur) >= 3 {
				// thorough: only Tokenize and Parse go up to the limits, the other entry points to 1 MiB
				// (the regular-expression scanners, ~10^3 counted blocks per byte, to 256 KiB)
				lim := 1 << 20
				if en.thoroughBytes > 0 {
					lim = en.thoroughBytes
				}
				if len(sql) > lim {
					break
				}
			}
			var call func() string
			ok := true
			if en.needAST {
				var tr *ast.AST
				pp, err := measure(func() string {
					t, err := gosqlx.Parse(sql)
					tr = t
					return errClass(err)
				}, true)
				if err != nil {
					c.Fail("harness:counter-snapshot", err.Error())
					return
				}
				pp.N, pp.Bytes = n, len(sql)
				prep = append(prep, pp)
				ok = pp.Result == "ok" && tr != nil
				call = func() string { return en.tree(tr) }
				if len(judge(en, st.ru, prep, nil)) > 0 {
					prepSteep = true
				}
				if prepSteep && (!st.main || pp.total() > budget) {
					// reported by the Parse case of this family; larger trees would cost ever more to build.
					// This size is still measured (the tree exists), then the ladder ends.
					cut = fmt.Sprintf("ladder cut at n=%d: building the tree for this family is itself super-linear (reported by the Parse case) and took %d block executions", n, pp.total())
				}
			} else {
				call, ok = en.prepare(sql)
			}
			if !ok {
				// a tree-consuming entry point and the parser rejects this input: nothing to measure
				if cut != "" {
					break stages
				}
				rejected++
				if st.main {
					pts = append(pts, point{N: n, Bytes: len(sql), Result: "not-parsed"})
				}
				if rejected >= 2 {
					break // rejected at two sizes: larger ones are rejected too (limits are monotone)
				}
				continue
			}
			p, err := measure(call, true)
			if err != nil {
				c.Fail("harness:counter-snapshot", err.Error())
				return
			}
			p.N, p.Bytes = n, len(sql)
			c.Count("measurements", 1)
			cur = append(cur, p)
			if st.main {
				pts = append(pts, p)
			}
			if os.Getenv("C20_DEBUG") != "" {
				fmt.Fprintf(os.Stderr, "%s n=%d bytes=%d res=%s lib=%d std=%d alloc=%d cpu=%v wall=%v\n", c.Key, n, len(sql), p.Result, p.Lib, p.Std, p.Alloc, p.cpu, p.wall)
			}
			if fs := judge(en, st.ru, cur, &probe{call, f.name, n}); len(fs) > 0 {
				if !violated {
					r.Verdict, r.Where = "super-linear", fs[0].where
					if !st.main {
						r.Verdict = "explosive growth at small sizes"
						pts = cur
					}
				}
				for _, x := range fs {
					c.Fail(x.sig, fmt.Sprintf("family %s, entry point %s: %s", f.name, en.name, x.msg))
				}
				violated = true
				if !st.main {
					break stages
				}
			}
			// CPU back-stop (only where the deterministic measures did not object): min of 3 runs
			// where a call is long enough to be timed
			if st.main && !violated && p.cpu >= cpuFloor*3/4 {
				c0 := calibTime()
				m := p.cpu
				for k := 0; k < 2; k++ {
					touchCur()
					if d := timeOnly(call); d < m {
						m = d
					}
				}
				c1 := calibTime()
				calibs = append(calibs, c0, c1)
				cur[len(cur)-1].cpuMin = m
				cur[len(cur)-1].CPUms = float64(m.Microseconds()) / 1000
				pts[len(pts)-1].cpuMin, pts[len(pts)-1].CPUms = m, cur[len(cur)-1].CPUms
			}
			if st.main && !violated {
				if cpuSig, msg := judgeCPU(en, cur, calibs, &noisy, call); cpuSig != "" {
					r.Verdict, r.Where = "super-linear (cpu time)", strings.TrimPrefix(cpuSig, "superlinear:"+en.name+":")
					c.Fail(cpuSig, fmt.Sprintf("family %s, entry point %s: %s", f.name, en.name, msg))
					violated = true
					break stages
				}
			}
			if cut != "" {
				break stages
			}
			// After a violation the ladder goes on while a call stays cheap, so that a second,
			// independent culprit (one that needs larger sizes to pass the floor) is reported by the
			// same run instead of appearing only after the first one has been repaired.
			// (allocation: the next size would allocate 4x as much with the collector switched off)
			if violated && (p.total() > budget || p.Alloc > 1<<27) {
				break stages
			}
			if p.wall > 20*time.Second {
				e.Cap(fmt.Sprintf("ladder of %s stopped at n=%d: one call took more than 20 s", c.Key, n))
				break stages
			}
		}
	}
	if cut != "" {
		c.Count("ladders_cut_parse_superlinear", 1)
	}

	// table row and outcome class
	var ns []int
	var xb, xa []float64
	measured := 0
	for _, p := range pts {
		if p.Result == "not-parsed" {
			continue
		}
		measured++
		ns = append(ns, p.N)
		xb = append(xb, float64(p.total()))
		xa = append(xa, float64(p.Alloc))
	}
	r.Sizes = measured
	if len(pts) > 0 {
		last := pts[len(pts)-1]
		r.NMax, r.BytesMax, r.Result, r.Blocks, r.Alloc = last.N, last.Bytes, last.Result, last.total(), last.Alloc
	}
	if k := len(ns); k >= 2 {
		r.ExpB = round2(exponent(ns[k-2], ns[k-1], xb[k-2], xb[k-1]))
		r.ExpA = round2(exponent(ns[k-2], ns[k-1], xa[k-2], xa[k-1]))
		r.ExpBMax = round2(twoStepExp(ns, xb))
		r.ExpAMax = round2(twoStepExp(ns, xa))
		a, b := pts[len(pts)-2], pts[len(pts)-1]
		if a.cpuMin >= cpuFloor && b.cpuMin > 0 {
			r.ExpCPU = round2(exponent(a.N, b.N, float64(a.cpuMin), float64(b.cpuMin)))
		}
	}
	class := "near-linear"
	switch {
	case violated:
		class = "super-linear"
	case cut != "":
		class = "near-linear,ladder-cut"
		r.Verdict = "near-linear up to n_max; " + cut
	case measured == 0:
		class = "not-parsed"
		r.Verdict = "not measured: the parser rejects this family"
	case r.Result != "ok":
		class = "near-linear," + r.Result + "-at-n-max"
	}
	if noisy {
		c.Count("cpu_backstop_skipped_noisy_machine", 1)
	}
	if violated || (measured >= 3 && r.Blocks >= floorCount && r.Result == "ok") {
		c.NonTrivial()
	}
	c.Outcome(en.name + ":" + class)
	var ru1 syscall.Rusage
	syscall.Getrusage(0, &ru1)
	r.CaseSec = round2(float64(ru1.Utime.Sec-ru0.Utime.Sec) + float64(ru1.Utime.Usec-ru0.Utime.Usec)/1e6)
	if !e.Replaying() {
		b, _ := json.Marshal(r)
		os.WriteFile(filepath.Join(resultsDir(), fmt.Sprintf("%016x.json", common.Hash64(c.Key))), b, 0o644)
	}
}

// judge applies a growth rule to the totals, to every basic block and to the allocated bytes of
// the measured points (the newest window); it returns a signature naming the function responsible.
// pr == nil: only say whether the rule is violated (no re-runs for localisation).
type finding struct{ sig, where, msg string }

// probe says how to repeat the newest measured call when a culprit has to be named.
type probe struct {
	call   func() string
	family string
	n      int
}

// caseAllocFn caches the allocation site found for the current case (the profiled re-run is expensive).
var caseAllocFn string

func judge(en *entry, ru rule, pts []point, pr *probe) (out []finding) {
	var ps []point
	for _, p := range pts {
		if p.Result != "not-parsed" {
			ps = append(ps, p)
		}
	}
	w := ru.steps + 1
	if len(ps) < w {
		return
	}
	ps = ps[len(ps)-w:]
	ns := make([]int, w)
	for i := range ps {
		ns[i] = ps[i].N
	}
	ser := func(f func(p *point) float64) []float64 {
		out := make([]float64, w)
		for i := range ps {
			out[i] = f(&ps[i])
		}
		return out
	}
	blk := func(u int) []float64 { return ser(func(p *point) float64 { return float64(p.vec[u]) }) }
	tot := ser(func(p *point) float64 { return float64(p.total()) })
	all := ser(func(p *point) float64 { return float64(p.Alloc) })
	totBad := ru.steep(ns, tot, floorCount)
	allBad := ru.steep(ns, all, floorCount)

	// per-block rule; also finds the hottest super-linear block
	type hot struct {
		u   int
		cnt uint32
	}
	var bad []hot
	lastVec := ps[w-1].vec
	for u := range lastVec {
		if lastVec[u] < floorCount {
			continue
		}
		if ru.steep(ns, blk(u), floorCount) {
			bad = append(bad, hot{u, lastVec[u]})
		}
	}
	if !totBad && !allBad && len(bad) == 0 {
		return
	}
	if pr == nil {
		return []finding{{"superlinear", "", ""}}
	}
	// prefer blocks of the library over blocks of the standard library, then the hottest
	sort.Slice(bad, func(a, b int) bool {
		la, lb := meta.funcs[meta.units[bad[a].u].fn].lib, meta.funcs[meta.units[bad[b].u].fn].lib
		if la != lb {
			return la
		}
		if bad[a].cnt != bad[b].cnt {
			return bad[a].cnt > bad[b].cnt
		}
		return bad[a].u < bad[b].u
	})
	describe := func(name string, x []float64) string {
		var xs, nn, fs []string
		for i := range x {
			xs = append(xs, fmt.Sprintf("%.0f", x[i]))
			nn = append(nn, fmt.Sprint(ns[i]))
			if i > 0 {
				fs = append(fs, fmt.Sprintf("x%.2f (allowed x%.2f)", x[i]/x[i-1], ru.allowed(ns[i-1], ns[i])))
			}
		}
		return fmt.Sprintf("%s %s at n = %s: %s over %s", name, strings.Join(xs, " -> "), strings.Join(nn, ", "), strings.Join(fs, ", "), ru.name)
	}
	allocFn := ""
	if allBad {
		if caseAllocFn == "" {
			caseAllocFn = allocSite(pr.family, en.name, ns[1]) // the second size of the window: cheap, and the growing part already dominates
			if caseAllocFn == "" {
				caseAllocFn = "-"
			}
		}
		if caseAllocFn != "-" {
			allocFn = caseAllocFn
		}
	}
	if len(bad) > 0 {
		u := bad[0].u
		fn := declFunc(u)
		msg := describe("execution count of basic block "+unitPos(u)+" in "+fn, blk(u))
		if !meta.funcs[meta.units[u].fn].lib {
			// the steep block is in the standard library: name the library function that calls into it
			if caller := sampleCaller(pr.call); caller != "" {
				msg += "; reached from " + caller
				fn = caller
			}
		}
		msg += "; " + describe("total block count", tot) + "; " + describe("allocated bytes", all)
		out = append(out, finding{"superlinear:" + en.name + ":" + fn, fn, msg})
		// Further functions of the library that contain a steep block of their own are separate
		// culprits (an inner loop lives in one function): the next two hottest are reported too,
		// so that a new defect is not hidden behind a known one.  Not for explosive growth, where
		// every function on the recursion grows.
		seen := map[string]bool{fn: true}
		if ru.steps == doublings.steps {
			for _, h := range bad[1:] {
				g := declFunc(h.u)
				if seen[g] || !meta.funcs[meta.units[h.u].fn].lib {
					continue
				}
				seen[g] = true
				if len(out) < 3 {
					out = append(out, finding{"superlinear:" + en.name + ":" + g, g,
						describe("execution count of basic block "+unitPos(h.u)+" in "+g, blk(h.u))})
				}
			}
		}
		if allBad && allocFn != "" && allocFn != fn && !seen[allocFn] {
			// a second, independent culprit: the allocation that grows is made elsewhere
			out = append(out, finding{"superlinear:" + en.name + ":" + allocFn, allocFn,
				describe("allocated bytes", all) + "; the allocation site that grows is in " + allocFn})
		}
		return out
	}
	if allBad {
		fn := allocFn
		msg := describe("allocated bytes", all)
		if fn == "" {
			fn = "allocation-not-localised"
		} else {
			msg += "; the allocation site that grows is in " + fn
		}
		return []finding{{"superlinear:" + en.name + ":" + fn, fn, msg}}
	}
	// only the total is steep: name the hottest block that is steep regardless of the floor
	best, bestCnt := -1, uint32(0)
	for u := range lastVec {
		if lastVec[u] > bestCnt && meta.funcs[meta.units[u].fn].lib && ru.steep(ns, blk(u), 1) {
			best, bestCnt = u, lastVec[u]
		}
	}
	fn := "total"
	if best >= 0 {
		fn = declFunc(best)
	}
	return []finding{{"superlinear:" + en.name + ":" + fn, fn, describe("total block count", tot)}}
}

// judgeCPU is the user-CPU-time back-stop.
func judgeCPU(en *entry, pts []point, calibs []time.Duration, noisy *bool, call func() string) (sig, msg string) {
	if len(pts) < 3 {
		return
	}
	ps := pts[len(pts)-3:]
	for _, p := range ps {
		if p.Result == "not-parsed" || p.cpuMin == 0 {
			return
		}
	}
	if ps[0].cpuMin < cpuFloor {
		return
	}
	// the machine must have been quiet: all calibration runs within 15% of the fastest
	lo, hi := calibs[0], calibs[0]
	for _, d := range calibs {
		if d < lo {
			lo = d
		}
		if d > hi {
			hi = d
		}
	}
	if float64(hi) > 1.15*float64(lo) {
		*noisy = true
		return
	}
	e1 := exponent(ps[0].N, ps[1].N, float64(ps[0].cpuMin), float64(ps[1].cpuMin))
	e2 := exponent(ps[1].N, ps[2].N, float64(ps[1].cpuMin), float64(ps[2].cpuMin))
	if e1 <= cpuExponent || e2 <= cpuExponent {
		return
	}
	// the deterministic measures did not object (judge ran first): the cost is outside counted code
	fn := sampleCaller(call)
	if fn == "" {
		fn = "cpu-time-not-localised"
	}
	msg = fmt.Sprintf("user CPU time (min of 3) %v -> %v -> %v at n = %d, %d, %d (exponents %.2f, %.2f; allowed %.1f) while block counts and allocation grow near-linearly: cost inside uncounted runtime routines, most samples under %s",
		ps[0].cpuMin, ps[1].cpuMin, ps[2].cpuMin, ps[0].N, ps[1].N, ps[2].N, e1, e2, cpuExponent, fn)
	return "superlinear:" + en.name + ":" + fn, msg
}

// libFrame normalises "github.com/ajitpratap0/GoSQLX/pkg/sql/parser.(*Parser).parseX.func1" to
// "parser.Parser.parseX", the form used for block-derived names.
func libFrame(fn string) string {
	if !strings.HasPrefix(fn, libPrefix) {
		return ""
	}
	s := strings.TrimPrefix(fn, libPrefix)
	if i := strings.LastIndex(s, "/"); i >= 0 {
		s = s[i+1:]
	}
	s = strings.NewReplacer("(*", "", ")", "", "[...]", "").Replace(s)
	return litSuffix.ReplaceAllString(s, "")
}

var pcNames = map[uintptr]string{}

// pcLibFrame names the innermost library function (inlined frames included) at a return address.
func pcLibFrame(pc uintptr) string {
	if s, ok := pcNames[pc]; ok {
		return s
	}
	name := ""
	frames := runtime.CallersFrames([]uintptr{pc})
	for {
		fr, more := frames.Next()
		if g := libFrame(fr.Function); g != "" {
			name = g
			break
		}
		if !more {
			break
		}
	}
	pcNames[pc] = name
	return name
}

// allocSite names the library function whose allocations account for most of the bytes allocated
// by one call (for a quadratic allocation pattern that is the culprit).  The call is repeated in a
// child process with every allocation profiled (MemProfileRate = 1 from the start of the process):
// a memory profile with very many distinct stacks slows down every later garbage collection, which
// must not happen inside a measuring worker.
func allocSite(famName, entryName string, n int) string {
	self, err := os.Executable()
	if err != nil {
		return ""
	}
	cmd := exec.Command(self, "--allocsite", famName, entryName, strconv.Itoa(n))
	cmd.Env = append(os.Environ(), "GOMAXPROCS=2")
	out, err := cmd.Output()
	if err != nil {
		return ""
	}
	return strings.TrimSpace(string(out))
}

// allocSiteChild is the body of the child process started by allocSite.
func allocSiteChild(famName, entryName string, n int) string {
	var f *family
	fams := families()
	for i := range fams {
		if fams[i].name == famName {
			f = &fams[i]
		}
	}
	var en *entry
	ents := entries()
	for i := range ents {
		if ents[i].name == entryName {
			en = &ents[i]
		}
	}
	if f == nil || en == nil {
		return ""
	}
	sql := f.gen(n)
	var call func() string
	if en.needAST {
		t, err := gosqlx.Parse(sql)
		if err != nil || t == nil {
			return ""
		}
		call = func() string { return en.tree(t) }
	} else {
		var ok bool
		if call, ok = en.prepare(sql); !ok {
			return ""
		}
	}
	read := func() map[string]int64 {
		runtime.GC()
		runtime.GC()
		n, _ := runtime.MemProfile(nil, true)
		recs := make([]runtime.MemProfileRecord, n+200)
		n, ok := runtime.MemProfile(recs, true)
		if !ok {
			return nil
		}
		out := map[string]int64{}
		for _, r := range recs[:n] {
			name := ""
			for _, pc := range r.Stack() {
				if g := pcLibFrame(pc); g != "" {
					name = g
					break
				}
			}
			if name != "" {
				out[name] += r.AllocBytes
			}
		}
		return out
	}
	safeCall(call) // warm-up: one-time initialisation is not the site we look for
	before := read()
	old := debug.SetGCPercent(-1)
	safeCall(call)
	debug.SetGCPercent(old)
	after := read()
	best, bestBytes := "", int64(0)
	for k, v := range after {
		d := v - before[k]
		if d > bestBytes || (d == bestBytes && k < best) {
			best, bestBytes = k, d
		}
	}
	return best
}

// sampleCaller re-runs the call while another goroutine takes stack dumps, and names the library
// function that is innermost on most of them.  Only used to name a cost that is spent outside the
// library's own basic blocks.
func sampleCaller(call func() string) string {
	stop := make(chan struct{})
	done := make(chan map[string]int)
	go func() {
		counts := map[string]int{}
		buf := make([]byte, 1<<20)
		t := time.NewTicker(3 * time.Millisecond)
		defer t.Stop()
		for {
			select {
			case <-stop:
				done <- counts
				return
			case <-t.C:
				n := runtime.Stack(buf, true)
				if fn := innermostLib(string(buf[:n])); fn != "" {
					counts[fn]++
				}
			}
		}
	}()
	old := debug.SetGCPercent(-1)
	safeCall(call)
	debug.SetGCPercent(old)
	close(stop)
	counts := <-done
	sink = nil
	best, bestN := "", 0
	for k, v := range counts {
		if v > bestN || (v == bestN && k < best) {
			best, bestN = k, v
		}
	}
	return best
}

func innermostLib(dump string) string {
	for _, g := range strings.Split(dump, "\n\n") {
		if !strings.Contains(g, "c20.safeCall") {
			continue
		}
		for _, l := range strings.Split(g, "\n") {
			if strings.HasPrefix(l, libPrefix) {
				if i := strings.LastIndex(l, "("); i > 0 {
					l = l[:i]
				}
				return libFrame(l)
			}
		}
	}
	return ""
}

// extra adds the growth table to the evidence file (runs in the parent process).
func extra(tier string) map[string]any {
	var rows []row
	files, _ := filepath.Glob(filepath.Join(resultsDir(), "*.json"))
	for _, f := range files {
		b, err := os.ReadFile(f)
		if err != nil {
			continue
		}
		var r row
		if json.Unmarshal(b, &r) == nil {
			rows = append(rows, r)
		}
	}
	sort.Slice(rows, func(a, b int) bool {
		if rows[a].Family != rows[b].Family {
			return rows[a].Family < rows[b].Family
		}
		return rows[a].Entry < rows[b].Entry
	})
	fams := families()
	var fl []map[string]string
	for _, f := range fams {
		if f.thoroughOnly && tier != "thorough" {
			continue
		}
		fl = append(fl, map[string]string{"name": f.name, "what": f.doc, "n=3": common.Trim(f.gen(3), 100)})
	}
	var el []map[string]string
	for _, en := range entries() {
		el = append(el, map[string]string{"name": en.name, "what": en.doc})
	}
	maxB, maxA := 0.0, 0.0
	for _, r := range rows {
		if r.Verdict == "near-linear" {
			maxB = math.Max(maxB, r.ExpBMax)
			maxA = math.Max(maxA, r.ExpAMax)
		}
	}
	return map[string]any{
		"families":     fl,
		"entry_points": el,
		"growth_table": rows,
		"growth_table_columns": "exp_* = log(cost ratio)/log(size ratio); *_last_doubling between the two largest measured sizes; " +
			"*_max_over_two_doublings = largest exponent sustained over two consecutive doublings with the first value >= 1e5 (the oracle rejects > 1.5)",
		"max_sustained_exponent_among_passing_pairs": map[string]float64{"blocks": maxB, "alloc": maxA},
		"threshold_exponent":                         1.5,
	}
}
