package c20

// Reader for the coverage meta-data and counter snapshots of the running binary.
//
// The harness is built with `-cover -covermode=atomic -coverpkg=<harness>,<library>/pkg/...,<some std packages>`
// (cmd/c20/build.sh).  runtime/coverage.WriteMeta / WriteCounters hand the process its own
// meta-data and a snapshot of the per-basic-block execution counters; the two small decoders
// below turn them into a flat vector "count of block i" (the file formats are those of
// internal/coverage, Go 1.20 - 1.23; selfTest() verifies on every start that a loop executed k
// times is read back as exactly k, so a format change cannot silently corrupt the verdicts).

import (
	"bytes"
	"encoding/binary"
	"fmt"
	"runtime/coverage"
	"strings"
)

type unit struct {
	fn             int32 // index into meta.funcs
	stLine, enLine uint32
	stCol, enCol   uint32
}

type fnDesc struct {
	pkg  string // import path
	name string // function name as recorded by cmd/cover, e.g. "Tokenizer.toSQLPosition"
	file string
	lit  bool
	lib  bool // belongs to the library under test
	own  bool // belongs to the harness
	base int  // index of the first unit in the flat vector
	n    int
}

type covMeta struct {
	funcs []fnDesc
	units []unit
	// (pkg index in meta file, func index in package) -> index into funcs
	idx   [][]int32
	nLib  int
	nStd  int
	ready bool
}

const libPrefix = "github.com/ajitpratap0/GoSQLX/"

var meta covMeta

type rd struct {
	b   []byte
	p   int
	err error
}

func (r *rd) uleb() uint64 {
	var v uint64
	var shift uint
	for {
		if r.p >= len(r.b) {
			r.err = fmt.Errorf("short read")
			return 0
		}
		c := r.b[r.p]
		r.p++
		v |= uint64(c&0x7f) << shift
		if c&0x80 == 0 {
			return v
		}
		shift += 7
	}
}

func (r *rd) u32() uint32 {
	if r.p+4 > len(r.b) {
		r.err = fmt.Errorf("short read")
		return 0
	}
	v := binary.LittleEndian.Uint32(r.b[r.p:])
	r.p += 4
	return v
}

func (r *rd) u64() uint64 {
	if r.p+8 > len(r.b) {
		r.err = fmt.Errorf("short read")
		return 0
	}
	v := binary.LittleEndian.Uint64(r.b[r.p:])
	r.p += 8
	return v
}

func (r *rd) strtab() []string {
	n := int(r.uleb())
	out := make([]string, 0, n)
	for i := 0; i < n && r.err == nil; i++ {
		l := int(r.uleb())
		if r.p+l > len(r.b) {
			r.err = fmt.Errorf("short read in string table")
			return out
		}
		out = append(out, string(r.b[r.p:r.p+l]))
		r.p += l
	}
	return out
}

// loadMeta decodes the meta-data of the running binary.
func loadMeta() error {
	if meta.ready {
		return nil
	}
	var mb bytes.Buffer
	if err := coverage.WriteMeta(&mb); err != nil {
		return fmt.Errorf("runtime/coverage.WriteMeta: %w (binary not built by cmd/c20/build.sh?)", err)
	}
	b := mb.Bytes()
	// MetaFileHeader: magic[4] version u32 totalLength u64 entries u64 hash[16] strTabOff u32 strTabLen u32 cmode u8 cgran u8 pad[6]
	if len(b) < 56 || !(b[0] == 0 && b[1] == 'c' && b[2] == 'v' && b[3] == 'm') {
		return fmt.Errorf("coverage meta-data: bad magic")
	}
	r := &rd{b: b, p: 4}
	version := r.u32()
	if version != 1 {
		return fmt.Errorf("coverage meta-data: unknown version %d", version)
	}
	r.u64() // total length
	entries := int(r.u64())
	r.p += 16 // hash
	r.u32()   // string table offset
	r.u32()   // string table length
	cmode := b[r.p]
	if cmode != 3 {
		return fmt.Errorf("coverage counter mode is %d, need atomic (3): counters could not be read back", cmode)
	}
	r.p += 8
	offs := make([]uint64, entries)
	lens := make([]uint64, entries)
	for i := range offs {
		offs[i] = r.u64()
	}
	for i := range lens {
		lens[i] = r.u64()
	}
	if r.err != nil {
		return r.err
	}
	meta.idx = make([][]int32, entries)
	for pi := 0; pi < entries; pi++ {
		if offs[pi]+lens[pi] > uint64(len(b)) {
			return fmt.Errorf("coverage meta-data: package %d out of range", pi)
		}
		pb := b[offs[pi] : offs[pi]+lens[pi]]
		// MetaSymbolHeader: length u32, pkgName u32, pkgPath u32, modulePath u32, hash[16], pad[4], numFiles u32, numFuncs u32  (= 44 bytes)
		pr := &rd{b: pb}
		pr.u32()
		pr.u32()
		pkgPathIdx := pr.u32()
		pr.u32()
		pr.p += 16 + 4
		pr.u32()
		numFuncs := int(pr.u32())
		const hdr = 44
		sr := &rd{b: pb, p: hdr + 4*numFuncs}
		st := sr.strtab()
		if sr.err != nil || int(pkgPathIdx) >= len(st) {
			return fmt.Errorf("coverage meta-data: bad string table in package %d", pi)
		}
		pkgPath := st[pkgPathIdx]
		meta.idx[pi] = make([]int32, numFuncs)
		for fi := 0; fi < numFuncs; fi++ {
			or := &rd{b: pb, p: hdr + 4*fi}
			foff := int(or.u32())
			fr := &rd{b: pb, p: foff}
			nu := int(fr.uleb())
			nameIdx := int(fr.uleb())
			fileIdx := int(fr.uleb())
			if fr.err != nil || nameIdx >= len(st) || fileIdx >= len(st) {
				return fmt.Errorf("coverage meta-data: bad function %d in %s", fi, pkgPath)
			}
			fd := fnDesc{pkg: pkgPath, name: st[nameIdx], file: st[fileIdx], base: len(meta.units), n: nu}
			fd.lib = strings.HasPrefix(pkgPath, libPrefix)
			fd.own = strings.HasPrefix(pkgPath, "verif/")
			id := int32(len(meta.funcs))
			for k := 0; k < nu; k++ {
				u := unit{fn: id}
				u.stLine = uint32(fr.uleb())
				u.stCol = uint32(fr.uleb())
				u.enLine = uint32(fr.uleb())
				u.enCol = uint32(fr.uleb())
				fr.uleb() // number of statements
				meta.units = append(meta.units, u)
			}
			fd.lit = fr.uleb() != 0
			if fr.err != nil {
				return fmt.Errorf("coverage meta-data: truncated function %s in %s", fd.name, pkgPath)
			}
			meta.funcs = append(meta.funcs, fd)
			meta.idx[pi][fi] = id
			if fd.lib {
				meta.nLib += nu
			} else if !fd.own {
				meta.nStd += nu
			}
		}
	}
	if meta.nLib == 0 {
		return fmt.Errorf("no basic block of %s is instrumented: the binary must be built by cmd/c20/build.sh", libPrefix)
	}
	meta.ready = true
	return nil
}

var snapBuf bytes.Buffer

// snapshot fills dst (len = number of units) with the current counter values.
func snapshot(dst []uint32) error {
	for i := range dst {
		dst[i] = 0
	}
	snapBuf.Reset()
	if err := coverage.WriteCounters(&snapBuf); err != nil {
		return err
	}
	b := snapBuf.Bytes()
	// CounterFileHeader: magic[4] version u32 metahash[16] flavor u8 bigendian u8 pad[6]  (= 32 bytes)
	if len(b) < 32+16+16 || !(b[0] == 0 && b[1] == 'c' && b[2] == 'w' && b[3] == 'm') {
		return fmt.Errorf("counter data: bad magic")
	}
	flavor := b[24]
	if b[25] != 0 {
		return fmt.Errorf("counter data: big endian not supported")
	}
	// footer: magic[4] pad[4] numSegments u32 pad[4]
	nseg := binary.LittleEndian.Uint32(b[len(b)-8:])
	if nseg != 1 {
		return fmt.Errorf("counter data: %d segments, expected 1", nseg)
	}
	r := &rd{b: b[:len(b)-16], p: 32}
	fcn := r.u64()
	stl := int(r.u32())
	argl := int(r.u32())
	r.p += stl + argl
	if r.p%4 != 0 {
		r.p += 4 - r.p%4
	}
	next := func() uint32 {
		if flavor == 2 {
			return uint32(r.uleb())
		}
		return r.u32()
	}
	if flavor != 1 && flavor != 2 {
		return fmt.Errorf("counter data: unknown flavor %d", flavor)
	}
	for i := uint64(0); i < fcn; i++ {
		nc := int(next())
		pk := int(next())
		fi := int(next())
		if r.err != nil {
			return r.err
		}
		if pk >= len(meta.idx) || fi >= len(meta.idx[pk]) {
			return fmt.Errorf("counter data: function (%d,%d) not in meta-data", pk, fi)
		}
		fd := &meta.funcs[meta.idx[pk][fi]]
		if nc != fd.n {
			return fmt.Errorf("counter data: %s.%s has %d counters, meta-data says %d", fd.pkg, fd.name, nc, fd.n)
		}
		for k := 0; k < nc; k++ {
			dst[fd.base+k] = next()
		}
	}
	return r.err
}

// funcName gives "tokenizer.Tokenizer.toSQLPosition" for a unit.
func funcName(u int) string {
	fd := &meta.funcs[meta.units[u].fn]
	p := fd.pkg
	if fd.lib {
		p = strings.TrimPrefix(p, libPrefix)
		if i := strings.LastIndex(p, "/"); i >= 0 {
			p = p[i+1:]
		}
	} else {
		p = "std/" + p
	}
	return p + "." + strings.ReplaceAll(fd.name, "*", "")
}

func unitPos(u int) string {
	fd := &meta.funcs[meta.units[u].fn]
	f := strings.TrimPrefix(fd.file, libPrefix)
	return fmt.Sprintf("%s:%d.%d-%d.%d", f, meta.units[u].stLine, meta.units[u].stCol, meta.units[u].enLine, meta.units[u].enCol)
}
