package c20

import (
	clicmd "github.com/ajitpratap0/GoSQLX/cmd/gosqlx/cmd"
	"github.com/ajitpratap0/GoSQLX/pkg/formatter"
	"github.com/ajitpratap0/GoSQLX/pkg/gosqlx"
	"github.com/ajitpratap0/GoSQLX/pkg/linter"
	"github.com/ajitpratap0/GoSQLX/pkg/linter/rules/keywords"
	"github.com/ajitpratap0/GoSQLX/pkg/linter/rules/style"
	"github.com/ajitpratap0/GoSQLX/pkg/linter/rules/whitespace"
	textsec "github.com/ajitpratap0/GoSQLX/pkg/security"
	"github.com/ajitpratap0/GoSQLX/pkg/sql/ast"
	"github.com/ajitpratap0/GoSQLX/pkg/sql/security"
	"github.com/ajitpratap0/GoSQLX/pkg/sql/tokenizer"
)

// An entry point is one public call whose cost is measured.  prepare runs outside the measured
// window (it parses the input for the entry points that take a tree) and returns the closure that
// is measured; ok=false means the input is not accepted by the parser so there is nothing to
// measure for a tree-consuming entry point.
type entry struct {
	name    string
	doc     string
	needAST bool
	prepare func(sql string) (call func() string, ok bool)
	// tree is set instead of prepare for the entry points that consume a parsed tree; the harness
	// parses the input itself (outside the measured window, but under the same growth rule so that a
	// family on which parsing is super-linear does not run away)
	tree func(t *ast.AST) string
	// quickBytes caps the input size in the quick tier for entry points whose cost per byte is very
	// high (the regular-expression scanners execute ~10^3 counted blocks per input byte, so the
	// 10^5 floor of the rule is reached at a few hundred bytes already); 0 = no cap of its own
	quickBytes int
	// thoroughBytes is the same for the thorough tier (0 = 1 MiB; ignored when toLimit is set)
	thoroughBytes int
	// toLimit: in the thorough tier the ladder of this entry point goes up to the documented limits
	// (10 MiB / 1M tokens); the others stop at 1 MiB (the instrumented binary needs ~1 us per byte and
	// there are 800 ladders)
	toLimit bool
}

// sink keeps results alive so that the compiler cannot drop a call.
var sink any

func defaultLinter() *linter.Linter {
	// the rule set and parameters of the command line tool's default configuration (cmd/gosqlx/cmd/lint.go)
	return linter.New(
		whitespace.NewTrailingWhitespaceRule(),
		whitespace.NewMixedIndentationRule(),
		whitespace.NewConsecutiveBlankLinesRule(1),
		whitespace.NewIndentationDepthRule(4, 4),
		whitespace.NewLongLinesRule(100),
		whitespace.NewRedundantWhitespaceRule(),
		style.NewColumnAlignmentRule(),
		style.NewCommaPlacementRule(style.CommaTrailing),
		style.NewAliasingConsistencyRule(true),
		keywords.NewKeywordCaseRule(keywords.CaseUpper),
	)
}

func errClass(err error) string {
	if err != nil {
		return "rejected"
	}
	return "ok"
}

func entries() []entry {
	return []entry{
		{name: "Tokenize", doc: "tokenizer.Tokenize on a pooled tokenizer", toLimit: true,
			prepare: func(sql string) (func() string, bool) {
				in := []byte(sql)
				return func() string {
					tk := tokenizer.GetTokenizer()
					toks, err := tk.Tokenize(in)
					sink = toks
					tokenizer.PutTokenizer(tk)
					return errClass(err)
				}, true
			}},
		{name: "Parse", doc: "gosqlx.Parse", toLimit: true,
			prepare: func(sql string) (func() string, bool) {
				return func() string {
					t, err := gosqlx.Parse(sql)
					sink = t
					return errClass(err)
				}, true
			}},
		{name: "ParseWithRecovery", doc: "gosqlx.ParseWithRecovery",
			prepare: func(sql string) (func() string, bool) {
				return func() string {
					st, errs := gosqlx.ParseWithRecovery(sql)
					sink = st
					if len(errs) > 0 {
						return "rejected"
					}
					return "ok"
				}, true
			}},
		{name: "Validate", doc: "gosqlx.Validate",
			prepare: func(sql string) (func() string, bool) {
				return func() string { return errClass(gosqlx.Validate(sql)) }, true
			}},
		{name: "AST.SQL", doc: "AST.SQL() of the parsed tree", needAST: true,
			tree: (func(t *ast.AST) string { sink = t.SQL(); return "ok" })},
		{name: "AST.Format", doc: "AST.Format(ReadableStyle) of the parsed tree", needAST: true,
			tree: (func(t *ast.AST) string { sink = t.Format(ast.ReadableStyle()); return "ok" })},
		{name: "AST.FormatCompact", doc: "AST.Format(CompactStyle) of the parsed tree", needAST: true,
			tree: (func(t *ast.AST) string { sink = t.Format(ast.CompactStyle()); return "ok" })},
		{name: "Scan", doc: "pkg/sql/security Scanner.Scan(tree)", needAST: true,
			tree: (func(t *ast.AST) string { sink = security.NewScanner().Scan(t); return "ok" })},
		{name: "ScanSQL", doc: "pkg/sql/security Scanner.ScanSQL(text)", quickBytes: 1 << 16, thoroughBytes: 1 << 18,
			prepare: func(sql string) (func() string, bool) {
				return func() string { sink = security.NewScanner().ScanSQL(sql); return "ok" }, true
			}},
		{name: "TextScan", doc: "pkg/security Scanner.Scan(text)", quickBytes: 1 << 16, thoroughBytes: 1 << 18,
			prepare: func(sql string) (func() string, bool) {
				return func() string { sink = textsec.NewScanner().Scan(sql); return "ok" }, true
			}},
		{name: "LintString", doc: "linter.LintString with the default rule set", quickBytes: 1 << 18,
			prepare: func(sql string) (func() string, bool) {
				l := defaultLinter()
				return func() string {
					r := l.LintString(sql, "x.sql")
					sink = r
					if r.Error != nil {
						return "rejected"
					}
					return "ok"
				}, true
			}},
		{name: "Extract", doc: "gosqlx.ExtractTables/TablesQualified/Columns/ColumnsQualified/Functions/Metadata on the parsed tree", needAST: true,
			tree: (func(t *ast.AST) string {
				sink = gosqlx.ExtractTables(t)
				sink = gosqlx.ExtractTablesQualified(t)
				sink = gosqlx.ExtractColumns(t)
				sink = gosqlx.ExtractColumnsQualified(t)
				sink = gosqlx.ExtractFunctions(t)
				sink = gosqlx.ExtractMetadata(t)
				return "ok"
			})},
		{name: "CLI.SQLFormatter", doc: "cmd/gosqlx SQLFormatter.Format (the serialiser behind `gosqlx format`), default and compact style", needAST: true,
			tree: (func(t *ast.AST) string {
				s1, err := clicmd.NewSQLFormatter(clicmd.FormatterOptions{Indent: "  ", UppercaseKw: true}).Format(t)
				sink = s1
				if err != nil {
					return "rejected"
				}
				s2, err := clicmd.NewSQLFormatter(clicmd.FormatterOptions{Compact: true}).Format(t)
				sink = s2
				return errClass(err)
			})},
		{name: "Format", doc: "gosqlx.Format with the default options",
			prepare: func(sql string) (func() string, bool) {
				return func() string {
					s, err := gosqlx.Format(sql, gosqlx.DefaultFormatOptions())
					sink = s
					return errClass(err)
				}, true
			}},
		{name: "FormatString", doc: "pkg/formatter FormatString",
			prepare: func(sql string) (func() string, bool) {
				return func() string {
					s, err := formatter.FormatString(sql)
					sink = s
					return errClass(err)
				}, true
			}},
	}
}
