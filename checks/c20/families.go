package c20

import (
	"strconv"
	"strings"
)

// A family is a shape of input parameterised by n (number of elements; the byte size is
// proportional to n, up to the digits of a running index where names must differ).
type family struct {
	name string
	doc  string
	gen  func(n int) string
	// bytesPer is an upper bound of the bytes one element contributes (used to stay below MaxInputSize)
	bytesPer int
	// maxN caps the ladder of this family (0 = none): deep left-leaning expression trees are walked
	// recursively by the serialisers, and recursion depth is C02's subject, not C20's.
	maxN int
	// thoroughOnly families are skipped in the quick tier.
	thoroughOnly bool
	// fixed sizes instead of the geometric ladder (token-limit family)
	sizes func(thorough bool) []int
}

func rep(n int, elem, sep string) string {
	if n <= 0 {
		return ""
	}
	var b strings.Builder
	b.Grow(n * (len(elem) + len(sep)))
	for i := 0; i < n; i++ {
		if i > 0 {
			b.WriteString(sep)
		}
		b.WriteString(elem)
	}
	return b.String()
}

func repf(n int, sep string, f func(i int) string) string {
	var b strings.Builder
	for i := 0; i < n; i++ {
		if i > 0 {
			b.WriteString(sep)
		}
		b.WriteString(f(i))
	}
	return b.String()
}

const deepChain = 1 << 15 // cap for families whose tree depth equals n

// statementKinds: one small statement of every kind the grammar has; each becomes a family "n statements of that kind"
// (what a per-call state - indentation level, buffers, counters - accumulates over the statements of one script only
// shows with many statements of the kind that leaks it).
var statementKinds = []struct{ name, sql string }{
	{"create-table", "CREATE TABLE t1 (c1 INT, c2 VARCHAR(10))"},
	{"create-index", "CREATE INDEX i1 ON t1 (c1)"},
	{"create-view", "CREATE VIEW v1 AS SELECT a, b FROM t1"},
	{"create-matview", "CREATE MATERIALIZED VIEW v1 AS SELECT a, b FROM t1"},
	{"refresh-matview", "REFRESH MATERIALIZED VIEW v1"},
	{"drop", "DROP TABLE t1"},
	{"alter-table", "ALTER TABLE t1 ADD COLUMN c9 INT"},
	{"truncate", "TRUNCATE t1"},
	{"insert-values", "INSERT INTO t1 (c1, c2) VALUES (1, 2)"},
	{"insert-select", "INSERT INTO t1 (c1) SELECT a FROM t2 WHERE b = 1"},
	{"insert-on-conflict", "INSERT INTO t1 (c1) VALUES (1) ON CONFLICT (c1) DO UPDATE SET c1 = 2"},
	{"update", "UPDATE t1 SET c1 = 1, c2 = 2 WHERE c3 = 3"},
	{"delete", "DELETE FROM t1 WHERE c1 = 1"},
	{"merge", "MERGE INTO t1 a1 USING t2 a2 ON a1.c1 = a2.c1 WHEN MATCHED THEN UPDATE SET c2 = a2.c2"},
	{"with-select", "WITH w AS (SELECT a FROM t1) SELECT a, b FROM w"},
	{"select-window", "SELECT a, SUM(b) OVER (PARTITION BY c ORDER BY d) FROM t1"},
	{"select-derived-join", "SELECT a, b FROM t1 JOIN (SELECT c FROM t2) d ON a = c"},
	{"select-setop", "SELECT a, b FROM t1 UNION SELECT c, d FROM t2"},
	{"select-case", "SELECT CASE WHEN a = 1 THEN 2 ELSE 3 END, b FROM t1"},
}

func families() []family {
	fs := baseFamilies()
	for _, k := range statementKinds {
		k := k
		fs = append(fs, family{name: "many:" + k.name, doc: "n statements of one kind, one per line: " + k.sql, bytesPer: len(k.sql) + 2,
			gen:   func(n int) string { return rep(n, k.sql, ";\n") },
			sizes: func(bool) []int { return []int{64, 128, 256, 512, 1024} }})
	}
	return fs
}

func baseFamilies() []family {
	return []family{
		{name: "line-tokens", doc: "one long line: SELECT c, c, ... (n-wide select list, 2n tokens)", bytesPer: 3,
			gen: func(n int) string { return "SELECT " + rep(n, "c", ", ") + " FROM t" }},
		{name: "short-lines", doc: "n short lines: one select-list item per line", bytesPer: 3,
			gen: func(n int) string { return "SELECT\n" + rep(n, "c", ",\n") + "\nFROM t" }},
		{name: "tab-tokens", doc: "one long line, tokens separated by tabs", bytesPer: 3,
			gen: func(n int) string { return "SELECT\t" + rep(n, "c", ",\t") + "\tFROM\tt" }},
		{name: "crlf-lines", doc: "n lines ending in CR LF", bytesPer: 4,
			gen: func(n int) string { return "SELECT\r\n" + rep(n, "c", ",\r\n") + "\r\nFROM t" }},
		{name: "blank", doc: "n blanks between two tokens", bytesPer: 1,
			gen: func(n int) string { return "SELECT" + strings.Repeat(" ", n) + "1" }},
		{name: "blank-lines", doc: "n empty lines between two tokens", bytesPer: 1,
			gen: func(n int) string { return "SELECT" + strings.Repeat("\n", n) + "1" }},
		{name: "line-comments", doc: "n line comments, one per line, then a statement", bytesPer: 5,
			gen: func(n int) string { return strings.Repeat("-- x\n", n) + "SELECT 1" }},
		{name: "trailing-comments", doc: "n lines of code each followed by a line comment", bytesPer: 8,
			gen: func(n int) string { return "SELECT\n" + rep(n, "c", ", -- x\n") + " -- x\nFROM t" }},
		{name: "block-comments-line", doc: "n block comments on one line, then a statement", bytesPer: 6,
			gen: func(n int) string { return strings.Repeat("/*x*/ ", n) + "SELECT 1" }},
		{name: "block-comments-lines", doc: "n block comments, one per line", bytesPer: 6,
			gen: func(n int) string { return strings.Repeat("/*x*/\n", n) + "SELECT 1" }},
		{name: "block-comments-between", doc: "one line: a block comment between every two tokens", bytesPer: 10,
			gen: func(n int) string { return "SELECT " + rep(n, "c", " /*x*/ , ") + " FROM t" }},
		{name: "big-block-comment", doc: "one block comment of n lines", bytesPer: 2,
			gen: func(n int) string { return "/*" + strings.Repeat("x\n", n) + "*/ SELECT 1" }},
		{name: "string-literal", doc: "one string literal of n bytes", bytesPer: 1,
			gen: func(n int) string { return "SELECT '" + strings.Repeat("x", n) + "'" }},
		{name: "string-quotes", doc: "one string literal with n doubled quotes", bytesPer: 3,
			gen: func(n int) string { return "SELECT '" + strings.Repeat("x''", n) + "'" }},
		{name: "string-multiline", doc: "one string literal spanning n lines", bytesPer: 2,
			gen: func(n int) string { return "SELECT '" + strings.Repeat("x\n", n) + "'" }},
		{name: "string-utf8", doc: "one string literal of n two-byte characters", bytesPer: 2,
			gen: func(n int) string { return "SELECT '" + strings.Repeat("é", n) + "'" }},
		{name: "string-escapes", doc: "one string literal with n backslash escapes", bytesPer: 4,
			gen: func(n int) string { return "SELECT '" + strings.Repeat(`ab\n`, n) + "'" }},
		{name: "strings-escaped-many", doc: "n string literals with a backslash escape each", bytesPer: 9,
			gen: func(n int) string { return "SELECT " + rep(n, `'C:\\d'`, ", ") }},
		{name: "quoted-identifiers-many", doc: "n double-quoted identifiers with a doubled quote each", bytesPer: 9,
			gen: func(n int) string { return "SELECT " + rep(n, `"a""b"`, ", ") + " FROM t" }},
		{name: "quoted-identifiers-typographic", doc: "n identifiers in typographic double quotes on one line", bytesPer: 12,
			gen: func(n int) string { return "SELECT " + rep(n, "\u201cab\u201d", ", ") + " FROM t" }},
		{name: "quoted-identifiers-backtick", doc: "n back-ticked identifiers on one line", bytesPer: 8,
			gen: func(n int) string { return "SELECT " + rep(n, "`ab`", ", ") + " FROM t" }},
		{name: "strings-typographic", doc: "n string literals in typographic single quotes on one line", bytesPer: 12,
			gen: func(n int) string { return "SELECT " + rep(n, "\u2018ab\u2019", ", ") }},
		{name: "numbers-many", doc: "n numeric literals in every form", bytesPer: 8,
			gen: func(n int) string { return "SELECT " + rep(n, "1.5e3", ", ") }},
		{name: "strings-many", doc: "n short string literals on one line", bytesPer: 5,
			gen: func(n int) string { return "SELECT " + rep(n, "'x'", ", ") }},
		{name: "dollar-string", doc: "one dollar-quoted string of n bytes", bytesPer: 1,
			gen: func(n int) string { return "SELECT $q$" + strings.Repeat("x", n) + "$q$" }},
		{name: "dollar-strings-many", doc: "n dollar-quoted strings", bytesPer: 9,
			gen: func(n int) string { return "SELECT " + rep(n, "$q$x$q$", ", ") }},
		{name: "identifier", doc: "one identifier of n bytes", bytesPer: 1,
			gen: func(n int) string { return "SELECT " + strings.Repeat("x", n) + " FROM t" }},
		{name: "quoted-identifier", doc: "one double-quoted identifier of n bytes", bytesPer: 1,
			gen: func(n int) string { return "SELECT \"" + strings.Repeat("x", n) + "\" FROM t" }},
		{name: "identifier-utf8", doc: "one identifier of n two-byte letters", bytesPer: 2,
			gen: func(n int) string { return "SELECT " + strings.Repeat("é", n) + " FROM t" }},
		{name: "number", doc: "one numeric literal of n digits", bytesPer: 1,
			gen: func(n int) string { return "SELECT " + strings.Repeat("7", n) }},
		{name: "distinct-names", doc: "n-wide select list of n different column names", bytesPer: 10,
			gen: func(n int) string {
				return "SELECT " + repf(n, ", ", func(i int) string { return "c" + strconv.Itoa(i) }) + " FROM t"
			}},
		{name: "and-chain", doc: "WHERE with n AND-ed comparisons", bytesPer: 10, maxN: deepChain,
			gen: func(n int) string { return "SELECT c FROM t WHERE " + rep(n, "a = 1", " AND ") }},
		{name: "or-chain", doc: "WHERE with n OR-ed tautologies (every element is a scanner finding)", bytesPer: 9, maxN: deepChain,
			gen: func(n int) string { return "SELECT c FROM t WHERE " + rep(n, "1 = 1", " OR ") }},
		{name: "plus-chain", doc: "n-term + chain", bytesPer: 4, maxN: deepChain,
			gen: func(n int) string { return "SELECT " + rep(n, "1", " + ") }},
		{name: "concat-chain", doc: "n-term || chain", bytesPer: 7, maxN: deepChain,
			gen: func(n int) string { return "SELECT " + rep(n, "'x'", " || ") }},
		{name: "in-list", doc: "IN list of n values", bytesPer: 3,
			gen: func(n int) string { return "SELECT c FROM t WHERE a IN (" + rep(n, "1", ", ") + ")" }},
		{name: "values-rows", doc: "INSERT with n rows", bytesPer: 8,
			gen: func(n int) string { return "INSERT INTO t (a, b) VALUES " + rep(n, "(1, 2)", ", ") }},
		{name: "values-wide", doc: "INSERT with one row of n values", bytesPer: 3,
			gen: func(n int) string { return "INSERT INTO t VALUES (" + rep(n, "1", ", ") + ")" }},
		{name: "statements-line", doc: "n statements separated by ';' on one line", bytesPer: 10,
			gen: func(n int) string { return rep(n, "SELECT 1", "; ") }},
		{name: "statements-lines", doc: "n statements, one per line", bytesPer: 20,
			gen: func(n int) string { return rep(n, "SELECT a FROM t", ";\n") + ";" }},
		{name: "qualified-name", doc: "name of n parts a.a.a...", bytesPer: 2,
			gen: func(n int) string { return "SELECT " + rep(n, "a", ".") + " FROM t" }},
		{name: "qualified-table", doc: "table name of n parts", bytesPer: 2,
			gen: func(n int) string { return "SELECT c FROM " + rep(n, "a", ".") }},
		{name: "call-args", doc: "function call with n arguments", bytesPer: 3,
			gen: func(n int) string { return "SELECT f(" + rep(n, "1", ", ") + ") FROM t" }},
		{name: "calls-many", doc: "n function calls in a select list", bytesPer: 12,
			gen: func(n int) string { return "SELECT " + rep(n, "upper(c)", ", ") + " FROM t" }},
		{name: "joins", doc: "n JOINs", bytesPer: 40,
			gen: func(n int) string {
				return "SELECT c FROM t0" + repf(n, "", func(i int) string {
					s := strconv.Itoa(i + 1)
					return " JOIN t" + s + " ON t" + s + ".a = t0.a"
				})
			}},
		{name: "from-list", doc: "FROM with n comma-separated tables", bytesPer: 10,
			gen: func(n int) string {
				return "SELECT c FROM " + repf(n, ", ", func(i int) string { return "t" + strconv.Itoa(i) })
			}},
		{name: "ctes", doc: "WITH n common table expressions", bytesPer: 30,
			gen: func(n int) string {
				return "WITH " + repf(n, ", ", func(i int) string { return "w" + strconv.Itoa(i) + " AS (SELECT 1)" }) + " SELECT c FROM w0"
			}},
		{name: "case-arms", doc: "CASE with n WHEN arms", bytesPer: 20,
			gen: func(n int) string {
				return "SELECT CASE" + strings.Repeat(" WHEN a = 1 THEN 2", n) + " ELSE 3 END FROM t"
			}},
		{name: "order-by", doc: "ORDER BY n keys", bytesPer: 8,
			gen: func(n int) string { return "SELECT c FROM t ORDER BY " + rep(n, "a DESC", ", ") }},
		{name: "group-by", doc: "GROUP BY n keys", bytesPer: 3,
			gen: func(n int) string { return "SELECT c FROM t GROUP BY " + rep(n, "a", ", ") }},
		{name: "update-set", doc: "UPDATE with n assignments", bytesPer: 8,
			gen: func(n int) string { return "UPDATE t SET " + rep(n, "a = 1", ", ") + " WHERE b = 2" }},
		{name: "create-columns", doc: "CREATE TABLE with n columns", bytesPer: 16,
			gen: func(n int) string {
				return "CREATE TABLE t (" + repf(n, ", ", func(i int) string { return "c" + strconv.Itoa(i) + " INT" }) + ")"
			}},
		{name: "union-chain", doc: "n SELECTs joined by UNION", bytesPer: 16, maxN: deepChain,
			gen: func(n int) string { return rep(n, "SELECT 1", " UNION ") }},
		{name: "casts", doc: "n casts x::int in a select list", bytesPer: 10,
			gen: func(n int) string { return "SELECT " + rep(n, "a::int", ", ") + " FROM t" }},
		{name: "paren-groups", doc: "parentheses nested 40 deep, repeated n/40 times in a + chain", bytesPer: 3, maxN: 40 * deepChain,
			gen: func(n int) string {
				g := strings.Repeat("(", 40) + "1" + strings.Repeat(")", 40)
				return "SELECT " + rep(n/40+1, g, " + ")
			}},
		{name: "paren-deep", doc: "parentheses nested n deep (beyond the depth limit: must be rejected cheaply)", bytesPer: 2,
			gen: func(n int) string { return "SELECT " + strings.Repeat("(", n) + "1" + strings.Repeat(")", n) }},
		{name: "subquery-deep", doc: "sub-queries nested n deep (beyond the depth limit: must be rejected cheaply)", bytesPer: 12,
			gen: func(n int) string { return strings.Repeat("SELECT (", n) + "SELECT 1" + strings.Repeat(")", n) }},
		{name: "fail-lex-end", doc: "n-wide select list whose last token is an unterminated string (tokenizer error at the very end)", bytesPer: 3,
			gen: func(n int) string { return "SELECT " + rep(n, "c", ", ") + " FROM t WHERE a = 'x" }},
		{name: "fail-char-end", doc: "n-wide select list followed by an illegal character", bytesPer: 3,
			gen: func(n int) string { return "SELECT " + rep(n, "c", ", ") + " FROM t \x01" }},
		{name: "fail-parse-end", doc: "n-wide select list followed by a dangling FROM (parser error at the very end)", bytesPer: 3,
			gen: func(n int) string { return "SELECT " + rep(n, "c", ", ") + " FROM" }},
		{name: "fail-parse-lines", doc: "n lines, parser error on the last one", bytesPer: 3,
			gen: func(n int) string { return "SELECT\n" + rep(n, "c", ",\n") + "\nFROM" }},
		{name: "fail-every-statement", doc: "n statements each of which fails to parse (recovery collects n errors)", bytesPer: 14,
			gen: func(n int) string { return rep(n, "SELECT FROM t", ";\n") + ";" }},
		{name: "lint-dirty-lines", doc: "n lines with lower-case keywords, trailing blanks, tabs+spaces indentation and leading commas", bytesPer: 24,
			gen: func(n int) string {
				return "select c  \n" + strings.Repeat("\t , c as  x   \n", n) + " \tfrom t  \n"
			}},
		{name: "long-lines", doc: "n lines longer than the linter's line-length limit", bytesPer: 140,
			gen: func(n int) string {
				l := "SELECT " + rep(40, "cc", ", ") + " FROM t;\n"
				return strings.Repeat(l, n)
			}},
		{name: "keywords-mixed", doc: "n statements with mixed-case keywords", bytesPer: 30,
			gen: func(n int) string { return rep(n, "Select a From t Where a Is Null", ";\n") }},
		// runs of words that the tokenizer looks beyond (first words of two-word keywords) or back from (second words)
		{name: "compound-start-run", doc: "n times LEFT (first word of a two-word keyword, never completed)", bytesPer: 5,
			gen: func(n int) string { return rep(n, "LEFT", " ") }},
		{name: "compound-start-mixed-lines", doc: "n first words of two-word keywords in turn, mixed case, one per line", bytesPer: 7,
			gen: func(n int) string {
				ws := []string{"left", "RIGHT", "Full", "outer", "CROSS", "inner", "Natural", "group", "ORDER", "grouping"}
				var sb strings.Builder
				for i := 0; i < n; i++ {
					sb.WriteString(ws[i%len(ws)])
					sb.WriteByte('\n')
				}
				return sb.String()
			}},
		{name: "compound-second-run", doc: "n times JOIN / BY / SETS in turn (second words of two-word keywords without their first)", bytesPer: 5,
			gen: func(n int) string {
				ws := []string{"JOIN", "BY", "SETS"}
				var sb strings.Builder
				for i := 0; i < n; i++ {
					sb.WriteString(ws[i%len(ws)])
					sb.WriteByte(' ')
				}
				return sb.String()
			}},
		{name: "compound-start-placeholders", doc: "n @-parameters named like first words of two-word keywords", bytesPer: 7,
			gen: func(n int) string { return "SELECT " + rep(n, "@left", ", ") }},
		{name: "token-limit", doc: "SELECT DISTINCT c,c,... FROM t with exactly n tokens; the last size is MaxTokens+1 (rejected by the token limit)", bytesPer: 2, thoroughOnly: true,
			gen:   func(n int) string { return "SELECT DISTINCT " + rep((n-3)/2, "c", ",") + " FROM t" },
			sizes: func(bool) []int { return []int{62501, 125001, 250001, 500001, 1000001} }},
	}
}

// ladder gives the sizes at which a family is measured.
func (f *family) ladder(thorough bool) []int {
	if f.sizes != nil {
		return f.sizes(thorough)
	}
	var out []int
	top := 1 << 14
	if thorough {
		top = 1 << 23
	}
	for n := 1 << 4; n <= top; n <<= 1 {
		if f.maxN > 0 && n > f.maxN {
			break
		}
		if n*f.bytesPer+64 > maxInputSize {
			break
		}
		if !thorough && n*f.bytesPer > 1<<19 && len(out) >= 3 {
			break // quick tier: inputs up to 512 KiB
		}
		out = append(out, n)
	}
	return out
}
