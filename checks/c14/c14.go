// Package c14 checks property C14 (tree traversal reaches every node of every tree).
//
// One oracle, two spaces.  Oracle: the multiset of nodes visited by ast.Inspect
// from a root equals the multiset of node-typed values reachable by reflection
// through the root's own fields (nodes identified by type + canonical dump,
// because Children() hands out copies of value-typed elements).  Spaces:
// (S) structural: every node type of pkg/sql/ast x every field that can hold a
// node, populated alone with uniquely tagged content; (T) trees: every tree of
// the sqlgen statement space and every corpus file the parser accepts.
package c14

import (
	"fmt"
	"os"
	"path/filepath"
	"reflect"
	"runtime"
	"runtime/debug"
	"sort"
	"strings"

	"github.com/ajitpratap0/GoSQLX/pkg/gosqlx"
	"github.com/ajitpratap0/GoSQLX/pkg/sql/ast"

	"verif/engine/common"
	"verif/sqlgen"
)

var nodeIface = reflect.TypeOf((*ast.Node)(nil)).Elem()

// asNode returns the value as an ast.Node if it is a non-nil node (struct or pointer to struct).
func asNode(v reflect.Value) (ast.Node, string, bool) {
	switch v.Kind() {
	case reflect.Ptr:
		if v.IsNil() || v.Elem().Kind() != reflect.Struct {
			return nil, "", false
		}
		if v.Type().Implements(nodeIface) {
			return v.Interface().(ast.Node), v.Elem().Type().Name(), true
		}
	case reflect.Struct:
		if v.Type().Implements(nodeIface) {
			return v.Interface().(ast.Node), v.Type().Name(), true
		}
		if reflect.PtrTo(v.Type()).Implements(nodeIface) {
			p := reflect.New(v.Type())
			p.Elem().Set(v)
			return p.Interface().(ast.Node), v.Type().Name(), true
		}
	}
	return nil, "", false
}

// walker walks the tree by reflection in field order.  Every node-typed value it
// meets must be covered by one visit of ast.Inspect (the multiset of visited keys
// is consumed); a node that is not covered is reported once, with the parent
// field through which it is reached, and its subtree is not descended into (its
// descendants are missed for the same reason).
type walker struct {
	c      *common.Ctx
	cnt    map[string]int
	nodes  int
	missed int
}

func (w *walker) node(v reflect.Value, where string) bool {
	n, tn, ok := asNode(v)
	if !ok {
		return true
	}
	if allZero(v) {
		return false // an all-zero node carries nothing; ignored on both sides
	}
	w.nodes++
	key := tn + " " + sqlgen.Dump(n)
	if w.cnt[key] > 0 {
		w.cnt[key]--
		return true
	}
	w.missed++
	w.c.Fail("missed:"+where, fmt.Sprintf("node reachable through %s is not visited by ast.Inspect: %s", where, common.Trim(key, 300)))
	return false
}

func (w *walker) walk(v reflect.Value, where string, depth int) {
	if depth > 200000 { // cycle guard only; the deepest chain of the space is ~5000 reflection levels
		return
	}
	switch v.Kind() {
	case reflect.Interface:
		if !v.IsNil() {
			w.walk(v.Elem(), where, depth+1)
		}
	case reflect.Ptr:
		if v.IsNil() || v.Elem().Kind() != reflect.Struct {
			return
		}
		if w.node(v, where) {
			w.fields(v.Elem(), depth)
		}
	case reflect.Struct:
		if w.node(v, where) {
			w.fields(v, depth)
		}
	case reflect.Slice, reflect.Array:
		for i := 0; i < v.Len(); i++ {
			w.walk(v.Index(i), where, depth+1)
		}
	case reflect.Map:
		keys := v.MapKeys()
		sort.Slice(keys, func(a, b int) bool { return fmt.Sprint(keys[a]) < fmt.Sprint(keys[b]) })
		for _, k := range keys {
			w.walk(v.MapIndex(k), where, depth+1)
		}
	}
}

func (w *walker) fields(s reflect.Value, depth int) {
	t := s.Type()
	name := t.Name()
	if i := strings.Index(name, "["); i > 0 {
		name = name[:i] // generic instantiation: drop the type arguments
	}
	for i := 0; i < s.NumField(); i++ {
		f := t.Field(i)
		if f.PkgPath != "" {
			continue
		}
		w.walk(s.Field(i), name+"."+f.Name, depth+1)
	}
}

func allZero(v reflect.Value) bool {
	for v.Kind() == reflect.Ptr || v.Kind() == reflect.Interface {
		if v.IsNil() {
			return true
		}
		v = v.Elem()
	}
	return v.IsZero()
}

// visit collects every node ast.Inspect yields from root.
func visit(root ast.Node) (keys []string, panicked string) {
	defer func() {
		if r := recover(); r != nil {
			panicked = fmt.Sprint(r)
		}
	}()
	ast.Inspect(root, func(n ast.Node) bool {
		if n == nil {
			return false
		}
		rv := reflect.ValueOf(n)
		if rv.Kind() == reflect.Ptr && rv.IsNil() {
			return false
		}
		_, tn, ok := asNode(rv)
		if ok && allZero(rv) {
			return true
		}
		if !ok {
			return true // node types that are not structs (enums with a Children method) are outside the oracle
		}
		keys = append(keys, tn+" "+sqlgen.Dump(n))
		return true
	})
	return keys, ""
}

// compare evaluates the oracle on one root.
func compare(c *common.Ctx, root ast.Node) {
	vis, pan := visit(root)
	if pan != "" {
		c.Fail("inspect-panic", "ast.Inspect panicked: "+pan)
		return
	}
	w := &walker{c: c, cnt: map[string]int{}}
	for _, k := range vis {
		w.cnt[k]++
	}
	w.walk(reflect.ValueOf(root), "root", 0)
	if w.missed == 0 {
		// every reachable node was covered; anything left over was visited without being part of the tree
		for k, n := range w.cnt {
			if n > 0 {
				tn := k
				if i := strings.Index(k, " "); i > 0 {
					tn = k[:i]
				}
				c.Fail("extra:"+tn, fmt.Sprintf("ast.Inspect visits a node %d more time(s) than it is reachable through the tree's fields: %s", n, common.Trim(k, 300)))
			}
		}
	}
	c.Count("nodes_reachable", int64(w.nodes))
}

// ---------------------------------------------------------------- structural space

var uniq int

func tag() string { uniq++; return fmt.Sprintf("u%d", uniq) }

// ragged selects the slice shapes fill builds: 0 = two elements everywhere; 1 / 2 = three elements, and rows of
// nested slices of lengths (1, 3) / (3, 1).
var ragged int

var (
	exprIface = reflect.TypeOf((*ast.Expression)(nil)).Elem()
	stmtIface = reflect.TypeOf((*ast.Statement)(nil)).Elem()
)

// fill builds a value of type t with every node-holding position populated with
// uniquely tagged content, to the given depth.
func fill(t reflect.Type, depth int) reflect.Value {
	switch t.Kind() {
	case reflect.Interface:
		if t.NumMethod() == 0 {
			return reflect.Zero(t) // interface{} fields hold scalars, not nodes
		}
		var cands []any
		cands = append(cands, &ast.Identifier{Name: tag()}, &ast.SelectStatement{Columns: []ast.Expression{&ast.Identifier{Name: tag()}}})
		cands = append(cands, NodeTypes...)
		for _, c := range cands {
			ct := reflect.TypeOf(c)
			if ct.Implements(t) {
				if ct == reflect.TypeOf(&ast.Identifier{}) || ct == reflect.TypeOf(&ast.SelectStatement{}) {
					return reflect.ValueOf(c)
				}
				if depth <= 0 {
					return reflect.New(ct.Elem())
				}
				return fill(ct, depth-1)
			}
		}
		return reflect.Zero(t)
	case reflect.Ptr:
		if t.Elem().Kind() != reflect.Struct {
			p := reflect.New(t.Elem())
			p.Elem().Set(fill(t.Elem(), depth))
			return p
		}
		p := reflect.New(t.Elem())
		if depth > 0 {
			p.Elem().Set(fill(t.Elem(), depth))
		}
		return p
	case reflect.Struct:
		v := reflect.New(t).Elem()
		for i := 0; i < t.NumField(); i++ {
			f := t.Field(i)
			if f.PkgPath != "" {
				continue
			}
			if depth > 0 || !canHoldNode(f.Type, 0) {
				v.Field(i).Set(fill(f.Type, depth-1))
			}
		}
		return v
	case reflect.Slice:
		n := 2
		if ragged > 0 {
			// nested slices (rows of rows) get rows of different lengths: 1, 3 (ragged = 1) or 3, 1 (ragged = 2)
			if t.Elem().Kind() == reflect.Slice {
				if ragged >= 3 {
					// rows with an empty row first (ragged = 3: 0, 2, 1) or in the middle (ragged = 4: 2, 0, 3)
					lens := []int{0, 2, 1}
					if ragged == 4 {
						lens = []int{2, 0, 3}
					}
					s := reflect.MakeSlice(t, len(lens), len(lens))
					for i, want := range lens {
						row := reflect.MakeSlice(t.Elem(), want, want)
						for k := 0; k < want; k++ {
							row.Index(k).Set(fill(t.Elem().Elem(), depth))
						}
						s.Index(i).Set(row)
					}
					return s
				}
				s := reflect.MakeSlice(t, 2, 2)
				for i := 0; i < 2; i++ {
					want := 1
					if (ragged == 1) == (i == 1) {
						want = 3
					}
					row := reflect.MakeSlice(t.Elem(), want, want)
					for k := 0; k < want; k++ {
						row.Index(k).Set(fill(t.Elem().Elem(), depth))
					}
					s.Index(i).Set(row)
				}
				return s
			}
			n = 3
		}
		s := reflect.MakeSlice(t, n, n)
		for i := 0; i < n; i++ {
			s.Index(i).Set(fill(t.Elem(), depth))
		}
		return s
	case reflect.Array:
		a := reflect.New(t).Elem()
		for i := 0; i < a.Len(); i++ {
			a.Index(i).Set(fill(t.Elem(), depth))
		}
		return a
	case reflect.Map:
		m := reflect.MakeMap(t)
		if t.Key().Kind() == reflect.String {
			m.SetMapIndex(reflect.ValueOf(tag()).Convert(t.Key()), fill(t.Elem(), depth))
		}
		return m
	case reflect.String:
		return reflect.ValueOf(tag()).Convert(t)
	case reflect.Bool:
		return reflect.ValueOf(true).Convert(t)
	case reflect.Int, reflect.Int8, reflect.Int16, reflect.Int32, reflect.Int64:
		return reflect.ValueOf(int64(1)).Convert(t)
	case reflect.Uint, reflect.Uint8, reflect.Uint16, reflect.Uint32, reflect.Uint64:
		return reflect.ValueOf(uint64(1)).Convert(t)
	case reflect.Float32, reflect.Float64:
		return reflect.ValueOf(1.5).Convert(t)
	}
	return reflect.Zero(t)
}

// canHoldNode reports whether a value of type t can contain a node.
func canHoldNode(t reflect.Type, depth int) bool {
	if depth > 6 {
		return false
	}
	switch t.Kind() {
	case reflect.Interface:
		return t.Implements(nodeIface) || t == nodeIface
	case reflect.Ptr:
		if t.Implements(nodeIface) {
			return true
		}
		return canHoldNode(t.Elem(), depth+1)
	case reflect.Struct:
		if t.Implements(nodeIface) || reflect.PtrTo(t).Implements(nodeIface) {
			return true
		}
		for i := 0; i < t.NumField(); i++ {
			if t.Field(i).PkgPath == "" && canHoldNode(t.Field(i).Type, depth+1) {
				return true
			}
		}
	case reflect.Slice, reflect.Array, reflect.Map:
		return canHoldNode(t.Elem(), depth+1)
	}
	return false
}

// Check returns the C14 check.
func Check() *common.Check {
	return &common.Check{
		ID:    "C14",
		Level: "exploration",
		// every case is recorded before it runs: a fatal error or a hang of the worker is attributed to it
		CrashSafe: true,
		Rule: "(S) every struct type of pkg/sql/ast with a Children method (listed from the current source by tools/astreg) x every exported field that can hold a node, " +
			"populated alone with uniquely tagged content to depth 2, slices with 2 and 3 elements and rows of nested slices with lengths (2,2), (1,3), (3,1), (0,2,1), (2,0,3); (S2) every interface-typed node position (field or slice element) x every concrete node type assignable to it; (S4) every field of a named integer type (a discriminator) x values 1..15 x every node-holding field populated alone; (T) every tree of the sqlgen statement space (quick: without 3/4-operator shapes) " +
			"every .sql file under /repo/testdata the parser accepts, (H) every ordered pair of representative expression statements as parse / release / parse in one process (the second tree is built from recycled nodes), and left-deep operator / UNION chains of every length 2..40, around 64..1024 and a ladder up to 1200 operands. Oracle on each root: multiset of nodes seen by ast.Inspect == multiset of node-typed values reachable by reflection. " +
			"distinct = distinct (type,field) obligations and distinct SQL texts; non-trivial = the root has at least 3 reachable nodes",
		Assume: []string{"a node is identified by its type and canonical dump (Children() hands out copies of value-typed elements)",
			"'part of the tree' = reachable through exported fields of the root, as the property states"},
		Enumerate: func(e *common.Enum) {
			// (S) structural obligations
			for _, proto := range NodeTypes {
				pt := reflect.TypeOf(proto) // *T
				st := pt.Elem()
				for i := 0; i < st.NumField(); i++ {
					f := st.Field(i)
					if f.PkgPath != "" || !canHoldNode(f.Type, 0) {
						continue
					}
					for rg := 0; rg <= 4; rg++ {
						rg := rg
						if rg > 0 && f.Type.Kind() != reflect.Slice {
							continue
						}
						if rg >= 3 && !(f.Type.Kind() == reflect.Slice && f.Type.Elem().Kind() == reflect.Slice) {
							continue // the shapes with an empty row exist for rows of rows only
						}
						rkey := fmt.Sprintf("S/%s.%s/shape%d", st.Name(), f.Name, rg)
						e.Do(rkey, func(c *common.Ctx) {
							ragged = rg
							defer func() { ragged = 0 }()
							root := reflect.New(st)
							root.Elem().Field(i).Set(fill(f.Type, 2))
							n := root.Interface().(ast.Node)
							c.Input(rkey + " = " + common.Trim(sqlgen.Dump(n), 600))
							compare(c, n)
							c.Outcome("structural")
							c.NonTrivial()
						})
					}
					key := "S/" + st.Name() + "." + f.Name
					e.Do(key, func(c *common.Ctx) {
						root := reflect.New(st)
						root.Elem().Field(i).Set(fill(f.Type, 2))
						n := root.Interface().(ast.Node)
						c.Input(key + " = " + common.Trim(sqlgen.Dump(n), 600))
						c.Sample(key)
						compare(c, n)
						c.Outcome("structural")
						c.NonTrivial()
					})
				}
			}
			// (S4) a node type with a discriminator (a field of a named integer type: operation kind, join kind ...) x every
			// value 0..15 of it x every node-holding field populated alone: which child fields a traversal yields must not
			// hinge on the discriminator (the parser fills fields by its own rules, not by the field comments)
			for _, proto := range NodeTypes {
				st := reflect.TypeOf(proto).Elem()
				var discs []int
				for i := 0; i < st.NumField(); i++ {
					f := st.Field(i)
					if f.PkgPath == "" && f.Type.PkgPath() != "" && f.Type.Name() != "" && (f.Type.Kind() >= reflect.Int && f.Type.Kind() <= reflect.Uint64) {
						discs = append(discs, i)
					}
				}
				for _, di := range discs {
					for i := 0; i < st.NumField(); i++ {
						f := st.Field(i)
						if f.PkgPath != "" || !canHoldNode(f.Type, 0) {
							continue
						}
						for v := 1; v <= 15; v++ {
							di, i, v := di, i, v
							key := fmt.Sprintf("S4/%s.%s=%d/%s", st.Name(), st.Field(di).Name, v, f.Name)
							e.Do(key, func(c *common.Ctx) {
								root := reflect.New(st)
								df := root.Elem().Field(di)
								if df.Kind() >= reflect.Uint && df.Kind() <= reflect.Uint64 {
									df.SetUint(uint64(v))
								} else {
									df.SetInt(int64(v))
								}
								root.Elem().Field(i).Set(fill(st.Field(i).Type, 2))
								n := root.Interface().(ast.Node)
								c.Input(key + " = " + common.Trim(sqlgen.Dump(n), 600))
								compare(c, n)
								c.Outcome("structural-discriminator")
								c.NonTrivial()
							})
						}
					}
				}
			}
			// (S2) every interface-typed node position x every concrete node type that can be stored there: a traversal
			// that narrows the dynamic type of a child (type switch, assertion to a sub-interface) loses the others
			for _, proto := range NodeTypes {
				st := reflect.TypeOf(proto).Elem()
				for i := 0; i < st.NumField(); i++ {
					i := i
					f := st.Field(i)
					if f.PkgPath != "" {
						continue
					}
					it, isSlice := f.Type, false
					if it.Kind() == reflect.Slice {
						it, isSlice = it.Elem(), true
					}
					if it.Kind() != reflect.Interface || it.NumMethod() == 0 || !(it.Implements(nodeIface) || it == nodeIface) {
						continue
					}
					for _, cand := range NodeTypes {
						ct := reflect.TypeOf(cand)
						if !ct.Implements(it) {
							continue
						}
						key := "S2/" + st.Name() + "." + f.Name + "=" + ct.Elem().Name()
						e.Do(key, func(c *common.Ctx) {
							root := reflect.New(st)
							// the child carries its own scalar content only (node-holding fields of one type are often mutually
							// exclusive); a type without scalar fields gets its first node-holding field filled instead
							child := reflect.New(ct.Elem())
							child.Elem().Set(fill(ct.Elem(), 0))
							if allZero(child) {
								for k := 0; k < ct.Elem().NumField(); k++ {
									if cf := ct.Elem().Field(k); cf.PkgPath == "" && canHoldNode(cf.Type, 0) {
										child.Elem().Field(k).Set(fill(cf.Type, 1))
										break
									}
								}
							}
							if isSlice {
								sl := reflect.MakeSlice(f.Type, 1, 1)
								sl.Index(0).Set(child)
								root.Elem().Field(i).Set(sl)
							} else {
								root.Elem().Field(i).Set(child)
							}
							n := root.Interface().(ast.Node)
							c.Input(key + " = " + common.Trim(sqlgen.Dump(n), 600))
							compare(c, n)
							c.Outcome("structural-dynamic-type")
							c.NonTrivial()
						})
					}
				}
			}
			// (T) trees of the statement space
			sqlgen.All(e.Thorough(), func(name string, s sqlgen.S) {
				if !e.Thorough() && (strings.HasPrefix(name, "shape3") || strings.HasPrefix(name, "shape2")) && !strings.HasSuffix(name, "/where") {
					return
				}
				sql := s.SQL()
				e.Do("T/"+sql, func(c *common.Ctx) {
					c.Input(sql)
					tree, err := gosqlx.Parse(sql)
					if err != nil {
						c.Outcome("rejected") // C03's business
						return
					}
					c.Sample(sql)
					compare(c, tree)
					c.Outcome("tree:" + s.Kind)
					if len(s.Feat) >= 3 {
						c.NonTrivial()
					}
				})
			})
			// (H) recycled trees: the nodes of a tree come from pools that an earlier, released tree went into.  Every ordered pair
			// of representative expression statements: parse the first, release it, parse the second (same process, one P,
			// collector off, pools emptied first) - the traversal of the second must be complete whatever the first left behind
			var reps []sqlgen.S
			seenRep := map[string]bool{}
			sqlgen.HoleCases(func(hole, rep string, st sqlgen.S) {
				if hole != "select.item" {
					return
				}
				if sql := st.SQL(); !seenRep[sql] {
					seenRep[sql] = true
					reps = append(reps, st)
				}
			})
			for _, a := range reps {
				a := a
				key := "H/" + a.SQL()
				e.Do(key, func(c *common.Ctx) {
					c.Input("parse, release, then parse and traverse every representative statement; first: " + a.SQL())
					runtime.GOMAXPROCS(1)
					defer debug.SetGCPercent(debug.SetGCPercent(-1))
					runtime.GC()
					runtime.GC()
					for _, b := range reps {
						if first, err := gosqlx.Parse(a.SQL()); err == nil {
							ast.ReleaseAST(first)
						}
						second, err := gosqlx.Parse(b.SQL())
						if err != nil {
							continue
						}
						compare(c, second) // (a statement with a listed finding fails here as it does alone; the others go on)
						ast.ReleaseAST(second)
						c.Count("recycled_pairs", 1)
					}
					c.Outcome("recycled:returned")
					c.NonTrivial()
				})
			}
			// long chains: productions parsed by loops build left-deep trees whose depth is the operand count,
			// far beyond the parser's nesting limit; every length around powers of two and a ladder up to 1200
			chain := func(n int, op string) string {
				parts := make([]string, n)
				for i := range parts {
					parts[i] = fmt.Sprintf("c%d", i%7)
				}
				return strings.Join(parts, " "+op+" ")
			}
			var lens []int
			for n := 2; n <= 40; n++ {
				lens = append(lens, n)
			}
			for _, p := range []int{64, 128, 256, 512, 1024} {
				for d := -3; d <= 3; d++ {
					lens = append(lens, p+d)
				}
			}
			lens = append(lens, 100, 200, 300, 400, 600, 800, 1200)
			for _, n := range lens {
				for _, op := range []string{"OR", "AND", "+", "||", "*"} {
					sql := "SELECT c0 FROM t0 WHERE " + chain(n, op)
					key := fmt.Sprintf("chain|%s|%d", op, n)
					e.Do(key, func(c *common.Ctx) {
						c.Input(key)
						tree, err := gosqlx.Parse(sql)
						if err != nil {
							c.Outcome("chain-rejected")
							return
						}
						compare(c, tree)
						c.Outcome("chain-tree")
						c.NonTrivial()
					})
				}
				parts := make([]string, n)
				for i := range parts {
					parts[i] = fmt.Sprintf("SELECT c%d FROM t%d", i%7, i%5)
				}
				sql := strings.Join(parts, " UNION ALL ")
				key := fmt.Sprintf("chain|UNION|%d", n)
				e.Do(key, func(c *common.Ctx) {
					c.Input(key)
					tree, err := gosqlx.Parse(sql)
					if err != nil {
						c.Outcome("chain-rejected")
						return
					}
					compare(c, tree)
					c.Outcome("chain-tree")
					c.NonTrivial()
				})
			}
			// corpus
			var files []string
			filepath.Walk("/repo/testdata", func(p string, info os.FileInfo, err error) error {
				if err == nil && !info.IsDir() && strings.HasSuffix(p, ".sql") {
					files = append(files, p)
				}
				return nil
			})
			sort.Strings(files)
			for _, p := range files {
				p := p
				e.Do("F/"+p, func(c *common.Ctx) {
					b, err := os.ReadFile(p)
					if err != nil {
						return
					}
					c.Input(p)
					tree, err := gosqlx.Parse(string(b))
					if err != nil {
						c.Outcome("corpus-rejected")
						return
					}
					compare(c, tree)
					c.Outcome("corpus-tree")
					c.NonTrivial()
				})
			}
		},
	}
}
