// Package c01 checks property C01 (no input can crash, panic or hang any entry point).
package c01

import (
	"context"
	"fmt"
	"math"
	goerrors "github.com/ajitpratap0/GoSQLX/pkg/errors"
	"os"
	"path/filepath"
	"runtime"
	"runtime/debug"
	"sort"
	"strings"
	"time"

	cli "github.com/ajitpratap0/GoSQLX/cmd/gosqlx/cmd"
	"github.com/ajitpratap0/GoSQLX/pkg/formatter"
	"github.com/ajitpratap0/GoSQLX/pkg/gosqlx"
	"github.com/ajitpratap0/GoSQLX/pkg/linter"
	kwrules "github.com/ajitpratap0/GoSQLX/pkg/linter/rules/keywords"
	"github.com/ajitpratap0/GoSQLX/pkg/linter/rules/style"
	"github.com/ajitpratap0/GoSQLX/pkg/linter/rules/whitespace"
	"github.com/ajitpratap0/GoSQLX/pkg/models"
	textsec "github.com/ajitpratap0/GoSQLX/pkg/security"
	"github.com/ajitpratap0/GoSQLX/pkg/sql/ast"
	"github.com/ajitpratap0/GoSQLX/pkg/sql/keywords"
	"github.com/ajitpratap0/GoSQLX/pkg/sql/parser"
	"github.com/ajitpratap0/GoSQLX/pkg/sql/security"
	"github.com/ajitpratap0/GoSQLX/pkg/sql/token"
	"github.com/ajitpratap0/GoSQLX/pkg/sql/tokenizer"

	"verif/engine/common"
	"verif/lexgen"
	"verif/sqlgen"
)

var dialects = []string{"", "mysql", "postgresql", "sqlserver", "oracle", "sqlite"}

type fixer interface {
	Fix(content string, violations []linter.Violation) (string, error)
}

func rules() []linter.Rule {
	return []linter.Rule{
		whitespace.NewTrailingWhitespaceRule(), whitespace.NewMixedIndentationRule(), whitespace.NewConsecutiveBlankLinesRule(1),
		whitespace.NewIndentationDepthRule(4, 4), whitespace.NewLongLinesRule(100), whitespace.NewRedundantWhitespaceRule(),
		style.NewColumnAlignmentRule(), style.NewCommaPlacementRule(style.CommaTrailing), style.NewAliasingConsistencyRule(true),
		kwrules.NewKeywordCaseRule(kwrules.CaseUpper),
	}
}

// call runs f; a panic that reaches us is a violation named after the first library frame.
func call(c *common.Ctx, entry string, f func()) {
	defer func() {
		if r := recover(); r != nil {
			st := string(debug.Stack())
			c.Fail("panic:"+common.PanicSite(st), fmt.Sprintf("%s panicked: %v\n%s", entry, r, common.Trim(st, 1800)))
		}
	}()
	f()
}

// onTree runs every consumer of a successfully parsed tree.
func onTree(c *common.Ctx, t *ast.AST) {
	if t == nil {
		return
	}
	call(c, "AST.SQL", func() { _ = t.SQL() })
	call(c, "AST.Format(readable)", func() { _ = t.Format(ast.ReadableStyle()) })
	call(c, "AST.Format(compact)", func() { _ = t.Format(ast.CompactStyle()) })
	call(c, "cli.SQLFormatter", func() { _, _ = cli.NewSQLFormatter(cli.FormatterOptions{UppercaseKw: true}).Format(t) })
	call(c, "cli.SQLFormatter(compact)", func() { _, _ = cli.NewSQLFormatter(cli.FormatterOptions{Compact: true}).Format(t) })
	call(c, "ExtractTables", func() { _ = gosqlx.ExtractTables(t) })
	call(c, "ExtractTablesQualified", func() { _ = gosqlx.ExtractTablesQualified(t) })
	call(c, "ExtractColumns", func() { _ = gosqlx.ExtractColumns(t) })
	call(c, "ExtractColumnsQualified", func() { _ = gosqlx.ExtractColumnsQualified(t) })
	call(c, "ExtractFunctions", func() { _ = gosqlx.ExtractFunctions(t) })
	call(c, "ExtractMetadata", func() { _ = gosqlx.ExtractMetadata(t) })
	call(c, "security.Scan", func() { _ = security.NewScanner().Scan(t) })
	call(c, "ast.Inspect", func() { ast.Inspect(t, func(ast.Node) bool { return true }) })
}

// onText runs every entry point that takes SQL text.
func onText(c *common.Ctx, sql string, full bool) {
	b := []byte(sql)
	accepted := false
	call(c, "tokenizer.Tokenize", func() {
		t := tokenizer.GetTokenizer()
		defer tokenizer.PutTokenizer(t)
		toks, err := t.Tokenize(b)
		if err != nil {
			return
		}
		// low-level parser entry points on the token stream
		for _, strict := range []bool{false, true} {
			ds := dialects[:1]
			if full {
				ds = dialects
			}
			for _, d := range ds {
				mk := func() *parser.Parser {
					var opts []parser.ParserOption
					if strict {
						opts = append(opts, parser.WithStrictMode())
					}
					if d != "" {
						opts = append(opts, parser.WithDialect(d))
					}
					return parser.NewParser(opts...)
				}
				call(c, "Parser.ParseFromModelTokens", func() {
					p := mk()
					defer p.Release()
					tr, err := p.ParseFromModelTokens(toks)
					if err == nil && !strict && d == "" {
						accepted = true
						onTree(c, tr)
					}
				})
				call(c, "Parser.ParseFromModelTokensWithPositions", func() {
					p := mk()
					defer p.Release()
					_, _ = p.ParseFromModelTokensWithPositions(toks)
				})
				call(c, "Parser.ParseContextFromModelTokens", func() {
					p := mk()
					defer p.Release()
					_, _ = p.ParseContextFromModelTokens(context.Background(), toks)
				})
				call(c, "Parser.ParseWithRecoveryFromModelTokens", func() {
					p := mk()
					defer p.Release()
					_, _ = p.ParseWithRecoveryFromModelTokens(toks)
				})
			}
		}
	})
	call(c, "tokenizer.TokenizeContext", func() {
		t := tokenizer.GetTokenizer()
		defer tokenizer.PutTokenizer(t)
		_, _ = t.TokenizeContext(context.Background(), b)
	})
	call(c, "gosqlx.Parse", func() { _, _ = gosqlx.Parse(sql) })
	call(c, "gosqlx.ParseWithRecovery", func() { _, _ = gosqlx.ParseWithRecovery(sql) })
	call(c, "gosqlx.Validate", func() { _ = gosqlx.Validate(sql) })
	call(c, "parser.ValidateBytes", func() { _ = parser.ValidateBytes(b) })
	call(c, "security.ScanSQL", func() { _ = security.NewScanner().ScanSQL(sql) })
	call(c, "pkg/security.Scan", func() { _ = textsec.NewScanner().Scan(sql) })
	call(c, "linter.LintString", func() {
		rs := rules()
		res := linter.New(rs...).LintString(sql, "x.sql")
		for _, r := range rs {
			if f, ok := r.(fixer); ok && r.CanAutoFix() {
				var vs []linter.Violation
				for _, v := range res.Violations {
					if v.Rule == r.ID() {
						vs = append(vs, v)
					}
				}
				call(c, "Fix:"+r.ID(), func() { _, _ = f.Fix(sql, vs) })
			}
		}
	})
	if full {
		call(c, "gosqlx.ParseBytes", func() { _, _ = gosqlx.ParseBytes(b) })
		call(c, "gosqlx.ParseWithContext", func() { _, _ = gosqlx.ParseWithContext(context.Background(), sql) })
		call(c, "gosqlx.ParseWithTimeout", func() { _, _ = gosqlx.ParseWithTimeout(sql, time.Hour) })
		call(c, "gosqlx.ParseMultiple", func() { _, _ = gosqlx.ParseMultiple([]string{sql, sql}) })
		call(c, "gosqlx.ValidateMultiple", func() { _ = gosqlx.ValidateMultiple([]string{sql, sql}) })
		call(c, "gosqlx.Format", func() { _, _ = gosqlx.Format(sql, gosqlx.DefaultFormatOptions()) })
		call(c, "gosqlx.Format(upper)", func() {
			_, _ = gosqlx.Format(sql, gosqlx.FormatOptions{IndentSize: 4, UppercaseKeywords: true, AddSemicolon: true})
		})
		call(c, "formatter.Format", func() { _, _ = formatter.New(formatter.Options{Uppercase: true}).Format(sql) })
		call(c, "formatter.Format(compact)", func() { _, _ = formatter.New(formatter.Options{Compact: true}).Format(sql) })
		call(c, "parser.ParseBytes", func() { _, _ = parser.ParseBytes(b) })
		call(c, "parser.ParseBytesWithTokens", func() { _, _, _ = parser.ParseBytesWithTokens(b) })
		for _, d := range dialects {
			d := d
			call(c, "parser.ParseWithDialect", func() { _, _ = parser.ParseWithDialect(sql, keywords.SQLDialect(d)) })
			call(c, "parser.ValidateWithDialect", func() { _ = parser.ValidateWithDialect(sql, keywords.SQLDialect(d)) })
		}
	}
	if accepted {
		c.Outcome("accepted")
		c.NonTrivial()
	} else {
		c.Outcome("rejected")
	}
}

// onTokens runs the low-level parser on a hand-made token slice.
func onTokens(c *common.Ctx, toks []token.Token) {
	for _, strict := range []bool{false, true} {
		for _, d := range []string{"", "mysql"} {
			mk := func() *parser.Parser {
				var opts []parser.ParserOption
				if strict {
					opts = append(opts, parser.WithStrictMode())
				}
				if d != "" {
					opts = append(opts, parser.WithDialect(d))
				}
				return parser.NewParser(opts...)
			}
			cp := func() []token.Token { return append([]token.Token{}, toks...) }
			call(c, "Parser.Parse", func() {
				p := mk()
				defer p.Release()
				tr, err := p.Parse(cp())
				if err == nil {
					c.NonTrivial()
					onTree(c, tr)
				}
			})
			call(c, "Parser.ParseContext", func() { p := mk(); defer p.Release(); _, _ = p.ParseContext(context.Background(), cp()) })
			call(c, "Parser.ParseWithRecovery", func() { p := mk(); defer p.Release(); _, _ = p.ParseWithRecovery(cp()) })
			for _, n := range []int{0, len(toks) - 1, len(toks), len(toks) + 2} {
				if n < 0 {
					continue
				}
				pm := make([]parser.TokenPosition, n)
				for i := range pm {
					pm[i] = parser.TokenPosition{OriginalIndex: i, Start: models.Location{Line: 1, Column: i + 1}, End: models.Location{Line: 1, Column: i + 2}}
				}
				call(c, "Parser.ParseWithPositions", func() {
					p := mk()
					defer p.Release()
					_, _ = p.ParseWithPositions(&parser.ConversionResult{Tokens: cp(), PositionMapping: pm})
				})
			}
		}
	}
	call(c, "parser.ParseMultiWithRecovery", func() { r := parser.ParseMultiWithRecovery(append([]token.Token{}, toks...)); r.Release() })
}

// tokenTypes lists every token type the library names (by its String method).
func tokenTypes() []models.TokenType {
	var out []models.TokenType
	seen := map[string]bool{}
	for i := 0; i < 700; i++ {
		t := models.TokenType(i)
		s := t.String()
		if i > 1 && (s == "" || s == "UNKNOWN" || strings.HasPrefix(s, "TokenType(") || seen[s]) {
			continue
		}
		seen[s] = true
		out = append(out, t)
	}
	// the type is a plain int: values no constant names (negative, just past the largest, in a gap, huge) can stand in
	// a hand-built token all the same
	maxNamed := 0
	for _, t := range out {
		if int(t) > maxNamed {
			maxNamed = int(t)
		}
	}
	for _, v := range []int{-1, -7, math.MinInt64, maxNamed + 1, maxNamed + 2, 9999, 1 << 40, math.MaxInt64} {
		out = append(out, models.TokenType(v))
	}
	return out
}

var coreTypes = []models.TokenType{
	models.TokenTypeEOF, models.TokenTypeUnknown, models.TokenTypeSelect, models.TokenTypeFrom, models.TokenTypeWhere, models.TokenTypeIdentifier, models.TokenTypeNumber,
	models.TokenTypeString, models.TokenTypeLParen, models.TokenTypeRParen, models.TokenTypeComma, models.TokenTypeSemicolon, models.TokenTypeAsterisk, models.TokenTypeEq,
	models.TokenTypeAnd, models.TokenTypeOr, models.TokenTypeNot, models.TokenTypeIn, models.TokenTypeBetween, models.TokenTypeLike, models.TokenTypeIs, models.TokenTypeNull,
	models.TokenTypeCase, models.TokenTypeWhen, models.TokenTypeThen, models.TokenTypeEnd, models.TokenTypeJoin, models.TokenTypeOn, models.TokenTypeAs, models.TokenTypeWith,
	models.TokenTypeUnion, models.TokenTypeExists, models.TokenTypeInsert, models.TokenTypeInto, models.TokenTypeValues, models.TokenTypeUpdate, models.TokenTypeSet,
	models.TokenTypeDelete, models.TokenTypeOrder, models.TokenTypeBy, models.TokenTypeGroup, models.TokenTypeLBracket, models.TokenTypeRBracket, models.TokenTypeDoubleColon,
	models.TokenTypePeriod, models.TokenTypeMinus, models.TokenTypeCast, models.TokenTypeArray, models.TokenTypeMerge, models.TokenTypeCreate,
	models.TokenType(-7), models.TokenType(1 << 40),
}

func mkTok(t models.TokenType, variant int) token.Token {
	lit := t.String()
	switch t {
	case models.TokenTypeIdentifier:
		lit = "a"
	case models.TokenTypeNumber:
		lit = "1"
	case models.TokenTypeString:
		lit = "s"
	}
	if variant == 1 {
		lit = ""
	}
	return token.Token{Type: t, Literal: lit}
}

// Check returns the C01 check.
func Check() *common.Check {
	return &common.Check{
		ID:        "C01",
		Level:     "exploration",
		CrashSafe: true,
		CrashSig: func(key, class string) string {
			// kind of input that killed the worker: token slices without an EOF token are a listed finding
			switch {
			case strings.HasPrefix(key, "tok|") && strings.HasSuffix(key, "eof=false"):
				return class + "@token-slice-without-eof"
			case strings.HasPrefix(key, "tok|"):
				return class + "@token-slice"
			}
			if i := strings.Index(key, "|"); i > 0 {
				return class + "@" + key[:i]
			}
			return class
		},
		Rule: "(1) all strings of <=3 (quick) / <=4 (thorough) fragments over lexgen's 37-fragment lexical alphabet and over a 14-fragment hostile alphabet (invalid UTF-8, NUL, letters whose upper case has another byte length, quote openers, injection snippets), and all character strings up to length 5..9 (+1 thorough) over six delimiter families (dollar quoting, quotes and backslash, comment marks, bracket / back-tick identifiers, mixed), bare and inside a SELECT; " +
			"(2) all lexeme sequences of length <=3 (quick) / <=4 (thorough, reduced alphabet) over a 60-lexeme keyword/operator/literal alphabet; (3) all parser-token sequences of length <=2 over every token type the library names plus 8 values no constant names (negative, past the largest, huge), and <=3 over 50 core types plus two unnamed values, " +
			"each with and without a trailing EOF token (length-3 slices without EOF: thorough only) and with empty literals, x position mappings shorter / equal / longer than the token slice; (4) every token prefix of every distinct sqlgen statement, every byte prefix (step 1 quick up to 600 bytes) of every corpus file, " +
			"every single-token deletion / duplication / replacement by 12 hostile tokens of a spread of statements; (5) a length ladder (every lexeme length 0..160/600 in 12 error templates and as token literals), a depth ladder (13 nesting / chaining constructs at every depth 1..110) and 12 saturation histories of 2200 distinct unexpected-token texts each (with / without a keyword suggestion, mixed in both orders) through the process-wide suggestion cache; (7) every keyword of the model grammar appended to every DDL statement and to an even spread (thorough: all) of the clause-option and DML statements, through the core entry points; (6) after-failure histories: every rejected single-token deletion of every representative expression statement (strict, validating, recovering and formatting calls) followed in the same process - one P, collector off, pools emptied first - by every representative expression statement. Each input goes through every public entry point (about 60 for text, incl. every dialect and strict mode; on success also serialisers, extractors, scanner, traversal). " +
			"Oracle: the call returns; no panic reaches the caller; the worker process does not die and does not go silent. distinct = distinct input; non-trivial = the input is accepted by the default parser, so the tree consumers run too",
		Assume: []string{"a hang is 'no progress of a worker for 120 s' (cases take microseconds)", "inputs near the 10 MiB limit are exercised by C02 / C20 families, not here"},
		Enumerate: func(e *common.Enum) {
			L := 3
			if e.Thorough() {
				L = 4
			}
			// (1a) lexical fragment strings
			lexgen.FragStrings(L, func(key, text string, n int) {
				e.Do("frag|"+key, func(c *common.Ctx) { c.Input(text); onText(c, text, n <= 2) })
			})
			// (1b) hostile fragment strings
			hostile := []string{"\xff", "\x00", "ɐ", "İ", "ß", "'", "\"", "`", "$$", "/*", "--", " OR 1=1", "SELECT ", "\xe2\x80"}
			var hrec func(prefix string, depth int)
			hrec = func(prefix string, depth int) {
				if depth > 0 {
					text := prefix
					e.Do("hostile|"+text, func(c *common.Ctx) { c.Input(text); c.Sample(text); onText(c, text, true) })
				}
				if depth == L {
					return
				}
				for _, h := range hostile {
					hrec(prefix+h, depth+1)
				}
			}
			hrec("", 0)
			// (1c) delimiter soups: all short strings over the characters of one quoting / commenting family plus a letter and a
			// separator.  Code that locates delimiters first and slices afterwards (dollar quoting in the text scanner, comment
			// skipping, bracket and back-tick identifiers, escapes) is driven through every overlap of openers and closers.
			soups := []struct {
				name  string
				alpha []string
				n     int
			}{
				{"dollar", []string{"$", "a", " "}, 9},
				{"dollar2", []string{"$", "a", "b", " ", "'"}, 6},
				{"quote", []string{"'", "\\", "a", " "}, 7},
				{"comment", []string{"/", "*", "-", "\n", "a"}, 6},
				{"ident", []string{"[", "]", "\"", "`", "a", "."}, 5},
				{"mixed", []string{"'", "$", "/", "*", "-", "\n"}, 5},
			}
			for _, sp := range soups {
				n := sp.n
				if e.Thorough() {
					n++
				}
				var drec func(prefix string, depth int)
				drec = func(prefix string, depth int) {
					if depth > 0 {
						text := prefix
						e.Do("delim|"+sp.name+"|"+text, func(c *common.Ctx) { c.Input(text); onText(c, text, false) })
						sel := "SELECT " + text + " FROM t"
						e.Do("delim-sel|"+sp.name+"|"+text, func(c *common.Ctx) { c.Input(sel); onText(c, sel, false) })
					}
					if depth == n {
						return
					}
					for _, a := range sp.alpha {
						drec(prefix+a, depth+1)
					}
				}
				drec("", 0)
			}
			// (2) lexeme soup
			lex := []string{"SELECT", "FROM", "WHERE", "GROUP BY", "ORDER BY", "HAVING", "LIMIT", "OFFSET", "JOIN", "LEFT JOIN", "ON", "USING", "AS", "WITH", "RECURSIVE", "UNION", "ALL", "INSERT INTO", "VALUES",
				"UPDATE", "SET", "DELETE FROM", "MERGE INTO", "WHEN", "MATCHED", "THEN", "CASE", "ELSE", "END", "CAST", "ARRAY", "INTERVAL", "EXISTS", "IN", "BETWEEN", "LIKE", "IS", "NULL", "NOT", "AND", "OR",
				"(", ")", "[", "]", ",", ";", ".", "*", "=", "-", "::", "->", "a", "t.c", "1", "1.5", "'s'", "$1", "OVER", "PARTITION BY", "ROWS", "CREATE TABLE", "RETURNING", "ON CONFLICT", "DO"}
			K := 3
			alpha := lex
			var srec func(prefix []string)
			srec = func(prefix []string) {
				if len(prefix) > 0 {
					text := strings.Join(prefix, " ")
					e.Do("soup|"+text, func(c *common.Ctx) { c.Input(text); onText(c, text, len(prefix) <= 2) })
				}
				if len(prefix) == K {
					return
				}
				for _, a := range alpha {
					srec(append(append([]string{}, prefix...), a))
				}
			}
			srec(nil)
			if e.Thorough() {
				K = 4
				alpha = []string{"SELECT", "FROM", "WHERE", "JOIN", "ON", "WITH", "AS", "UNION", "CASE", "WHEN", "END", "NOT", "AND", "IN", "(", ")", "[", ",", ";", "*", "=", "-", "a", "1", "'s'", "INSERT INTO", "VALUES", "UPDATE", "SET", "EXISTS"}
				srec(nil)
			}
			// (3) parser-token sequences
			all := tokenTypes()
			e.Count("token_types", int64(len(all)))
			seq := func(ts []models.TokenType, variant int, eof bool) []token.Token {
				var out []token.Token
				for _, t := range ts {
					out = append(out, mkTok(t, variant))
				}
				if eof {
					out = append(out, token.Token{Type: models.TokenTypeEOF})
				}
				return out
			}
			noEOF3 := e.Thorough() // slices of three tokens without EOF mostly re-find the listed stale-token crash, one worker death each: thorough only
			doToks := func(tag string, ts []models.TokenType) {
				for variant := 0; variant < 2; variant++ {
					for _, eof := range []bool{true, false} {
						if !eof && tag == "core3" && !noEOF3 {
							continue
						}
						key := fmt.Sprintf("tok|%s|%v|v%d|eof=%v", tag, ts, variant, eof)
						tsc := append([]models.TokenType{}, ts...)
						v, ef := variant, eof
						e.Do(key, func(c *common.Ctx) {
							c.Input(key)
							onTokens(c, seq(tsc, v, ef))
							c.Outcome("tokens")
						})
					}
				}
			}
			doToks("empty", nil)
			for _, a := range all {
				doToks("all1", []models.TokenType{a})
				for _, b := range all {
					doToks("all2", []models.TokenType{a, b})
				}
			}
			for _, a := range coreTypes {
				for _, b := range coreTypes {
					for _, d := range coreTypes {
						doToks("core3", []models.TokenType{a, b, d})
					}
				}
			}
			_ = noEOF3
			// (3b) length ladder: every lexeme length 0..maxLen in error-reporting positions (hint / suggestion
			// code works on the text of the offending token), as SQL text and as hand-made tokens
			maxLen := 160
			if e.Thorough() {
				maxLen = 600
			}
			for n := 0; n <= maxLen; n++ {
				w := strings.Repeat("a", n)
				k := strings.Repeat("SELECT", n/6+1)[:n]
				texts := []string{w, w + " * FROM t", "SELECT * FROM t " + w + " " + w, "SELECT  + w + ", "SELECT '" + w + "' '" + w + "'", "SELECT \"" + w + "\" \"" + w + "\"",
					"SELECT 1" + strings.Repeat("0", n) + " " + w, k + " a FROM t", "SELECT a FROM t WHERE " + k, "SELECT a " + k + " t", "SELECT f(" + w + " " + w + ")", "CREATE TABLE " + w + " (" + w + " " + w + " " + w + ")"}
				for i, text := range texts {
					text := text
					e.Do(fmt.Sprintf("ladder|%d|%d", i, n), func(c *common.Ctx) { c.Input(text); onText(c, text, false) })
				}
				for _, tt := range []models.TokenType{models.TokenTypeEOF, models.TokenTypeUnknown, models.TokenTypeIdentifier, models.TokenTypeString, models.TokenTypeNumber, models.TokenTypeRParen, models.TokenTypeWhere, models.TokenTypeKeyword} {
					for _, eof := range []bool{true} {
						toks := []token.Token{{Type: models.TokenTypeSelect, Literal: "SELECT"}, {Type: tt, Literal: w}}
						if eof {
							toks = append(toks, token.Token{Type: models.TokenTypeEOF})
						}
						key := fmt.Sprintf("ladder-tok|%v|%d|eof=%v", tt, n, eof)
						e.Do(key, func(c *common.Ctx) { c.Input(key); onTokens(c, toks); c.Outcome("tokens") })
						toks2 := append([]token.Token{{Type: tt, Literal: w}}, toks...)
						key2 := key + "|lead"
						e.Do(key2, func(c *common.Ctx) { c.Input(key2); onTokens(c, toks2); c.Outcome("tokens") })
					}
				}
			}
			// (4) prefixes and single-token corruptions of generated statements
			seen := map[string]bool{}
			var stmts []sqlgen.S
			sqlgen.All(false, func(name string, s sqlgen.S) {
				if strings.HasPrefix(name, "shape2") || strings.HasPrefix(name, "shape3") || strings.HasPrefix(name, "subsets") {
					return
				}
				sql := s.SQL()
				if seen[sql] {
					return
				}
				seen[sql] = true
				stmts = append(stmts, s)
			})
			hostileTok := []string{")", "(", ",", ";", "]", "[", "SELECT", "FROM", "NOT", "'x", "::", "."}
			spread := len(stmts)/600 + 1
			if e.Thorough() {
				spread = 1
			}
			for i, s := range stmts {
				for k := 1; k <= len(s.Toks); k++ {
					text := sqlgen.Render(s.Toks[:k], sqlgen.LNatural)
					e.Do("prefix|"+text, func(c *common.Ctx) { c.Input(text); onText(c, text, false) })
				}
				if i%spread != 0 {
					continue
				}
				for k := range s.Toks {
					del := append(append([]sqlgen.Tok{}, s.Toks[:k]...), s.Toks[k+1:]...)
					dup := append(append(append([]sqlgen.Tok{}, s.Toks[:k+1]...), s.Toks[k]), s.Toks[k+1:]...)
					for _, toks := range [][]sqlgen.Tok{del, dup} {
						text := sqlgen.Render(toks, sqlgen.LNatural)
						e.Do("mut|"+text, func(c *common.Ctx) { c.Input(text); onText(c, text, false) })
					}
					for _, h := range hostileTok {
						rep := append([]sqlgen.Tok{}, s.Toks...)
						rep[k] = sqlgen.Tok{S: h}
						text := sqlgen.Render(rep, sqlgen.LNatural)
						e.Do("mut|"+text, func(c *common.Ctx) { c.Input(text); onText(c, text, false) })
					}
				}
			}
			// after a failure: what a failing call leaves in the process (pooled nodes handed back on an error path, caches)
			// is what the next call builds on.  Every rejected single-token deletion of every representative expression
			// statement, followed - in the same process, one P, collector off, pools emptied first - by every
			// representative expression statement through all entry points and all tree consumers.
			var reps []sqlgen.S
			seenRep := map[string]bool{}
			sqlgen.HoleCases(func(hole, rep string, st sqlgen.S) {
				if hole != "select.item" {
					return
				}
				if sql := st.SQL(); !seenRep[sql] {
					seenRep[sql] = true
					reps = append(reps, st)
				}
			})
			for _, r := range reps {
				for k := range r.Toks {
					del := append(append([]sqlgen.Tok{}, r.Toks[:k]...), r.Toks[k+1:]...)
					bad := sqlgen.Render(del, sqlgen.LNatural)
					key := "after-failure|" + bad
					e.Do(key, func(c *common.Ctx) {
						c.Input(key)
						if _, err := gosqlx.Parse(bad); err == nil {
							c.Outcome("after-failure:deletion-accepted")
							return
						}
						runtime.GOMAXPROCS(1)
						defer debug.SetGCPercent(debug.SetGCPercent(-1))
						runtime.GC()
						runtime.GC()
						for _, f := range reps {
							_, _ = gosqlx.Parse(bad)
							_ = gosqlx.Validate(bad)
							_, _ = gosqlx.ParseWithRecovery(bad + " ; " + bad)
							_, _ = gosqlx.Format(bad, gosqlx.DefaultFormatOptions())
							onText(c, f.SQL(), false)
							c.Count("after_failure_pairs", 1)
						}
						c.Outcome("after-failure:returned")
						c.NonTrivial()
					})
				}
			}
			// a keyword behind a complete statement: clause loops that read on "while the next word is one of ours" (table
			// options, modifiers, trailing clauses) meet every word of the grammar right after every clause-option, DML and
			// DDL statement - through the core entry points
			kwSet := map[string]bool{}
			var tails []sqlgen.S
			seenTail := map[string]bool{}
			collect := func(name string, st sqlgen.S) {
				if sql := st.SQL(); !seenTail[sql] {
					seenTail[sql] = true
					tails = append(tails, st)
				}
				for _, t := range st.Toks {
					if t.Kw {
						kwSet[strings.ToUpper(t.S)] = true
					}
				}
			}
			sqlgen.ClauseOptions(collect)
			sqlgen.DMLCases(collect)
			sqlgen.DDLCases(collect)
			var kws []string
			for k := range kwSet {
				kws = append(kws, k)
			}
			sort.Strings(kws)
			tailStep := 1
			if !e.Thorough() {
				tailStep = len(tails)/250 + 1 // quick: an even spread of about 250 statements (every DDL statement: see below)
			}
			for i, st := range tails {
				if i%tailStep != 0 && st.Kind != "create-table" && st.Kind != "create-index" && st.Kind != "create-view" && st.Kind != "create-matview" && st.Kind != "alter-table" {
					continue
				}
				base := st.SQL()
				for _, k := range kws {
					text := base + " " + k
					e.Do("suffix-keyword|"+text, func(c *common.Ctx) {
						c.Input(text)
						call(c, "gosqlx.Parse", func() { _, _ = gosqlx.Parse(text) })
						call(c, "gosqlx.ParseWithRecovery", func() { _, _ = gosqlx.ParseWithRecovery(text) })
						call(c, "gosqlx.Validate", func() { _ = gosqlx.Validate(text) })
						call(c, "gosqlx.Format", func() { _, _ = gosqlx.Format(text, gosqlx.DefaultFormatOptions()) })
						c.Outcome("suffix-keyword")
					})
				}
			}
			// corpus files: whole file through everything, byte prefixes through the core
			var files []string
			filepath.Walk("/repo/testdata", func(p string, info os.FileInfo, err error) error {
				if err == nil && !info.IsDir() && strings.HasSuffix(p, ".sql") {
					files = append(files, p)
				}
				return nil
			})
			// depth ladder: every nesting construct at every depth 1..110 (the parser's limit is 100) and operator / UNION
			// chains of every length up to 110, through every entry point and - when accepted - every tree consumer: work
			// that doubles per level (a node reached through two traversals) never returns long before the limit
			nests := []struct {
				name string
				f    func(d int) string
			}{
				{"parens", func(d int) string {
					return "SELECT " + strings.Repeat("(", d) + "c1" + strings.Repeat(")", d) + " FROM t1"
				}},
				{"in-subquery", func(d int) string {
					return "SELECT c1 FROM t1 WHERE c1 IN " + strings.Repeat("(SELECT c2 FROM t2 WHERE c2 IN ", d) + "(1)" + strings.Repeat(")", d)
				}},
				{"scalar-subquery", func(d int) string {
					return "SELECT c1 FROM t1 WHERE c1 = " + strings.Repeat("(SELECT MAX(c2) FROM t2 WHERE c2 = ", d) + "1" + strings.Repeat(")", d)
				}},
				{"exists", func(d int) string {
					return "SELECT c1 FROM t1 WHERE " + strings.Repeat("EXISTS (SELECT 1 FROM t2 WHERE ", d) + "c2 = 1" + strings.Repeat(")", d)
				}},
				{"select-item-subquery", func(d int) string {
					return "SELECT " + strings.Repeat("(SELECT ", d) + "c1" + strings.Repeat(" FROM t2)", d) + " FROM t1"
				}},
				{"derived", func(d int) string {
					return "SELECT c1 FROM " + strings.Repeat("(SELECT c1 FROM ", d) + "t1" + strings.Repeat(") a1", d)
				}},
				{"join-derived", func(d int) string {
					return "SELECT c1 FROM t0" + strings.Repeat(" JOIN (SELECT c1 FROM t1", d) + strings.Repeat(") a1 ON TRUE", d)
				}},
				{"case", func(d int) string {
					return "SELECT " + strings.Repeat("CASE WHEN c1 > 0 THEN ", d) + "1" + strings.Repeat(" ELSE 0 END", d) + " FROM t1"
				}},
				{"call", func(d int) string {
					return "SELECT " + strings.Repeat("f1(", d) + "c1" + strings.Repeat(")", d) + " FROM t1"
				}},
				{"cte", func(d int) string {
					return strings.Repeat("WITH w1 AS (", d) + "SELECT c1 FROM t1" + strings.Repeat(") SELECT c1 FROM w1", d)
				}},
				{"union-chain", func(d int) string { return "SELECT c1 FROM t1" + strings.Repeat(" UNION SELECT c2 FROM t2", d) }},
				{"and-chain", func(d int) string { return "SELECT c1 FROM t1 WHERE c1 = 1" + strings.Repeat(" AND c2 = 2", d) }},
				{"mixed", func(d int) string {
					return "SELECT c1 FROM t1 WHERE " + strings.Repeat("c1 IN (SELECT c2 FROM t2 WHERE EXISTS (SELECT 1 FROM t3 WHERE c3 = (SELECT MAX(c4) FROM t4 WHERE ", d/3+1) + "TRUE" + strings.Repeat(")))", d/3+1)
				}},
			}
			for _, ns := range nests {
				for d := 1; d <= 110; d++ {
					text := ns.f(d)
					e.Do(fmt.Sprintf("depth|%s|%d", ns.name, d), func(c *common.Ctx) { c.Input(text); onText(c, text, false) })
				}
			}
			// saturation histories: the library keeps one process-wide structure keyed by input text (the keyword-suggestion
			// cache behind parser error hints, capacity 1000).  Whatever the worker did before, 2200 further distinct
			// unexpected-token texts drive it through filling and eviction at least twice - with texts that get a suggestion,
			// texts that get none, and both mixes in both orders.  One history is one case: a call that never returns is
			// attributed to it.
			kwNear := []string{"SELECT", "INSERT", "UPDATE", "DELETE", "CREATE", "HAVING", "VALUES", "OFFSET", "DISTINCT", "BETWEEN", "WHERE1", "TABLES", "GROUPS", "ORDERS", "UNIONS", "LIMITS", "INDEXS", "VIEWER", "JOINED", "FROMAGE"}
			near := func(i int) string { return fmt.Sprintf("%s%02d", kwNear[i%len(kwNear)], i/len(kwNear)) }
			far := func(i int) string { return fmt.Sprintf("zq%05dxwvj", i) }
			const satN = 2200
			for _, h := range []struct {
				name string
				text func(i int) string
			}{
				{"all-near", near}, {"all-far", far},
				{"alternate", func(i int) string {
					if i%2 == 0 {
						return near(i / 2)
					}
					return far(i / 2)
				}},
				{"near-then-far", func(i int) string {
					if i < satN/2 {
						return near(i)
					}
					return far(i)
				}},
				{"far-then-near", func(i int) string {
					if i < satN/2 {
						return far(i)
					}
					return near(i)
				}},
				{"two-near-one-far", func(i int) string {
					if i%3 == 2 {
						return far(i)
					}
					return near(i)
				}},
			} {
				h := h
				for _, tag := range []string{"a", "b"} { // twice, so that every shard's process is likely to see one
					tag := tag
					e.Do("saturate|"+h.name+"|"+tag, func(c *common.Ctx) {
						c.Input("saturate|" + h.name)
						sug := 0
						for i := 0; i < satN; i++ {
							t := h.text(i) + tag
							if goerrors.SuggestKeyword(t) != "" {
								sug++
							}
							_ = gosqlx.Validate("SELECT * " + t + " t0")
							_ = gosqlx.Validate("SELECT '''" + t + "'''")
							_, _ = gosqlx.ParseWithRecovery(t + " 1 ; SELECT 1")
						}
						c.Count("saturation_calls", 4*satN)
						c.Count("saturation_texts_with_suggestion", int64(sug))
						c.Outcome("history-returned")
						c.NonTrivial()
					})
				}
			}
			sort.Strings(files)
			for _, p := range files {
				b, err := os.ReadFile(p)
				if err != nil {
					continue
				}
				text := string(b)
				p := p
				e.Do("file|"+p, func(c *common.Ctx) { c.Input(p); onText(c, text, true) })
				max := 600
				if e.Thorough() {
					max = len(text)
				}
				if max > len(text) {
					max = len(text)
				}
				for k := 1; k <= max; k++ {
					pre := text[:k]
					e.Do(fmt.Sprintf("fileprefix|%s|%d", p, k), func(c *common.Ctx) { c.Input(fmt.Sprintf("%s[:%d]", p, k)); onText(c, pre, false) })
				}
			}
		},
	}
}
