package main

import (
	"os"

	"verif/checks/c06"
	"verif/engine/common"
)

func main() { os.Exit(common.Main(c06.Check(), os.Args[2:])) }
