package main

import (
	"os"

	"verif/checks/c14"
	"verif/engine/common"
)

func main() { os.Exit(common.Main(c14.Check(), os.Args[2:])) }
