#!/bin/bash
# C14 needs the list of AST node types of the current tree: regenerate the registry, then build.
set -e
cd "$(dirname "$(readlink -f "$0")")/../.."
go run ./tools/astreg checks/c14/registry_gen.go
go build -o .work/bin/c14.new ./cmd/c14
mv -f .work/bin/c14.new .work/bin/c14
