package main

import (
	"os"

	"verif/checks/c15"
	"verif/engine/common"
)

func main() { os.Exit(common.Main(c15.Check(), os.Args[2:])) }
