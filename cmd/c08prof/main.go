package main

import (
	"os"
	"runtime/pprof"

	"verif/checks/c08"
	"verif/engine/common"
)

func main() {
	f, _ := os.Create("/tmp/c0811/cpu.prof")
	pprof.StartCPUProfile(f)
	rc := common.Main(c08.Check(), os.Args[2:])
	pprof.StopCPUProfile()
	os.Exit(rc)
}
