package main

import (
	"os"

	"verif/checks/c01"
	"verif/engine/common"
)

func main() { os.Exit(common.Main(c01.Check(), os.Args[2:])) }
