package main

import (
	"os"

	"verif/checks/c03"
	"verif/engine/common"
)

func main() { os.Exit(common.Main(c03.Check(), os.Args[2:])) }
