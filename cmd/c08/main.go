package main

import (
	"os"

	"verif/checks/c08"
	"verif/engine/common"
)

func main() { os.Exit(common.Main(c08.Check(), os.Args[2:])) }
