// vcheck runs one property check: vcheck <ID> <quick|thorough> [flags]
package main

import (
	"fmt"
	"os"

	"verif/checks"
	"verif/engine/common"
)

func main() {
	if len(os.Args) < 2 {
		fmt.Fprintln(os.Stderr, "usage: vcheck <ID> <quick|thorough> [--replay file]")
		os.Exit(2)
	}
	id := os.Args[1]
	ck, ok := checks.Registry[id]
	if !ok {
		fmt.Fprintln(os.Stderr, "unknown check", id)
		os.Exit(2)
	}
	os.Exit(common.Main(ck(), os.Args[2:]))
}
