package main

import (
	"os"

	"verif/checks/c16"
	"verif/engine/common"
)

func main() { os.Exit(common.Main(c16.Check(), os.Args[2:])) }
