#!/bin/bash
# Build script of check C19 (run by ./check instead of the default go build).
# Builds, all from the current working trees and honouring $GOFLAGS (-overlay=...):
#   .work/bin/c19         the harness (links the library in-process for the oracle)
#   .work/bin/gosqlx-cli  the CLI under test, from /repo/cmd/gosqlx
#   .work/bin/fsize       the RLIMIT_FSIZE / SIGXFSZ->SIGKILL launcher (tools/fsize)
set -eu
cd "$(dirname "$(readlink -f "$0")")/../.."
ROOT="$PWD"
REPO="${VERIF_REPO:-/repo}"
mkdir -p .work/bin
go build -o .work/bin/c19.new ./cmd/c19
go build -o .work/bin/fsize.new ./tools/fsize
# The CLI is built inside /repo's own module.  -mod=mod is dropped there so that the
# go command can never rewrite /repo/go.mod or go.sum (default: -mod=readonly).
CLIFLAGS="${GOFLAGS:-}"
CLIFLAGS="${CLIFLAGS//-mod=mod/}"
( cd "$REPO" && GOFLAGS="$CLIFLAGS" go build -o "$ROOT/.work/bin/gosqlx-cli.new" ./cmd/gosqlx )
mv -f .work/bin/c19.new .work/bin/c19
mv -f .work/bin/fsize.new .work/bin/fsize
mv -f .work/bin/gosqlx-cli.new .work/bin/gosqlx-cli
