package main

import (
	"os"

	"verif/checks/c19"
	"verif/engine/common"
)

func main() { os.Exit(common.Main(c19.Check(), os.Args[2:])) }
