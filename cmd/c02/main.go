package main

import (
	"os"

	"verif/checks/c02"
	"verif/engine/common"
)

func main() {
	// One case of the thorough tier tokenizes up to 1M tokens / 10 MiB (5-20 s on an idle
	// core with the pinned tokenizer's position conversion, several times that on a loaded
	// machine): give the parent's silence watchdog more room than the default 120 s.
	if os.Getenv("VERIF_HANG_S") == "" {
		os.Setenv("VERIF_HANG_S", "600")
	}
	os.Exit(common.Main(c02.Check(), os.Args[2:]))
}
