package main

import (
	"os"

	"verif/checks/c02"
	"verif/engine/common"
)

func main() { os.Exit(common.Main(c02.Check(), os.Args[2:])) }
