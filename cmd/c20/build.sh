#!/bin/bash
# Builds .work/bin/c20: the C20 harness instrumented with per-basic-block execution counters
# (cmd/cover, atomic mode so that runtime/coverage can snapshot the counters inside the process).
# Counted packages: the harness main package (required, otherwise no counters are registered), the
# calibration package, every library package, and the standard-library packages in which the library
# spends its time (so that cost hidden in strings/regexp/fmt/... is counted deterministically too).
#
# $GOFLAGS may contain -overlay=<file> (VERIF_OVERLAY).  `go build -cover` ignores overlay
# replacements of the files it instruments (it passes the on-disk path to cmd/cover), so the
# replacements under /repo are materialised in a scratch copy of the library (checks/c20/ovtree)
# and the build is pointed at that copy with -modfile.  Without an overlay the build reads /repo
# directly.
set -eu
cd "$(dirname "$(readlink -f "$0")")/../.."
ROOT="$PWD"
REPO=/repo
MODFLAGS=()
for f in ${GOFLAGS:-}; do
  case "$f" in
    -overlay=*)
      OV="${f#-overlay=}"
      GOFLAGS="${GOFLAGS//$f/}" go run ./checks/c20/ovtree "$OV" "$REPO" "$ROOT/.work/c20-src" "$ROOT/go.mod"
      MODFLAGS=(-modfile="$ROOT/.work/c20-src/go.mod")
      ;;
  esac
done
STD=strings,bytes,regexp,regexp/syntax,strconv,fmt,sort,slices,unicode,unicode/utf8,bufio,encoding/json
go build -cover -covermode=atomic "${MODFLAGS[@]}" \
  -coverpkg=verif/cmd/c20,verif/checks/c20/calib,github.com/ajitpratap0/GoSQLX/pkg/...,github.com/ajitpratap0/GoSQLX/cmd/gosqlx/cmd,$STD \
  -o .work/bin/c20.real.new ./cmd/c20 2> .work/build-c20.warn || { cat .work/build-c20.warn >&2; exit 1; }
grep -v '^warning: no packages being built depend on matches' .work/build-c20.warn >&2 || true
mv -f .work/bin/c20.real.new .work/bin/c20.real
# wrapper: an instrumented binary wants GOCOVERDIR (it prints a warning otherwise and writes its
# counters there at exit; nothing reads those files)
cat > .work/bin/c20.new <<'WRAP'
#!/bin/bash
d="$(dirname "$(readlink -f "$0")")"
export GOCOVERDIR="$d/../run/c20-covexit"
rm -rf "$GOCOVERDIR"; mkdir -p "$GOCOVERDIR"
exec "$d/c20.real" "$@"
WRAP
chmod +x .work/bin/c20.new
mv -f .work/bin/c20.new .work/bin/c20
