package main

import (
	"os"

	"verif/checks/c20"
	"verif/engine/common"
)

func main() {
	c20.Prepare(os.Args[1:])
	os.Exit(common.Main(c20.Check(), os.Args[2:]))
}
