package main

import (
	"os"

	"verif/checks/c12"
	"verif/engine/common"
)

func main() { os.Exit(common.Main(c12.Check(), os.Args[2:])) }
