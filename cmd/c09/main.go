package main

import (
	"os"

	"verif/checks/c09"
	"verif/engine/common"
)

func main() { os.Exit(common.Main(c09.Check(), os.Args[2:])) }
