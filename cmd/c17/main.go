package main

import (
	"os"

	"verif/checks/c17"
	"verif/engine/common"
)

func main() { os.Exit(common.Main(c17.Check(), os.Args[2:])) }
