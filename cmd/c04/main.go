package main

import (
	"os"

	"verif/checks/c04"
	"verif/engine/common"
)

func main() { os.Exit(common.Main(c04.Check(), os.Args[2:])) }
