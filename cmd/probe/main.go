// probe: development aid — parse each argument and print the canonical dump and AST.SQL().
package main

import (
	"fmt"
	"os"

	"github.com/ajitpratap0/GoSQLX/pkg/gosqlx"
	"github.com/ajitpratap0/GoSQLX/pkg/sql/ast"

	"verif/sqlgen"
)

func main() {
	for _, q := range os.Args[1:] {
		fmt.Println("Q:", q)
		t, err := gosqlx.Parse(q)
		if err != nil {
			fmt.Println("   ERR:", err)
			continue
		}
		fmt.Println("  ", sqlgen.Dump(t.Statements))
		func() {
			defer func() {
				if r := recover(); r != nil {
					fmt.Println("   SQL() PANIC:", r)
				}
			}()
			fmt.Println("   SQL:", t.SQL())
			fmt.Println("   FMT:", t.Format(ast.ReadableStyle()))
		}()
	}
}
