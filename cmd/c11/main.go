package main

import (
	"os"

	"verif/checks/c11"
	"verif/engine/common"
)

func main() { os.Exit(common.Main(c11.Check(), os.Args[2:])) }
