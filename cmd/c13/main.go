package main

import (
	"os"

	"verif/checks/c13"
	"verif/engine/common"
)

func main() { os.Exit(common.Main(c13.Check(), os.Args[2:])) }
