package main

import (
	"os"

	"verif/checks/c05"
	"verif/engine/common"
)

func main() { os.Exit(common.Main(c05.Check(), os.Args[2:])) }
