package main

import (
	"os"

	"verif/checks/c18"
	"verif/engine/common"
)

func main() { os.Exit(common.Main(c18.Check(), os.Args[2:])) }
