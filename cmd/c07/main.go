package main

import (
	"os"

	"verif/checks/c07"
	"verif/engine/common"
)

func main() { os.Exit(common.Main(c07.Check(), os.Args[2:])) }
