// c10race: the free-running pass of the C10 harness bodies — real goroutines, the REAL sync
// package, built with -race.  usage: c10race <H1|H2|H3|H4> <quick|thorough>
//
// Every instance of the family is run for a number of rounds; in each round K fresh copies of
// the instance's thread bodies (K·threads ≈ 4×GOMAXPROCS goroutines) are released together.
// The per-call result oracle is evaluated too (a differing result is printed and makes the exit
// status 3), but the purpose of this pass is the race detector: with GORACE=halt_on_error=1 the
// first report ends the process with status 66.  Silence proves nothing (sampling).
package main

import (
	"fmt"
	"os"
	"runtime"
	"sync"

	"verif/checks/c10/harness"
)

func main() {
	if len(os.Args) < 3 {
		fmt.Fprintln(os.Stderr, "usage: c10race <family> <quick|thorough>")
		os.Exit(2)
	}
	if os.Args[1] == "--firstuse" {
		// c10race --firstuse <op>...: runs the ops one after the other in this (new) process - so the first one really
		// is the first use of every lazily built table - and prints the result of the last one
		res := ""
		for _, name := range os.Args[2:] {
			res = harness.RunGuarded(name)
		}
		fmt.Print(res)
		return
	}
	fam, tier := os.Args[1], os.Args[2]
	rounds := 150
	if tier == "thorough" {
		rounds = 600
	}
	insts := harness.FreeMix(fam)
	if len(insts) == 0 {
		fmt.Fprintln(os.Stderr, "unknown family", fam)
		os.Exit(2)
	}
	per := rounds / len(insts)
	if per < 20 {
		per = 20
	}
	target := 4 * runtime.GOMAXPROCS(0)
	bad := 0
	total := 0
	for _, in := range insts {
		if in.FirstUse {
			per = 1 // first use happens once per process
		} else {
			in.Prepare()
		}
		for r := 0; r < per; r++ {
			if !in.FirstUse {
				in.Reset()
			}
			var runs []*harness.Run
			n := 0
			for n < target {
				ru := in.New()
				runs = append(runs, ru)
				n += len(ru.Bodies)
			}
			var wg sync.WaitGroup
			start := make(chan struct{})
			for _, ru := range runs {
				for _, b := range ru.Bodies {
					wg.Add(1)
					go func(b func()) {
						defer wg.Done()
						<-start
						b()
					}(b)
				}
			}
			close(start)
			wg.Wait()
			total += n
			if in.FirstUse {
				continue // no sequential table without disturbing first use; results are compared under the scheduler
			}
			for _, ru := range runs {
				if _, fails := ru.Check(false); len(fails) > 0 {
					bad++
					if bad <= 3 {
						fmt.Printf("OBSERVED sig=%s (free run; the schedule cannot be replayed)\n%s\n", fails[0].Sig, fails[0].Msg)
					}
				}
			}
		}
	}
	fmt.Printf("%s: %d instances, %d goroutine bodies run, %d oracle observations\n", fam, len(insts), total, bad)
	if bad > 0 {
		os.Exit(3)
	}
}
