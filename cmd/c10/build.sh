#!/bin/bash
# Builds the two binaries of the C10 check from /repo's CURRENT working tree:
#   .work/bin/c10      controlled-scheduler build: library files re-instrumented by
#                      tools/overlaygen (sync -> vsync, sync/atomic -> vatomic), scheduler and
#                      shims supplied as virtual packages through -overlay; /repo is not touched
#   .work/bin/c10race  free-running build of the same harness bodies with the REAL sync package,
#                      -race (supplementary sampling pass)
# Honours $GOFLAGS: an -overlay=<file> already present (VERIF_OVERLAY mutants) is merged into the
# generated overlay (its files are instrumented instead of /repo's) and kept for the race build.
set -eu
cd "$(dirname "$(readlink -f "$0")")/../.."
ROOT="$PWD"
: "${GOFLAGS:=-mod=mod}"
export GOPROXY=off GOSUMDB=off GOTOOLCHAIN=local
IN=""
BASEFLAGS=""
for f in $GOFLAGS; do
  case "$f" in
    -overlay=*) IN="${f#-overlay=}" ;;
    *) BASEFLAGS="$BASEFLAGS $f" ;;
  esac
done
BASEFLAGS="${BASEFLAGS# }"
mkdir -p .work/bin .work/overlay
# the generator is plain Go using only the standard library; build it without any overlay
GOFLAGS="$BASEFLAGS" go build -o .work/bin/overlaygen ./tools/overlaygen
.work/bin/overlaygen -repo /repo -verif "$ROOT" -in "$IN" -out "$ROOT/.work/overlay"

(
  GOFLAGS="$BASEFLAGS -overlay=$ROOT/.work/overlay/overlay.json" go build -tags verifsched -o .work/bin/c10.new ./cmd/c10
) &
P1=$!
(
  # CGO is not needed by the race detector on linux/amd64 since Go 1.20
  go build -race -o .work/bin/c10race.new ./cmd/c10/race
) &
P2=$!
rc=0
wait $P1 || rc=1
wait $P2 || rc=1
[ $rc -eq 0 ] || exit 1
mv -f .work/bin/c10.new .work/bin/c10
mv -f .work/bin/c10race.new .work/bin/c10race
