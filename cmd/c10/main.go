// c10: schedule exploration check for property C10.  Built by cmd/c10/build.sh (overlay +
// tag verifsched); a plain `go build` gives a stub that reports the missing instrumentation.
package main

import (
	"os"

	"verif/checks/c10"
	"verif/engine/common"
)

func main() { os.Exit(common.Main(c10.Check(), os.Args[2:])) }
