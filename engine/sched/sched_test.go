package sched

import (
	"testing"
	"unsafe"
)

// Self-validation of the explorer: on toy threads the number of explored schedules
// must be exactly the number of interleavings, every final outcome that exists must
// be observed, and a lock-order inversion must be reported as a deadlock.

func binom(n, k int) int64 {
	r := int64(1)
	for i := 1; i <= k; i++ {
		r = r * int64(n-k+i) / int64(i)
	}
	return r
}

func TestCompleteSpaceCountsInterleavings(t *testing.T) {
	for _, tc := range []struct{ a, b int }{{1, 1}, {2, 3}, {4, 4}, {6, 5}} {
		var v int
		cfg := Config{
			Budgets: []Budget{{Unbounded, 0}},
			Setup: func() []func() {
				v = 0
				body := func(n int) func() {
					return func() {
						for i := 0; i < n; i++ {
							Point(KAdd, unsafe.Pointer(&v))
							v++
						}
					}
				}
				return []func(){body(tc.a), body(tc.b)}
			},
			After: func(x *Exec) (string, []Fail) {
				if v != tc.a+tc.b {
					return "bad", []Fail{{Sig: "lost", Msg: "increment lost although each is one atomic step"}}
				}
				return "ok", nil
			},
		}
		r := Explore(cfg, Node{}, false)
		if want := binom(tc.a+tc.b, tc.a); r.Schedules != want {
			t.Errorf("%d+%d points: %d schedules explored, want C(%d,%d) = %d", tc.a, tc.b, r.Schedules, tc.a+tc.b, tc.a, want)
		}
		if len(r.Fails) != 0 || r.Divergences != 0 {
			t.Errorf("unexpected failures %v / divergences %d", r.Fails, r.Divergences)
		}
	}
}

func TestThreeThreads(t *testing.T) {
	cfg := Config{
		Budgets: []Budget{{Unbounded, 0}},
		Setup: func() []func() {
			body := func() {
				Point(KLoad, nil)
				Point(KStore, nil)
			}
			return []func(){body, body, body}
		},
		After: func(x *Exec) (string, []Fail) { return "ok", nil },
	}
	r := Explore(cfg, Node{}, false)
	if r.Schedules != 90 { // 6!/(2!2!2!)
		t.Errorf("3 threads × 2 points: %d schedules, want 90", r.Schedules)
	}
}

// load+store increment: the lost update needs exactly one preemption.
func TestLostUpdateNeedsOnePreemption(t *testing.T) {
	for _, pb := range []int{0, 1} {
		var v int
		cfg := Config{
			Budgets: []Budget{{pb, 0}},
			Setup: func() []func() {
				v = 0
				body := func() {
					Point(KLoad, nil)
					x := v
					Point(KStore, nil)
					v = x + 1
				}
				return []func(){body, body}
			},
			After: func(x *Exec) (string, []Fail) {
				if v != 2 {
					return "lost", []Fail{{Sig: "lost", Msg: "lost update"}}
				}
				return "ok", nil
			},
		}
		r := Explore(cfg, Node{}, false)
		if got := len(r.Fails) > 0; got != (pb == 1) {
			t.Errorf("preemption bound %d: lost update found = %v (schedules %d, outcomes %v)", pb, got, r.Schedules, r.Outcomes)
		}
	}
}

type toyMutex struct{ held bool }

func (m *toyMutex) VerifEnabled(k Kind, tid int) bool { return !m.held }
func (m *toyMutex) VerifReset()                       { m.held = false }
func (m *toyMutex) lock() {
	PointB(KLock, unsafe.Pointer(m), m)
	m.held = true
	Dirty(m)
}
func (m *toyMutex) unlock() {
	Point(KUnlock, unsafe.Pointer(m))
	m.held = false
}

func TestDeadlockDetected(t *testing.T) {
	var a, b toyMutex
	cfg := Config{
		Budgets: []Budget{{1, 0}},
		Setup: func() []func() {
			a, b = toyMutex{}, toyMutex{}
			return []func(){
				func() { a.lock(); b.lock(); b.unlock(); a.unlock() },
				func() { b.lock(); a.lock(); a.unlock(); b.unlock() },
			}
		},
		After: func(x *Exec) (string, []Fail) {
			if x.Deadlock {
				return "deadlock", []Fail{{Sig: "deadlock", Msg: "lock-order inversion"}}
			}
			return "ok", nil
		},
	}
	r := Explore(cfg, Node{}, false)
	if r.Fails["deadlock"] == nil || r.Outcomes["ok"] == 0 {
		t.Errorf("expected both completed and deadlocked schedules, got %v", r.Outcomes)
	}
	// a blocked thread is disabled, never spinning: no schedule has more than 8 points
	if r.MaxPoints > 8 {
		t.Errorf("max points %d > 8: a blocked thread was scheduled", r.MaxPoints)
	}
}

// replaying a recorded schedule must reproduce the same points.
func TestReplayIsDeterministic(t *testing.T) {
	mk := func() []func() {
		body := func() {
			for i := 0; i < 3; i++ {
				Point(KAdd, nil)
			}
		}
		return []func(){body, body}
	}
	x := Run(mk(), nil, false)
	kids := children(x, Node{}, []Budget{{2, 0}})
	if len(kids) == 0 {
		t.Fatal("no children")
	}
	for _, k := range kids {
		y1 := Run(mk(), k.Prefix, false)
		y2 := Run(mk(), k.Prefix, true)
		if y1.Divergent != "" || y2.Divergent != "" || y1.Hash() != y2.Hash() {
			t.Errorf("schedule %s: replay not deterministic (%q %q)", k.Key(), y1.Divergent, y2.Divergent)
		}
	}
	// a corrupted recorded hash must be rejected (hard error on divergence)
	bad := append([]Choice{}, kids[0].Prefix...)
	bad[0].Hash ^= 1
	if y := Run(mk(), bad, false); y.Divergent == "" {
		t.Errorf("divergence not detected")
	}
}
