// Package sched is a controlled scheduler for stateless exploration of goroutine
// interleavings (C10).
//
// The package is compiled twice from the same files: as verif/engine/sched (never
// imported) and — through `go build -overlay` — as the virtual package
// github.com/ajitpratap0/GoSQLX/pkg/verifshim/sched, which is the one the shimmed
// sync / sync/atomic packages and the C10 harness import (the library's module
// cannot import packages of the verif module, so the scheduler has to live inside
// the library's module path; /repo itself is never touched).
//
// Model.  A fixed set of harness threads runs real library code.  Every
// synchronisation operation of the library (rewritten to the shims) calls Point
// BEFORE performing the operation.  Exactly one thread runs at any time: at a Point
// the running thread computes the enabled set (threads whose pending operation
// would not block), asks the execution's choice oracle which one continues and
// either returns (it continues itself — no context switch at all) or wakes the
// chosen thread and parks on its own channel.  Because only one goroutine is ever
// running, the scheduling decision is made inline by whichever thread reached the
// Point; there is no separate scheduler goroutine.
//
// A thread whose pending operation would block (Lock of a held mutex, RLock with a
// writer pending, WaitGroup.Wait with a non-zero counter, Once.Do while another
// thread runs f) is *disabled*: it is never chosen, so nothing ever spins.  "No
// enabled thread and not all finished" is a deadlock.
//
// Choices.  An execution is determined by its sequence of choices.  A choice is
// made whenever more than one option exists:
//   - thread choice: options = enabled threads in canonical order (the running
//     thread first if it is still enabled, then ascending ids).  Option 0 is the
//     default.  Any other option costs one *preemption* if the running thread was
//     still enabled, and nothing otherwise.
//   - data choice (sync.Pool.Get): options = objects in the pool, most recently put
//     first, then "miss".  Option 0 is the default, any other costs one *deviation*.
//
// A schedule is written sparsely as the list of its non-default choices
// (position among the choice points, value).  Explore enumerates every schedule
// within a cost budget exactly once (see explore.go).
//
// Code that runs outside harness threads (package init, the controller computing
// oracles or resetting state) bypasses the scheduler: Point is a no-op when no
// thread is running.  The current thread is a package-level variable that is
// written by whoever hands control over, before the hand-over, and read only by
// the single running thread.
package sched

import (
	"fmt"
	"runtime"
	"runtime/debug"
	"strings"
	"unsafe"
)

// Kind names the operation a thread is about to perform.
type Kind uint8

const (
	KNone Kind = iota
	KStart
	KLoad
	KStore
	KAdd
	KSwap
	KCAS
	KLock
	KUnlock
	KTryLock
	KRLock
	KRUnlock
	KWLockAnnounce // RWMutex.Lock step 1: exclude other writers, stop new readers
	KWLockWait     // RWMutex.Lock step 2: wait for active readers to leave
	KWUnlock
	KOnce
	KPoolGet
	KPoolPut
	KWGAdd
	KWGWait
	KMap
	KUser
	nKinds
)

var kindNames = [...]string{"none", "start", "load", "store", "add", "swap", "cas", "lock", "unlock", "trylock",
	"rlock", "runlock", "wlock-announce", "wlock-wait", "wunlock", "once", "pool-get", "pool-put", "wg-add", "wg-wait", "map", "user"}

func (k Kind) String() string {
	if int(k) < len(kindNames) {
		return kindNames[k]
	}
	return fmt.Sprintf("kind%d", int(k))
}

// Blocker is implemented by shim objects whose operations can block.
type Blocker interface {
	// VerifEnabled reports whether operation k by thread tid could complete now.
	VerifEnabled(k Kind, tid int) bool
}

// Resetter is implemented by shim objects that can be forced back to their zero
// state after an execution that ended in a deadlock or a panic.
type Resetter interface{ VerifReset() }

const (
	stNew = iota
	stParked
	stFinished
)

type thread struct {
	id    int
	x     *Exec
	wake  chan struct{}
	state int
	pKind Kind
	pB    Blocker
	npts  int
}

// cur is the running harness thread, nil when the controller (or init code) runs.
var cur *thread

// Active reports whether the caller is a harness thread of a running exploration.
func Active() bool { return cur != nil }

// CurID is the id of the running harness thread, -1 outside.
func CurID() int {
	if t := cur; t != nil {
		return t.id
	}
	return -1
}

// Point announces a non-blocking synchronisation operation.
func Point(k Kind, addr unsafe.Pointer) {
	t := cur
	if t == nil {
		return
	}
	t.x.point(t, k, nil)
}

// PointB announces an operation that may block; b decides when it is enabled.
func PointB(k Kind, addr unsafe.Pointer, b Blocker) {
	t := cur
	if t == nil {
		return
	}
	t.x.point(t, k, b)
}

// Choose is a data choice among n options made by the running thread (0 = default,
// any other option costs one deviation).  Outside an exploration it returns 0.
func Choose(k Kind, n int) int {
	t := cur
	if t == nil || n <= 1 {
		return 0
	}
	c, ok := t.x.choose(t.id, k, n, costDeviation)
	if !ok {
		t.x.abandon(t)
	}
	return c
}

// Dirty registers a shim object whose state must be forced back to zero if the
// current execution ends abnormally.  No-op outside an exploration.
func Dirty(r Resetter) {
	if t := cur; t != nil {
		t.x.dirty = append(t.x.dirty, r)
	}
}

const (
	costFree = iota
	costPreempt
	costDeviation
)

// Choice is one non-default choice of a schedule.
type Choice struct {
	Pos  int    // ordinal of the choice point within the execution
	Val  int    // option taken (≥ 1)
	N    int    // number of options the choice point had when recorded
	Hash uint64 // rolling hash of all (thread, kind) points before the choice point
}

// cp is a recorded choice point of an execution.
type cp struct {
	pos  int
	n    int
	cost uint8
	tid  int8
	kind Kind
	hash uint64
}

// Step is one entry of a verbose trace.
type Step struct {
	Tid    int
	Kind   Kind
	Site   string
	Choice string // non-default choice taken at this point ("" = default)
}

// Exec is one execution of the harness threads under one schedule.
type Exec struct {
	threads  []*thread
	prefix   []Choice
	pi       int
	npos     int
	hash     uint64
	cps      []cp
	npoints  int
	maxPts   int
	done     chan struct{}
	ctl      chan struct{}
	starting bool
	enbuf    []*thread
	dirty    []Resetter
	verbose  bool
	steps    []Step

	// results
	Deadlock  bool
	Livelock  bool
	Blocked   []string // pending operations of the blocked threads (deadlock)
	Panics    []PanicInfo
	Divergent string // non-empty: replay of the prefix did not reproduce the recorded points
	finished  int
}

// PanicInfo describes a panic that escaped a thread body.
type PanicInfo struct {
	Tid   int
	Value string
	Stack string
}

const fnvPrime = 1099511628211

func (x *Exec) point(t *thread, k Kind, b Blocker) {
	x.npoints++
	t.npts++
	x.hash = (x.hash ^ (uint64(t.id)<<8 | uint64(k))) * fnvPrime
	if x.verbose && !x.starting {
		x.steps = append(x.steps, Step{Tid: t.id, Kind: k, Site: callSite()})
	}
	if x.npoints > x.maxPts {
		// a thread that keeps reaching points without ever finishing: treat like a
		// deadlock (nobody can be trusted to make progress) and abandon the execution
		x.Livelock = true
		x.abandon(t)
		return
	}
	t.pKind, t.pB = k, b
	if x.starting {
		// start-up phase: every thread runs (alone, in id order) up to its first point
		// and parks there; no choice is involved.  Control goes back to the controller.
		cur = nil
		x.ctl <- struct{}{}
		<-t.wake
		if x.verbose {
			// listed when the operation is performed, not when it was announced
			x.steps = append(x.steps, Step{Tid: t.id, Kind: k, Site: callSite()})
		}
		t.pB = nil
		return
	}
	x.schedule(t)
	t.pB = nil
}

func callSite() string {
	var pcs [16]uintptr
	n := runtime.Callers(3, pcs[:])
	fr := runtime.CallersFrames(pcs[:n])
	for {
		f, more := fr.Next()
		fn := f.Function
		if fn != "" && !strings.Contains(fn, "/verifshim/") {
			if i := strings.LastIndex(fn, "/"); i >= 0 {
				fn = fn[i+1:]
			}
			return fmt.Sprintf("%s:%d", fn, f.Line)
		}
		if !more {
			return "?"
		}
	}
}

func (t *thread) enabled() bool {
	return t.pB == nil || t.pB.VerifEnabled(t.pKind, t.id)
}

// schedule is called by the running thread at a point (self parked logically with
// its pending operation), by a thread that has just finished, or by the controller
// at the start (self == nil).
func (x *Exec) schedule(self *thread) {
	en := x.enbuf[:0]
	selfEnabled := self != nil && self.state == stParked && self.enabled()
	if selfEnabled {
		en = append(en, self)
	}
	for _, t := range x.threads {
		if t != self && t.state == stParked && t.enabled() {
			en = append(en, t)
		}
	}
	x.enbuf = en
	if len(en) == 0 {
		if x.finished == len(x.threads) {
			cur = nil
			x.done <- struct{}{}
			return
		}
		x.Deadlock = true
		x.abandon(self)
		return
	}
	idx := 0
	if len(en) > 1 {
		c := uint8(costFree)
		if selfEnabled {
			c = costPreempt
		}
		tid := -1
		k := KStart
		if self != nil {
			tid, k = self.id, self.pKind
		}
		var ok bool
		if idx, ok = x.choose(tid, k, len(en), c); !ok {
			x.abandon(self)
			return
		}
	}
	next := en[idx]
	if next == self {
		return
	}
	cur = next
	next.wake <- struct{}{}
	if self != nil && self.state != stFinished {
		<-self.wake
	}
}

// abandon ends an execution that cannot continue: the controller is released and
// the calling thread (like all other unfinished threads) stays parked forever.
func (x *Exec) abandon(self *thread) {
	for _, t := range x.threads {
		if t.state == stParked {
			x.Blocked = append(x.Blocked, fmt.Sprintf("T%d@%s", t.id, t.pKind))
		}
	}
	cur = nil
	x.done <- struct{}{}
	if self != nil && self.state != stFinished {
		select {} // leaked on purpose: its stack may hold locks, it must never run again
	}
}

// choose returns the option to take at a choice point with n options; ok is false
// when replaying the schedule's prefix did not reproduce the recorded execution
// (HARD ERROR: the execution is abandoned and reported, never explored further).
func (x *Exec) choose(tid int, k Kind, n int, cost uint8) (int, bool) {
	pos := x.npos
	x.npos++
	h := (x.hash ^ uint64(n)<<32) * fnvPrime
	c := 0
	if x.pi < len(x.prefix) && x.prefix[x.pi].Pos == pos {
		p := x.prefix[x.pi]
		if p.Hash != h || p.N != n || p.Val >= n {
			x.Divergent = fmt.Sprintf("replay divergence at choice point %d: recorded (hash %x, %d options), now (hash %x, %d options)", pos, p.Hash, p.N, h, n)
			return 0, false
		}
		c = p.Val
		x.pi++
	}
	x.cps = append(x.cps, cp{pos: pos, n: n, cost: cost, tid: int8(tid), kind: k, hash: h})
	if x.verbose && c != 0 {
		what := fmt.Sprintf("choice#%d: option %d of %d", pos, c, n)
		switch cost {
		case costPreempt:
			what = "PREEMPTED here, " + what
		case costDeviation:
			what = fmt.Sprintf("pool answers with object #%d (0 = most recently put, %d = miss), %s", c, n-1, what)
		default:
			what = "free switch, " + what
		}
		if len(x.steps) == 0 || tid < 0 {
			x.steps = append(x.steps, Step{Tid: tid, Kind: k, Site: "(start)", Choice: what})
		} else {
			x.steps[len(x.steps)-1].Choice = what
		}
	}
	return c, true
}

// Run executes the bodies once under the schedule given by prefix (its non-default
// choices; all other choices take option 0).  It returns when every thread has
// finished or the execution was abandoned (deadlock / livelock / divergence).
func Run(bodies []func(), prefix []Choice, verbose bool) *Exec {
	if cur != nil {
		panic("sched.Run called from a harness thread")
	}
	x := &Exec{prefix: prefix, done: make(chan struct{}, 1), ctl: make(chan struct{}, 1), verbose: verbose, maxPts: 2_000_000}
	x.hash = 14695981039346656037
	x.threads = make([]*thread, len(bodies))
	x.enbuf = make([]*thread, 0, len(bodies))
	for i, b := range bodies {
		t := &thread{id: i, x: x, wake: make(chan struct{}, 1), state: stParked, pKind: KStart}
		x.threads[i] = t
		go t.run(b)
	}
	// Start-up: bring every thread to its first synchronisation operation.  The code
	// before it touches no shared synchronisation object, so the order is irrelevant
	// to everything this scheduler can distinguish; doing it without choices makes the
	// number of schedules of k non-blocking threads exactly the number of
	// interleavings of their operations.
	x.starting = true
	for _, t := range x.threads {
		cur = t
		t.wake <- struct{}{}
		<-x.ctl
	}
	x.starting = false
	x.schedule(nil)
	<-x.done
	if x.Divergent == "" && x.pi < len(x.prefix) {
		x.Divergent = fmt.Sprintf("replay divergence: execution ended after %d choice points, schedule has a choice at %d", x.npos, x.prefix[x.pi].Pos)
	}
	return x
}

func (t *thread) run(body func()) {
	<-t.wake
	x := t.x
	defer func() {
		if r := recover(); r != nil {
			x.Panics = append(x.Panics, PanicInfo{Tid: t.id, Value: fmt.Sprint(r), Stack: string(debug.Stack())})
		}
		t.state = stFinished
		x.finished++
		if x.starting {
			cur = nil
			x.ctl <- struct{}{}
			return
		}
		x.schedule(t)
	}()
	body()
}

// Choices is the number of choice points of the execution.
func (x *Exec) Choices() int { return x.npos }

// Points is the number of scheduling points of the execution.
func (x *Exec) Points() int { return x.npoints }

// Hash is the rolling hash over all (thread, kind) points of the execution.
func (x *Exec) Hash() uint64 { return x.hash }

// Abnormal reports whether the execution did not run to completion.
func (x *Exec) Abnormal() bool {
	return x.Deadlock || x.Livelock || x.Divergent != "" || len(x.Panics) > 0
}

// ResetDirty forces every shim object touched by the execution back to zero.
func (x *Exec) ResetDirty() {
	for _, r := range x.dirty {
		r.VerifReset()
	}
	x.dirty = nil
}

// Trace renders the verbose trace compactly: one line per run of consecutive
// points of the same thread (first and last call site), split at every non-default
// choice.  A point is announced BEFORE its operation: a thread preempted at a point
// performs that operation when it is resumed.
func (x *Exec) Trace(max int) string {
	var sb strings.Builder
	i := 0
	lines := 0
	for i < len(x.steps) {
		j := i
		for j+1 < len(x.steps) && x.steps[j+1].Tid == x.steps[i].Tid && x.steps[j].Choice == "" {
			j++
		}
		if lines >= max {
			fmt.Fprintf(&sb, "  … (%d more points)\n", len(x.steps)-i)
			break
		}
		a, b := x.steps[i], x.steps[j]
		switch {
		case a.Tid < 0:
			fmt.Fprintf(&sb, "  start")
		case i == j:
			fmt.Fprintf(&sb, "  T%d  %s@%s", a.Tid, a.Kind, a.Site)
		default:
			fmt.Fprintf(&sb, "  T%d  %s@%s … %s@%s (%d points)", a.Tid, a.Kind, a.Site, b.Kind, b.Site, j-i+1)
		}
		if b.Choice != "" {
			fmt.Fprintf(&sb, "  <- %s", b.Choice)
		}
		sb.WriteByte('\n')
		lines++
		i = j + 1
	}
	return sb.String()
}
