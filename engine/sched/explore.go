package sched

import (
	"fmt"
	"sort"
	"strings"
)

// Budget is one admissible pair (preemptions ≤ P, pool deviations ≤ D).  A schedule
// is inside the explored space if it fits at least one budget of the list.
type Budget struct{ P, D int }

func allowed(bs []Budget, p, d int) bool {
	for _, b := range bs {
		if p <= b.P && d <= b.D {
			return true
		}
	}
	return false
}

// BudgetString renders a budget list for keys and evidence.
func BudgetString(bs []Budget) string {
	var s []string
	for _, b := range bs {
		p := fmt.Sprint(b.P)
		if b.P >= Unbounded {
			p = "inf"
		}
		s = append(s, fmt.Sprintf("p%sd%d", p, b.D))
	}
	return strings.Join(s, "+")
}

// Unbounded as a preemption bound means: the complete interleaving space.
const Unbounded = 1 << 20

// Fail is one oracle failure of one execution.
type Fail struct{ Sig, Msg string }

// Config describes one exploration.
type Config struct {
	// Setup resets all state shared between executions and returns fresh thread
	// bodies.  It runs on the controller (outside the scheduler).
	Setup func() []func()
	// After evaluates the oracle once the execution has ended (all threads finished,
	// or abandoned: check x.Deadlock / x.Panics first).  It returns a short outcome
	// class (vacuity guard) and the failures.
	After func(x *Exec) (string, []Fail)
	// Budgets is the cost bound of the explored space.
	Budgets []Budget
	// MaxAbnormal stops the exploration after that many abandoned executions (each
	// leaks its goroutines).  0 = 500.
	MaxAbnormal int
	// Tick, if set, is called every 256 schedules (liveness heartbeat).
	Tick func()
}

// Node is a schedule (its non-default choices) with its cost.
type Node struct {
	Prefix []Choice
	P, D   int
}

// Key is a stable, human-readable name of the node: "pos.val,pos.val".
func (n Node) Key() string {
	if len(n.Prefix) == 0 {
		return "default"
	}
	var s []string
	for _, c := range n.Prefix {
		s = append(s, fmt.Sprintf("%d.%d", c.Pos, c.Val))
	}
	return strings.Join(s, ",")
}

// FailRec is the first (cheapest) failing schedule of a signature.
type FailRec struct {
	Fail
	Schedule string
	Cost     string
	Trace    string
	Count    int64
}

// Report is what an exploration measured.
type Report struct {
	Schedules   int64
	MaxPoints   int
	MaxChoices  int
	Outcomes    map[string]int64
	Fails       map[string]*FailRec
	ByCost      map[string]int64 // "p1d0" -> schedules with exactly that cost
	Divergences int64
	Unstable    int64 // failures whose immediate re-execution did not give identical observations
	Abnormal    int64
	Capped      string
	Notes       []string
}

func newReport() *Report {
	return &Report{Outcomes: map[string]int64{}, Fails: map[string]*FailRec{}, ByCost: map[string]int64{}}
}

func children(x *Exec, n Node, bs []Budget) []Node {
	last := -1
	if len(n.Prefix) > 0 {
		last = n.Prefix[len(n.Prefix)-1].Pos
	}
	var out []Node
	for _, c := range x.cps {
		if c.pos <= last {
			continue
		}
		p, d := n.P, n.D
		switch c.cost {
		case costPreempt:
			p++
		case costDeviation:
			d++
		}
		if !allowed(bs, p, d) {
			continue
		}
		for j := 1; j < c.n; j++ {
			pre := make([]Choice, len(n.Prefix)+1)
			copy(pre, n.Prefix)
			pre[len(n.Prefix)] = Choice{Pos: c.pos, Val: j, N: c.n, Hash: c.hash}
			out = append(out, Node{Prefix: pre, P: p, D: d})
		}
	}
	return out
}

// Roots runs the default schedule once and returns it together with its children:
// the default schedule alone plus the subtree below every child partition the
// whole space, which is how the exploration is sharded over worker processes.
func Roots(cfg Config) (def *Exec, kids []Node) {
	x := Run(cfg.Setup(), nil, false)
	if x.Abnormal() {
		x.ResetDirty()
	}
	return x, children(x, Node{}, cfg.Budgets)
}

// Expand runs the schedule n once and returns its children (the schedules with
// exactly one more non-default choice, at a later position).  Used to shard deeper
// than the first level.
func Expand(cfg Config, n Node) []Node {
	x := Run(cfg.Setup(), n.Prefix, false)
	if x.Abnormal() {
		x.ResetDirty()
	}
	if x.Divergent != "" {
		return nil
	}
	return children(x, n, cfg.Budgets)
}

// Explore executes the schedule `root` and every schedule below it (all schedules
// whose list of non-default choices extends root's) that fits the budgets, each
// exactly once, cheapest first (iterative bounding: all schedules of total cost c
// before any of cost c+1, without re-executing anything).  With only == true just
// the root schedule itself is executed.
func Explore(cfg Config, root Node, only bool) *Report {
	r := newReport()
	maxAb := cfg.MaxAbnormal
	if maxAb == 0 {
		maxAb = 500
	}
	levels := map[int][]Node{root.P + root.D: {root}}
	for {
		// lowest non-empty level
		lvl := -1
		for l, ns := range levels {
			if len(ns) > 0 && (lvl < 0 || l < lvl) {
				lvl = l
			}
		}
		if lvl < 0 {
			break
		}
		stack := levels[lvl]
		delete(levels, lvl)
		for len(stack) > 0 {
			n := stack[len(stack)-1]
			stack = stack[:len(stack)-1]
			x := Run(cfg.Setup(), n.Prefix, false)
			r.Schedules++
			if cfg.Tick != nil && r.Schedules&255 == 0 {
				cfg.Tick()
			}
			r.ByCost[fmt.Sprintf("p%dd%d", n.P, n.D)]++
			if x.npoints > r.MaxPoints {
				r.MaxPoints = x.npoints
			}
			if x.npos > r.MaxChoices {
				r.MaxChoices = x.npos
			}
			if x.Divergent != "" {
				x.ResetDirty()
				r.Divergences++
				r.Abnormal++
				if len(r.Notes) < 3 {
					r.Notes = append(r.Notes, "schedule "+n.Key()+": "+x.Divergent)
				}
				if r.Abnormal >= int64(maxAb) {
					r.Capped = fmt.Sprintf("stopped after %d abandoned executions", r.Abnormal)
					return r
				}
				continue
			}
			outcome, fails := cfg.After(x)
			r.Outcomes[outcome]++
			abn := x.Abnormal()
			if abn {
				x.ResetDirty()
				r.Abnormal++
			}
			for _, f := range fails {
				if rec, ok := r.Fails[f.Sig]; ok {
					rec.Count++
					continue
				}
				// Determinism gate: run the same schedule again (verbose, to get call
				// sites) and demand identical observations before trusting the failure.
				y := Run(cfg.Setup(), n.Prefix, true)
				r.Schedules++
				_, fails2 := cfg.After(y)
				if y.Abnormal() {
					y.ResetDirty()
					r.Abnormal++
				}
				same := y.hash == x.hash && y.npoints == x.npoints && sigSet(fails) == sigSet(fails2)
				if !same {
					r.Unstable++
					if len(r.Notes) < 3 {
						r.Notes = append(r.Notes, fmt.Sprintf("schedule %s: re-execution differs (points %d/%d, failures %q/%q)", n.Key(), x.npoints, y.npoints, sigSet(fails), sigSet(fails2)))
					}
					break
				}
				r.Fails[f.Sig] = &FailRec{Fail: f, Schedule: n.Key(), Cost: fmt.Sprintf("%d preemption(s), %d pool deviation(s)", n.P, n.D), Trace: y.Trace(40), Count: 1}
			}
			if r.Abnormal >= int64(maxAb) {
				r.Capped = fmt.Sprintf("stopped after %d abandoned executions", r.Abnormal)
				return r
			}
			if only {
				return r
			}
			for _, k := range children(x, n, cfg.Budgets) {
				if k.P+k.D == lvl {
					stack = append(stack, k)
				} else {
					levels[k.P+k.D] = append(levels[k.P+k.D], k)
				}
			}
		}
	}
	return r
}

func sigSet(fs []Fail) string {
	var s []string
	for _, f := range fs {
		s = append(s, f.Sig)
	}
	sort.Strings(s)
	return strings.Join(s, " ")
}
