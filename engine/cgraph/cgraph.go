// Package cgraph builds the static call graph of library packages from the
// source files of the current working tree, recognises recursion-depth guards
// syntactically, and finds the strongly connected components that remain when
// every call made under a guard is deleted.
//
// The packages are located with `go list -export -deps` (so build tags, the
// module replace directive and a -overlay in $GOFLAGS are honoured exactly as in
// the build of the check itself), parsed with go/parser and type-checked with
// go/types against the export data of their dependencies.
//
// Call edges: every *use* of a function or method declared in the same
// package inside the body of F – called, or merely mentioned as a method value
// or function value – is an edge F -> that function.  Function literals belong
// to the function that contains them.  A call of a method of an interface
// declared in the package is an edge to every method of that name on a package
// type implementing the interface.  Calls through stored function values are
// not resolved beyond the point where the function is mentioned (the callgraph
// tool's -algo=static has the same limit; the check cross-checks against it).
//
// Guard: inside a block, the statement sequence
//
//	r.depth++                         (r = any expression, field name "depth")
//	if r.depth > MaxRecursionDepth { ... return ... }   (> or >=, either operand order)
//
// with a decrement of the same field somewhere in the function (deferred or
// plain).  Every call that comes textually after the `if` inside the same block
// (including nested blocks), up to an explicit `r.depth--` statement of that
// block if there is one, is *guarded*: it only executes after the counter has
// been incremented and compared with the limit.  A guard at the top of a
// function body therefore guards every call of the function; a guard inside
// one branch guards only the calls of that branch.
package cgraph

import (
	"bytes"
	"encoding/json"
	"fmt"
	"go/ast"
	"go/importer"
	"go/parser"
	"go/token"
	"go/types"
	"io"
	"os"
	"os/exec"
	"path/filepath"
	"sort"
	"strings"
)

// Func is one function or method of an analysed package.
type Func struct {
	ID       string // parser.parseSelectStatement (receiver type added only when the name is ambiguous)
	Pkg      string // package name
	Recv     string // receiver type name, "" for plain functions
	Name     string
	File     string
	Line     int
	HasGuard bool // contains a guard sequence somewhere
	TopGuard bool // the guard is in the outermost block of the body, before any call to a package function
}

// Edge is one call site.
type Edge struct {
	From, To string
	File     string
	Line     int
	Guarded  bool
}

// Graph is the call graph of the analysed packages.
type Graph struct {
	Funcs map[string]*Func
	Edges []Edge
	Const map[string]string // package-level constants with a known value: "parser.MaxRecursionDepth" -> "100"
}

// Overlay returns the file replacement map of a `-overlay=<file>` flag present
// in $GOFLAGS (nil when there is none).
func Overlay() map[string]string {
	for _, f := range strings.Fields(os.Getenv("GOFLAGS")) {
		if strings.HasPrefix(f, "-overlay=") {
			b, err := os.ReadFile(strings.TrimPrefix(f, "-overlay="))
			if err != nil {
				return nil
			}
			var ov struct{ Replace map[string]string }
			if json.Unmarshal(b, &ov) != nil {
				return nil
			}
			return ov.Replace
		}
	}
	return nil
}

// GoEnv returns the environment for go tool invocations: the caller's
// environment (so that a -overlay in $GOFLAGS is honoured) with the offline
// defaults filled in when absent.
func GoEnv() []string {
	env := os.Environ()
	def := map[string]string{"GOFLAGS": "-mod=mod", "GOPROXY": "off", "GOSUMDB": "off", "GOTOOLCHAIN": "local"}
	for k, v := range def {
		if os.Getenv(k) == "" {
			env = append(env, k+"="+v)
		}
	}
	return env
}

type listPkg struct {
	Dir, ImportPath, Name, Export string
	GoFiles                       []string
	Error                         *struct{ Err string }
}

type fdecl struct {
	f    *Func
	decl *ast.FuncDecl
}

// Load builds the graph of the packages with the given import paths.  moduleDir
// is a directory inside a module that requires them (the go command runs there).
func Load(moduleDir string, importPaths []string) (*Graph, error) {
	args := append([]string{"list", "-export", "-deps", "-json=Dir,ImportPath,Name,Export,GoFiles,Error"}, importPaths...)
	cmd := exec.Command("go", args...)
	cmd.Dir = moduleDir
	cmd.Env = GoEnv()
	var stderr bytes.Buffer
	cmd.Stderr = &stderr
	out, err := cmd.Output()
	if err != nil {
		return nil, fmt.Errorf("go list: %v: %s", err, stderr.String())
	}
	export := map[string]string{}
	var targets []listPkg
	dec := json.NewDecoder(bytes.NewReader(out))
	for {
		var p listPkg
		if err := dec.Decode(&p); err == io.EOF {
			break
		} else if err != nil {
			return nil, err
		}
		if p.Error != nil {
			return nil, fmt.Errorf("go list %s: %s", p.ImportPath, p.Error.Err)
		}
		export[p.ImportPath] = p.Export
		for _, ip := range importPaths {
			if ip == p.ImportPath {
				targets = append(targets, p)
			}
		}
	}
	if len(targets) != len(importPaths) {
		return nil, fmt.Errorf("go list returned %d of %d packages", len(targets), len(importPaths))
	}
	overlay := Overlay()
	fset := token.NewFileSet()
	imp := importer.ForCompiler(fset, "gc", func(path string) (io.ReadCloser, error) {
		f := export[path]
		if f == "" {
			return nil, fmt.Errorf("no export data for %s", path)
		}
		return os.Open(f)
	})
	g := &Graph{Funcs: map[string]*Func{}, Const: map[string]string{}}
	for _, t := range targets {
		if err := g.loadPkg(fset, imp, t, overlay); err != nil {
			return nil, err
		}
	}
	sort.Slice(g.Edges, func(a, b int) bool {
		x, y := g.Edges[a], g.Edges[b]
		if x.From != y.From {
			return x.From < y.From
		}
		if x.To != y.To {
			return x.To < y.To
		}
		if x.File != y.File {
			return x.File < y.File
		}
		return x.Line < y.Line
	})
	return g, nil
}

func recvTypeName(fn *types.Func) string {
	sig := fn.Type().(*types.Signature)
	if sig.Recv() == nil {
		return ""
	}
	t := sig.Recv().Type()
	if p, ok := t.(*types.Pointer); ok {
		t = p.Elem()
	}
	if n, ok := t.(*types.Named); ok {
		return n.Obj().Name()
	}
	return "?"
}

func (g *Graph) loadPkg(fset *token.FileSet, imp types.Importer, lp listPkg, overlay map[string]string) error {
	var files []*ast.File
	for _, n := range lp.GoFiles {
		path := filepath.Join(lp.Dir, n)
		read := path
		if to, ok := overlay[path]; ok && to != "" {
			read = to
		}
		src, err := os.ReadFile(read)
		if err != nil {
			return err
		}
		af, err := parser.ParseFile(fset, path, src, parser.SkipObjectResolution)
		if err != nil {
			return fmt.Errorf("parse %s: %v", path, err)
		}
		files = append(files, af)
	}
	info := &types.Info{Uses: map[*ast.Ident]types.Object{}, Defs: map[*ast.Ident]types.Object{}}
	var terr error
	conf := types.Config{Importer: imp, Error: func(err error) {
		if terr == nil {
			terr = err
		}
	}}
	tpkg, _ := conf.Check(lp.ImportPath, fset, files, info)
	if terr != nil {
		return fmt.Errorf("type-check %s: %v", lp.ImportPath, terr)
	}
	pkg := lp.Name
	// constants
	for _, n := range tpkg.Scope().Names() {
		if c, ok := tpkg.Scope().Lookup(n).(*types.Const); ok {
			g.Const[pkg+"."+n] = c.Val().ExactString()
		}
	}
	// functions: ids
	nameCount := map[string]map[string]bool{}
	var decls []*ast.FuncDecl
	for _, af := range files {
		for _, d := range af.Decls {
			if fd, ok := d.(*ast.FuncDecl); ok && fd.Body != nil {
				decls = append(decls, fd)
				fn := info.Defs[fd.Name].(*types.Func)
				if nameCount[fd.Name.Name] == nil {
					nameCount[fd.Name.Name] = map[string]bool{}
				}
				nameCount[fd.Name.Name][recvTypeName(fn)] = true
			}
		}
	}
	idOf := func(fn *types.Func) string {
		r := recvTypeName(fn)
		if len(nameCount[fn.Name()]) > 1 && r != "" {
			return pkg + "." + r + "." + fn.Name()
		}
		return pkg + "." + fn.Name()
	}
	byObj := map[*types.Func]*Func{}
	var fds []fdecl
	for _, fd := range decls {
		fn := info.Defs[fd.Name].(*types.Func)
		pos := fset.Position(fd.Pos())
		f := &Func{ID: idOf(fn), Pkg: pkg, Recv: recvTypeName(fn), Name: fn.Name(), File: pos.Filename, Line: pos.Line}
		if fn.Name() == "init" || fn.Name() == "_" {
			f.ID = fmt.Sprintf("%s.%s@%s:%d", pkg, fn.Name(), filepath.Base(pos.Filename), pos.Line)
		}
		g.Funcs[f.ID] = f
		byObj[fn] = f
		fds = append(fds, fdecl{f, fd})
	}
	// concrete methods by name, for calls through package-declared interfaces
	methodsByName := map[string][]*types.Func{}
	for fn := range byObj {
		if fn.Type().(*types.Signature).Recv() != nil {
			methodsByName[fn.Name()] = append(methodsByName[fn.Name()], fn)
		}
	}
	resolve := func(obj types.Object) []*Func {
		fn, ok := obj.(*types.Func)
		if !ok {
			return nil
		}
		fn = fn.Origin()
		if f, ok := byObj[fn]; ok {
			return []*Func{f}
		}
		sig, _ := fn.Type().(*types.Signature)
		if sig == nil || sig.Recv() == nil {
			return nil
		}
		// interface method (declared anywhere): every package method of that name whose receiver implements it
		it, ok := sig.Recv().Type().Underlying().(*types.Interface)
		if !ok {
			return nil
		}
		var out []*Func
		for _, m := range methodsByName[fn.Name()] {
			rt := m.Type().(*types.Signature).Recv().Type()
			if types.Implements(rt, it) || types.Implements(types.NewPointer(rt), it) {
				out = append(out, byObj[m])
			}
		}
		sort.Slice(out, func(a, b int) bool { return out[a].ID < out[b].ID })
		return out
	}
	for _, fd := range fds {
		w := &walker{g: g, fd: fd, fset: fset, info: info, resolve: resolve}
		w.hasDec = containsDec(fd.decl.Body)
		w.block(fd.decl.Body.List, false, true)
	}
	return nil
}

func exprText(e ast.Expr) string {
	switch x := e.(type) {
	case *ast.BasicLit:
		return x.Value
	case *ast.Ident:
		return x.Name
	case *ast.BinaryExpr:
		return exprText(x.X) + " " + x.Op.String() + " " + exprText(x.Y)
	case *ast.ParenExpr:
		return "(" + exprText(x.X) + ")"
	case *ast.CallExpr:
		return exprText(x.Fun) + "(…)"
	case *ast.SelectorExpr:
		return exprText(x.X) + "." + x.Sel.Name
	}
	return "?"
}

func isDepthSel(e ast.Expr) bool {
	s, ok := e.(*ast.SelectorExpr)
	return ok && s.Sel.Name == "depth"
}

func containsDec(n ast.Node) bool {
	found := false
	ast.Inspect(n, func(n ast.Node) bool {
		switch x := n.(type) {
		case *ast.IncDecStmt:
			if x.Tok == token.DEC && isDepthSel(x.X) {
				found = true
			}
		case *ast.AssignStmt:
			if x.Tok == token.SUB_ASSIGN && len(x.Lhs) == 1 && isDepthSel(x.Lhs[0]) {
				found = true
			}
		}
		return !found
	})
	return found
}

// isLimitCheck: `if X.depth > MaxRecursionDepth { … return … }` (or >=, or the
// mirrored form), the body ending in a return.
func isLimitCheck(s ast.Stmt) bool {
	is, ok := s.(*ast.IfStmt)
	if !ok || is.Init != nil {
		return false
	}
	be, ok := is.Cond.(*ast.BinaryExpr)
	if !ok {
		return false
	}
	isLim := func(e ast.Expr) bool {
		switch x := e.(type) {
		case *ast.Ident:
			return x.Name == "MaxRecursionDepth"
		case *ast.SelectorExpr:
			return x.Sel.Name == "MaxRecursionDepth"
		}
		return false
	}
	okCmp := false
	switch be.Op {
	case token.GTR, token.GEQ:
		okCmp = isDepthSel(be.X) && isLim(be.Y)
	case token.LSS, token.LEQ:
		okCmp = isLim(be.X) && isDepthSel(be.Y)
	}
	if !okCmp || len(is.Body.List) == 0 {
		return false
	}
	_, ret := is.Body.List[len(is.Body.List)-1].(*ast.ReturnStmt)
	return ret
}

func isDepthInc(s ast.Stmt) bool {
	switch x := s.(type) {
	case *ast.IncDecStmt:
		return x.Tok == token.INC && isDepthSel(x.X)
	case *ast.AssignStmt:
		return x.Tok == token.ADD_ASSIGN && len(x.Lhs) == 1 && isDepthSel(x.Lhs[0])
	}
	return false
}

type walker struct {
	g       *Graph
	fd      fdecl
	fset    *token.FileSet
	info    *types.Info
	resolve func(types.Object) []*Func
	hasDec  bool
	calls   int // edges emitted so far (for TopGuard)
}

// block walks a statement list.  guarded: an enclosing block already
// established a guard before this point.
func (w *walker) block(list []ast.Stmt, guarded bool, top bool) {
	inc := false
	own := false // the guard in force was established by this block
	for _, s := range list {
		if !guarded && w.hasDec {
			if isDepthInc(s) {
				inc = true
				continue
			}
			if inc && isLimitCheck(s) {
				// the error-building calls inside the if body are not recursion; walk them unguarded
				before := w.calls
				w.stmt(s, false)
				guarded, own = true, true
				w.fd.f.HasGuard = true
				if top && before == 0 {
					w.fd.f.TopGuard = true
				}
				continue
			}
		}
		if own && isDepthDec(s) {
			// an explicit (not deferred) decrement ends the guarded region of this block
			guarded, own, inc = false, false, false
			continue
		}
		w.stmt(s, guarded)
	}
}

func isDepthDec(s ast.Stmt) bool {
	switch x := s.(type) {
	case *ast.IncDecStmt:
		return x.Tok == token.DEC && isDepthSel(x.X)
	case *ast.AssignStmt:
		return x.Tok == token.SUB_ASSIGN && len(x.Lhs) == 1 && isDepthSel(x.Lhs[0])
	}
	return false
}

// stmt walks one statement, descending into nested blocks with the current guard state.
func (w *walker) stmt(s ast.Stmt, guarded bool) {
	switch x := s.(type) {
	case nil:
	case *ast.BlockStmt:
		w.block(x.List, guarded, false)
	case *ast.IfStmt:
		w.stmt(x.Init, guarded)
		w.expr(x.Cond, guarded)
		w.block(x.Body.List, guarded, false)
		w.stmt(x.Else, guarded)
	case *ast.ForStmt:
		w.stmt(x.Init, guarded)
		w.expr(x.Cond, guarded)
		w.stmt(x.Post, guarded)
		w.block(x.Body.List, guarded, false)
	case *ast.RangeStmt:
		w.expr(x.X, guarded)
		w.block(x.Body.List, guarded, false)
	case *ast.SwitchStmt:
		w.stmt(x.Init, guarded)
		w.expr(x.Tag, guarded)
		for _, c := range x.Body.List {
			cc := c.(*ast.CaseClause)
			for _, e := range cc.List {
				w.expr(e, guarded)
			}
			w.block(cc.Body, guarded, false)
		}
	case *ast.TypeSwitchStmt:
		w.stmt(x.Init, guarded)
		w.stmt(x.Assign, guarded)
		for _, c := range x.Body.List {
			w.block(c.(*ast.CaseClause).Body, guarded, false)
		}
	case *ast.SelectStmt:
		for _, c := range x.Body.List {
			cc := c.(*ast.CommClause)
			w.stmt(cc.Comm, guarded)
			w.block(cc.Body, guarded, false)
		}
	case *ast.LabeledStmt:
		w.stmt(x.Stmt, guarded)
	default:
		// simple statement: every expression inside it (function literals included)
		w.node(s, guarded)
	}
}

func (w *walker) expr(e ast.Expr, guarded bool) {
	if e != nil {
		w.node(e, guarded)
	}
}

// node emits edges for every use of a package function inside n.  Function
// literal bodies are walked as blocks so that a guard inside a literal is
// honoured for the rest of that literal only.
func (w *walker) node(n ast.Node, guarded bool) {
	ast.Inspect(n, func(n ast.Node) bool {
		switch x := n.(type) {
		case *ast.FuncLit:
			w.block(x.Body.List, guarded, false)
			return false
		case *ast.Ident:
			if obj := w.info.Uses[x]; obj != nil {
				for _, f := range w.resolve(obj) {
					p := w.fset.Position(x.Pos())
					w.g.Edges = append(w.g.Edges, Edge{From: w.fd.f.ID, To: f.ID, File: p.Filename, Line: p.Line, Guarded: guarded})
					w.calls++
				}
			}
		}
		return true
	})
}

// SCCs returns the non-trivial strongly connected components (more than one
// node, or one node with a self loop) of the graph restricted to the edges for
// which keep returns true.  Components and their members are sorted.
func (g *Graph) SCCs(keep func(Edge) bool) [][]string {
	adj := map[string][]string{}
	self := map[string]bool{}
	for _, e := range g.Edges {
		if keep != nil && !keep(e) {
			continue
		}
		if e.From == e.To {
			self[e.From] = true
		}
		adj[e.From] = append(adj[e.From], e.To)
	}
	var ids []string
	for id := range g.Funcs {
		ids = append(ids, id)
	}
	sort.Strings(ids)
	// iterative Tarjan
	index := map[string]int{}
	low := map[string]int{}
	on := map[string]bool{}
	var stack []string
	var out [][]string
	next := 0
	type frame struct {
		v string
		i int
	}
	for _, root := range ids {
		if _, ok := index[root]; ok {
			continue
		}
		fr := []frame{{root, 0}}
		index[root], low[root] = next, next
		next++
		stack = append(stack, root)
		on[root] = true
		for len(fr) > 0 {
			f := &fr[len(fr)-1]
			if f.i < len(adj[f.v]) {
				w := adj[f.v][f.i]
				f.i++
				if _, ok := index[w]; !ok {
					index[w], low[w] = next, next
					next++
					stack = append(stack, w)
					on[w] = true
					fr = append(fr, frame{w, 0})
				} else if on[w] && index[w] < low[f.v] {
					low[f.v] = index[w]
				}
				continue
			}
			v := f.v
			fr = fr[:len(fr)-1]
			if len(fr) > 0 {
				p := fr[len(fr)-1].v
				if low[v] < low[p] {
					low[p] = low[v]
				}
			}
			if low[v] == index[v] {
				var comp []string
				for {
					w := stack[len(stack)-1]
					stack = stack[:len(stack)-1]
					on[w] = false
					comp = append(comp, w)
					if w == v {
						break
					}
				}
				if len(comp) > 1 || self[comp[0]] {
					sort.Strings(comp)
					out = append(out, comp)
				}
			}
		}
	}
	sort.Slice(out, func(a, b int) bool { return strings.Join(out[a], "+") < strings.Join(out[b], "+") })
	return out
}

// Unguarded is the keep function that deletes every guarded call.
func Unguarded(e Edge) bool { return !e.Guarded }

// EdgesWithin returns the kept edges whose both ends are in the set.
func (g *Graph) EdgesWithin(set []string, keep func(Edge) bool) []Edge {
	in := map[string]bool{}
	for _, s := range set {
		in[s] = true
	}
	var out []Edge
	for _, e := range g.Edges {
		if in[e.From] && in[e.To] && (keep == nil || keep(e)) {
			out = append(out, e)
		}
	}
	return out
}

// HasEdge reports whether the graph has an edge from -> to.
func (g *Graph) HasEdge(from, to string) bool {
	for _, e := range g.Edges {
		if e.From == from && e.To == to {
			return true
		}
	}
	return false
}
