// Package common is the shared runtime of all checks: bounded exhaustive
// enumeration sharded over worker processes, crash/hang isolation, known-finding
// bookkeeping, 5x reproduction of violations and the evidence writer.
//
// A check is a function Enumerate(e *Enum) that calls e.Do(key, fn) once for
// every case of its finite space.  Every worker process runs the same
// enumeration; a case belongs to the worker whose shard number equals
// hash(key) mod N, and a key seen twice is executed once.  So sharding,
// de-duplication, replay ("run only the case with this key") and resume after a
// fatal error ("skip the first k cases of this shard") all derive from the one
// deterministic enumeration order.
package common

import (
	"bufio"
	"bytes"
	"encoding/json"
	"fmt"
	"hash/fnv"
	"os"
	"os/exec"
	"path/filepath"
	"runtime"
	"runtime/debug"
	"sort"
	"strconv"
	"strings"
	"sync"
	"syscall"
	"time"
)

// Check describes one property check.
type Check struct {
	ID        string // C03
	Level     string // exploration | fault_enumeration | model_checking
	Rule      string // how cases are enumerated / what is non-trivial
	Assume    []string
	CrashSafe bool // record the current case before running it (fatal errors, hangs)
	// MemLimit is the address-space cap of a worker in bytes (CrashSafe checks only); 0 = 3 GiB.  Checks whose legal
	// inputs are as large as the documented limits (10 MiB, 1M tokens) need more head-room than the default.
	MemLimit  uint64
	Serial    bool // run in one worker (cases are not independent)
	Procs     int  // 0 = default
	Enumerate func(e *Enum)
	// Exhaustive reports whether the enumeration covers its stated space
	// completely (false when a cap was hit).  Nil means true.
	Extra func(tier string) map[string]any
	// CrashSig refines the signature of a case that killed or hung its worker
	// (class is fatal:stack-overflow, fatal:out-of-memory, hang, died, ...), so that a
	// listed finding does not mask every other crash.  Nil keeps the class.
	CrashSig func(key, class string) string
}

// Failure is one oracle failure on one case.
type Failure struct {
	Sig   string `json:"sig"`
	Msg   string `json:"msg"`
	Key   string `json:"key"`
	Input string `json:"input,omitempty"`
}

// Stats is what a worker reports when it finishes.
type Stats struct {
	Evaluations int64            `json:"evaluations"`
	Distinct    int64            `json:"distinct"`
	NonTrivial  int64            `json:"nontrivial"`
	Dupes       int64            `json:"dupes"`
	Outcomes    map[string]int64 `json:"outcomes"`
	Counters    map[string]int64 `json:"counters"`
	Samples     []any            `json:"samples"`
	States      map[uint64]bool  `json:"-"`
	StateHashes []uint64         `json:"state_hashes,omitempty"`
	Capped      []string         `json:"capped,omitempty"`
}

// Enum is handed to Enumerate.
type Enum struct {
	Tier     string
	Seed     int64
	shard    int
	nsh      int
	only     string // replay: run only this key
	skip     int64  // resume: skip the first n cases of this shard
	seen     map[uint64]struct{}
	st       Stats
	cur      *os.File
	out      *bufio.Writer
	fails    []Failure
	mine     int64
	crash    bool
	cs       *Ctx
	sigCount map[string]int
}

// Ctx is handed to a case.
type Ctx struct {
	e     *Enum
	Key   string
	input string
	fail  []Failure
	nt    bool
}

func hash64(s string) uint64 {
	h := fnv.New64a()
	h.Write([]byte(s))
	return h.Sum64()
}

// Hash64 is exported for checks that want to count distinct states.
func Hash64(s string) uint64 { return hash64(s) }

// Thorough reports whether the tier is "thorough".
func (e *Enum) Thorough() bool { return e.Tier == "thorough" }

// Replaying reports whether this run executes a single case from a replay file.
func (e *Enum) Replaying() bool { return e.only != "" }

// Cap records that a cap stopped part of the enumeration (=> exhaustive:false).
func (e *Enum) Cap(what string) {
	for _, c := range e.st.Capped {
		if c == what {
			return
		}
	}
	e.st.Capped = append(e.st.Capped, what)
}

// Count adds to a named counter reported in the evidence.
func (e *Enum) Count(name string, n int64) {
	e.st.Counters[name] += n
}

// Mine reports whether the case with this key would be executed by this worker
// (not a duplicate, in this shard, matching the replay filter).  It does not
// mark the key as seen.  Use it to avoid building expensive cases.
func (e *Enum) Mine(key string) bool {
	if e.only != "" {
		return key == e.only
	}
	h := hash64(key)
	if int(h%uint64(e.nsh)) != e.shard {
		return false
	}
	_, dup := e.seen[h]
	return !dup
}

// Do runs one case if it belongs to this worker.
func (e *Enum) Do(key string, fn func(c *Ctx)) {
	if e.only != "" {
		if key != e.only {
			return
		}
	} else {
		h := hash64(key)
		if int(h%uint64(e.nsh)) != e.shard {
			return
		}
		if _, dup := e.seen[h]; dup {
			e.st.Dupes++
			return
		}
		e.seen[h] = struct{}{}
	}
	e.mine++
	if e.mine <= e.skip {
		// already executed (or blamed) by an earlier incarnation of this worker, whose
		// statistics died with it: count the case, its outcome histogram entry is lost
		e.st.Evaluations++
		e.st.Distinct++
		e.st.Counters["cases_executed_before_a_worker_restart"]++
		return
	}
	if e.crash && e.cur != nil {
		// the key is quoted: keys may contain line breaks (multi-line SQL texts)
		b := []byte(strconv.FormatInt(e.mine, 10) + "\n" + strconv.Quote(key) + "\n")
		e.cur.WriteAt(b, 0)
		e.cur.Truncate(int64(len(b)))
	}
	c := &Ctx{e: e, Key: key}
	e.cs = c
	func() {
		defer func() {
			if r := recover(); r != nil {
				st := string(debug.Stack())
				c.Fail("harness-panic:"+firstFrame(st), fmt.Sprintf("panic escaped into the harness: %v\n%s", r, trim(st, 1500)))
			}
		}()
		fn(c)
	}()
	e.st.Evaluations++
	e.st.Distinct++
	if c.nt {
		e.st.NonTrivial++
	}
	for _, f := range c.fail {
		e.emitFail(f)
	}
	if e.mine%512 == 0 {
		fmt.Fprintf(e.out, "B %d\n", e.mine)
		e.out.Flush()
	}
}

func (e *Enum) emitFail(f Failure) {
	// at most 64 failing cases per signature and worker are passed on (the first
	// ones of the smallest-first enumeration); the rest are only counted
	if e.sigCount == nil {
		e.sigCount = map[string]int{}
	}
	e.sigCount[f.Sig]++
	e.st.Counters["failing_cases_total"]++
	if e.sigCount[f.Sig] > 64 && e.only == "" {
		e.st.Counters["failing_cases_not_listed_individually"]++
		return
	}
	b, _ := json.Marshal(f)
	fmt.Fprintf(e.out, "F %s\n", b)
	e.out.Flush()
}

func firstFrame(st string) string {
	// first frame inside the library (or the harness) below the panic machinery
	lines := strings.Split(st, "\n")
	for _, l := range lines {
		l = strings.TrimSpace(l)
		if strings.HasPrefix(l, "github.com/ajitpratap0/GoSQLX/") {
			if i := strings.LastIndex(l, "("); i > 0 {
				l = l[:i]
			}
			return strings.TrimPrefix(l, "github.com/ajitpratap0/GoSQLX/")
		}
	}
	return "unknown"
}

// PanicSite extracts the first library frame from a stack trace text.
func PanicSite(stack string) string { return firstFrame(stack) }

func trim(s string, n int) string {
	if len(s) > n {
		return s[:n] + "…"
	}
	return s
}

// Trim shortens a string for messages.
func Trim(s string, n int) string { return trim(s, n) }

// Input records the case's input text for the replay file.
func (c *Ctx) Input(s string) { c.input = s }

// Fail records an oracle failure with a signature.
func (c *Ctx) Fail(sig, msg string) {
	for _, f := range c.fail {
		if f.Sig == sig {
			return
		}
	}
	c.fail = append(c.fail, Failure{Sig: sig, Msg: trim(msg, 4000), Key: c.Key, Input: trim(c.input, 4000)})
}

// Failed reports whether the case already has a failure.
func (c *Ctx) Failed() bool { return len(c.fail) > 0 }

// Outcome adds to the histogram of observed outcomes (vacuity guard).
func (c *Ctx) Outcome(o string) { c.e.st.Outcomes[o]++ }

// NonTrivial marks the case as non-trivial by the check's rule.
func (c *Ctx) NonTrivial() { c.nt = true }

// State records a canonical state hash (model_checking evidence).
func (c *Ctx) State(h uint64) {
	if c.e.st.States == nil {
		c.e.st.States = map[uint64]bool{}
	}
	c.e.st.States[h] = true
}

// Count adds to a named counter.
func (c *Ctx) Count(name string, n int64) { c.e.st.Counters[name] += n }

// Sample offers a sample case for the evidence file (first few are kept).
func (c *Ctx) Sample(v any) {
	if len(c.e.st.Samples) < 6 {
		c.e.st.Samples = append(c.e.st.Samples, v)
	}
}

// Enum returns the enumeration context.
func (c *Ctx) Enum() *Enum { return c.e }

// ---------------------------------------------------------------- main entry

var root = func() string {
	if r := os.Getenv("VERIF_ROOT"); r != "" {
		return r
	}
	return "/verif"
}()

// Root is /verif.
func Root() string { return root }

// Work returns a path under /verif/.work.
func Work(parts ...string) string {
	p := filepath.Join(append([]string{root, ".work"}, parts...)...)
	os.MkdirAll(filepath.Dir(p), 0o755)
	return p
}

func seedFromEnv() int64 {
	s, _ := strconv.ParseInt(os.Getenv("VERIF_SEED"), 10, 64)
	return s
}

// Main runs a check.  args: <tier> [--worker i/n --skip k] [--replay file] [--replay-key key]
func Main(ck *Check, args []string) int {
	tier := "quick"
	if t := os.Getenv("VERIF_TIER"); t == "thorough" || t == "quick" {
		tier = t
	}
	var worker, replay, rkey string
	var skip int64
	for i := 0; i < len(args); i++ {
		switch args[i] {
		case "quick", "thorough":
			tier = args[i]
		case "--worker":
			i++
			worker = args[i]
		case "--skip":
			i++
			skip, _ = strconv.ParseInt(args[i], 10, 64)
		case "--replay":
			i++
			replay = args[i]
		case "--replay-key":
			i++
			rkey = args[i]
		}
	}
	if replay != "" {
		b, err := os.ReadFile(replay)
		if err != nil {
			fmt.Fprintln(os.Stderr, "cannot read replay file:", err)
			return 2
		}
		var f struct {
			Failure
			Tier string `json:"tier"`
		}
		if err := json.Unmarshal(b, &f); err != nil {
			fmt.Fprintln(os.Stderr, "bad replay file:", err)
			return 2
		}
		if f.Tier != "" {
			tier = f.Tier
		}
		rkey = f.Key
		os.Setenv("VERIF_REPLAY_HUMAN", "1")
	}
	if rkey != "" || worker != "" {
		return runWorker(ck, tier, worker, skip, rkey)
	}
	return runParent(ck, tier)
}

func runWorker(ck *Check, tier, worker string, skip int64, rkey string) int {
	e := &Enum{Tier: tier, Seed: seedFromEnv(), nsh: 1, only: rkey, skip: skip,
		seen: map[uint64]struct{}{}, out: bufio.NewWriterSize(os.Stdout, 1<<16), crash: ck.CrashSafe}
	e.st.Outcomes = map[string]int64{}
	e.st.Counters = map[string]int64{}
	if worker != "" {
		fmt.Sscanf(worker, "%d/%d", &e.shard, &e.nsh)
	}
	if p := os.Getenv("VERIF_CURFILE"); p != "" {
		e.cur, _ = os.OpenFile(p, os.O_CREATE|os.O_RDWR, 0o644)
	}
	if ck.CrashSafe {
		debug.SetMaxStack(64 << 20)
		// address-space cap so that a runaway allocation dies here, not the sandbox
		var rl syscall.Rlimit
		lim := uint64(3 << 30)
		if ck.MemLimit > 0 {
			lim = ck.MemLimit
		}
		rl.Cur, rl.Max = lim, lim
		syscall.Setrlimit(syscall.RLIMIT_AS, &rl)
	}
	ck.Enumerate(e)
	for h := range e.st.States {
		e.st.StateHashes = append(e.st.StateHashes, h)
	}
	b, _ := json.Marshal(e.st)
	fmt.Fprintf(e.out, "E %s\n", b)
	e.out.Flush()
	if rkey != "" && os.Getenv("VERIF_REPLAY_HUMAN") != "" {
		if e.st.Evaluations == 0 {
			fmt.Printf("REPLAY: no case with key %q exists in the current enumeration\n", rkey)
			return 2
		}
		if n := e.st.Counters["failing_cases_total"]; n > 0 {
			fmt.Printf("REPLAY: the case still fails (%d failure(s), see the F lines above)\n", n)
			return 1
		}
		fmt.Println("REPLAY: the case passes")
	}
	return 0
}

type known struct {
	sig  string
	desc string
	hit  int64
	ex   Failure
}

// LoadKnown reads known_findings.txt entries for a property.
func LoadKnown(id string) map[string]*known {
	m := map[string]*known{}
	b, _ := os.ReadFile(filepath.Join(root, "known_findings.txt"))
	for _, line := range strings.Split(string(b), "\n") {
		line = strings.TrimSpace(line)
		if !strings.HasPrefix(line, "finding:") {
			continue
		}
		rest := strings.TrimSpace(strings.TrimPrefix(line, "finding:"))
		desc := ""
		if i := strings.Index(rest, " | "); i >= 0 {
			desc = strings.TrimSpace(rest[i+3:])
			rest = rest[:i]
		}
		var pid, sig string
		for _, f := range strings.Fields(rest) {
			if strings.HasPrefix(f, "property=") {
				pid = strings.TrimPrefix(f, "property=")
			}
			if strings.HasPrefix(f, "sig=") {
				sig = strings.TrimPrefix(f, "sig=")
			}
		}
		if pid == id && sig != "" {
			m[sig] = &known{sig: sig, desc: desc}
		}
	}
	return m
}

type shardState struct {
	idx      int
	skip     int64
	restarts int
}

func runParent(ck *Check, tier string) int {
	start := time.Now()
	self, _ := os.Executable()
	n := runtime.NumCPU()
	if p, _ := strconv.Atoi(os.Getenv("VERIF_PROCS")); p > 0 {
		n = p
	}
	if ck.Procs > 0 && ck.Procs < n {
		n = ck.Procs
	}
	if ck.Serial {
		n = 1
	}
	total := Stats{Outcomes: map[string]int64{}, Counters: map[string]int64{}}
	states := map[uint64]bool{}
	var mu sync.Mutex
	var fails []Failure
	var wg sync.WaitGroup
	incomplete := false
	for i := 0; i < n; i++ {
		wg.Add(1)
		go func(i int) {
			defer wg.Done()
			ss := &shardState{idx: i}
			for {
				st, fs, died := runShard(self, ck, tier, ss, n)
				mu.Lock()
				fails = append(fails, fs...)
				mu.Unlock()
				if died == nil {
					mu.Lock()
					total.Evaluations += st.Evaluations
					total.Distinct += st.Distinct
					total.NonTrivial += st.NonTrivial
					total.Dupes += st.Dupes
					for k, v := range st.Outcomes {
						total.Outcomes[k] += v
					}
					for k, v := range st.Counters {
						total.Counters[k] += v
					}
					for _, s := range st.Samples {
						if len(total.Samples) < 8 {
							total.Samples = append(total.Samples, s)
						}
					}
					for _, h := range st.StateHashes {
						states[h] = true
					}
					for _, c := range st.Capped {
						total.Capped = append(total.Capped, c)
					}
					mu.Unlock()
					return
				}
				mu.Lock()
				fails = append(fails, *died)
				total.Counters["worker_deaths"]++
				mu.Unlock()
				ss.restarts++
				if ss.restarts > 200 {
					mu.Lock()
					incomplete = true
					total.Capped = append(total.Capped, fmt.Sprintf("shard %d abandoned after 200 worker deaths", i))
					mu.Unlock()
					return
				}
			}
		}(i)
	}
	wg.Wait()

	// classify failures
	kn := LoadKnown(ck.ID)
	bySig := map[string][]Failure{}
	for _, f := range fails {
		bySig[f.Sig] = append(bySig[f.Sig], f)
	}
	var sigs []string
	for s := range bySig {
		sigs = append(sigs, s)
	}
	sort.Strings(sigs)
	violations := 0
	var unrepro []map[string]any
	var knownHit []map[string]any
	var vio []map[string]any
	var extra []map[string]any
	tried := 0
	// smallest failing input first, so the first reported counter-example is the simplest
	sort.SliceStable(sigs, func(a, b int) bool {
		return minLen(bySig[sigs[a]]) < minLen(bySig[sigs[b]])
	})
	for _, s := range sigs {
		fs := bySig[s]
		sort.Slice(fs, func(a, b int) bool {
			if len(fs[a].Input) != len(fs[b].Input) {
				return len(fs[a].Input) < len(fs[b].Input)
			}
			return fs[a].Key < fs[b].Key
		})
		f := fs[0]
		if k, ok := kn[s]; ok {
			fmt.Printf("KNOWN-FINDING: property=%s sig=%s cases=%d example=%q %s\n", ck.ID, s, len(fs), trim(f.Input, 160), k.desc)
			knownHit = append(knownHit, map[string]any{"sig": s, "cases": len(fs), "example": trim(f.Input, 300)})
			continue
		}
		if os.Getenv("VERIF_ANALYZE") != "" {
			fmt.Printf("UNLISTED sig=%s cases=%d input=%q\n    %s\n", s, len(fs), trim(f.Input, 200), strings.ReplaceAll(trim(f.Msg, 400), "\n", "\n    "))
			violations++
			continue
		}
		if violations >= 8 || tried >= 24 {
			// enough reproduced violations to fail the run; the rest are listed unverified
			extra = append(extra, map[string]any{"sig": s, "cases": len(fs), "input": trim(f.Input, 200)})
			continue
		}
		tried++
		// reproduce 5x from the key, each in a fresh process
		ok := 0
		for r := 0; r < 5; r++ {
			if reproduces(self, ck, tier, f) {
				ok++
			} else {
				break
			}
		}
		if ok < 5 {
			fmt.Fprintf(os.Stderr, "UNREPRODUCED observation sig=%s key=%q reproduced %d/5 (not reported as violation)\n", s, f.Key, ok)
			unrepro = append(unrepro, map[string]any{"sig": s, "key": f.Key, "reproduced": ok, "msg": trim(f.Msg, 500)})
			continue
		}
		violations++
		path := Work("replay", fmt.Sprintf("%s-%016x.json", ck.ID, hash64(s)))
		rb, _ := json.MarshalIndent(map[string]any{"property": ck.ID, "tier": tier, "sig": f.Sig, "key": f.Key, "input": f.Input, "msg": f.Msg, "cases_with_this_sig": len(fs)}, "", " ")
		os.WriteFile(path, rb, 0o644)
		fmt.Printf("VIOLATION property=%s replay=%s\n", ck.ID, path)
		fmt.Printf("  sig=%s cases=%d\n  input=%q\n  %s\n", s, len(fs), trim(f.Input, 300), strings.ReplaceAll(trim(f.Msg, 1200), "\n", "\n  "))
		vio = append(vio, map[string]any{"sig": s, "cases": len(fs), "key": f.Key, "input": trim(f.Input, 300), "replay": path})
	}

	// evidence
	exh := len(total.Capped) == 0 && !incomplete
	cov := map[string]any{
		"evaluations":         total.Evaluations,
		"distinct_nontrivial": total.NonTrivial,
		"distinct_cases":      total.Distinct,
		"duplicates_skipped":  total.Dupes,
		"rule":                ck.Rule,
		"samples":             total.Samples,
		"exhaustive":          exh,
		"distinct_outcomes":   len(total.Outcomes),
		"outcomes":            topOutcomes(total.Outcomes, 40),
		"counters":            total.Counters,
		"worker_processes":    n,
		"known_findings_hit":  knownHit,
		"violations_detail":   vio,
	}
	if len(total.Capped) > 0 {
		cov["caps_hit"] = total.Capped
	}
	if len(unrepro) > 0 {
		cov["unreproduced_observations"] = unrepro
	}
	if len(extra) > 0 {
		cov["further_unlisted_signatures_not_rerun"] = extra
		fmt.Printf("  (+%d further unlisted failure signatures, not re-run; see evidence file)\n", len(extra))
	}
	if os.Getenv("VERIF_ANALYZE") != "" {
		analyze(total.Counters)
	}
	if ck.Level == "model_checking" {
		cov["states"] = len(states)
		cov["transitions"] = total.Counters["transitions"]
		cov["traces_validated_against_impl"] = total.Evaluations
	}
	if ck.Extra != nil {
		for k, v := range ck.Extra(tier) {
			cov[k] = v
		}
	}
	ev := map[string]any{
		"property_id": ck.ID, "tier": tier, "seed": seedFromEnv(), "level": ck.Level,
		"coverage": cov, "assumptions": ck.Assume,
		"wall_s": time.Since(start).Seconds(), "violations": violations,
	}
	eb, _ := json.MarshalIndent(ev, "", " ")
	os.MkdirAll(filepath.Join(root, "evidence"), 0o755)
	os.WriteFile(filepath.Join(root, "evidence", ck.ID+".json"), eb, 0o644)
	fmt.Printf("%s %s: cases=%d nontrivial=%d outcomes=%d known=%d violations=%d unreproduced=%d exhaustive=%v wall=%.1fs\n",
		ck.ID, tier, total.Evaluations, total.NonTrivial, len(total.Outcomes), len(knownHit), violations, len(unrepro), exh, time.Since(start).Seconds())
	if violations > 0 {
		return 1
	}
	return 0
}

func topOutcomes(m map[string]int64, n int) map[string]int64 {
	type kv struct {
		k string
		v int64
	}
	var l []kv
	for k, v := range m {
		l = append(l, kv{k, v})
	}
	sort.Slice(l, func(a, b int) bool { return l[a].v > l[b].v || (l[a].v == l[b].v && l[a].k < l[b].k) })
	out := map[string]int64{}
	for i, e := range l {
		if i >= n {
			break
		}
		out[e.k] = e.v
	}
	return out
}

// runShard runs one worker until it finishes or dies.  On death it returns a
// Failure blaming the case the worker was executing, and advances ss.skip past it.
func runShard(self string, ck *Check, tier string, ss *shardState, n int) (Stats, []Failure, *Failure) {
	curPath := Work("run", fmt.Sprintf("%s-cur-%d", ck.ID, ss.idx))
	os.Remove(curPath)
	cmd := exec.Command(self, ck.ID, tier, "--worker", fmt.Sprintf("%d/%d", ss.idx, n), "--skip", strconv.FormatInt(ss.skip, 10))
	cmd.Env = append(os.Environ(), "VERIF_CURFILE="+curPath, "GOMAXPROCS=2")
	if ck.CrashSafe {
		cmd.Env = append(cmd.Env, "GOTRACEBACK=single")
	}
	stdout, _ := cmd.StdoutPipe()
	var stderr bytes.Buffer
	cmd.Stderr = &limitWriter{w: &stderr, n: 1 << 16}
	if err := cmd.Start(); err != nil {
		return Stats{}, nil, &Failure{Sig: "harness:cannot-start-worker", Msg: err.Error()}
	}
	var fails []Failure
	var st Stats
	done := false
	var last = time.Now()
	var lmu sync.Mutex
	hung := false
	stop := make(chan struct{})
	go func() {
		t := time.NewTicker(2 * time.Second)
		defer t.Stop()
		for {
			select {
			case <-stop:
				return
			case <-t.C:
				lmu.Lock()
				idle := time.Since(last)
				lmu.Unlock()
				// progress is also visible through the cur file's mtime
				if fi, err := os.Stat(curPath); err == nil && time.Since(fi.ModTime()) < idle {
					idle = time.Since(fi.ModTime())
				}
				if idle > hangLimit(ck) {
					hung = true
					cmd.Process.Kill()
					return
				}
			}
		}
	}()
	sc := bufio.NewScanner(stdout)
	sc.Buffer(make([]byte, 1<<20), 1<<28)
	for sc.Scan() {
		line := sc.Text()
		lmu.Lock()
		last = time.Now()
		lmu.Unlock()
		switch {
		case strings.HasPrefix(line, "F "):
			var f Failure
			if json.Unmarshal([]byte(line[2:]), &f) == nil {
				fails = append(fails, f)
			}
		case strings.HasPrefix(line, "E "):
			json.Unmarshal([]byte(line[2:]), &st)
			done = true
		}
	}
	err := cmd.Wait()
	close(stop)
	if done && err == nil {
		return st, fails, nil
	}
	// worker died: blame the current case
	var mine int64
	key := ""
	if b, e := os.ReadFile(curPath); e == nil {
		parts := strings.SplitN(string(b), "\n", 3)
		if len(parts) >= 2 {
			mine, _ = strconv.ParseInt(parts[0], 10, 64)
			key = parts[1]
			if uq, err := strconv.Unquote(parts[1]); err == nil {
				key = uq
			}
		}
	}
	es := stderr.String()
	class := "died"
	switch {
	case hung:
		class = "hang"
	case strings.Contains(es, "stack overflow") || strings.Contains(es, "stack exceeds"):
		class = "fatal:stack-overflow"
	case strings.Contains(es, "out of memory") || strings.Contains(es, "cannot allocate memory"):
		class = "fatal:out-of-memory"
	case strings.Contains(es, "fatal error:"):
		class = "fatal:" + fatalLine(es)
	case strings.Contains(es, "panic:"):
		class = "panic-unrecovered:" + firstFrame(es)
	}
	if mine <= ss.skip || key == "" {
		// no progress information: cannot attribute; give up on this shard
		ss.restarts = 1 << 20
		return st, fails, &Failure{Sig: "harness:worker-died-unattributed:" + class, Msg: trim(es, 2000)}
	}
	ss.skip = mine
	if ck.CrashSig != nil {
		class = ck.CrashSig(key, class)
	}
	return st, fails, &Failure{Sig: class, Key: key, Input: key, Msg: fmt.Sprintf("worker process died (%v) while executing this case\n%s", err, trim(es, 1500))}
}

func hangLimit(ck *Check) time.Duration {
	if s, _ := strconv.Atoi(os.Getenv("VERIF_HANG_S")); s > 0 {
		return time.Duration(s) * time.Second
	}
	return 120 * time.Second
}

func fatalLine(es string) string {
	i := strings.Index(es, "fatal error:")
	l := es[i+len("fatal error:"):]
	if j := strings.Index(l, "\n"); j >= 0 {
		l = l[:j]
	}
	return strings.ReplaceAll(strings.TrimSpace(l), " ", "-")
}

type limitWriter struct {
	w *bytes.Buffer
	n int
}

func (l *limitWriter) Write(p []byte) (int, error) {
	if l.w.Len() < l.n {
		k := l.n - l.w.Len()
		if k > len(p) {
			k = len(p)
		}
		l.w.Write(p[:k])
	}
	return len(p), nil
}

// reproduces re-runs one case in a fresh process and reports whether the same
// signature is observed.
func reproduces(self string, ck *Check, tier string, f Failure) bool {
	if f.Key == "" {
		return false
	}
	curPath := Work("run", ck.ID+"-cur-replay")
	os.Remove(curPath)
	cmd := exec.Command(self, ck.ID, tier, "--replay-key", f.Key)
	cmd.Env = append(os.Environ(), "VERIF_CURFILE="+curPath, "GOTRACEBACK=single")
	var out, errb bytes.Buffer
	cmd.Stdout = &out
	cmd.Stderr = &limitWriter{w: &errb, n: 1 << 16}
	if err := cmd.Start(); err != nil {
		return false
	}
	donec := make(chan error, 1)
	go func() { donec <- cmd.Wait() }()
	var err error
	select {
	case err = <-donec:
	case <-time.After(hangLimit(ck) + 30*time.Second):
		cmd.Process.Kill()
		<-donec
		return f.Sig == "hang" || strings.HasPrefix(f.Sig, "hang@")
	}
	for _, line := range strings.Split(out.String(), "\n") {
		if strings.HasPrefix(line, "F ") {
			var g Failure
			if json.Unmarshal([]byte(line[2:]), &g) == nil && g.Sig == f.Sig {
				return true
			}
		}
	}
	if err != nil {
		es := errb.String()
		base := f.Sig
		if i := strings.Index(base, "@"); i > 0 {
			base = base[:i]
		}
		f.Sig = base
		switch {
		case f.Sig == "fatal:stack-overflow":
			return strings.Contains(es, "stack overflow") || strings.Contains(es, "stack exceeds")
		case f.Sig == "fatal:out-of-memory":
			return strings.Contains(es, "out of memory") || strings.Contains(es, "cannot allocate")
		case strings.HasPrefix(f.Sig, "fatal:"):
			return strings.Contains(es, "fatal error:")
		case strings.HasPrefix(f.Sig, "panic-unrecovered:"):
			return strings.Contains(es, "panic:")
		case f.Sig == "died":
			return true
		}
	}
	return false
}

// ---------------------------------------------------------------- feature attribution

var knownCache = map[string]map[string]*known{}

// genericFeat are features present in almost every case; they never identify a defect.
var genericFeat = map[string]bool{"select": true, "select.where": true}

// FailFeat records a failure of class `class` on a case that uses the given
// grammar features.  If known_findings.txt lists "<class>@<f>" for one of the
// case's features the failure is attributed to that finding; otherwise the
// signature names the class and the case's (non-generic) features, so it is
// reported as a new violation.
func (c *Ctx) FailFeat(id, class string, feats []string, msg string) {
	kn, ok := knownCache[id]
	if !ok {
		kn = LoadKnown(id)
		knownCache[id] = kn
	}
	fs := append([]string{}, feats...)
	sort.Strings(fs)
	for _, f := range fs {
		if _, ok := kn[class+"@"+f]; ok {
			c.Fail(class+"@"+f, msg)
			return
		}
	}
	var spec []string
	for _, f := range fs {
		if !genericFeat[f] {
			spec = append(spec, f)
		}
	}
	if len(spec) > 8 {
		spec = spec[:8]
	}
	c.Fail(class+"@["+strings.Join(spec, ",")+"]", msg+"\nfeatures: "+strings.Join(fs, " "))
}

// Features records pass/fail per feature (development aid: VERIF_ANALYZE=1
// prints the features that never pass).
func (c *Ctx) Features(feats []string, pass bool) {
	if os.Getenv("VERIF_ANALYZE") == "" {
		return
	}
	for _, f := range feats {
		if pass {
			c.e.st.Counters["featpass:"+f]++
		} else {
			c.e.st.Counters["featfail:"+f]++
		}
	}
}

func minLen(fs []Failure) int {
	m := 1 << 30
	for _, f := range fs {
		if len(f.Input) < m {
			m = len(f.Input)
		}
	}
	return m
}

// analyze prints the features that fail and never pass (development aid).
func analyze(c map[string]int64) {
	var fl []string
	for k, v := range c {
		if strings.HasPrefix(k, "featfail:") {
			f := strings.TrimPrefix(k, "featfail:")
			fl = append(fl, fmt.Sprintf("%-60s fail=%d pass=%d", f, v, c["featpass:"+f]))
		}
	}
	sort.Strings(fl)
	fmt.Println("---- features seen in failing cases:")
	for _, l := range fl {
		fmt.Println("  ", l)
	}
	for k := range c {
		if strings.HasPrefix(k, "featfail:") || strings.HasPrefix(k, "featpass:") {
			delete(c, k)
		}
	}
}

// FailPath records a failure of class `class` located by a chain of positions
// (innermost first, e.g. the "Type.Field" frames from the place where a name is
// written out to the statement root).  The failure is attributed to the first
// listed finding "<class>@<frame>" along the chain (skipping frame 0, the
// name-bearing field itself, unless it is the only one); an unlisted failure is
// named after the innermost enclosing position.
func (c *Ctx) FailPath(id, class string, frames []string, msg string) {
	kn, ok := knownCache[id]
	if !ok {
		kn = LoadKnown(id)
		knownCache[id] = kn
	}
	order := frames
	if len(frames) > 1 {
		order = append(append([]string{}, frames[1:]...), frames[0])
	}
	for _, f := range order {
		if _, ok := kn[class+"@"+f]; ok {
			c.Fail(class+"@"+f, msg)
			return
		}
	}
	c.Fail(class+"@"+order[0], msg)
}
