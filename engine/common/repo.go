package common

import (
	"encoding/json"
	"os"
	"path/filepath"
	"strings"
)

// overlayReplace returns the "Replace" map of the -overlay file named in
// GOFLAGS (set through VERIF_OVERLAY), or nil.
func overlayReplace() map[string]string {
	for _, f := range strings.Fields(os.Getenv("GOFLAGS")) {
		if strings.HasPrefix(f, "-overlay=") {
			b, err := os.ReadFile(strings.TrimPrefix(f, "-overlay="))
			if err != nil {
				return nil
			}
			var o struct{ Replace map[string]string }
			if json.Unmarshal(b, &o) == nil {
				return o.Replace
			}
		}
	}
	return nil
}

// RepoFile reads a source file of /repo as the build sees it (overlay applied).
func RepoFile(path string) ([]byte, error) {
	if r, ok := overlayReplace()[path]; ok {
		if r == "" {
			return nil, os.ErrNotExist
		}
		return os.ReadFile(r)
	}
	return os.ReadFile(path)
}

// RepoGoFiles lists the non-test .go files of a /repo directory as the build
// sees them (files added or deleted by the overlay included).
func RepoGoFiles(dir string) []string {
	seen := map[string]bool{}
	var out []string
	ents, _ := os.ReadDir(dir)
	ov := overlayReplace()
	for _, e := range ents {
		n := e.Name()
		if e.IsDir() || !strings.HasSuffix(n, ".go") || strings.HasSuffix(n, "_test.go") {
			continue
		}
		p := filepath.Join(dir, n)
		if r, ok := ov[p]; ok && r == "" {
			continue
		}
		seen[p] = true
		out = append(out, p)
	}
	for p, r := range ov {
		if filepath.Dir(p) == dir && r != "" && strings.HasSuffix(p, ".go") && !strings.HasSuffix(p, "_test.go") && !seen[p] {
			out = append(out, p)
		}
	}
	return out
}
