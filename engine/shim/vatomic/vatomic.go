//go:build verifsched

// Package vatomic is a drop-in replacement for sync/atomic for builds in which the
// C10 overlay rewrites `import "sync/atomic"` to this package.  Every operation is
// announced to the controlled scheduler (sched.Point) BEFORE it is performed with
// the real sync/atomic primitive.  Go's atomics are sequentially consistent, so an
// interleaving of these points is an exact model of the memory behaviour.
//
// Covers the function forms and the typed values of sync/atomic up to Go 1.22.
package vatomic

import (
	"sync/atomic"
	"unsafe"

	"github.com/ajitpratap0/GoSQLX/pkg/verifshim/sched"
)

func LoadInt32(addr *int32) int32 {
	sched.Point(sched.KLoad, unsafe.Pointer(addr))
	return atomic.LoadInt32(addr)
}
func StoreInt32(addr *int32, val int32) {
	sched.Point(sched.KStore, unsafe.Pointer(addr))
	atomic.StoreInt32(addr, val)
}
func AddInt32(addr *int32, delta int32) int32 {
	sched.Point(sched.KAdd, unsafe.Pointer(addr))
	return atomic.AddInt32(addr, delta)
}
func SwapInt32(addr *int32, new int32) int32 {
	sched.Point(sched.KSwap, unsafe.Pointer(addr))
	return atomic.SwapInt32(addr, new)
}
func CompareAndSwapInt32(addr *int32, old, new int32) bool {
	sched.Point(sched.KCAS, unsafe.Pointer(addr))
	return atomic.CompareAndSwapInt32(addr, old, new)
}

func LoadInt64(addr *int64) int64 {
	sched.Point(sched.KLoad, unsafe.Pointer(addr))
	return atomic.LoadInt64(addr)
}
func StoreInt64(addr *int64, val int64) {
	sched.Point(sched.KStore, unsafe.Pointer(addr))
	atomic.StoreInt64(addr, val)
}
func AddInt64(addr *int64, delta int64) int64 {
	sched.Point(sched.KAdd, unsafe.Pointer(addr))
	return atomic.AddInt64(addr, delta)
}
func SwapInt64(addr *int64, new int64) int64 {
	sched.Point(sched.KSwap, unsafe.Pointer(addr))
	return atomic.SwapInt64(addr, new)
}
func CompareAndSwapInt64(addr *int64, old, new int64) bool {
	sched.Point(sched.KCAS, unsafe.Pointer(addr))
	return atomic.CompareAndSwapInt64(addr, old, new)
}

func LoadUint32(addr *uint32) uint32 {
	sched.Point(sched.KLoad, unsafe.Pointer(addr))
	return atomic.LoadUint32(addr)
}
func StoreUint32(addr *uint32, val uint32) {
	sched.Point(sched.KStore, unsafe.Pointer(addr))
	atomic.StoreUint32(addr, val)
}
func AddUint32(addr *uint32, delta uint32) uint32 {
	sched.Point(sched.KAdd, unsafe.Pointer(addr))
	return atomic.AddUint32(addr, delta)
}
func SwapUint32(addr *uint32, new uint32) uint32 {
	sched.Point(sched.KSwap, unsafe.Pointer(addr))
	return atomic.SwapUint32(addr, new)
}
func CompareAndSwapUint32(addr *uint32, old, new uint32) bool {
	sched.Point(sched.KCAS, unsafe.Pointer(addr))
	return atomic.CompareAndSwapUint32(addr, old, new)
}

func LoadUint64(addr *uint64) uint64 {
	sched.Point(sched.KLoad, unsafe.Pointer(addr))
	return atomic.LoadUint64(addr)
}
func StoreUint64(addr *uint64, val uint64) {
	sched.Point(sched.KStore, unsafe.Pointer(addr))
	atomic.StoreUint64(addr, val)
}
func AddUint64(addr *uint64, delta uint64) uint64 {
	sched.Point(sched.KAdd, unsafe.Pointer(addr))
	return atomic.AddUint64(addr, delta)
}
func SwapUint64(addr *uint64, new uint64) uint64 {
	sched.Point(sched.KSwap, unsafe.Pointer(addr))
	return atomic.SwapUint64(addr, new)
}
func CompareAndSwapUint64(addr *uint64, old, new uint64) bool {
	sched.Point(sched.KCAS, unsafe.Pointer(addr))
	return atomic.CompareAndSwapUint64(addr, old, new)
}

func LoadUintptr(addr *uintptr) uintptr {
	sched.Point(sched.KLoad, unsafe.Pointer(addr))
	return atomic.LoadUintptr(addr)
}
func StoreUintptr(addr *uintptr, val uintptr) {
	sched.Point(sched.KStore, unsafe.Pointer(addr))
	atomic.StoreUintptr(addr, val)
}
func AddUintptr(addr *uintptr, delta uintptr) uintptr {
	sched.Point(sched.KAdd, unsafe.Pointer(addr))
	return atomic.AddUintptr(addr, delta)
}
func SwapUintptr(addr *uintptr, new uintptr) uintptr {
	sched.Point(sched.KSwap, unsafe.Pointer(addr))
	return atomic.SwapUintptr(addr, new)
}
func CompareAndSwapUintptr(addr *uintptr, old, new uintptr) bool {
	sched.Point(sched.KCAS, unsafe.Pointer(addr))
	return atomic.CompareAndSwapUintptr(addr, old, new)
}

func LoadPointer(addr *unsafe.Pointer) unsafe.Pointer {
	sched.Point(sched.KLoad, unsafe.Pointer(addr))
	return atomic.LoadPointer(addr)
}
func StorePointer(addr *unsafe.Pointer, val unsafe.Pointer) {
	sched.Point(sched.KStore, unsafe.Pointer(addr))
	atomic.StorePointer(addr, val)
}
func SwapPointer(addr *unsafe.Pointer, new unsafe.Pointer) unsafe.Pointer {
	sched.Point(sched.KSwap, unsafe.Pointer(addr))
	return atomic.SwapPointer(addr, new)
}
func CompareAndSwapPointer(addr *unsafe.Pointer, old, new unsafe.Pointer) bool {
	sched.Point(sched.KCAS, unsafe.Pointer(addr))
	return atomic.CompareAndSwapPointer(addr, old, new)
}

// Bool mirrors atomic.Bool.
type Bool struct{ v atomic.Bool }

func (x *Bool) Load() bool         { sched.Point(sched.KLoad, unsafe.Pointer(x)); return x.v.Load() }
func (x *Bool) Store(val bool)     { sched.Point(sched.KStore, unsafe.Pointer(x)); x.v.Store(val) }
func (x *Bool) Swap(new bool) bool { sched.Point(sched.KSwap, unsafe.Pointer(x)); return x.v.Swap(new) }
func (x *Bool) CompareAndSwap(old, new bool) bool {
	sched.Point(sched.KCAS, unsafe.Pointer(x))
	return x.v.CompareAndSwap(old, new)
}

// Value mirrors atomic.Value.
type Value struct{ v atomic.Value }

func (x *Value) Load() any        { sched.Point(sched.KLoad, unsafe.Pointer(x)); return x.v.Load() }
func (x *Value) Store(val any)    { sched.Point(sched.KStore, unsafe.Pointer(x)); x.v.Store(val) }
func (x *Value) Swap(new any) any { sched.Point(sched.KSwap, unsafe.Pointer(x)); return x.v.Swap(new) }
func (x *Value) CompareAndSwap(old, new any) bool {
	sched.Point(sched.KCAS, unsafe.Pointer(x))
	return x.v.CompareAndSwap(old, new)
}

// Pointer mirrors atomic.Pointer[T].
type Pointer[T any] struct{ v atomic.Pointer[T] }

func (x *Pointer[T]) Load() *T     { sched.Point(sched.KLoad, unsafe.Pointer(x)); return x.v.Load() }
func (x *Pointer[T]) Store(val *T) { sched.Point(sched.KStore, unsafe.Pointer(x)); x.v.Store(val) }
func (x *Pointer[T]) Swap(new *T) *T {
	sched.Point(sched.KSwap, unsafe.Pointer(x))
	return x.v.Swap(new)
}
func (x *Pointer[T]) CompareAndSwap(old, new *T) bool {
	sched.Point(sched.KCAS, unsafe.Pointer(x))
	return x.v.CompareAndSwap(old, new)
}

// Int32 mirrors atomic.Int32.
type Int32 struct{ v atomic.Int32 }

func (x *Int32) Load() int32     { sched.Point(sched.KLoad, unsafe.Pointer(x)); return x.v.Load() }
func (x *Int32) Store(val int32) { sched.Point(sched.KStore, unsafe.Pointer(x)); x.v.Store(val) }
func (x *Int32) Add(delta int32) int32 {
	sched.Point(sched.KAdd, unsafe.Pointer(x))
	return x.v.Add(delta)
}
func (x *Int32) Swap(new int32) int32 {
	sched.Point(sched.KSwap, unsafe.Pointer(x))
	return x.v.Swap(new)
}
func (x *Int32) CompareAndSwap(old, new int32) bool {
	sched.Point(sched.KCAS, unsafe.Pointer(x))
	return x.v.CompareAndSwap(old, new)
}

// Int64 mirrors atomic.Int64.
type Int64 struct{ v atomic.Int64 }

func (x *Int64) Load() int64     { sched.Point(sched.KLoad, unsafe.Pointer(x)); return x.v.Load() }
func (x *Int64) Store(val int64) { sched.Point(sched.KStore, unsafe.Pointer(x)); x.v.Store(val) }
func (x *Int64) Add(delta int64) int64 {
	sched.Point(sched.KAdd, unsafe.Pointer(x))
	return x.v.Add(delta)
}
func (x *Int64) Swap(new int64) int64 {
	sched.Point(sched.KSwap, unsafe.Pointer(x))
	return x.v.Swap(new)
}
func (x *Int64) CompareAndSwap(old, new int64) bool {
	sched.Point(sched.KCAS, unsafe.Pointer(x))
	return x.v.CompareAndSwap(old, new)
}

// Uint32 mirrors atomic.Uint32.
type Uint32 struct{ v atomic.Uint32 }

func (x *Uint32) Load() uint32     { sched.Point(sched.KLoad, unsafe.Pointer(x)); return x.v.Load() }
func (x *Uint32) Store(val uint32) { sched.Point(sched.KStore, unsafe.Pointer(x)); x.v.Store(val) }
func (x *Uint32) Add(delta uint32) uint32 {
	sched.Point(sched.KAdd, unsafe.Pointer(x))
	return x.v.Add(delta)
}
func (x *Uint32) Swap(new uint32) uint32 {
	sched.Point(sched.KSwap, unsafe.Pointer(x))
	return x.v.Swap(new)
}
func (x *Uint32) CompareAndSwap(old, new uint32) bool {
	sched.Point(sched.KCAS, unsafe.Pointer(x))
	return x.v.CompareAndSwap(old, new)
}

// Uint64 mirrors atomic.Uint64.
type Uint64 struct{ v atomic.Uint64 }

func (x *Uint64) Load() uint64     { sched.Point(sched.KLoad, unsafe.Pointer(x)); return x.v.Load() }
func (x *Uint64) Store(val uint64) { sched.Point(sched.KStore, unsafe.Pointer(x)); x.v.Store(val) }
func (x *Uint64) Add(delta uint64) uint64 {
	sched.Point(sched.KAdd, unsafe.Pointer(x))
	return x.v.Add(delta)
}
func (x *Uint64) Swap(new uint64) uint64 {
	sched.Point(sched.KSwap, unsafe.Pointer(x))
	return x.v.Swap(new)
}
func (x *Uint64) CompareAndSwap(old, new uint64) bool {
	sched.Point(sched.KCAS, unsafe.Pointer(x))
	return x.v.CompareAndSwap(old, new)
}

// Uintptr mirrors atomic.Uintptr.
type Uintptr struct{ v atomic.Uintptr }

func (x *Uintptr) Load() uintptr     { sched.Point(sched.KLoad, unsafe.Pointer(x)); return x.v.Load() }
func (x *Uintptr) Store(val uintptr) { sched.Point(sched.KStore, unsafe.Pointer(x)); x.v.Store(val) }
func (x *Uintptr) Add(delta uintptr) uintptr {
	sched.Point(sched.KAdd, unsafe.Pointer(x))
	return x.v.Add(delta)
}
func (x *Uintptr) Swap(new uintptr) uintptr {
	sched.Point(sched.KSwap, unsafe.Pointer(x))
	return x.v.Swap(new)
}
func (x *Uintptr) CompareAndSwap(old, new uintptr) bool {
	sched.Point(sched.KCAS, unsafe.Pointer(x))
	return x.v.CompareAndSwap(old, new)
}
