//go:build verifsched

// Package vsync is a drop-in replacement for the subset of package sync used by
// the library, for builds in which the C10 overlay rewrites `import "sync"` to this
// package.  Every operation announces itself to the controlled scheduler
// (sched.Point) BEFORE it takes effect; operations that can block tell the
// scheduler when they are enabled, so a thread is only ever resumed when its
// operation can complete — nothing here ever really blocks or spins.
//
// Outside an exploration (package init, controller code) the types behave like
// their sync counterparts for a single goroutine.
package vsync

import (
	"sync"
	"unsafe"

	"github.com/ajitpratap0/GoSQLX/pkg/verifshim/sched"
)

// Locker is sync.Locker.
type Locker = sync.Locker

// Cond is not used by the library; kept so that code mentioning it compiles.
type Cond = sync.Cond

// NewCond is sync.NewCond.
func NewCond(l Locker) *Cond { return sync.NewCond(l) }

type noCopy struct{}

func (*noCopy) Lock()   {}
func (*noCopy) Unlock() {}

// ---------------------------------------------------------------- Mutex

// Mutex models sync.Mutex: Lock is enabled iff the mutex is free.
type Mutex struct {
	held  bool
	owner int
}

func (m *Mutex) VerifEnabled(k sched.Kind, tid int) bool { return !m.held }
func (m *Mutex) VerifReset()                             { m.held = false }

func (m *Mutex) Lock() {
	sched.PointB(sched.KLock, unsafe.Pointer(m), m)
	if m.held {
		fatal("Mutex.Lock: mutex is held and the caller is not under the scheduler's control (controller code would block)")
	}
	m.held = true
	m.owner = sched.CurID()
	sched.Dirty(m)
}

func (m *Mutex) TryLock() bool {
	sched.Point(sched.KTryLock, unsafe.Pointer(m))
	if m.held {
		return false
	}
	m.held = true
	m.owner = sched.CurID()
	sched.Dirty(m)
	return true
}

func (m *Mutex) Unlock() {
	sched.Point(sched.KUnlock, unsafe.Pointer(m))
	if !m.held {
		panic("sync: unlock of unlocked mutex") // fatal error in the real package
	}
	m.held = false
}

// ---------------------------------------------------------------- RWMutex

// RWMutex models sync.RWMutex including writer preference: Lock first excludes
// other writers and stops NEW readers (announce), then waits for the active readers
// to leave; RLock is disabled while a writer holds or has announced.
type RWMutex struct {
	readers int
	writer  bool // a writer has announced (and possibly acquired)
}

func (m *RWMutex) VerifEnabled(k sched.Kind, tid int) bool {
	switch k {
	case sched.KRLock:
		return !m.writer
	case sched.KWLockAnnounce:
		return !m.writer
	case sched.KWLockWait:
		return m.readers == 0
	}
	return true
}
func (m *RWMutex) VerifReset() { m.readers, m.writer = 0, false }

func (m *RWMutex) Lock() {
	sched.PointB(sched.KWLockAnnounce, unsafe.Pointer(m), m)
	if m.writer {
		fatal("RWMutex.Lock: held by a writer and the caller is not under the scheduler's control")
	}
	m.writer = true
	sched.Dirty(m)
	sched.PointB(sched.KWLockWait, unsafe.Pointer(m), m)
	if m.readers != 0 {
		fatal("RWMutex.Lock: readers active and the caller is not under the scheduler's control")
	}
}

func (m *RWMutex) TryLock() bool {
	sched.Point(sched.KTryLock, unsafe.Pointer(m))
	if m.writer || m.readers != 0 {
		return false
	}
	m.writer = true
	sched.Dirty(m)
	return true
}

func (m *RWMutex) Unlock() {
	sched.Point(sched.KWUnlock, unsafe.Pointer(m))
	if !m.writer {
		panic("sync: Unlock of unlocked RWMutex")
	}
	m.writer = false
}

func (m *RWMutex) RLock() {
	sched.PointB(sched.KRLock, unsafe.Pointer(m), m)
	if m.writer {
		fatal("RWMutex.RLock: writer active and the caller is not under the scheduler's control")
	}
	m.readers++
	sched.Dirty(m)
}

func (m *RWMutex) TryRLock() bool {
	sched.Point(sched.KTryLock, unsafe.Pointer(m))
	if m.writer {
		return false
	}
	m.readers++
	sched.Dirty(m)
	return true
}

func (m *RWMutex) RUnlock() {
	sched.Point(sched.KRUnlock, unsafe.Pointer(m))
	if m.readers <= 0 {
		panic("sync: RUnlock of unlocked RWMutex")
	}
	m.readers--
}

type rlocker RWMutex

func (r *rlocker) Lock()   { (*RWMutex)(r).RLock() }
func (r *rlocker) Unlock() { (*RWMutex)(r).RUnlock() }

// RLocker is sync.RWMutex.RLocker.
func (m *RWMutex) RLocker() Locker { return (*rlocker)(m) }

// ---------------------------------------------------------------- Once

// Once models sync.Once: the first caller runs f, callers arriving meanwhile are
// disabled until f has returned.
type Once struct {
	done    bool
	running bool
	owner   int
	listed  bool
}

var onces []*Once

func (o *Once) VerifEnabled(k sched.Kind, tid int) bool { return !o.running || o.owner == tid }
func (o *Once) VerifReset()                             { o.running = false }

func (o *Once) Do(f func()) {
	sched.PointB(sched.KOnce, unsafe.Pointer(o), o)
	if o.done {
		return
	}
	if o.running {
		if o.owner == sched.CurID() {
			fatal("Once.Do called recursively from f (deadlock in the real package)")
		}
		fatal("Once.Do: f is running in a harness thread and the caller is not under the scheduler's control")
	}
	o.running = true
	o.owner = sched.CurID()
	sched.Dirty(o)
	if !o.listed {
		o.listed = true
		onces = append(onces, o)
	}
	defer func() {
		// like the real Once, a panicking f counts as done
		o.done = true
		o.running = false
	}()
	f()
}

// ResetOnces is a test hook: every Once that has ever run goes back to "not done",
// so that first-use paths can be explored repeatedly in one process.
func ResetOnces() {
	for _, o := range onces {
		o.done, o.running = false, false
	}
}

// OnceCount reports how many Once values have run (evidence).
func OnceCount() int { return len(onces) }

// OnceFunc, OnceValue, OnceValues mirror the Go 1.21 helpers.
func OnceFunc(f func()) func() {
	var o Once
	return func() { o.Do(f) }
}

func OnceValue[T any](f func() T) func() T {
	var o Once
	var v T
	return func() T {
		o.Do(func() { v = f() })
		return v
	}
}

func OnceValues[T1, T2 any](f func() (T1, T2)) func() (T1, T2) {
	var o Once
	var v1 T1
	var v2 T2
	return func() (T1, T2) {
		o.Do(func() { v1, v2 = f() })
		return v1, v2
	}
}

// ---------------------------------------------------------------- Pool

// Pool models sync.Pool by its CONTRACT: Get may return any object that was Put and
// not yet handed out again, or a new one.  Under the scheduler Get is a choice
// point: option 0 = the most recently put object (what the per-P cache of the real
// pool does in the uncontended case), then the older objects, then "miss".
// Outside an exploration the pool is a LIFO stack.
type Pool struct {
	noCopy noCopy
	New    func() any
	items  []any
	listed bool
}

var pools []*Pool

func (p *Pool) Get() any {
	sched.Point(sched.KPoolGet, unsafe.Pointer(p))
	n := len(p.items)
	if n == 0 {
		if p.New != nil {
			return p.New()
		}
		return nil
	}
	c := sched.Choose(sched.KPoolGet, n+1)
	if c == n {
		if p.New != nil {
			return p.New()
		}
		return nil
	}
	i := n - 1 - c
	x := p.items[i]
	copy(p.items[i:], p.items[i+1:])
	p.items[n-1] = nil
	p.items = p.items[:n-1]
	return x
}

func (p *Pool) Put(x any) {
	if x == nil {
		return
	}
	sched.Point(sched.KPoolPut, unsafe.Pointer(p))
	p.items = append(p.items, x)
	if !p.listed {
		p.listed = true
		pools = append(pools, p)
	}
}

// DrainPools is a test hook: empties every pool that has ever held an object.
func DrainPools() {
	for _, p := range pools {
		for i := range p.items {
			p.items[i] = nil
		}
		p.items = p.items[:0]
	}
}

// PoolCount reports how many pools have been used (evidence).
func PoolCount() int { return len(pools) }

// ---------------------------------------------------------------- WaitGroup

// WaitGroup models sync.WaitGroup: Wait is enabled iff the counter is zero.
type WaitGroup struct {
	noCopy noCopy
	n      int
}

func (w *WaitGroup) VerifEnabled(k sched.Kind, tid int) bool { return w.n == 0 }
func (w *WaitGroup) VerifReset()                             { w.n = 0 }

func (w *WaitGroup) Add(delta int) {
	sched.Point(sched.KWGAdd, unsafe.Pointer(w))
	w.n += delta
	if w.n < 0 {
		panic("sync: negative WaitGroup counter")
	}
	sched.Dirty(w)
}

func (w *WaitGroup) Done() { w.Add(-1) }

func (w *WaitGroup) Wait() {
	sched.PointB(sched.KWGWait, unsafe.Pointer(w), w)
	if w.n != 0 {
		fatal("WaitGroup.Wait: counter is not zero and the caller is not under the scheduler's control")
	}
}

// ---------------------------------------------------------------- Map

// Map wraps sync.Map; each method is one atomic step.
type Map struct{ m sync.Map }

func (m *Map) pt() { sched.Point(sched.KMap, unsafe.Pointer(m)) }

func (m *Map) Load(key any) (any, bool)           { m.pt(); return m.m.Load(key) }
func (m *Map) Store(key, value any)               { m.pt(); m.m.Store(key, value) }
func (m *Map) LoadOrStore(k, v any) (any, bool)   { m.pt(); return m.m.LoadOrStore(k, v) }
func (m *Map) LoadAndDelete(key any) (any, bool)  { m.pt(); return m.m.LoadAndDelete(key) }
func (m *Map) Delete(key any)                     { m.pt(); m.m.Delete(key) }
func (m *Map) Swap(key, value any) (any, bool)    { m.pt(); return m.m.Swap(key, value) }
func (m *Map) CompareAndSwap(k, o, n any) bool    { m.pt(); return m.m.CompareAndSwap(k, o, n) }
func (m *Map) CompareAndDelete(key, old any) bool { m.pt(); return m.m.CompareAndDelete(key, old) }
func (m *Map) Range(f func(key, value any) bool)  { m.pt(); m.m.Range(f) }

// fatal reports a situation the model cannot represent (code outside the
// scheduler's control would have to block).  It panics: inside a harness thread the
// panic is recorded, in controller code it fails the case.
func fatal(msg string) { panic("verif/vsync: " + msg) }
