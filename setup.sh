#!/bin/bash
# Builds the framework offline from files on disk and warms the Go build cache.
set -e
cd "$(dirname "$(readlink -f "$0")")"
export GOFLAGS=-mod=mod GOPROXY=off GOSUMDB=off GOTOOLCHAIN=local
mkdir -p .work/bin evidence
cp -f /repo/go.sum go.sum
for d in cmd/c*/; do
  id=$(basename "$d")
  if [ -x "$d/build.sh" ]; then "$d/build.sh"; else go build -o ".work/bin/$id" "./$d"; fi
done
echo "setup ok"
