module verif

go 1.21

require github.com/ajitpratap0/GoSQLX v0.0.0

replace github.com/ajitpratap0/GoSQLX => /repo
